import HtmlVerif.Ops.Base
import HtmlVerif.Spec.Meta
import HtmlVerif.Model.TagFn

namespace HtmlVerif.Ops
open HtmlVerif HtmlVerif.Wire

def renderOps : OpTable
  | "escape" => some do
    let a ← bool; let s ← str
    pure (encStr (htmlEscapeT (if a then cfg.attrTbl else cfg.textTbl) s))
  | "render_tag" => some do
    let n ← node; let i ← nat; let e ← str
    pure (encExcept encStr (renderTagChecked cfg n i e))
  | "render_tag_via" => some do
    let _mode ← next
    let n ← node; let i ← nat; let e ← str
    pure (encExcept encStr (renderTagChecked cfg n i e))
  | "render_list" => some do
    let ks ← nodes; let i ← nat; let e ← str; let aw ← bool; let esc ← bool
    pure (encExcept encStr (renderListChecked cfg ks i e aw esc))
  | "strip_meta" => some do
    let n ← node
    pure (encNode n.stripMeta)
  | "strip_meta_list" => some do
    let ks ← nodes
    pure (encNodes ks.stripMeta)
  | "tagfn" => some do
    let m ← str; let f ← str; let w ← next
    let ws : Option WsArg ← match w with
      | "N" => pure none
      | "T" => pure (some (.bool true))
      | "F" => pure (some (.bool false))
      | "O" => pure (some .other)
      | _ => throw "bad wsarg"
    match findFn m f with
    | none => pure "missing"
    | some r =>
      if !r.shapeOk then pure "unmodelled" else
      match callWrapper r ws with
      | some (n, b) => pure ("ok " ++ encStr n ++ " " ++ encBool b)
      | none => pure "err typeError"
  | "reexport" => some do
    let f ← str
    pure (encBool (Generated.reexports.contains f && Generated.htmlFns.any (fun r => r.fnName == f)))
  | _ => none

end HtmlVerif.Ops
