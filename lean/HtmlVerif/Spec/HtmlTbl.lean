/-
Side conditions on an escape table under which (i) the sequential `str.replace` passes of
`html_escape` equal the per-character map, (ii) what is written decodes back, (iii) the
character that would end the context (`<` for text, `"` for attribute values) never appears.
All decidable; instantiated on the generated tables by `decide +kernel` in Props/C01.lean.
-/
import HtmlVerif.Model.Escape
import HtmlVerif.Spec.Html

namespace HtmlVerif

def tblHasKey (tbl : List (Char × Str)) (c : Char) : Bool := tbl.any fun kv => kv.1 == c

/-- no replacement string contains a *later* key (so later passes leave earlier output alone) -/
def seqOk : List (Char × Str) → Bool
  | [] => true
  | (_, v) :: t => v.all (fun c => !tblHasKey t c) && seqOk t

/-- the replacement is `&body;` and `decodeRefs` reads it back as the key -/
def refOk (kv : Char × Str) : Bool :=
  let body := kv.2.tail.dropLast
  kv.2 == '&' :: body ++ [';'] && body.all isRefChar && refBody body == some kv.1

def tblOk (stop : Char) (tbl : List (Char × Str)) : Bool :=
  seqOk tbl && tbl.all refOk && tblHasKey tbl '&' && tblHasKey tbl stop
    && tbl.all (fun kv => !kv.2.contains stop)

def TextTblOk (tbl : List (Char × Str)) : Prop := tblOk '<' tbl = true
def AttrTblOk (tbl : List (Char × Str)) : Prop := tblOk '"' tbl = true

instance (tbl : List (Char × Str)) : Decidable (TextTblOk tbl) := by unfold TextTblOk; infer_instance
instance (tbl : List (Char × Str)) : Decidable (AttrTblOk tbl) := by unfold AttrTblOk; infer_instance

end HtmlVerif
