"""Translator plug-in for C17 (the Tag context manager and the display-hook wrapper; DESIGN §14):
`wrap_displayhook_handler`, the function defined inside it, `Tag.append`, `Tag.__enter__`, `Tag.__exit__`
(htmltools/_core.py).

These functions read and assign the process global `sys.displayhook`, build and call function values, and rely on object
identity (`self.append` is a bound method of a mutable object).  None of that exists in the base fragment (a `PVal` has no
identity, translated functions are pure).  The translation is therefore made explicit — and kept small — as follows; the
Lean side of every point is in lean/HtmlVerif/Py/PrimC17.lean.

(i) **State.**  A function that touches `sys.displayhook`, the attributes of a `self` that is known by identity, or calls a
    function value is translated as *state-passing*: its Lean type is `G → CallC17 → args → PySM PVal` where
    `PySM α = SysC17 → Except PyErr α × SysC17` (the interpreter state goes in and comes out on every path; unlike
    `StateT σ (Except ε)` the state survives an exception — what `sys.displayhook` is after `__exit__` has raised is part of
    the property).  `SysC17` holds `sys.displayhook`, the heap (object identity → `__dict__`) and the recorder's log.
      * `sys.displayhook` (load)        -> `(← sysGetC17 "displayhook")`        `sys` must be the module imported at top level
      * `sys.displayhook = e`           -> `sysSetC17 "displayhook" e`
      * `self.a` (load, data attribute) -> `(← heapGetAttrC17 self "a")`        in a state-passing method `self` is a *reference*
      * `self.a = e`                    -> `heapSetAttrC17 self "a" e`
    The statements stay in source order; Lean's `do` notation evaluates the nested actions of a statement left to right,
    which is Python's order for the shapes admitted here (callee before arguments, right-hand side before the store).
    The class of `self` must have no base classes, no `__getattr__` / `__getattribute__` / `__setattr__` / `__slots__`, and
    `a` must be an attribute the class assigns as `self.a = …` and does not bind at class level (so the load / store is a
    plain `__dict__` access); anything else is `Untranslatable`.

(ii) **Function values.**  A `def g(…)` nested directly in a module-level function `f` becomes two things: the *body* of
    `g` is translated as a function of its own (spec `f.<inner>`: the one nested function, whatever its name) whose
    parameters are the variables it closes over, in the order of their first occurrence in the body, followed by its own
    parameters; and the `def` statement binds the local `g` to the first-order value
    `mkClosureC17 "f.<inner>" [captured values]` (`.obj "closure" [("fn", …), ("captured", …)]`).  Capture by value is what
    Python does provided the captured variable is never rebound: the plug-in admits only *parameters of `f` that `f` never
    assigns* (no `global` / `nonlocal` / `del` in either function, no nested scopes inside `g`, no defaults / star
    parameters / decorators on `g`); any other free variable of `g` that `f` binds is `Untranslatable`.
    Calling a function value — an expression *statement* `h(a, …)` where `h` is a parameter / local,
    `sys.displayhook(a, …)` or `self.a(…)` for a data attribute `a`, positional arguments only — becomes `let _ ← call_C17 h [a, …]`: *how* a value is applied is
    a parameter of the translation (`CallC17`), so what the translated function hands to its handler is stated for every
    meaning of "call".  A call of a computed callee in expression position is `Untranslatable`.
    The generated `applyCallableC17` (emitted after the translations below, with a fuel argument: a closure's handler may be
    a closure) is the meaning used when the functions are run and in the end-to-end theorems: a closure runs the translated
    body on (captured ++ arguments); a bound method `Tag.append` runs the translated `Tag.append` on the heap object it
    names; the recorder appends to the log; `None`, numbers, strings, lists … are not callable (TypeError); any other
    value is `unsupported`.

(iii) **Bound methods.**  `self.m` where `m` is a plain method of the class of `self` (a `def` in the class body without
    decorators, never assigned as `self.m = …`) is the value `mkMethodC17 self "Class.m"` — it names the object by identity,
    so applying it later acts on the state the object has *then*.  `Tag.append` itself is translated by value (as the
    self-mutating methods of C14 / C16 are: it returns the new `self`), through one more piece of syntax:
    `self.<field>.<method>(*args)` where `args` is the function's own (never rebound) star parameter and the translated
    method takes one required parameter and `*rest` (`pyStarSplit1C17`: TypeError on an empty tuple).  `applyCallableC17`
    loads the object from the heap, runs the by-value translation and stores the result; if the by-value translation
    raises, the heap is unchanged.  That last point is an assumption about the method (true of `Tag.append` as written: its
    only mutation, `UserList.extend`, is its last operation); the `srcc17` validation compares the heap after exceptions.

`a and b` / `a or b` / `b if c else d` in a state-passing function: the operands are `do` blocks of `PySM` (`pyAndSC17`, `pyOrSC17`).
Also: the constant `...` (`ellipsisC17`), `x in (None, ...)` / `not in` against a tuple display of `None` / `...`
(`pyInConstsC17`).  Everything else goes through the base translator and the C14 hooks (`cast`).
"""
from __future__ import annotations

import ast
import os

T = None  # the pytranslate module (set by register)

CORE = "htmltools/_core.py"
WRAP, INNER, APPEND, ENTER, EXIT = ("wrap_displayhook_handlerC17", "handler_wrapperC17", "Tag_appendC17", "Tag_enterC17",
                                    "Tag_exitC17")
#: Lean names of this area's translations; the state-passing ones
MINE = (WRAP, INNER, APPEND, ENTER, EXIT)
STATEFUL = (INNER, ENTER, EXIT)
#: Lean name of the parameter "how a function value is applied"
CALL = "call_C17"
INNER_QUAL = "wrap_displayhook_handler.<inner>"

_mod_cache: dict[str, ast.Module] = {}


def _module(spec) -> ast.Module:
    path = os.path.join(T.repo(), spec.file)
    if path not in _mod_cache:
        with open(path, encoding="utf-8") as f:
            _mod_cache[path] = ast.parse(f.read())
    return _mod_cache[path]


def _binds_at_top(mod: ast.Module, name: str) -> list[ast.stmt]:
    out = []
    for n in mod.body:
        if isinstance(n, (ast.Import, ast.ImportFrom)) and any((a.asname or a.name.split(".")[0]) == name for a in n.names):
            out.append(n)
        elif isinstance(n, (ast.FunctionDef, ast.AsyncFunctionDef, ast.ClassDef)) and n.name == name:
            out.append(n)
        elif isinstance(n, (ast.Assign, ast.AnnAssign, ast.AugAssign)):
            tg = n.targets if isinstance(n, ast.Assign) else [n.target]
            if any(isinstance(x, ast.Name) and x.id == name for t in tg for x in ast.walk(t)):
                out.append(n)
    return out


def _is_sys_module(fn) -> bool:
    """`sys` is the module: bound at top level by `import sys` only, and not shadowed in the function"""
    if "sys" in fn.all_params or "sys" in fn.locals:
        return False
    bs = _binds_at_top(_module(fn.spec), "sys")
    return len(bs) == 1 and isinstance(bs[0], ast.Import) and any(a.name == "sys" and a.asname is None for a in bs[0].names)


def _in_source_order(node: ast.AST):
    return sorted((n for n in ast.walk(node) if hasattr(n, "lineno")), key=lambda n: (n.lineno, n.col_offset))


def _bound_names(f: ast.FunctionDef) -> set[str]:
    a = f.args
    ps = [x.arg for x in a.posonlyargs + a.args + a.kwonlyargs] + ([a.vararg.arg] if a.vararg else []) + ([a.kwarg.arg] if a.kwarg else [])
    return set(ps) | set(T.Fn.assigned_names(f))


def closure_info(outer: ast.FunctionDef, inner: ast.FunctionDef) -> list[str]:
    """the variables of `outer` the nested function `inner` closes over, in the order of their first occurrence in its body;
    raises Untranslatable unless capture by value is what Python does (module docstring, (ii))"""
    why = f"nested function {inner.name}: "
    if inner.decorator_list:
        raise T.Untranslatable(why + "decorated")
    a = inner.args
    if a.posonlyargs or a.vararg or a.kwarg or a.kwonlyargs or a.defaults or a.kw_defaults:
        raise T.Untranslatable(why + "parameters other than plain positional ones")
    for n in ast.walk(inner):
        if n is not inner and isinstance(n, (ast.FunctionDef, ast.AsyncFunctionDef, ast.Lambda, ast.ClassDef, ast.ListComp,
                                             ast.SetComp, ast.DictComp, ast.GeneratorExp)):
            raise T.Untranslatable(why + "a nested scope inside it")
    for f in (outer, inner):
        for n in ast.walk(f):
            if isinstance(n, (ast.Global, ast.Nonlocal, ast.Delete, ast.NamedExpr, ast.Yield, ast.YieldFrom, ast.Await,
                              ast.With, ast.Try, ast.Import, ast.ImportFrom)):
                raise T.Untranslatable(why + f"{type(n).__name__} in the function or the one around it")
    oa = outer.args
    outer_params = [x.arg for x in oa.posonlyargs + oa.args + oa.kwonlyargs]
    outer_assigned = set(T.Fn.assigned_names(outer)) | ({oa.vararg.arg} if oa.vararg else set()) | ({oa.kwarg.arg} if oa.kwarg else set())
    outer_defs = {m.name for m in ast.walk(outer) if m is not outer and isinstance(m, (ast.FunctionDef, ast.ClassDef))}
    mine = _bound_names(inner)
    caps: list[str] = []
    for n in _in_source_order(inner):
        if isinstance(n, ast.Name) and isinstance(n.ctx, ast.Load) and n.id not in mine and n.id not in caps:
            if n.id in outer_assigned or n.id in outer_defs:
                raise T.Untranslatable(why + f"closes over `{n.id}`, which the enclosing function (re)binds: capture by value "
                                             "is not what Python does")
            if n.id in outer_params:
                caps.append(n.id)
            # else: a module-level name / builtin — the base translator decides
    if inner.name in outer_params or inner.name in outer_assigned:
        raise T.Untranslatable(why + "its name is rebound in the enclosing function")
    return caps


# ------------------------------------------------------------------ the class of `self`
def _plain_class(cls: ast.ClassDef) -> str | None:
    """None if attribute access on an instance is a plain `__dict__` / class lookup, else the reason it is not"""
    if cls.bases or cls.keywords:
        return f"class {cls.name} has base classes"
    if cls.decorator_list:
        return f"class {cls.name} is decorated"
    for n in cls.body:
        nm = n.name if isinstance(n, (ast.FunctionDef, ast.AsyncFunctionDef, ast.ClassDef)) else None
        if nm in ("__getattr__", "__getattribute__", "__setattr__", "__delattr__"):
            return f"class {cls.name} defines {nm}"
        if isinstance(n, (ast.Assign, ast.AnnAssign)):
            tg = n.targets if isinstance(n, ast.Assign) else [n.target]
            if any(isinstance(t, ast.Name) and t.id == "__slots__" for t in tg):
                return f"class {cls.name} has __slots__"
    return None


def _class_level(cls: ast.ClassDef, name: str) -> list[ast.stmt]:
    out = []
    for n in cls.body:
        if isinstance(n, (ast.FunctionDef, ast.AsyncFunctionDef, ast.ClassDef)) and n.name == name:
            out.append(n)
        elif isinstance(n, ast.Assign) or (isinstance(n, ast.AnnAssign) and n.value is not None):   # `a: T` alone binds nothing
            tg = n.targets if isinstance(n, ast.Assign) else [n.target]
            if any(isinstance(t, ast.Name) and t.id == name for t in tg):
                out.append(n)
    return out


def _self_stores(cls: ast.ClassDef, name: str) -> int:
    """number of `self.<name> = …` (any receiver spelled `self`) in the class"""
    return sum(1 for n in ast.walk(cls) if isinstance(n, ast.Attribute) and n.attr == name and isinstance(n.ctx, ast.Store)
               and isinstance(n.value, ast.Name) and n.value.id == "self")


def _attr_kind(fn, name: str) -> str:
    """'method' / 'data' for `self.<name>` in the class of the function, else Untranslatable"""
    cls = fn.cls
    bad = _plain_class(cls)
    if bad:
        raise T.Untranslatable(f"self.{name}: {bad}")
    level = _class_level(cls, name)
    stores = _self_stores(cls, name)
    if len(level) == 1 and isinstance(level[0], ast.FunctionDef) and not level[0].decorator_list and stores == 0:
        return "method"
    if not level and stores > 0:
        return "data"
    raise T.Untranslatable(f"self.{name} is neither a plain method of {cls.name} nor an attribute it assigns as self.{name} = …")


def _is_self(fn, e: ast.expr) -> bool:
    return (isinstance(e, ast.Name) and e.id == "self" and fn.cls is not None and bool(fn.params) and fn.params[0] == "self"
            and not fn.spec.drop_self and "self" not in fn.assigned_names(fn.node))


def _stateful(fn) -> bool:
    return fn.spec.lean in STATEFUL


# ------------------------------------------------------------------ hooks
def expr_hook(fn, e: ast.expr):
    if fn.spec.lean not in MINE:
        return None
    if isinstance(e, ast.Constant) and e.value is Ellipsis:
        return "ellipsisC17"
    # x in (None, ...) / x not in (None, ...)
    if isinstance(e, ast.Compare) and len(e.ops) == 1 and isinstance(e.ops[0], (ast.In, ast.NotIn)) \
            and isinstance(e.comparators[0], ast.Tuple) \
            and all(isinstance(c, ast.Constant) and (c.value is None or c.value is Ellipsis) for c in e.comparators[0].elts):
        t = f"(← pyInConstsC17 {fn.V(e.left)} {fn.V(e.comparators[0])})"
        return t if isinstance(e.ops[0], ast.In) else f"(PVal.bool (!truthy {t}))"
    if isinstance(e, ast.Attribute) and isinstance(e.ctx, ast.Load) and isinstance(e.value, ast.Name):
        if e.value.id == "sys" and "sys" not in fn.all_params and "sys" not in fn.locals:
            if not _is_sys_module(fn):
                raise T.Untranslatable("`sys` is not the module sys here")
            if not _stateful(fn):
                raise T.Untranslatable(f"reads sys.{e.attr} (interpreter state) in a function that is not translated as state-passing")
            if e.attr != "displayhook":
                raise T.Untranslatable(f"sys.{e.attr}: only sys.displayhook is part of the modelled interpreter state")
            return '(← sysGetC17 "displayhook")'
        if _is_self(fn, e.value) and _stateful(fn):
            kind = _attr_kind(fn, e.attr)
            me = fn.name("self")
            if kind == "method":
                return f'(mkMethodC17 {me} "{fn.cls.name}.{e.attr}")'
            return f'(← heapGetAttrC17 {me} "{e.attr}")'
    if isinstance(e, ast.Attribute) and isinstance(e.ctx, ast.Load) and _stateful(fn):
        # `x.a` for any other `x` (e.g. the bound method `self.children.append`): the base translation reads `__dict__` only
        raise T.Untranslatable(f"attribute .{e.attr} of a computed object in a state-passing function")
    if _stateful(fn) and isinstance(e, ast.BoolOp):
        # short-circuit operators whose operands may read the state: each operand is its own `do` block in `PySM`
        cur = fn.M(e.values[-1])
        comb = "pyAndSC17" if isinstance(e.op, ast.And) else "pyOrSC17"
        for v in reversed(e.values[:-1]):
            cur = f"({comb} {fn.M(v)} {cur})"
        return f"(← {cur})"
    if _stateful(fn) and isinstance(e, ast.IfExp):
        return f"(← (if truthy {fn.V(e.test)} then {fn.M(e.body)} else {fn.M(e.orelse)} : PySM PVal))"
    if isinstance(e, ast.Call):
        f = e.func
        if isinstance(f, ast.Name) and f.id in fn.known_by_pyname() and fn.known_by_pyname()[f.id].spec.lean in STATEFUL:
            raise T.Untranslatable(f"call of the state-passing function {f.id} in expression position")
    return None


def _computed_callee(fn, f: ast.expr) -> bool:
    if isinstance(f, ast.Name):
        return f.id in fn.all_params or f.id in fn.locals
    if isinstance(f, ast.Attribute) and _is_self(fn, f.value) and _stateful(fn):
        return _attr_kind(fn, f.attr) == "data"          # self.a(…): the function value stored in the attribute
    return (isinstance(f, ast.Attribute) and isinstance(f.value, ast.Name) and f.value.id == "sys"
            and "sys" not in fn.all_params and "sys" not in fn.locals)


def stmt_hook(fn, ind: int, s: ast.stmt):
    if fn.spec.lean not in MINE:
        return False
    # def g(…): …   nested in a module-level function
    if isinstance(s, ast.FunctionDef):
        if fn.cls is not None or getattr(fn, "captured", None) or fn.spec.lean in STATEFUL:
            raise T.Untranslatable("nested function outside a plain module-level function")
        qual = f"{fn.node.name}.<inner>"
        if not any(sp.qual == qual and sp.file == fn.spec.file for sp in T.SPECS):
            raise T.Untranslatable(f"the body of the nested function {s.name} is not among the translated functions")
        if [m for m in fn.node.body if isinstance(m, ast.FunctionDef)] != [s]:
            raise T.Untranslatable("more than one nested function / a nested function inside another statement")
        caps = closure_info(fn.node, s)
        fn.emit(ind, f'{fn.name(s.name)} := (mkClosureC17 "{qual}" [{", ".join(fn.name(c) for c in caps)}])')
        return True
    # sys.displayhook = e   /   self.a = e (state-passing method)
    if isinstance(s, (ast.Assign, ast.AnnAssign)):
        tgts = s.targets if isinstance(s, ast.Assign) else [s.target]
        tg = tgts[0] if len(tgts) == 1 else None
        if isinstance(tg, ast.Attribute) and isinstance(tg.value, ast.Name):
            if tg.value.id == "sys" and "sys" not in fn.all_params and "sys" not in fn.locals:
                if not _is_sys_module(fn):
                    raise T.Untranslatable("`sys` is not the module sys here")
                if not _stateful(fn):
                    raise T.Untranslatable(f"assigns sys.{tg.attr} (interpreter state) in a function that is not translated as state-passing")
                if tg.attr != "displayhook":
                    raise T.Untranslatable(f"sys.{tg.attr}: only sys.displayhook is part of the modelled interpreter state")
                if s.value is None:
                    return True
                fn.emit(ind, f'sysSetC17 "displayhook" {fn.V(s.value)}')
                return True
            if _is_self(fn, tg.value) and _stateful(fn):
                if _attr_kind(fn, tg.attr) != "data":
                    raise T.Untranslatable(f"assignment to the method self.{tg.attr}")
                if s.value is None:
                    return True
                fn.emit(ind, f'heapSetAttrC17 {fn.name("self")} "{tg.attr}" {fn.V(s.value)}')
                return True
        if _stateful(fn) and any(isinstance(t, ast.Attribute) for t in tgts):
            raise T.Untranslatable("attribute assignment other than sys.displayhook = … / self.a = … in a state-passing function")
    if isinstance(s, ast.Expr) and isinstance(s.value, ast.Call):
        c = s.value
        f = c.func
        # h(a, …) / sys.displayhook(a, …): application of a function value
        if _computed_callee(fn, f):
            if not _stateful(fn):
                raise T.Untranslatable("call of a function value in a function that is not translated as state-passing")
            if c.keywords or any(isinstance(a, ast.Starred) for a in c.args):
                raise T.Untranslatable("call of a function value with keyword / star arguments")
            callee = fn.V(f)
            args = ", ".join(fn.V(a) for a in c.args)
            fn.emit(ind, f"let _ ← {CALL} {callee} [{args}]")
            return True
        # self.<field>.<method>(*args) with the function's own star parameter (by-value method)
        if (isinstance(f, ast.Attribute) and isinstance(f.value, ast.Attribute) and _is_self(fn, f.value.value)
                and len(c.args) == 1 and isinstance(c.args[0], ast.Starred) and not c.keywords and not _stateful(fn)):
            star = c.args[0].value
            fld = f.value.attr
            owner = T.FIELD_CLASS.get((fn.cls.name, fld))
            info = next((i for i in fn.known.values() if owner and i.spec.qual == f"{owner}.{f.attr}" and i.spec.returns_self), None)
            if not (isinstance(star, ast.Name) and star.id == fn.vararg and star.id not in fn.assigned_names(fn.node)):
                raise T.Untranslatable("star argument other than the function's own (never rebound) *args")
            if info is None:
                raise T.Untranslatable(f"self.{fld}.{f.attr}(*…): no translated self-mutating method {owner}.{f.attr}")
            if not info.available:
                raise T.Untranslatable(f"calls {info.spec.qual}, which is not translated")
            if len(info.params) != 2 or info.vararg is None or info.kwonly or info.kwarg or info.defaults:
                raise T.Untranslatable(f"{info.spec.qual} does not take (self, one, *rest)")
            if not fn.spec.returns_self:
                raise T.Untranslatable("the function is not translated as returning the new self")
            if info.spec.recursive and not fn.spec.recursive:
                raise T.Untranslatable(f"{info.spec.qual} takes fuel but this function has none")
            me = fn.name("self")
            recv, sp = fn.fresh("recv"), fn.fresh("sp")
            fuel = " fuel" if info.spec.recursive else ""
            fn.mutates_self = True
            fn.emit(ind, f'let {recv} := (← pyGetAttr {me} "{fld}")')
            fn.emit(ind, f"let {sp} ← pyStarSplit1C17 {fn.name(star.id)}")
            fn.emit(ind, f'{me} := (← pySetAttr {me} "{fld}" (← {info.spec.lean} G{fuel} {recv} {sp}.1 {sp}.2))')
            return True
    return False


# ------------------------------------------------------------------ the translation class
def make_fn_class():
    class FnC17(T.Fn):
        """a state-passing translation (other head) and / or the body of a nested function (captured variables first)"""

        def __init__(self, spec, node, cls, known):
            super().__init__(spec, node, cls, known)
            self.captured: list[str] = []
            if spec.qual.endswith(".<inner>"):
                outer_name = spec.qual.split(".")[0]
                outer = next((n for n in _module(spec).body if isinstance(n, ast.FunctionDef) and n.name == outer_name), None)
                if outer is None:
                    raise T.Untranslatable("enclosing function not found")
                self.captured = closure_info(outer, node)
                own = list(self.params)
                self.params = self.captured + self.params
                self.all_params = self.captured + self.all_params
                # the arm of applyCallableC17 that runs this body: as many captured values and arguments as it takes
                T.AFTER[APPEND] = apply_text(len(self.captured), len(own))
            # a nested `def` binds a local of this function
            for m in node.body:
                if isinstance(m, ast.FunctionDef) and m.name not in self.locals and m.name not in self.all_params:
                    self.locals.append(m.name)
            for p in self.all_params + self.locals:
                if T.lname(p) in (CALL, "G", "fuel"):
                    raise T.Untranslatable(f"the name {p} is reserved by the translation")
            # the table of the `srcc17` op follows the number of parameters the source has now
            _arity[spec.lean] = len(self.all_params)
            T.AFTER[EXIT] = run_table_text()

        def head(self, sig: str) -> str:
            if self.spec.lean in STATEFUL:
                if self.spec.recursive:
                    raise T.Untranslatable("a state-passing translation in a group")
                return f"def {self.spec.lean} (G : Globals) ({CALL} : CallC17) {sig} : PySM PVal := do"
            return super().head(sig)

    return FnC17


def stateful_stub(spec, nparams: int) -> str:
    sig = " ".join(f"(_a{i} : PVal)" for i in range(nparams))
    return f"def {spec.lean} (_G : Globals) (_call : CallC17) {sig} : PySM PVal := throw PyErr.unsupported"


def apply_text(ncap: int, nargs: int) -> str:
    caps = ", ".join(f"c{i}" for i in range(ncap))
    args = ", ".join(f"a{i}" for i in range(nargs))
    actual = " ".join([f"c{i}" for i in range(ncap)] + [f"a{i}" for i in range(nargs)])
    return f'''
/-- `f(a₁, …)` for the function values of the C17 fragment (harness/pytr_c17.py (ii), (iii)): a closure runs the translated
    body of the nested function on (captured values ++ arguments) — a wrong number of arguments is Python's TypeError —;
    the bound method `Tag.append` runs the by-value translation of `Tag.append` on the heap object it names; the recorder
    appends to the log; values of the built-in kinds are not callable.  Fuel: a closure's handler may itself be a closure. -/
def applyCallableC17 (G : Globals) : Nat → CallC17
  | 0, _, _ => throw PyErr.fuel
  | fuel + 1, f, args =>
    match f with
    | .obj "closure" [("fn", .str fnm), ("captured", .list cap)] =>
      if fnm = "{INNER_QUAL}".toList then
        match cap, args with
        | [{caps}], [{args}] => {INNER} G (applyCallableC17 G fuel) {actual}
        | _, _ => if cap.length = {ncap} then throw PyErr.typeError else throw PyErr.unsupported
      else throw PyErr.unsupported
    | .obj "method" [("self", self), ("func", .str fnm)] =>
      if fnm = "Tag.append".toList then heapUpdateByC17 self (fun o => {APPEND} G fuel o (.tuple args))
      else throw PyErr.unsupported
    | .obj "recorder" [] =>
      match args with
      | [v] => recordC17 v
      | _ => throw PyErr.typeError
    | v => if notCallableC17 v then throw PyErr.typeError else throw PyErr.unsupported
'''


#: number of parameters of each translation (the defaults are the stubs' arities)
_arity: dict[str, int] = {}


def run_table_text() -> str:
    rows = []
    for n in (INNER, ENTER, EXIT, WRAP):
        k = _arity.get(n, T.ARITY[n])
        vs = [f"x{i}" for i in range(k)]
        run = f"{n} G call {' '.join(vs)}" if n in STATEFUL else f"liftM ({n} G {' '.join(vs)})"
        rows.append(f'  | "{n}", [{", ".join(vs)}] => if {n}_available then some ({run}) else none')
    return ("""
/-- `srcc17 <name> <state> [args]`: the state-passing translations of C17, `wrap_displayhook_handler` (which leaves the state
    alone) and the application of a function value, by name; `none`: not translated / unknown / wrong number of arguments -/
def runByNameC17 (G : Globals) (call : CallC17) (f : String) (a : List PVal) : Option (PySM PVal) :=
  match f, a with
""" + "\n".join(rows) + """
  | "applyCallableC17", [g, .list args] => some (call g args)
  | _, _ => none
""")


def register(pytranslate):
    global T
    T = pytranslate
    F = T.FnSpec
    T.SPECS += [
        F(CORE, "wrap_displayhook_handler", WRAP),
        F(CORE, INNER_QUAL, INNER),
        F(CORE, "Tag.append", APPEND, returns_self=True, group="c17_tag_append"),
        F(CORE, "Tag.__enter__", ENTER),
        F(CORE, "Tag.__exit__", EXIT),
    ]
    T.ARITY.update({WRAP: 1, INNER: 2, APPEND: 2, ENTER: 1, EXIT: 4})
    FnC17 = make_fn_class()
    for n in (WRAP, INNER, ENTER, EXIT):
        T.FN_CLASS[n] = FnC17
    for n in STATEFUL:
        T.STUBS[n] = stateful_stub
        T.NO_RUN.add(n)
    T.AFTER[APPEND] = apply_text(1, 1)
    T.AFTER[EXIT] = run_table_text()
    if "HtmlVerif.Py.PrimC17" not in T.IMPORTS:
        T.IMPORTS.append("HtmlVerif.Py.PrimC17")
    # first in line for the functions of this area (the hooks decline every other function)
    T.EXPR_HOOKS.insert(0, expr_hook)
    T.STMT_HOOKS.insert(0, stmt_hook)
