/-
Specification-side definitions for C07: removing every metadata node from a tree.
-/
import HtmlVerif.Model.Render

namespace HtmlVerif

mutual
  /-- remove every MetadataNode / HTMLDependency, at every depth reachable by rendering -/
  def Node.stripMeta : Node → Node
    | .tag n w a k => .tag n w a k.stripMeta
    | x => x
  def Nodes.stripMeta : Nodes → Nodes
    | .nil => .nil
    | .cons h t => if h.isMeta then t.stripMeta else .cons h.stripMeta t.stripMeta
end

mutual
  def Node.hasMeta : Node → Bool
    | .tag _ _ _ k => k.hasMeta
    | _ => false
  def Nodes.hasMeta : Nodes → Bool
    | .nil => false
    | .cons h t => h.isMeta || h.hasMeta || t.hasMeta
end

end HtmlVerif
