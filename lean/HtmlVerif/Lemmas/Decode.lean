import HtmlVerif.Spec.Refs

namespace HtmlVerif

/-! ### decoding what the per-character maps produce -/

theorem decodeRefs_cons_ne (c : Char) (cs : Str) (h : c ≠ '&') : decodeCharRefs (c :: cs) = c :: decodeCharRefs cs := by
  rw [decodeCharRefs]; simp [h]

theorem decodeRefs_amp (rest : Str) : decodeCharRefs ('&' :: 'a' :: 'm' :: 'p' :: ';' :: rest) = '&' :: decodeCharRefs rest := by
  rw [decodeCharRefs]; simp [crMatchRef, crMatchNamed, crNamedRefs, List.findSome?, List.isPrefixOf]

theorem decodeRefs_lt (rest : Str) : decodeCharRefs ('&' :: 'l' :: 't' :: ';' :: rest) = '<' :: decodeCharRefs rest := by
  rw [decodeCharRefs]; simp [crMatchRef, crMatchNamed, crNamedRefs, List.findSome?, List.isPrefixOf]

theorem decodeRefs_gt (rest : Str) : decodeCharRefs ('&' :: 'g' :: 't' :: ';' :: rest) = '>' :: decodeCharRefs rest := by
  rw [decodeCharRefs]; simp [crMatchRef, crMatchNamed, crNamedRefs, List.findSome?, List.isPrefixOf]

theorem decodeRefs_quot (rest : Str) :
    decodeCharRefs ('&' :: 'q' :: 'u' :: 'o' :: 't' :: ';' :: rest) = '"' :: decodeCharRefs rest := by
  rw [decodeCharRefs]; simp [crMatchRef, crMatchNamed, crNamedRefs, List.findSome?, List.isPrefixOf]

theorem decodeRefs_apos (rest : Str) :
    decodeCharRefs ('&' :: 'a' :: 'p' :: 'o' :: 's' :: ';' :: rest) = '\'' :: decodeCharRefs rest := by
  rw [decodeCharRefs]; simp [crMatchRef, crMatchNamed, crNamedRefs, List.findSome?, List.isPrefixOf]

theorem decodeRefs_cr (rest : Str) :
    decodeCharRefs ('&' :: '#' :: '1' :: '3' :: ';' :: rest) = '\r' :: decodeCharRefs rest := by
  rw [decodeCharRefs]
  simp [crMatchRef, crMatchNamed, crNamedRefs, List.findSome?, List.isPrefixOf, crMatchDecimal, List.takeWhile,
    crDigitsVal, Char.isDigit]

theorem decodeRefs_lf (rest : Str) :
    decodeCharRefs ('&' :: '#' :: '1' :: '0' :: ';' :: rest) = '\n' :: decodeCharRefs rest := by
  rw [decodeCharRefs]
  simp [crMatchRef, crMatchNamed, crNamedRefs, List.findSome?, List.isPrefixOf, crMatchDecimal, List.takeWhile,
    crDigitsVal, Char.isDigit]

theorem decode_escTextChar (c : Char) (rest : Str) :
    decodeCharRefs (escTextChar c ++ rest) = c :: decodeCharRefs rest := by
  unfold escTextChar
  by_cases h1 : c = '&'
  · subst h1; simp [decodeRefs_amp]
  by_cases h2 : c = '<'
  · subst h2; simp [decodeRefs_lt]
  by_cases h3 : c = '>'
  · subst h3; simp [decodeRefs_gt]
  simp [h1, h2, h3, decodeRefs_cons_ne c _ h1]

/-- escaped text decodes to exactly the original characters -/
theorem decode_escText (s : Str) : decodeCharRefs (s.flatMap escTextChar) = s := by
  induction s with
  | nil => simp [decodeCharRefs]
  | cons c cs ih => simp only [List.flatMap_cons, decode_escTextChar, ih]

theorem decode_escAttrChar (c : Char) (rest : Str) :
    decodeCharRefs (escAttrChar c ++ rest) = c :: decodeCharRefs rest := by
  unfold escAttrChar
  by_cases h1 : c = '&'
  · subst h1; simp [decodeRefs_amp]
  by_cases h2 : c = '<'
  · subst h2; simp [decodeRefs_lt]
  by_cases h3 : c = '>'
  · subst h3; simp [decodeRefs_gt]
  by_cases h4 : c = '"'
  · subst h4; simp [decodeRefs_quot]
  by_cases h5 : c = '\''
  · subst h5; simp [decodeRefs_apos]
  by_cases h6 : c = '\r'
  · subst h6; simp [decodeRefs_cr]
  by_cases h7 : c = '\n'
  · subst h7; simp [decodeRefs_lf]
  simp [h1, h2, h3, h4, h5, h6, h7, decodeRefs_cons_ne c _ h1]

/-- an escaped attribute value decodes to exactly the original characters -/
theorem decode_escAttr (s : Str) : decodeCharRefs (s.flatMap escAttrChar) = s := by
  induction s with
  | nil => simp [decodeCharRefs]
  | cons c cs ih => simp only [List.flatMap_cons, decode_escAttrChar, ih]

/-! ### inertness -/

theorem escTextChar_no (c d : Char) (hd : d = '<' ∨ d = '>') : d ∉ escTextChar c := by
  unfold escTextChar
  by_cases h1 : c = '&'; · rcases hd with rfl | rfl <;> simp [h1]
  by_cases h2 : c = '<'; · rcases hd with rfl | rfl <;> simp [h2]
  by_cases h3 : c = '>'; · rcases hd with rfl | rfl <;> simp [h3]
  simp only [h1, h2, h3, if_false, List.mem_singleton]
  rcases hd with rfl | rfl <;> (intro e; exact absurd e.symm (by assumption))

theorem escText_inert (s : Str) (d : Char) (hd : d = '<' ∨ d = '>') : d ∉ s.flatMap escTextChar := by
  simp only [List.mem_flatMap, not_exists, not_and]
  intro c _; exact escTextChar_no c d hd

theorem escAttrChar_no (c d : Char)
    (hd : d = '<' ∨ d = '>' ∨ d = '"' ∨ d = '\'' ∨ d = '\r' ∨ d = '\n') : d ∉ escAttrChar c := by
  unfold escAttrChar
  by_cases h1 : c = '&'; · rcases hd with rfl | rfl | rfl | rfl | rfl | rfl <;> simp [h1]
  by_cases h2 : c = '<'; · rcases hd with rfl | rfl | rfl | rfl | rfl | rfl <;> simp [h2]
  by_cases h3 : c = '>'; · rcases hd with rfl | rfl | rfl | rfl | rfl | rfl <;> simp [h3]
  by_cases h4 : c = '"'; · rcases hd with rfl | rfl | rfl | rfl | rfl | rfl <;> simp [h4]
  by_cases h5 : c = '\''; · rcases hd with rfl | rfl | rfl | rfl | rfl | rfl <;> simp [h5]
  by_cases h6 : c = '\r'; · rcases hd with rfl | rfl | rfl | rfl | rfl | rfl <;> simp [h6]
  by_cases h7 : c = '\n'; · rcases hd with rfl | rfl | rfl | rfl | rfl | rfl <;> simp [h7]
  simp only [h1, h2, h3, h4, h5, h6, h7, if_false, List.mem_singleton]
  rcases hd with rfl | rfl | rfl | rfl | rfl | rfl <;> (intro e; exact absurd e.symm (by assumption))

theorem escAttr_inert (s : Str) (d : Char)
    (hd : d = '<' ∨ d = '>' ∨ d = '"' ∨ d = '\'' ∨ d = '\r' ∨ d = '\n') : d ∉ s.flatMap escAttrChar := by
  simp only [List.mem_flatMap, not_exists, not_and]
  intro c _; exact escAttrChar_no c d hd

theorem ampsOk_escTextChar (c : Char) (rest : Str) :
    ampsOk textRefs (escTextChar c ++ rest) = ampsOk textRefs rest := by
  unfold escTextChar
  by_cases h1 : c = '&'
  · subst h1; simp [ampsOk, textRefs, List.isPrefixOf]
  by_cases h2 : c = '<'
  · subst h2; simp [ampsOk, textRefs, List.isPrefixOf]
  by_cases h3 : c = '>'
  · subst h3; simp [ampsOk, textRefs, List.isPrefixOf]
  simp [h1, h2, h3, ampsOk]

/-- every `&` in escaped text begins one of the three references the library emits -/
theorem escText_ampsOk (s : Str) : ampsOk textRefs (s.flatMap escTextChar) = true := by
  induction s with
  | nil => rfl
  | cons c cs ih => simp only [List.flatMap_cons, ampsOk_escTextChar, ih]

theorem ampsOk_escAttrChar (c : Char) (rest : Str) :
    ampsOk attrRefs (escAttrChar c ++ rest) = ampsOk attrRefs rest := by
  unfold escAttrChar
  by_cases h1 : c = '&'
  · subst h1; simp [ampsOk, attrRefs, textRefs, List.isPrefixOf]
  by_cases h2 : c = '<'
  · subst h2; simp [ampsOk, attrRefs, textRefs, List.isPrefixOf]
  by_cases h3 : c = '>'
  · subst h3; simp [ampsOk, attrRefs, textRefs, List.isPrefixOf]
  by_cases h4 : c = '"'
  · subst h4; simp [ampsOk, attrRefs, textRefs, List.isPrefixOf]
  by_cases h5 : c = '\''
  · subst h5; simp [ampsOk, attrRefs, textRefs, List.isPrefixOf]
  by_cases h6 : c = '\r'
  · subst h6; simp [ampsOk, attrRefs, textRefs, List.isPrefixOf]
  by_cases h7 : c = '\n'
  · subst h7; simp [ampsOk, attrRefs, textRefs, List.isPrefixOf]
  simp [h1, h2, h3, h4, h5, h6, h7, ampsOk]

theorem escAttr_ampsOk (s : Str) : ampsOk attrRefs (s.flatMap escAttrChar) = true := by
  induction s with
  | nil => rfl
  | cons c cs ih => simp only [List.flatMap_cons, ampsOk_escAttrChar, ih]

end HtmlVerif

namespace HtmlVerif

theorem validEscape_textChar (c : Char) (cs rest : Str) :
    validEscape textSpecials (c :: cs) (escTextChar c ++ rest) = validEscape textSpecials cs rest := by
  unfold escTextChar
  by_cases h1 : c = '&'
  · subst h1; simp [validEscape, textSpecials, crMatchAny, crMatchRef, crMatchNamed, crNamedRefs, List.findSome?, List.isPrefixOf]
  by_cases h2 : c = '<'
  · subst h2; simp [validEscape, textSpecials, crMatchAny, crMatchRef, crMatchNamed, crNamedRefs, List.findSome?, List.isPrefixOf]
  by_cases h3 : c = '>'
  · subst h3; simp [validEscape, textSpecials, crMatchAny, crMatchRef, crMatchNamed, crNamedRefs, List.findSome?, List.isPrefixOf]
  simp [h1, h2, h3, validEscape, textSpecials]

/-- what the model writes for text satisfies the property-level statement -/
theorem validEscape_text (s : Str) : validEscape textSpecials s (s.flatMap escTextChar) = true := by
  induction s with
  | nil => simp [validEscape]
  | cons c cs ih => simp only [List.flatMap_cons, validEscape_textChar, ih]

theorem validEscape_attrChar (c : Char) (cs rest : Str) :
    validEscape attrSpecials (c :: cs) (escAttrChar c ++ rest) = validEscape attrSpecials cs rest := by
  unfold escAttrChar
  by_cases h1 : c = '&'
  · subst h1; simp [validEscape, attrSpecials, crMatchAny, crMatchRef, crMatchNamed, crNamedRefs, List.findSome?, List.isPrefixOf]
  by_cases h2 : c = '<'
  · subst h2; simp [validEscape, attrSpecials, crMatchAny, crMatchRef, crMatchNamed, crNamedRefs, List.findSome?, List.isPrefixOf]
  by_cases h3 : c = '>'
  · subst h3; simp [validEscape, attrSpecials, crMatchAny, crMatchRef, crMatchNamed, crNamedRefs, List.findSome?, List.isPrefixOf]
  by_cases h4 : c = '"'
  · subst h4; simp [validEscape, attrSpecials, crMatchAny, crMatchRef, crMatchNamed, crNamedRefs, List.findSome?, List.isPrefixOf]
  by_cases h5 : c = '\''
  · subst h5; simp [validEscape, attrSpecials, crMatchAny, crMatchRef, crMatchNamed, crNamedRefs, List.findSome?, List.isPrefixOf]
  by_cases h6 : c = '\r'
  · subst h6
    simp [validEscape, attrSpecials, crMatchAny, crMatchRef, crMatchNamed, crNamedRefs, List.findSome?, List.isPrefixOf,
      crMatchDecimal, List.takeWhile, crDigitsVal, Char.isDigit]
  by_cases h7 : c = '\n'
  · subst h7
    simp [validEscape, attrSpecials, crMatchAny, crMatchRef, crMatchNamed, crNamedRefs, List.findSome?, List.isPrefixOf,
      crMatchDecimal, List.takeWhile, crDigitsVal, Char.isDigit]
  simp [h1, h2, h3, h4, h5, h6, h7, validEscape, attrSpecials]

/-- what the model writes for an attribute value satisfies the property-level statement -/
theorem validEscape_attr (s : Str) : validEscape attrSpecials s (s.flatMap escAttrChar) = true := by
  induction s with
  | nil => simp [validEscape]
  | cons c cs ih => simp only [List.flatMap_cons, validEscape_attrChar, ih]

end HtmlVerif
