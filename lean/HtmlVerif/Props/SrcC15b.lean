/-
Source tie (DESIGN §14) for the Tag constructor and the helpers around it (C15 `init_is_merge` / `consolidate_*`, C14
`tag_delegates`, C19 `C19_call`'s `_add_ws` clause): the Lean functions regenerated from the *text* of
`TagAttrDict.__init__`, `Tag.__init__`, `Tag.insert`, `Tag.extend`, `Tag.append` and `consolidate_attrs`
(htmltools/_core.py; Generated/Src.lean, harness/pytr_c15b.py) compute, for every input, what the models compute:

  TagAttrDict.__init__   `attrsUpdate` on the receiver (Model/Attrs.lean); on a new instance `tagInitAttrs`
  Tag.__init__           `tagInitC15b` (Lemmas/SrcC15b.lean) = the `_add_ws` check `tagInitWs` (Model/TagFn.lean), then
                         `tagInitAttrs` on the dict arguments and the keywords, then `TL.init` (Model/Children.lean) on the
                         other arguments — in this order, the first failure decides; `tagInitSplit_eqC15b` / `tagInit_kidsC15b`
                         relate it to `tagInitSplit` (Model/Consolidate.lean) and `TagM.init` (Model/Children.lean)
  Tag.insert/extend/append   `TL.insert / extend / append` on the `children` field, every other field untouched
                         (`TagM.insert / extend / append`)
  consolidate_attrs      `consolidate` (Model/Consolidate.lean) with `checkKids` = "does `TagList(*kids)` raise" (C14's model)

Scope of the statements, made explicit by their hypotheses:
  * `hkw : kwFreeC15b reservedC15b kw`: no keyword is called `self`, `_name` or `_add_ws`.  Python binds such a keyword
    to the parameter of that name of `Tag.__init__` / `TagAttrDict.update` (or raises "multiple values") instead of
    treating it as an attribute; the translation states that binding (`pyKwTakeC15b` / `pyKwRestC15b`), the models do not
    have it.  (`consolidate_attrs(_add_ws=False)` is a call the model of C15 does not describe.)
  * `hk : kidsOkC15b (kidsOf args)`: the non-dict arguments are representable values of the child-list model (`argRep`, as
    in Props/SrcC14.lean) and none of them is a dict (a dict argument is an attribute argument);
  * a `TagAttrDict` instance is carried as a dict; the new `Tag` instance is compared attribute by attribute
    (`projTagC15b`): the order of the assignments in `__init__` is not part of the statement;
  * fuel: the theorems hold for every fuel above the nesting depth of the children (+ the call depth).

No loop body is spelled out: the two comprehensions are taken from the regenerated definitions by unification
(`filter_loop_kC15b`); what is proved about each is its effect on one pass.  Every theorem takes `<fn>_available = true`
for the function and for every translated function it calls and is vacuous (first alternative) when a function has left
the translatable fragment.
-/
import HtmlVerif.Generated.Src
import HtmlVerif.Lemmas.SrcC15b
import HtmlVerif.Props.SrcAttrs
import HtmlVerif.Props.SrcC14

set_option linter.unusedVariables false

namespace HtmlVerif.SrcTie
open HtmlVerif HtmlVerif.Py HtmlVerif.Generated.Src

-- `f(**kwargs)` with keywords free of the reserved names (`hkw`): every parameter of the callee keeps its default and the
-- keywords reach `**kwargs` unchanged — whichever of the callee's parameters the call binds in which way
set_option hygiene false in
local macro "kw_bind_tacC15b" : tactic => `(tactic|
  repeat (first
    | rw [pyKwTake_embC15b _ _ _ hkw (by decide)]
    | rw [pyKwRest_embC15b _ _ _ hkw (by decide)]))

/-! ### TagAttrDict.__init__ -/

/-- `TagAttrDict.__init__(self, *args, **kwargs)` as the source has it (`super().__init__()`, then
    `self.update(*args, **kwargs)`) = `attrsUpdate` on the receiver's items, for every receiver, every tuple of dicts and
    every keyword dict, TypeError for a value of an invalid type included -/
theorem src_TagAttrDict_initC15b (h : TagAttrDict_initC15b_available = true) (h0 : TagAttrDict_update_available = true)
    (h1 : normalize_attr_value_available = true) (h2 : normalize_attr_name_available = true)
    (h3 : html_escape_available = true) (h4 : HTML_add_available = true) (h5 : HTML_radd_available = true)
    (h6 : HTML_as_string_available = true)
    (cfg : Cfg) (hsp : escText cfg [' '] = [' ']) (ht : keysPlain cfg.textTbl = true) (ha : keysPlain cfg.attrTbl = true)
    (cur : Attrs) (args : List (List (Str × AttrArg))) (kw : List (Str × AttrArg))
    (hkw : kwFreeC15b reservedC15b kw = true) :
    TagAttrDict_initC15b (globalsOf cfg) (embAttrs cur) (.tuple (args.map embArgDict)) (embArgDict kw)
      = embRes embAttrs (attrsUpdate cfg cur (if kw.isEmpty then args else args ++ [kw])) := by
  first
  | exact absurd h (by decide)
  | skip
  all_goals (
    unfold TagAttrDict_initC15b
    simp only [pyDictInit0_embC15b, pyIter_tuple, ok_bind, pure_eq_ok]
    kw_bind_tacC15b
    simp only [ok_bind, src_update h0 h1 h2 h3 h4 h5 h6 cfg hsp ht ha, bind_ok_self])

/-- on a new instance: `TagAttrDict(*dicts, **kw)` = `tagInitAttrs`, the attribute half of `Tag.__init__`
    (what `C15_init_is_merge` / `C15_init_rejects` are about) -/
theorem src_TagAttrDict_newC15b (h : TagAttrDict_initC15b_available = true) (h0 : TagAttrDict_update_available = true)
    (h1 : normalize_attr_value_available = true) (h2 : normalize_attr_name_available = true)
    (h3 : html_escape_available = true) (h4 : HTML_add_available = true) (h5 : HTML_radd_available = true)
    (h6 : HTML_as_string_available = true)
    (cfg : Cfg) (hsp : escText cfg [' '] = [' ']) (ht : keysPlain cfg.textTbl = true) (ha : keysPlain cfg.attrTbl = true)
    (dicts : List (List (Str × AttrArg))) (kw : List (Str × AttrArg)) (hkw : kwFreeC15b reservedC15b kw = true) :
    TagAttrDict_initC15b (globalsOf cfg) (.dict []) (.tuple (dicts.map embArgDict)) (embArgDict kw)
      = embRes embAttrs (tagInitAttrs cfg dicts kw) :=
  src_TagAttrDict_initC15b h h0 h1 h2 h3 h4 h5 h6 cfg hsp ht ha [] dicts kw hkw

/-! ### Tag.__init__ -/

-- one half of the constructor, whichever comes next: the comprehension that selects the dict arguments followed by
-- `TagAttrDict(*…, **kwargs)`, or the one that selects the others followed by `TagList(*…)`
set_option hygiene false in
local macro "init_half_tacC15b" : tactic => `(tactic| first
  | (refine (filter_loop_kC15b (fun v => isInstance v ["dict"]) _ _ _ ?_ _).trans ?_
     · intro x _ s; cases isInstance x ["dict"] <;> rfl
     simp only [List.nil_append, filter_dictsC15b args hk, pyIter_list, ok_bind]
     kw_bind_tacC15b
     simp only [ok_bind, hinit, ha', embRes, error_bind, pySetAttr_objC15b])
  | (refine (filter_loop_kC15b (fun v => !isInstance v ["dict"]) _ _ _ ?_ _).trans ?_
     · intro x _ s; cases isInstance x ["dict"] <;> rfl
     simp only [List.nil_append, filter_kidsC15b args hk, pyIter_list, ok_bind, hkids, hc, embRes, error_bind,
       pySetAttr_objC15b]))

/-- `Tag.__init__(self, _name, *args, _add_ws, **kwargs)` as the source has it = `tagInitC15b`: run on an instance with an
    empty `__dict__` (of `Tag` or a subclass `cls`) it raises TypeError for an `_add_ws` that is not a bool, else what
    `TagAttrDict(*dicts, **kwargs)` raises for the dict arguments, else what `TagList(*kids)` raises for the others — and
    otherwise leaves the five attributes the model computes (`name`, `add_ws`, the merged `attrs`, the normalised
    `children`, `prev_displayhook = None`).  The two halves may be built in either order: both raise TypeError only
    (`tagInitAttrs_errC15b`, `TLinit_errC15b`), so the order cannot be observed. -/
theorem src_Tag_initC15b (h : Tag_initC15b_available = true) (hA : TagAttrDict_initC15b_available = true)
    (h0 : TagAttrDict_update_available = true)
    (h1 : normalize_attr_value_available = true) (h2 : normalize_attr_name_available = true)
    (h3 : html_escape_available = true) (h4 : HTML_add_available = true) (h5 : HTML_radd_available = true)
    (h6 : HTML_as_string_available = true)
    (hi : TagList_init_available = true) (ht' : tagchilds_to_tagnodes_available = true)
    (hf' : util_flatten_available = true) (hr' : util_flatten_recurse_available = true) (hn : is_tag_node_available = true)
    (cfg : Cfg) (hsp : escText cfg [' '] = [' ']) (ht : keysPlain cfg.textTbl = true) (ha : keysPlain cfg.attrTbl = true)
    (cls : String) (name : Str) (ws : WsVC15b) (args : List (TagArg Arg)) (kw : List (Str × AttrArg))
    (hkw : kwFreeC15b reservedC15b kw = true) (hk : kidsOkC15b (kidsOf args) = true)
    (fuel : Nat) (hf : argsFdepth (Args.ofList (kidsOf args)) + 4 < fuel) :
    projTagC15b <$> Tag_initC15b (globalsOf cfg) fuel (.obj cls []) (.str name) (.tuple (args.map embTagArgC15b)) ws.emb (embArgDict kw)
      = embRes (embTagMC15b cls) (tagInitC15b cfg name ws.toWs args kw) := by
  first
  | exact absurd h (by decide)
  | skip
  all_goals (
    obtain ⟨f, rfl⟩ : ∃ f, fuel = f + 1 := ⟨fuel - 1, by omega⟩
    rw [Tag_initC15b, map_eq_bindC15b]
    simp only [pySetAttr_objC15b, ok_bind, pure_eq_ok, truthy_bool, pyIter_tuple]
    have hinit : ∀ ds, TagAttrDict_initC15b (globalsOf cfg) (PVal.dict []) (.tuple (ds.map embArgDict)) (embArgDict kw)
        = embRes embAttrs (tagInitAttrs cfg ds kw) :=
      fun ds => src_TagAttrDict_initC15b hA h0 h1 h2 h3 h4 h5 h6 cfg hsp ht ha [] ds kw hkw
    have hkids := src_TagList_init hi ht' hf' hr' hn (globalsOf cfg) (kidsOf args) (kidsOk_repC15b _ hk) f (by omega)
    cases ws with
    | other v hv =>
      simp [WsVC15b.emb, WsVC15b.toWs, hv, tagInitC15b, tagInitWs, embRes, embErr]
    | bool b =>
      have hb : isInstance (PVal.bool b) ["bool"] = true := rfl
      simp only [WsVC15b.emb, WsVC15b.toWs, hb, Bool.not_true, Bool.false_eq_true, if_false, bind_assocC15b, tagInitC15b, tagInitWs]
      -- the two halves, in whichever order the source builds them (both raise TypeError only)
      cases ha' : tagInitAttrs cfg (dictsOf args) kw <;> cases hc : TL.init (kidsOf args) <;>
        simp only [embRes] <;> (repeat init_half_tacC15b) <;>
        first
        | rfl
        | (cases tagInitAttrs_errC15b _ _ _ _ ha'; cases TLinit_errC15b _ _ hc; rfl))
/-- the `_add_ws` check comes first: a value that is not a bool is rejected whatever the other arguments are — not even
    iterable ones (C19: `callWrapper r (some .other) = none`) -/
theorem src_Tag_init_addws_rejectC15b (h : Tag_initC15b_available = true) (G : Globals) (fuel : Nat) (cls : String)
    (fs : List (String × PVal)) (nm args kw v : PVal) (hv : isInstance v ["bool"] = false) :
    Tag_initC15b G (fuel + 1) (.obj cls fs) nm args v kw = .error .typeError := by
  first
  | exact absurd h (by decide)
  | skip
  all_goals (
    rw [Tag_initC15b]
    simp only [pySetAttr_objC15b, ok_bind, truthy_bool, hv, Bool.not_false, if_true, throw_eq_error, error_bind])

/-- what follows a constructor call `Tag(nm, *args, **kw)`, for a continuation `K` that is determined by the five attributes
    of the new instance: the constructor's exception, or `K` of the instance the model describes -/
theorem src_Tag_init_thenC15b (hT : Tag_initC15b_available = true)
    (hA : TagAttrDict_initC15b_available = true) (h0 : TagAttrDict_update_available = true)
    (h1 : normalize_attr_value_available = true) (h2 : normalize_attr_name_available = true)
    (h3 : html_escape_available = true) (h4 : HTML_add_available = true) (h5 : HTML_radd_available = true)
    (h6 : HTML_as_string_available = true)
    (hi : TagList_init_available = true) (ht' : tagchilds_to_tagnodes_available = true)
    (hf' : util_flatten_available = true) (hr' : util_flatten_recurse_available = true) (hn : is_tag_node_available = true)
    (cfg : Cfg) (hsp : escText cfg [' '] = [' ']) (ht : keysPlain cfg.textTbl = true) (ha : keysPlain cfg.attrTbl = true)
    (cls : String) (nm : Str) (ws : WsVC15b) (args : List (TagArg Arg)) (kw : List (Str × AttrArg))
    (hkw : kwFreeC15b reservedC15b kw = true) (hk : kidsOkC15b (kidsOf args) = true)
    (f : Nat) (hf : argsFdepth (Args.ofList (kidsOf args)) + 4 < f)
    {β : Type} (K : PVal → PyM β) (R : TagM → PyM β)
    (hK : ∀ v t, projTagC15b v = embTagMC15b cls t → K v = R t) :
    (Tag_initC15b (globalsOf cfg) f (.obj cls []) (.str nm) (.tuple (args.map embTagArgC15b)) ws.emb (embArgDict kw) >>= K)
      = match tagInitC15b cfg nm ws.toWs args kw with
        | .ok t => R t
        | .error e => .error (embErr e) := by
  have hinit := src_Tag_initC15b hT hA h0 h1 h2 h3 h4 h5 h6 hi ht' hf' hr' hn cfg hsp ht ha cls nm ws args kw hkw hk f hf
  cases hm : tagInitC15b cfg nm ws.toWs args kw with
  | error e =>
    rw [hm] at hinit
    rw [proj_inv_errorC15b _ _ hinit]; rfl
  | ok t =>
    rw [hm] at hinit
    obtain ⟨v, hv, hp⟩ := proj_inv_okC15b _ _ hinit
    rw [hv, ok_bind]
    exact hK v t hp


/-! ### Tag.insert / extend / append -/

/-- `Tag.insert(index, x)` as the source has it: `TagList.insert` on the `children` field (= `TL.insert`), every other
    attribute of the receiver untouched; for any instance that has such a field -/
theorem src_Tag_insertC15b (h : Tag_insertC15b_available = true) (hI : TagList_insert_available = true)
    (ht : tagchilds_to_tagnodes_available = true)
    (hf' : util_flatten_available = true) (hr' : util_flatten_recurse_available = true) (hn : is_tag_node_available = true)
    (G : Globals) (cls : String) (fs : List (String × PVal)) (s : TL) (hs : fieldGet? "children" fs = some (embTL s))
    (i : Int) (x : Arg) (hr : argRep x = true) (fuel : Nat) (hf : argFdepth x + 4 < fuel) :
    Tag_insertC15b G fuel (.obj cls fs) (.int i) (embA x) = embKidsOutC15b cls fs (s.insert i x) := by
  first
  | exact absurd h (by decide)
  | skip
  all_goals (
    obtain ⟨f, rfl⟩ : ∃ f, fuel = f + 1 := ⟨fuel - 1, by omega⟩
    rw [Tag_insertC15b]
    simp only [pyGetAttr_objC15b, hs, ok_bind, pure_eq_ok, src_TagList_insert hI ht hf' hr' hn G s i x hr f (by omega), embOut,
      embKidsOutC15b]
    cases (s.insert i x).result with
    | error e => rfl
    | ok u => rfl)


/-- `Tag.extend(x)` as the source has it: `TL.extend` on the `children` field -/
theorem src_Tag_extendC15b (h : Tag_extendC15b_available = true) (hE : TagList_extend_available = true)
    (ht : tagchilds_to_tagnodes_available = true)
    (hf' : util_flatten_available = true) (hr' : util_flatten_recurse_available = true) (hn : is_tag_node_available = true)
    (G : Globals) (cls : String) (fs : List (String × PVal)) (s : TL) (hs : fieldGet? "children" fs = some (embTL s))
    (x : Arg) (hr : argRep x = true) (fuel : Nat) (hf : iterDepth x + 4 < fuel) :
    Tag_extendC15b G fuel (.obj cls fs) (embA x) = embKidsOutC15b cls fs (s.extend x) := by
  first
  | exact absurd h (by decide)
  | skip
  all_goals (
    obtain ⟨f, rfl⟩ : ∃ f, fuel = f + 1 := ⟨fuel - 1, by omega⟩
    rw [Tag_extendC15b]
    simp only [pyGetAttr_objC15b, hs, ok_bind, pure_eq_ok, src_TagList_extend hE ht hf' hr' hn G s x hr f (by omega), embOut,
      embKidsOutC15b]
    cases (s.extend x).result with
    | error e => rfl
    | ok u => rfl)


/-- `Tag.append(*args)` as the source has it: `TL.append` on the `children` field; TypeError when called without an
    argument (`TagList.append` requires `item`) -/
theorem src_Tag_appendC15b (h : Tag_appendC15b_available = true) (hA : TagList_append_available = true)
    (hE : TagList_extend_available = true) (ht : tagchilds_to_tagnodes_available = true)
    (hf' : util_flatten_available = true) (hr' : util_flatten_recurse_available = true) (hn : is_tag_node_available = true)
    (G : Globals) (cls : String) (fs : List (String × PVal)) (s : TL) (hs : fieldGet? "children" fs = some (embTL s))
    (xs : List Arg) (hr : xs.all argRep = true) (fuel : Nat) (hf : argsFdepth (Args.ofList xs) + 5 < fuel) :
    Tag_appendC15b G fuel (.obj cls fs) (.tuple (xs.map embA)) = embKidsOutC15b cls fs (s.append xs) := by
  first
  | exact absurd h (by decide)
  | skip
  all_goals (
    obtain ⟨f, rfl⟩ : ∃ f, fuel = f + 1 := ⟨fuel - 1, by omega⟩
    rw [Tag_appendC15b]
    simp only [pyGetAttr_objC15b, hs, ok_bind, pure_eq_ok, pyIter_tuple]
    cases xs with
    | nil => rfl
    | cons item rest =>
      simp only [List.map_cons, pyPosArg_consC15b, ok_bind, List.drop_succ_cons, List.drop_zero,
        src_TagList_append hA hE ht hf' hr' hn G s item rest hr f (by omega), embOut, embKidsOutC15b]
      cases (s.append (item :: rest)).result with
      | error e => rfl
      | ok u => rfl)


/-- on a Tag as the constructor leaves it these are `TagM.insert / extend / append` (Model/Children.lean; what
    `C14_tag_delegates` is about) -/
theorem src_Tag_insert_tagMC15b (h : Tag_insertC15b_available = true) (hI : TagList_insert_available = true)
    (ht : tagchilds_to_tagnodes_available = true)
    (hf' : util_flatten_available = true) (hr' : util_flatten_recurse_available = true) (hn : is_tag_node_available = true)
    (G : Globals) (cls : String) (t : TagM) (i : Int) (x : Arg) (hr : argRep x = true) (fuel : Nat) (hf : argFdepth x + 4 < fuel) :
    Tag_insertC15b G fuel (embTagMC15b cls t) (.int i) (embA x) = embTagOutC15b cls (t.insert i x) := by
  exact (src_Tag_insertC15b h hI ht hf' hr' hn G cls _ t.children (fieldGet?_children_embTagMC15b t) i x hr fuel hf).trans (embKidsOut_tagMC15b cls t _)

theorem src_Tag_extend_tagMC15b (h : Tag_extendC15b_available = true) (hE : TagList_extend_available = true)
    (ht : tagchilds_to_tagnodes_available = true)
    (hf' : util_flatten_available = true) (hr' : util_flatten_recurse_available = true) (hn : is_tag_node_available = true)
    (G : Globals) (cls : String) (t : TagM) (x : Arg) (hr : argRep x = true) (fuel : Nat) (hf : iterDepth x + 4 < fuel) :
    Tag_extendC15b G fuel (embTagMC15b cls t) (embA x) = embTagOutC15b cls (t.extend x) := by
  exact (src_Tag_extendC15b h hE ht hf' hr' hn G cls _ t.children (fieldGet?_children_embTagMC15b t) x hr fuel hf).trans (embKidsOut_tagMC15b cls t _)

theorem src_Tag_append_tagMC15b (h : Tag_appendC15b_available = true) (hA : TagList_append_available = true)
    (hE : TagList_extend_available = true) (ht : tagchilds_to_tagnodes_available = true)
    (hf' : util_flatten_available = true) (hr' : util_flatten_recurse_available = true) (hn : is_tag_node_available = true)
    (G : Globals) (cls : String) (t : TagM) (xs : List Arg) (hr : xs.all argRep = true) (fuel : Nat)
    (hf : argsFdepth (Args.ofList xs) + 5 < fuel) :
    Tag_appendC15b G fuel (embTagMC15b cls t) (.tuple (xs.map embA)) = embTagOutC15b cls (t.append xs) := by
  exact (src_Tag_appendC15b h hA hE ht hf' hr' hn G cls _ t.children (fieldGet?_children_embTagMC15b t) xs hr fuel hf).trans (embKidsOut_tagMC15b cls t _)

/-! ### consolidate_attrs -/

/-- `consolidate_attrs(*args, **kwargs)` as the source has it = `consolidate`: it raises what building
    `Tag("consolidate_attrs", *args, **kwargs)` raises, and otherwise returns the pair of `dict(tag.attrs)` — the merged
    attributes — and the list of the non-dict arguments, unaltered and in order -/
theorem src_consolidate_attrsC15b (h : consolidate_attrsC15b_available = true) (hT : Tag_initC15b_available = true)
    (hA : TagAttrDict_initC15b_available = true) (h0 : TagAttrDict_update_available = true)
    (h1 : normalize_attr_value_available = true) (h2 : normalize_attr_name_available = true)
    (h3 : html_escape_available = true) (h4 : HTML_add_available = true) (h5 : HTML_radd_available = true)
    (h6 : HTML_as_string_available = true)
    (hi : TagList_init_available = true) (ht' : tagchilds_to_tagnodes_available = true)
    (hf' : util_flatten_available = true) (hr' : util_flatten_recurse_available = true) (hn : is_tag_node_available = true)
    (cfg : Cfg) (hsp : escText cfg [' '] = [' ']) (ht : keysPlain cfg.textTbl = true) (ha : keysPlain cfg.attrTbl = true)
    (args : List (TagArg Arg)) (kw : List (Str × AttrArg))
    (hkw : kwFreeC15b reservedC15b kw = true) (hk : kidsOkC15b (kidsOf args) = true)
    (fuel : Nat) (hf : argsFdepth (Args.ofList (kidsOf args)) + 5 < fuel) :
    consolidate_attrsC15b (globalsOf cfg) fuel (.tuple (args.map embTagArgC15b)) (embArgDict kw)
      = embRes (fun r => PVal.tuple [embAttrs r.1, .list (r.2.map embA)]) (consolidate cfg checkKidsC15b args kw) := by
  first
  | exact absurd h (by decide)
  | skip
  all_goals (
    obtain ⟨f, rfl⟩ : ∃ f, fuel = f + 1 := ⟨fuel - 1, by omega⟩
    rw [consolidate_attrsC15b]
    simp only [pyIter_tuple, ok_bind, pure_eq_ok]
    kw_bind_tacC15b
    simp only [ok_bind]
    refine (src_Tag_init_thenC15b hT hA h0 h1 h2 h3 h4 h5 h6 hi ht' hf' hr' hn cfg hsp ht ha "Tag" _ (.bool true) args kw hkw hk f
      (by omega) _ (fun t => .ok (PVal.tuple [embAttrs t.attrs, .list ((kidsOf args).map embA)])) ?K).trans ?_
    case K =>
      intro v t hv
      rw [← pyGetAttr_projC15b v "attrs" (by decide), hv, pyGetAttr_embTagM_attrsC15b]
      simp only [ok_bind, pyDictCopy_embC15b, truthy_bool]
      refine (filter_loop_kC15b (fun v => !isInstance v ["dict"]) _ _ _ ?step _).trans ?_
      case step => intro x _ s; cases isInstance x ["dict"] <;> rfl
      simp only [List.nil_append, filter_kidsC15b args hk]
    rw [consolidate, tagInitSplit_eqC15b cfg _ true]
    simp only [WsVC15b.toWs]
    cases tagInitC15b cfg _ (WsArg.bool true) args kw <;> rfl)

/-! ### for the tables as they are in the source right now -/

theorem src_Tag_init_nowC15b (h : Tag_initC15b_available = true) (hA : TagAttrDict_initC15b_available = true)
    (h0 : TagAttrDict_update_available = true)
    (h1 : normalize_attr_value_available = true) (h2 : normalize_attr_name_available = true)
    (h3 : html_escape_available = true) (h4 : HTML_add_available = true) (h5 : HTML_radd_available = true)
    (h6 : HTML_as_string_available = true)
    (hi : TagList_init_available = true) (ht' : tagchilds_to_tagnodes_available = true)
    (hf' : util_flatten_available = true) (hr' : util_flatten_recurse_available = true) (hn : is_tag_node_available = true)
    (cls : String) (name : Str) (ws : WsVC15b) (args : List (TagArg Arg)) (kw : List (Str × AttrArg))
    (hkw : kwFreeC15b reservedC15b kw = true) (hk : kidsOkC15b (kidsOf args) = true)
    (fuel : Nat) (hf : argsFdepth (Args.ofList (kidsOf args)) + 4 < fuel) :
    projTagC15b <$> Tag_initC15b (globalsOf cfgNow) fuel (.obj cls []) (.str name) (.tuple (args.map embTagArgC15b)) ws.emb (embArgDict kw)
      = embRes (embTagMC15b cls) (tagInitC15b cfgNow name ws.toWs args kw) :=
  src_Tag_initC15b h hA h0 h1 h2 h3 h4 h5 h6 hi ht' hf' hr' hn cfgNow src_tables_ok.2.2 src_tables_ok.1 src_tables_ok.2.1
    cls name ws args kw hkw hk fuel hf

theorem src_consolidate_attrs_nowC15b (h : consolidate_attrsC15b_available = true) (hT : Tag_initC15b_available = true)
    (hA : TagAttrDict_initC15b_available = true) (h0 : TagAttrDict_update_available = true)
    (h1 : normalize_attr_value_available = true) (h2 : normalize_attr_name_available = true)
    (h3 : html_escape_available = true) (h4 : HTML_add_available = true) (h5 : HTML_radd_available = true)
    (h6 : HTML_as_string_available = true)
    (hi : TagList_init_available = true) (ht' : tagchilds_to_tagnodes_available = true)
    (hf' : util_flatten_available = true) (hr' : util_flatten_recurse_available = true) (hn : is_tag_node_available = true)
    (args : List (TagArg Arg)) (kw : List (Str × AttrArg))
    (hkw : kwFreeC15b reservedC15b kw = true) (hk : kidsOkC15b (kidsOf args) = true)
    (fuel : Nat) (hf : argsFdepth (Args.ofList (kidsOf args)) + 5 < fuel) :
    consolidate_attrsC15b (globalsOf cfgNow) fuel (.tuple (args.map embTagArgC15b)) (embArgDict kw)
      = embRes (fun r => PVal.tuple [embAttrs r.1, .list (r.2.map embA)]) (consolidate cfgNow checkKidsC15b args kw) :=
  src_consolidate_attrsC15b h hT hA h0 h1 h2 h3 h4 h5 h6 hi ht' hf' hr' hn cfgNow src_tables_ok.2.2 src_tables_ok.1
    src_tables_ok.2.1 args kw hkw hk fuel hf

/-! ### the hypotheses are satisfiable by non-trivial values -/

/-- `Tag("div", {"class_": "a", "x": None}, "k", [1.5, None], {"class": HTML("b")}, id=3)`: keywords free of the reserved
    names, children representable and no dict among them -/
example : kwFreeC15b reservedC15b [("id".toList, .num "3".toList)] = true
    ∧ kidsOkC15b (kidsOf [TagArg.dict [("class_".toList, AttrArg.str "a".toList), ("x".toList, .none)],
        .child (Arg.node (.text "k".toList)), .child (.list (.cons (.num .float "1.5".toList) (.cons .none .nil))),
        .dict [("class".toList, .html "b".toList)]]) = true := by decide +kernel

/-- a keyword called `_add_ws` is not an attribute -/
example : kwFreeC15b reservedC15b [("_add_ws".toList, .boolF)] = false := by decide +kernel

end HtmlVerif.SrcTie
