/-
`holds C12 <op> <args…> | <impl answer>` — the executable statement of C12 (Holds/C12.lean) evaluated on the
implementation's answer for the input the op line describes.  For the pure stdlib ops that carry no clause of
their own (unquote, utf8, posix_join, dirname) the statement is agreement with the model definition
the theorems are about.
-/
import HtmlVerif.Ops.Paths
import HtmlVerif.Holds.C12

namespace HtmlVerif.Ops
open HtmlVerif HtmlVerif.Wire HtmlVerif.Holds

/-- a canonical output path (`/a/b`, characters = bytes) -/
def pathOfLatin1 (s : Str) : Path := segs (bytesOfLatin1 s)

def fsCanonP : P FS := do
  let es ← listOf (do let p ← str; let c ← str; pure (pathOfLatin1 p, bytesOfLatin1 c))
  pure ⟨es⟩

def errOfString : String → Err
  | "typeError" => .typeError
  | "valueError" => .valueError
  | "keyError" => .keyError
  | "runtimeError" => .runtimeError
  | "notImplemented" => .notImplemented
  | _ => .exception

/-- `ok` | `err <kind>` -/
def statusP : P (Option Err) := do
  let t ← next
  if t == "ok" then pure none
  else if t == "err" then do let k ← next; pure (some (errOfString k))
  else throw s!"bad status {t}"

def kvsList : P (List KVs) := listOf (listOf kv)

/-- the rest of the line must equal `expected` -/
def sameAs (expected : String) : P String := do
  let rest ← implRaw
  pure (encBool (" ".intercalate rest == expected))

def holdsC12 : OpTable
  | "quote" => some do
    let s ← str
    expect "|"
    let out ← str
    pure (encBool (holdsQuote s out))
  | "unquote" => some do let s ← str; sameAs (encBytes (unquoteB s))
  | "utf8" => some do let s ← str; sameAs (encBytes (utf8 s))
  | "posix_join" => some do let a ← str; let b ← str; sameAs (encStr (posixJoin a b))
  | "dirname" => some do let a ← str; sameAs (encStr (dirname a))
  | "source_path_map" => some do
    let d ← depInfo; let lp ← optStr; let iv ← bool
    expect "|"
    let src ← str; let href ← str
    pure (encBool (holdsPathMap d lp iv src href))
  | "as_dict" => some do
    let d ← depInfo; let hh ← bool; let hd ← nodes; let lp ← optStr; let iv ← bool
    expect "|"
    match (← statusP) with
    | some e =>
      -- errors of as_dict are no clause of C12: they hold iff the model raises the same
      pure (encBool (match asDict cfg d hh hd lp iv with | .error e' => e == e' | .ok _ => false))
    | none =>
      let scripts ← kvsList; let sheets ← kvsList; let _metas ← kvsList; let _head ← optStr
      pure (holdsDict d lp iv scripts sheets).enc
  | "as_html_tags" => some do
    let d ← depInfo; let hh ← bool; let hd ← nodes; let lp ← optStr; let iv ← bool
    expect "|"
    match (← statusP) with
    | some e => pure (encBool (match asHtmlTags cfg d hh hd lp iv with | .error e' => e == e' | .ok _ => false))
    | none =>
      let tags ← nodes
      pure (holdsTags d lp iv tags).enc
  | "copy_to" => some do
    let d ← depInfo; let path ← str; let iv ← bool; let _cwd ← str; let fs ← fsP
    expect "|"
    let st ← statusP
    let fs' ← fsCanonP
    pure (encBool (holdsCopy d path iv fs st fs'))
  | "copy_atomic" => some do
    let d ← depInfo; let path ← str; let iv ← bool; let _cwd ← str; let fs ← fsP
    expect "|"
    match (← statusP) with
    | none => pure (encBool (holdsAtomic d path iv fs false true))
    | some _ =>
      let t ← next
      pure (encBool (holdsAtomic d path iv fs true (t == "same")))
  | "save_html" => some do
    let _recv ← next; let _content ← nodes; let file ← str; let fileAbs ← str; let libdir ← optStr
    let iv ← bool; let _cwd ← str; let html ← str; let deps ← depList; let fs ← fsP
    expect "|"
    let t ← next
    let status : Except Err Str ← (if t == "ok" then do let r ← str; pure (.ok r)
      else do let k ← next; pure (.error (errOfString k)))
    let urls ← listOf str
    let fs' ← fsCanonP
    pure (holdsSave deps file fileAbs libdir iv html fs status urls fs').enc
  | _ => none

end HtmlVerif.Ops
