/-
Driver ops for the attribute area (C15, C16, merge part of C03): the model side of

  norm_name <str>                                   → <str>
  ahist <dicts> <kw> [ step… ]                      → r0 r1 …      r0 = ok <attrs> | err <kind>   (stops after an err r0)
        step := u <dicts> <kw> | s <str> <attrarg>     ri = ok <attrs> | err <kind> <attrs-unchanged>
  consolidate [ (d <dict> | c <node>)… ] <kw>       → ok <attrs> <nodes> <rebuilt==direct> <children identical> | err <kind>
  consolidate_args [ (d <dict> | a <arg>)… ] <kw>   → ok <attrs> <args> <rebuilt==direct> <children identical> | err <kind>
        the non-dict arguments are arbitrary Python values (`<arg>` of the child-list ops, C14): unsupported objects,
        dicts / sets inside lists, None, numbers, nested sequences …; building the throw-away Tag raises exactly when
        `TagList(*children)` does (`chTagchildsToTagnodes` on the tuple of children)
  attr_render <dicts> <kw>                          → ok <str> | err <kind>        (str(Tag("div", *dicts, **kw)))
  chist <ws> <attrs> [ step… ]                      → one answer per step
        step := ac <str> <bool> | rc <str> | hc <str> | as <attrarg> <bool>
        answer := <ret> [<has_class(token) afterwards> (ac only)] <attrs>
        ret := S (returned the receiver; name/add_ws/children untouched) | O | T | F (has_class) | E<kind>
  css <lowtbl> <collapse> [ (<key> <cssval>)… ]     → ok N | ok S <str> <add_style accepts it> | err <kind>
        lowtbl := [ (<str> <str.lower() of it>)… ]   cssval := cn | ct <str> | co <kind> <str(v)> | cl [ <str>… ] | cb

`<ws>` is the string of all characters for which the interpreter's `str.isspace` is true.
-/
import HtmlVerif.Ops.Base
import HtmlVerif.Model.ClassStyle
import HtmlVerif.Model.Consolidate

namespace HtmlVerif.Ops
open HtmlVerif HtmlVerif.Wire

abbrev Dict := List (Str × AttrArg)

inductive AStep
  | upd (dicts : List Dict) (kw : Dict)
  | set (k : Str) (v : AttrArg)

def aStep : P AStep := do
  let t ← next
  match t with
  | "u" => do let ds ← listOf (listOf attrPair); let kw ← listOf attrPair; pure (.upd ds kw)
  | "s" => do let k ← str; let v ← attrArg; pure (.set k v)
  | _ => throw s!"bad attrs step {t}"

/-- `update(*dicts, **kw)`: `if kwargs: args = args + (kwargs,)` -/
def updArgs (ds : List Dict) (kw : Dict) : List Dict := if kw.isEmpty then ds else ds ++ [kw]

def runAStep (cur : Attrs) : AStep → Except Err Attrs
  | .upd ds kw => attrsUpdate cfg cur (updArgs ds kw)
  | .set k v => attrsSetItem cur k v

inductive CStep
  | ac (t : Str) (p : Bool)
  | rc (t : Str)
  | hc (t : Str)
  | ast (v : AttrArg) (p : Bool)

def cStep : P CStep := do
  let t ← next
  match t with
  | "ac" => do let s ← str; let p ← bool; pure (.ac s p)
  | "rc" => .rc <$> str
  | "hc" => .hc <$> str
  | "as" => do let v ← attrArg; let p ← bool; pure (.ast v p)
  | _ => throw s!"bad class/style step {t}"

def tagArg : P (TagArg Node) := do
  let t ← next
  match t with
  | "d" => .dict <$> listOf attrPair
  | "c" => .child <$> node
  | _ => throw s!"bad tag arg {t}"

def tagArgA : P (TagArg Arg) := do
  let t ← next
  match t with
  | "d" => .dict <$> listOf attrPair
  | "a" => .child <$> arg
  | _ => throw s!"bad tag arg {t}"

/-- `TagList(*kids)` raises? (`_tagchilds_to_tagnodes` on the tuple of positional children, C14's model) -/
def kidsCheck (kids : List Arg) : Except Err Unit :=
  match chTagchildsToTagnodes (.tuple (Args.ofList kids)) with
  | .ok _ => .ok ()
  | .error e => .error e

def cssVal : P CssVal := do
  let t ← next
  match t with
  | "cn" => pure .none
  | "ct" => .text <$> str
  | "co" => do let _kind ← next; .text <$> str
  | "cl" => .list <$> listOf str
  | "cb" => pure .badList
  | _ => throw s!"bad css value {t}"

def cssPair : P (Str × CssVal) := do
  let k ← str
  let v ← cssVal
  pure (k, v)

/-- `str.isspace`, from the interpreter's table -/
def spOf (ws : Str) : Char → Bool := fun c => ws.contains c

/-- `str.lower`, from the table the harness computed for exactly the strings this call lower-cases -/
def lowerOf (tbl : List (Str × Str)) : Str → Str := fun s => (alookup s tbl).getD s

/-- every string the model will lower-case has an entry (else the harness and the model disagree about
    *what* is lower-cased, which is an infrastructure error, not an answer) -/
def lowTblCovers (tbl : List (Str × Str)) (kw : List (Str × CssVal)) : Bool :=
  kw.all fun kv => (alookup (cssHyphen kv.1) tbl).isSome

def theObj (a : Attrs) : TagObj :=
  { oid := 0, name := ['d', 'i', 'v'], ws := true, attrs := a, kids := .cons (.text ['k']) .nil }

def encRet (o : TagObj) (r : MethodResult) : String :=
  match r.1 with
  | .ok i =>
    if i == o.oid && r.2.oid == o.oid && r.2.name == o.name && r.2.ws == o.ws && r.2.kids.beq o.kids
    then "S" else "O"
  | .error e => "E" ++ encErr e

def runCStep (sp : Char → Bool) (o : TagObj) : CStep → String × TagObj
  | .ac t p =>
    let r := o.addClass cfg t p
    (encRet o r ++ " " ++ encBool (hasClass sp r.2.attrs t) ++ " " ++ encAttrs r.2.attrs, r.2)
  | .rc t =>
    let r := o.removeClass cfg sp t
    (encRet o r ++ " " ++ encAttrs r.2.attrs, r.2)
  | .hc t => (encBool (hasClass sp o.attrs t) ++ " " ++ encAttrs o.attrs, o)
  | .ast v p =>
    let r := o.addStyle cfg v p
    (encRet o r ++ " " ++ encAttrs r.2.attrs, r.2)

def runCSteps (sp : Char → Bool) : TagObj → List CStep → List String
  | _, [] => []
  | o, s :: r => let (out, o') := runCStep sp o s; out :: runCSteps sp o' r

def runASteps : Attrs → List AStep → List String
  | _, [] => []
  | cur, s :: r =>
    match runAStep cur s with
    | .ok a => ("ok " ++ encAttrs a) :: runASteps a r
    | .error e => ("err " ++ encErr e ++ " " ++ encAttrs cur) :: runASteps cur r

def divWith (a : Attrs) : Node := .tag ['d', 'i', 'v'] true a .nil

def attrsOps : OpTable
  | "norm_name" => some do
    let s ← str
    pure (encStr (normAttrName s))
  | "ahist" => some do
    let ds ← listOf (listOf attrPair); let kw ← listOf attrPair; let steps ← listOf aStep
    match tagInitAttrs cfg ds kw with
    | .error e => pure ("err " ++ encErr e)
    | .ok a => pure (" ".intercalate (("ok " ++ encAttrs a) :: runASteps a steps))
  | "consolidate" => some do
    let args ← listOf tagArg; let kw ← listOf attrPair
    match consolidate cfg (fun (_ : List Node) => .ok ()) args kw with
    | .error e => pure ("err " ++ encErr e)
    | .ok (a, cs) =>
      -- rebuilt == direct: evaluated on the model, like the implementation side evaluates it on the real objects
      let direct := tagInitSplit cfg (fun (_ : List Node) => .ok ()) args kw
      let rebuilt := tagInitSplit cfg (fun (_ : List Node) => .ok ()) (.dict (asDictArg a) :: cs.map .child) []
      let same := match direct, rebuilt with
        | .ok (a1, k1), .ok (a2, k2) => a1 == a2 && (Nodes.ofList k1).beq (Nodes.ofList k2)
        | _, _ => false
      pure ("ok " ++ encAttrs a ++ " " ++ encNodes (Nodes.ofList cs) ++ " " ++ encBool same ++ " T")
  | "consolidate_args" => some do
    let args ← listOf tagArgA; let kw ← listOf attrPair
    match consolidate cfg kidsCheck args kw with
    | .error e => pure ("err " ++ encErr e)
    | .ok (a, cs) =>
      let direct := tagInitSplit cfg kidsCheck args kw
      let rebuilt := tagInitSplit cfg kidsCheck (.dict (asDictArg a) :: cs.map .child) []
      let same := match direct, rebuilt with
        | .ok (a1, k1), .ok (a2, k2) => a1 == a2 && (Args.ofList k1).beq (Args.ofList k2)
        | _, _ => false
      pure ("ok " ++ encAttrs a ++ " " ++ encArgs (Args.ofList cs) ++ " " ++ encBool same ++ " T")
  | "attr_render" => some do
    let ds ← listOf (listOf attrPair); let kw ← listOf attrPair
    match tagInitAttrs cfg ds kw with
    | .error e => pure ("err " ++ encErr e)
    | .ok a => pure ("ok " ++ encStr ((divWith a).render cfg 0 ['\n']))
  | "chist" => some do
    let ws ← str; let a ← listOf attr; let steps ← listOf cStep
    pure (" ".intercalate (runCSteps (spOf ws) (theObj a) steps))
  | "css" => some do
    let tbl ← listOf kv; let collapse ← optStr; let kw ← listOf cssPair
    if !lowTblCovers tbl kw then throw "css: lower-casing table does not cover the hyphenated keys"
    match css (lowerOf tbl) collapse kw with
    | .error e => pure ("err " ++ encErr e)
    | .ok none => pure "ok N"
    | .ok (some s) =>
      let acc := match addStyle cfg [] (.str s) false with
        | .ok _ => true
        | .error _ => false
      pure ("ok S " ++ encStr s ++ " " ++ encBool acc)
  | _ => none

end HtmlVerif.Ops
