/-
End-tag neutralisation (C13): after it no `</` is left, it commutes with the printer (it only ever acts
inside string bodies), and the neutralised body is still read back as the same string.
-/
import HtmlVerif.Lemmas.JsonVal
import HtmlVerif.Spec.EndTag

namespace HtmlVerif

/-! ### no `</` survives -/

/-- some `<` is immediately followed by `/` -/
def hasLtSlash : Str → Bool
  | [] => false
  | c :: r => (c == '<' && r.head? == some '/') || hasLtSlash r

theorem neutG_head_slash (p : Bool) (s : Str) (h : (neutG p s).head? = some '/') : p = false := by
  cases s with
  | nil => simp [neutG] at h
  | cons c r =>
    cases p with
    | false => rfl
    | true =>
      by_cases hc : c = '/'
      · subst hc; simp [neutG] at h
      · simp [neutG, hc] at h

theorem neutG_no_lt_slash (p : Bool) (s : Str) : hasLtSlash (neutG p s) = false := by
  induction s generalizing p with
  | nil => rfl
  | cons c r ih =>
    by_cases hpc : (p && c == '/') = true
    · simp [neutG, hpc, hasLtSlash, ih]
    · have hpc' : (p && c == '/') = false := by simpa using hpc
      simp only [neutG, hpc', Bool.false_eq_true, if_false, List.cons_append, List.nil_append, hasLtSlash, ih,
        Bool.or_false]
      by_cases hc : c = '<'
      · subst hc
        cases hh : (neutG ('<' == '<') r).head? == some '/' with
        | false => simp
        | true =>
          have := neutG_head_slash _ _ (by simpa using hh)
          simp at this
      · simp [hc]

theorem hasLtSlash_of_infix (s : Str) (h : ['<', '/'] <:+: s) : hasLtSlash s = true := by
  obtain ⟨pre, post, rfl⟩ := h
  induction pre with
  | nil => simp [hasLtSlash]
  | cons c cs ih => simp only [List.cons_append, hasLtSlash]; simp at ih; simp [hasLtSlash, ih]

/-- after neutralisation the two-character sequence `</` does not occur anywhere -/
theorem neutralise_no_lt_slash (s : Str) : ¬ ['<', '/'] <:+: neutralise s := by
  intro h
  have := hasLtSlash_of_infix _ h
  rw [neutralise, neutG_no_lt_slash] at this
  exact Bool.noConfusion this

theorem ciEq_lt (c : Char) (h : ciEq '<' c = true) : c = '<' := by
  have : c.toNat = 60 := by
    simp only [ciEq, Bool.or_eq_true, beq_iff_eq, Bool.and_eq_true, decide_eq_true_eq] at h
    rcases h with h | ⟨⟨h, _⟩, _⟩
    · exact h
    · exact absurd h (by decide)
  exact Char.toNat_inj.mp this

theorem ciEq_slash (c : Char) (h : ciEq '/' c = true) : c = '/' := by
  have : c.toNat = 47 := by
    simp only [ciEq, Bool.or_eq_true, beq_iff_eq, Bool.and_eq_true, decide_eq_true_eq] at h
    rcases h with h | ⟨⟨h, _⟩, _⟩
    · exact h
    · exact absurd h (by decide)
  exact Char.toNat_inj.mp this

theorem ciIsPrefix_endTag (s : Str) (h : ciIsPrefix endTagLike s = true) :
    ∃ r, s = '<' :: '/' :: r := by
  match s, h with
  | c1 :: c2 :: r, h =>
    simp only [endTagLike, ciIsPrefix, Bool.and_eq_true] at h
    exact ⟨r, by rw [ciEq_lt c1 h.1, ciEq_slash c2 h.2.1]⟩
  | [_], h => simp [endTagLike, ciIsPrefix] at h
  | [], h => simp [endTagLike, ciIsPrefix] at h

theorem hasEndTagLike_imp (s : Str) (h : hasEndTagLike s = true) : hasLtSlash s = true := by
  induction s with
  | nil => simp [hasEndTagLike] at h
  | cons c cs ih =>
    simp only [hasEndTagLike, Bool.or_eq_true] at h
    rcases h with h | h
    · obtain ⟨r, e⟩ := ciIsPrefix_endTag _ h
      rw [e]; simp [hasLtSlash]
    · simp [hasLtSlash, ih h]

theorem hasEndTagLike_drop (s : Str) (h : hasEndTagLike s = false) (k : Nat) :
    ciIsPrefix endTagLike (s.drop k) = false := by
  induction s generalizing k with
  | nil => simp [endTagLike, ciIsPrefix]
  | cons c cs ih =>
    simp only [hasEndTagLike, Bool.or_eq_false_iff] at h
    cases k with
    | zero => simpa using h.1
    | succ k => simpa using ih h.2 k

/-- no end-tag-like `</script`, in any letter case, anywhere in a neutralised text -/
theorem neutralise_no_end_tag (s : Str) : hasEndTagLike (neutralise s) = false := by
  cases h : hasEndTagLike (neutralise s) with
  | false => rfl
  | true =>
    have := hasEndTagLike_imp _ h
    rw [neutralise, neutG_no_lt_slash] at this
    exact Bool.noConfusion this

/-! ### the pass acts piecewise -/

theorem neutG_append (p : Bool) (a : Str) : ∃ q, ∀ b, neutG p (a ++ b) = neutG p a ++ neutG q b := by
  induction a generalizing p with
  | nil => exact ⟨p, fun b => rfl⟩
  | cons c r ih =>
    obtain ⟨q, hq⟩ := ih (c == '<')
    exact ⟨q, fun b => by simp [neutG, hq]⟩

theorem neutG_cons_ne (p : Bool) (c : Char) (X : Str) (h : c ≠ '/') : neutG p (c :: X) = c :: neutG (c == '<') X := by
  simp [neutG, h]

/-- a piece without `<` is copied and leaves the flag down -/
theorem neutG_plain (L rest : Str) (h : ∀ c ∈ L, c ≠ '<') : neutG false (L ++ rest) = L ++ neutG false rest := by
  induction L with
  | nil => rfl
  | cons c r ih =>
    have hc : c ≠ '<' := h c (by simp)
    have hr : ∀ d ∈ r, d ≠ '<' := fun d hd => h d (by simp [hd])
    have hb : (c == '<') = false := by simp [hc]
    simp [neutG, hb, ih hr]

/-- a piece without `/` is copied -/
theorem neutG_noSlash (L : Str) (h : ∀ c ∈ L, c ≠ '/') (p : Bool) : ∃ q, ∀ X, neutG p (L ++ X) = L ++ neutG q X := by
  induction L generalizing p with
  | nil => exact ⟨p, fun X => rfl⟩
  | cons c r ih =>
    have hc : c ≠ '/' := h c (by simp)
    obtain ⟨q, hq⟩ := ih (fun d hd => h d (by simp [hd])) (c == '<')
    exact ⟨q, fun X => by simp [neutG, hc, hq]⟩

theorem neutG_length (p : Bool) (s : Str) : s.length ≤ (neutG p s).length := by
  induction s generalizing p with
  | nil => simp [neutG]
  | cons c r ih =>
    have := ih (c == '<')
    simp only [neutG, List.length_append, List.length_cons]
    split <;> simp <;> omega

/-! ### the neutralised string body is still read back -/

theorem hexDigit_ne_fin : ∀ d : Fin 16, hexDigit d.val ≠ '/' ∧ hexDigit d.val ≠ '<' ∧ hexDigit d.val ≠ '='
    ∧ hexDigit d.val ≠ '"' := by decide

theorem hex4_mem (n : Nat) (c : Char) (h : c ∈ hex4 n) : c ≠ '/' ∧ c ≠ '<' ∧ c ≠ '=' ∧ c ≠ '"' := by
  simp only [hex4, List.mem_cons, List.not_mem_nil, or_false] at h
  rcases h with rfl | rfl | rfl | rfl
  · exact hexDigit_ne_fin ⟨n / 4096 % 16, Nat.mod_lt _ (by decide)⟩
  · exact hexDigit_ne_fin ⟨n / 256 % 16, Nat.mod_lt _ (by decide)⟩
  · exact hexDigit_ne_fin ⟨n / 16 % 16, Nat.mod_lt _ (by decide)⟩
  · exact hexDigit_ne_fin ⟨n % 16, Nat.mod_lt _ (by decide)⟩

theorem uEsc_mem (n : Nat) (c : Char) (h : c ∈ uEsc n) : c ≠ '/' ∧ c ≠ '<' ∧ c ≠ '=' ∧ c ≠ '"' := by
  simp only [uEsc, List.mem_cons] at h
  rcases h with rfl | rfl | h
  · decide
  · decide
  · exact hex4_mem n c h

/-- the characters an escape can contain: only the character itself can bring in `/`, `<` or `=` -/
theorem escChar_mem (c x : Char) (h : x ∈ escChar c) :
    (x ≠ '/' ∧ x ≠ '<' ∧ x ≠ '=') ∨ (x = c ∧ escChar c = [c]) := by
  unfold escChar at h ⊢
  by_cases h1 : c = '"'
  · subst h1; simp at h; rcases h with rfl | rfl <;> exact Or.inl (by decide)
  by_cases h2 : c = '\\'
  · subst h2; simp at h; subst h; exact Or.inl (by decide)
  by_cases h3 : c = '\n'
  · subst h3; simp at h; rcases h with rfl | rfl <;> exact Or.inl (by decide)
  by_cases h4 : c = '\r'
  · subst h4; simp at h; rcases h with rfl | rfl <;> exact Or.inl (by decide)
  by_cases h5 : c = '\t'
  · subst h5; simp at h; rcases h with rfl | rfl <;> exact Or.inl (by decide)
  by_cases h6 : c = Char.ofNat 8
  · subst h6; simp at h; rcases h with rfl | rfl <;> exact Or.inl (by decide)
  by_cases h7 : c = Char.ofNat 12
  · subst h7; simp at h; rcases h with rfl | rfl <;> exact Or.inl (by decide)
  simp only [h1, h2, h3, h4, h5, h6, h7, if_false] at h ⊢
  by_cases hp : 0x20 ≤ c.toNat ∧ c.toNat ≤ 0x7E
  · simp only [hp, if_true] at h ⊢
    simp at h; exact Or.inr ⟨h, by simp⟩
  simp only [hp, if_false] at h ⊢
  by_cases hb : c.toNat < 0x10000
  · simp only [hb, if_true] at h
    have := uEsc_mem _ x h
    exact Or.inl ⟨this.1, this.2.1, this.2.2.1⟩
  · simp only [hb, if_false, List.mem_append] at h
    rcases h with h | h <;> (have := uEsc_mem _ x h; exact Or.inl ⟨this.1, this.2.1, this.2.2.1⟩)

theorem escChar_slash : escChar '/' = ['/'] := by decide

theorem strUnit?_slashEsc (tail : Str) : strUnit? ('\\' :: '/' :: tail) = some ('/', tail) := by
  simp [strUnit?, simpleEsc?]

theorem neutBody_parse (s rest : Str) (p : Bool) (f : Nat) (hf : s.length < f) :
    parseStrBody f (neutG p (escBody s) ++ '"' :: rest) = some (s, rest) := by
  induction s generalizing p f with
  | nil =>
    obtain ⟨f, rfl⟩ : ∃ g, f = g + 1 := ⟨f - 1, by simp at hf; omega⟩
    simp [escBody, neutG, parseStrBody]
  | cons c cs ih =>
    obtain ⟨f, rfl⟩ : ∃ g, f = g + 1 := ⟨f - 1, by simp at hf; omega⟩
    have hf' : cs.length < f := by simp at hf; omega
    have e : escBody (c :: cs) = escChar c ++ escBody cs := by simp [escBody]
    rw [e]
    by_cases hc : c = '/'
    · subst hc
      rw [escChar_slash]
      cases p with
      | false =>
        have e2 : neutG false (['/'] ++ escBody cs) ++ '"' :: rest
            = ['/'] ++ (neutG false (escBody cs) ++ '"' :: rest) := by simp [neutG]
        rw [e2, parseStrBody_step f _ _ '/' ⟨'/', [], rfl, by decide⟩ (by simp [strUnit?]), ih false f hf']
        rfl
      | true =>
        have e2 : neutG true (['/'] ++ escBody cs) ++ '"' :: rest
            = ['\\', '/'] ++ (neutG false (escBody cs) ++ '"' :: rest) := by simp [neutG]
        rw [e2, parseStrBody_step f _ _ '/' ⟨'\\', ['/'], rfl, by decide⟩ (strUnit?_slashEsc _), ih false f hf']
        rfl
    · have hns : ∀ x ∈ escChar c, x ≠ '/' := by
        intro x hx
        rcases escChar_mem c x hx with h | ⟨h, _⟩
        · exact h.1
        · rw [h]; exact hc
      obtain ⟨q, hq⟩ := neutG_noSlash (escChar c) hns p
      rw [hq, List.append_assoc,
        parseStrBody_step f _ _ c (escChar_head c) (strUnit?_esc c _), ih q f hf']
      rfl

/-- the string-body encoder "escape, then neutralise end tags" -/
def neutBody (s : Str) : Str := neutralise (escBody s)

theorem neutBody_ok : BodyOK neutBody := fun s rest f hf =>
  neutBody_parse s rest false f
    (Nat.lt_of_le_of_lt (Nat.le_trans (escBody_length s) (neutG_length false (escBody s))) hf)

/-! ### the pass commutes with the printer -/

theorem nlInd_noLt (ind : Option Nat) (lvl : Nat) : ∀ c ∈ nlInd ind lvl, c ≠ '<' := by
  intro c hc
  cases ind with
  | none => simp [nlInd] at hc
  | some n =>
    simp only [nlInd, List.mem_cons, List.mem_replicate] at hc
    rcases hc with rfl | ⟨_, rfl⟩ <;> decide

theorem neutG_nlInd (ind : Option Nat) (lvl : Nat) (X : Str) :
    neutG false (nlInd ind lvl ++ X) = nlInd ind lvl ++ neutG false X :=
  neutG_plain _ _ (nlInd_noLt ind lvl)

theorem neutG_itemSep (ind : Option Nat) (lvl : Nat) (X : Str) :
    neutG false (itemSep ind lvl ++ X) = itemSep ind lvl ++ neutG false X := by
  refine neutG_plain _ _ ?_
  intro c hc
  cases ind with
  | none => simp [itemSep] at hc; rcases hc with rfl | rfl <;> decide
  | some n =>
    simp only [itemSep, List.mem_cons] at hc
    rcases hc with rfl | hc
    · decide
    · exact nlInd_noLt (some n) lvl c hc

theorem neutG_strLit (enc : Str → Str) (s X : Str) :
    neutG false (strLit enc s ++ X) = strLit (fun s => neutralise (enc s)) s ++ neutG false X := by
  obtain ⟨q, hq⟩ := neutG_append false (enc s)
  have : strLit enc s ++ X = '"' :: (enc s ++ '"' :: X) := by simp [strLit]
  rw [this, neutG_cons_ne _ _ _ (by decide), show ('"' == '<') = false from rfl, hq,
    neutG_cons_ne _ _ _ (by decide), show ('"' == '<') = false from rfl]
  simp [strLit, neutralise]

mutual
  theorem neutG_printVal (enc : Str → Str) (ind : Option Nat) :
      ∀ (v : Json) (lvl : Nat) (rest : Str),
        neutG false (printVal enc ind lvl v ++ rest)
          = printVal (fun s => neutralise (enc s)) ind lvl v ++ neutG false rest
    | .null, _, rest => by
      simpa [printVal] using neutG_plain ['n', 'u', 'l', 'l'] rest (by decide)
    | .bool true, _, rest => by
      simpa [printVal] using neutG_plain ['t', 'r', 'u', 'e'] rest (by decide)
    | .bool false, _, rest => by
      simpa [printVal] using neutG_plain ['f', 'a', 'l', 's', 'e'] rest (by decide)
    | .str s, _, rest => by
      simpa [printVal] using neutG_strLit enc s rest
    | .arr xs, lvl, rest => by
      have h := neutG_printElems enc ind xs lvl true (']' :: rest)
      have h2 : neutG false (']' :: rest) = ']' :: neutG false rest := neutG_cons_ne _ _ _ (by decide)
      have e : printVal enc ind lvl (.arr xs) ++ rest = '[' :: (printElems enc ind lvl true xs ++ ']' :: rest) := by
        simp [printVal]
      rw [e, neutG_cons_ne _ _ _ (by decide), show ('[' == '<') = false from rfl, h, h2]
      simp [printVal]
    | .obj ms, lvl, rest => by
      have h := neutG_printMems enc ind ms lvl true ('}' :: rest)
      have h2 : neutG false ('}' :: rest) = '}' :: neutG false rest := neutG_cons_ne _ _ _ (by decide)
      have e : printVal enc ind lvl (.obj ms) ++ rest = '{' :: (printMems enc ind lvl true ms ++ '}' :: rest) := by
        simp [printVal]
      rw [e, neutG_cons_ne _ _ _ (by decide), show ('{' == '<') = false from rfl, h, h2]
      simp [printVal]
  theorem neutG_printElems (enc : Str → Str) (ind : Option Nat) :
      ∀ (xs : JList) (lvl : Nat) (first : Bool) (rest : Str),
        neutG false (printElems enc ind lvl first xs ++ rest)
          = printElems (fun s => neutralise (enc s)) ind lvl first xs ++ neutG false rest
    | .nil, lvl, first, rest => by
      cases first
      · simpa [printElems] using neutG_nlInd ind lvl rest
      · simp [printElems]
    | .cons h t, lvl, first, rest => by
      have hv := neutG_printVal enc ind h (lvl + 1) (printElems enc ind lvl false t ++ rest)
      have ht := neutG_printElems enc ind t lvl false rest
      cases first
      · have e : printElems enc ind lvl false (.cons h t) ++ rest
            = itemSep ind (lvl + 1) ++ (printVal enc ind (lvl + 1) h ++ (printElems enc ind lvl false t ++ rest)) := by
          simp [printElems]
        rw [e, neutG_itemSep, hv, ht]; simp [printElems]
      · have e : printElems enc ind lvl true (.cons h t) ++ rest
            = nlInd ind (lvl + 1) ++ (printVal enc ind (lvl + 1) h ++ (printElems enc ind lvl false t ++ rest)) := by
          simp [printElems]
        rw [e, neutG_nlInd, hv, ht]; simp [printElems]
  theorem neutG_printMems (enc : Str → Str) (ind : Option Nat) :
      ∀ (ms : JMems) (lvl : Nat) (first : Bool) (rest : Str),
        neutG false (printMems enc ind lvl first ms ++ rest)
          = printMems (fun s => neutralise (enc s)) ind lvl first ms ++ neutG false rest
    | .nil, lvl, first, rest => by
      cases first
      · simpa [printMems] using neutG_nlInd ind lvl rest
      · simp [printMems]
    | .cons k v t, lvl, first, rest => by
      have hv := neutG_printVal enc ind v (lvl + 1) (printMems enc ind lvl false t ++ rest)
      have ht := neutG_printMems enc ind t lvl false rest
      have hk := neutG_strLit enc k (':' :: ' ' :: (printVal enc ind (lvl + 1) v ++ (printMems enc ind lvl false t ++ rest)))
      have hcs : neutG false (':' :: ' ' :: (printVal enc ind (lvl + 1) v ++ (printMems enc ind lvl false t ++ rest)))
          = ':' :: ' ' :: neutG false (printVal enc ind (lvl + 1) v ++ (printMems enc ind lvl false t ++ rest)) :=
        neutG_plain [':', ' '] _ (by decide)
      cases first
      · have e : printMems enc ind lvl false (.cons k v t) ++ rest
            = itemSep ind (lvl + 1) ++ (strLit enc k ++ ':' :: ' ' :: (printVal enc ind (lvl + 1) v
                ++ (printMems enc ind lvl false t ++ rest))) := by
          simp [printMems]
        rw [e, neutG_itemSep, hk, hcs, hv, ht]; simp [printMems]
      · have e : printMems enc ind lvl true (.cons k v t) ++ rest
            = nlInd ind (lvl + 1) ++ (strLit enc k ++ ':' :: ' ' :: (printVal enc ind (lvl + 1) v
                ++ (printMems enc ind lvl false t ++ rest))) := by
          simp [printMems]
        rw [e, neutG_nlInd, hk, hcs, hv, ht]; simp [printMems]
end

/-- neutralising the dumped text is printing with the neutralised string bodies -/
theorem neutralise_jsonPrint (ind : Option Nat) (v : Json) :
    neutralise (jsonPrint ind v) = printVal neutBody ind 0 v := by
  have := neutG_printVal escBody ind v 0 []
  simp only [List.append_nil, neutG] at this
  exact this

end HtmlVerif
