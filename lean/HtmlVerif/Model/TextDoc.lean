/-
HTMLTextDocument (_core.py:1219-1355), the serialised element (_core.py:1675-1696) and the JSON render
mode of `_render_tag_or_taglist` (_core.py:995-1012).

The regex `OPEN((?:.|\r|\n)*?)CLOSE` of `_static_extract_serialized_html_deps` is modelled as: leftmost
occurrence of the literal OPEN, then the first literal CLOSE after it, repeat after the match; when no CLOSE
follows an OPEN there is no further match (every later OPEN has no CLOSE after it either).
-/
import HtmlVerif.Model.Json

namespace HtmlVerif

/-- `<script type="application/json" data-html-dependency="">` -/
def openMarker : Str :=
  ['<', 's', 'c', 'r', 'i', 'p', 't', ' ', 't', 'y', 'p', 'e', '=', '"', 'a', 'p', 'p', 'l', 'i', 'c', 'a', 't',
   'i', 'o', 'n', '/', 'j', 's', 'o', 'n', '"', ' ', 'd', 'a', 't', 'a', '-', 'h', 't', 'm', 'l', '-', 'd', 'e',
   'p', 'e', 'n', 'd', 'e', 'n', 'c', 'y', '=', '"', '"', '>']

/-- `</script>` -/
def closeMarker : Str := ['<', '/', 's', 'c', 'r', 'i', 'p', 't', '>']

/-! ### the serialised element -/

/-- the text between the tags: `json.dumps(res, indent=indent)` with end tags neutralised -/
def serBody (ind : Option Nat) (d : SDep) : Str := neutralise (jsonPrint ind (depToJson d))

/-- `dep.serialize_to_script_json(indent).get_html_string()` -/
def tdSerialize (ind : Option Nat) (d : SDep) : Str := openMarker ++ serBody ind d ++ closeMarker

/-- `Tag("script", text, type="application/json", data_html_dependency=True)` -/
def serNode (ind : Option Nat) (d : SDep) : Node :=
  .tag ['s', 'c', 'r', 'i', 'p', 't'] true
    [(['t', 'y', 'p', 'e'], .plain ['a', 'p', 'p', 'l', 'i', 'c', 'a', 't', 'i', 'o', 'n', '/', 'j', 's', 'o', 'n']),
     (['d', 'a', 't', 'a', '-', 'h', 't', 'm', 'l', '-', 'd', 'e', 'p', 'e', 'n', 'd', 'e', 'n', 'c', 'y'], .plain [])]
    (.cons (.text (serBody ind d)) .nil)

/-- the record of a dependency node: `head` rendered by `TagList(self.head).get_html_string()` -/
def sdepOfNode (cfg : Cfg) (d : DepInfo) (hasHead : Bool) (head : Nodes) : SDep :=
  { info := d, head := if hasHead then some (renderList cfg head 0 ['\n'] true true) else none }

/-- `t₀ ++ ser d₁ ++ t₁ ++ … ++ ser dₙ ++ tₙ`: serialised copies (indent, dependency) interleaved with text -/
def interleave (t0 : Str) : List (Option Nat × SDep × Str) → Str
  | [] => t0
  | (i, d, t) :: r => t0 ++ tdSerialize i d ++ interleave t r

/-! ### scanning -/

/-- leftmost occurrence of `pat`: the text before it and the text after it -/
def findSub (pat : Str) : Str → Option (Str × Str)
  | [] => if pat.isEmpty then some ([], []) else none
  | c :: r =>
    if pat.isPrefixOf (c :: r) then some ([], (c :: r).drop pat.length)
    else
      match findSub pat r with
      | some (b, a) => some (c :: b, a)
      | none => none

/-- `re.sub(pattern, "", html)` and `re.findall(pattern, html)` in one pass: remaining text, bodies -/
def scan : Nat → Str → Str × List Str
  | 0, s => (s, [])
  | f + 1, s =>
    match findSub openMarker s with
    | none => (s, [])
    | some (pre, rest) =>
      match findSub closeMarker rest with
      | none => (s, [])
      | some (body, post) =>
        let r := scan f post
        (pre ++ r.1, body :: r.2)

/-- the `seen_deps` loop: skip a body already seen -/
def dedupGo (seen : List Str) : List Str → List Str
  | [] => []
  | b :: r => if seen.contains b then dedupGo seen r else b :: dedupGo (b :: seen) r

def tdDedupKeepFirst (bs : List Str) : List Str := dedupGo [] bs

/-- `HTMLDependency(**json.loads(dep_str))` (JSONDecodeError is a ValueError) -/
def recover (body : Str) : Except Err SDep :=
  match jsonParse body with
  | none => .error .valueError
  | some j => depOfJson j

def recoverAll : List Str → Except Err (List SDep)
  | [] => .ok []
  | b :: r =>
    match recover b with
    | .error e => .error e
    | .ok d =>
      match recoverAll r with
      | .error e => .error e
      | .ok ds => .ok (d :: ds)

/-- `_static_extract_serialized_html_deps(html)` -/
def extract (html : Str) : Except Err (Str × List SDep) :=
  let r := scan html.length html
  match recoverAll (tdDedupKeepFirst r.2) with
  | .ok ds => .ok (r.1, ds)
  | .error e => .error e

/-! ### HTMLTextDocument -/

/-- `HTMLTextDocument(html, deps, deps_replace_pattern)`: (`_html`, `_deps`) -/
def textDocInit (html : Str) (deps : Option (List SDep)) (ph : Option Str) : Except Err (Str × List SDep) :=
  if ph.isNone && deps.isSome then .error .valueError else
  match extract html with
  | .ok (h, ds) => .ok (h, deps.getD [] ++ ds)
  | .error e => .error e

/-- `";".join(d.name + "[" + str(d.version) + "]" for d in deps)` -/
def listingText (ds : List SDep) : Str :=
  joinStr [';'] (ds.map fun d => d.info.name ++ '[' :: d.info.version ++ [']'])

/-- `Tag("script", listing, type="application/html-dependencies")` -/
def listingNode (ds : List SDep) : Node :=
  .tag ['s', 'c', 'r', 'i', 'p', 't'] true
    [(['t', 'y', 'p', 'e'], .plain ['a', 'p', 'p', 'l', 'i', 'c', 'a', 't', 'i', 'o', 'n', '/', 'h', 't', 'm', 'l', '-',
      'd', 'e', 'p', 'e', 'n', 'd', 'e', 'n', 'c', 'i', 'e', 's'])]
    (.cons (.text (listingText ds)) .nil)

def concatNodes : List Nodes → Nodes
  | [] => .nil
  | x :: r => x ++ concatNodes r

/-- what both `HTMLTextDocument.render` (into `dep_tags`) and `HTMLDocument._hoist_head_content` (at the end
    of `<head>`) append for a dependency list: the listing script when the list is not empty, then the
    flattened `as_html_tags` of every dependency.  `asTags` is `HTMLDependency.as_html_tags(lib_prefix=…,
    include_version=…)` flattened (`Model/DepTags.lean` after the merge). -/
def headNodes (asTags : SDep → Nodes) (ds : List SDep) : Nodes :=
  (if ds.isEmpty then Nodes.nil else .cons (listingNode ds) .nil) ++ concatNodes (ds.map asTags)

/-- `s.replace(pat, new, 1)` -/
def replaceFirst (pat new s : Str) : Str :=
  match findSub pat s with
  | some (b, a) => b ++ new ++ a
  | none => s

/-- `HTMLTextDocument.render()["html"]` given `_html`, `_deps`: `str.replace(None, …)` is a TypeError -/
def textDocRender (cfg : Cfg) (asTags : SDep → Nodes) (html : Str) (deps : List SDep) (ph : Option Str) :
    Except Err Str :=
  match ph with
  | none => .error .typeError
  | some p => .ok (replaceFirst p (renderList cfg (headNodes asTags deps) 0 ['\n'] true true) html)

/-! ### JSON render mode -/

/-- `_render_tag_or_taglist` in "json" mode, given the invisible-mode rendering and the resolved dependencies -/
def jsonModeStr (html : Str) (ds : List SDep) : Str :=
  html ++ joinStr ['\n'] (ds.map (tdSerialize none))

end HtmlVerif
