"""Implementation side of the source tie for C11 (harness/pytr_c11.py; DESIGN §14): the real `HTMLDocument._hoist_head_content`,
`_gen_html_tag_tree`, `render`, `__init__`, `append`, `Tag.render`, `Tag.insert / extend / append`, `TagAttrDict.__init__`, called as
*functions* (unbound, `self` = first value) on the realised values, for the ops `src` (ops_src.py) and `srcc11`.

  srcc11 [ (<marker> ok <pval> | <marker> err <Kind>)… ] <function> [ <pval>… ]

`HTMLDependency.as_html_tags` is not translated: what it answers is a parameter of the tie.  The table of the line gives the
answer for each dependency of the line (identified by the marker in its `meta`); here the dependencies are realised as
instances of a subclass whose `as_html_tags(lib_prefix=…, include_version=…)` returns / raises what the table says, so
that the real `_hoist_head_content` and the Lean translation are run against the same answers.

Values are realised / encoded in the shape of the embedding `embT` (Lemmas/SrcC10.lean), as in ops_src_c10.py.
"""
from __future__ import annotations

import ops_src
from ops import op
from wire import Toks, es, ds

#: marker -> ("ok", value) | ("err", exception class), for the line being evaluated
_TABLE: dict = {}
_RV = None
_DEP = None


def _rv():
    global _RV
    if _RV is None:
        from packaging.version import Version

        class RankedVersionC11(Version):       # `Version` has __slots__; a subclass instance can carry the rank
            pass

        _RV = RankedVersionC11
    return _RV


def _dep_cls():
    global _DEP
    if _DEP is None:
        import htmltools

        class DepC11(htmltools.HTMLDependency):
            """a dependency whose `as_html_tags` answers what the table of the line says"""

            def as_html_tags(self, *, lib_prefix="lib", include_version=True):
                m = _marker(self)
                if m not in _TABLE:
                    raise LookupError("dependency not in the table of the line")
                kind, v = _TABLE[m]
                if kind == "err":
                    raise v("as_html_tags (table)")
                return v

        _DEP = DepC11
    return _DEP


def _marker(d):
    try:
        return d.meta[0]["content"]
    except Exception:  # noqa: BLE001
        return None


def _mk_version(f):
    v = _rv()(f["text"])
    v._srctie_rank = f.get("rank")
    return v


def _mk_dep(f):
    d = _dep_cls()("d", "1.0", meta=f.get("meta"))
    if "name" in f:
        d.name = f["name"]
    else:
        del d.name
    if "version" in f:
        d.version = f["version"]
    else:
        del d.version
    return d


def _mk_meta(f):
    import htmltools
    m = htmltools.MetadataNode()
    if "id" in f:
        m._srctie_id = f["id"]
    return m


class _TagifyObjC11:
    """an instance of a class outside the library whose `tagify()` returns the recorded value"""

    def __init__(self, result):
        self._result = result

    def tagify(self):
        return self._result


class _TagifyObjReprC11(_TagifyObjC11):
    def __init__(self, result, text):
        self._result = result
        self._t = text

    def _repr_html_(self):
        return self._t


def _mk_tobj(f):
    if "_repr_html_" in f:
        return _TagifyObjReprC11(f.get("tagify"), f["_repr_html_"])
    return _TagifyObjC11(f.get("tagify"))


def _mk_doc(f):
    import htmltools
    d = htmltools.HTMLDocument.__new__(htmltools.HTMLDocument)
    for k, v in f.items():
        setattr(d, k, v)
    return d


def _mk_tag(f):
    """a Tag with exactly the recorded fields (a missing field is a missing attribute)"""
    import htmltools
    tg = htmltools.Tag.__new__(htmltools.Tag)
    for k, v in f.items():
        if k == "attrs" and type(v) is dict:
            a = htmltools._core.TagAttrDict()
            dict.update(a, v)
            v = a
        setattr(tg, k, v)
    if "name" in f and "attrs" in f and "children" in f and "add_ws" in f:
        tg.prev_displayhook = None
    return tg


def _mk_taglist(f):
    import htmltools
    tl = htmltools.TagList.__new__(htmltools.TagList)
    if "data" in f:
        tl.data = list(f["data"]) if isinstance(f["data"], list) else f["data"]
    return tl


R = ops_src.REALIZE
R["Version"] = _mk_version
R["HTMLDependency"] = _mk_dep
R["MetadataNode"] = _mk_meta
R["TagifyObj"] = _mk_tobj
R["HTMLDocument"] = _mk_doc
R["Tag"] = _mk_tag
R["TagList"] = _mk_taglist


def _enc(v, enc):
    import htmltools
    t = type(v)
    if _RV is not None and t is _RV:
        return "O Version [ rank " + enc(getattr(v, "_srctie_rank", None)) + " text S " + es(str(v)) + " ]"
    if _DEP is not None and t is _DEP:
        d = vars(v)
        return ("O HTMLDependency [ " + ("name " + enc(d["name"]) + " " if "name" in d else "")
                + ("version " + enc(d["version"]) + " " if "version" in d else "") + "meta " + enc(v.meta) + " ]")
    if t is htmltools.MetadataNode:
        if hasattr(v, "_srctie_id"):
            return "O MetadataNode [ id " + enc(v._srctie_id) + " ]"
        return None
    if t is _TagifyObjReprC11:
        return "O TagifyObj [ tagify " + enc(v._result) + " _repr_html_ S " + es(v._t) + " ]"
    if t is _TagifyObjC11:
        return "O TagifyObj [ tagify " + enc(v._result) + " ]"
    if t is htmltools.Tag:
        # the four fields in the order of the embedding (`Tag.__init__` assigns add_ws before attrs; the order of
        # `__dict__` is not part of what `mkTagC11` states), then whatever else the instance carries
        d = vars(v)
        order = [k for k in ("name", "attrs", "children", "add_ws") if k in d] + \
                [k for k in d if k not in ("name", "attrs", "children", "add_ws", "prev_displayhook")]
        return "O Tag [ " + "".join(f"{k} " + enc(dict(d[k]) if k == "attrs" and isinstance(d[k], dict) else d[k]) + " "
                                    for k in order) + "]"
    if t is htmltools.TagList:
        return "O TagList [ " + (("data " + enc(v.data) + " ") if "data" in vars(v) else "") + "]"
    if t is htmltools._core.TagAttrDict:
        return enc(dict(v))
    if t is htmltools.HTMLDocument:
        d = vars(v)
        return "O HTMLDocument [ " + "".join(f"{k} " + enc(d[k]) + " " for k in d) + "]"
    if t is ops_src._Repr:
        return "O ReprObj [ _repr_html_ S " + es(v._t) + " ]"
    return None


ops_src.ENCODE.append(_enc)


def _core():
    from htmltools import _core
    return _core


def _tad_init(a):
    d = _core().TagAttrDict()
    dict.update(d, a[0])
    _core().TagAttrDict.__init__(d, *a[1], **a[2])
    return dict(d)


def _ret_self(f):
    def call(a):
        f(a)
        return a[0]
    return call


C = ops_src.CALLS
C["TagAttrDict_initC11"] = _tad_init
C["Tag_insertC11"] = _ret_self(lambda a: _core().Tag.insert(a[0], a[1], a[2]))
C["Tag_extendC11"] = _ret_self(lambda a: _core().Tag.extend(a[0], a[1]))
C["Tag_appendC11"] = _ret_self(lambda a: _core().Tag.append(a[0], *a[1]))
C["HTMLDocument_hoist_head_contentC11"] = lambda a: _core().HTMLDocument._hoist_head_content(a[0], a[1], a[2])
C["HTMLDocument_gen_html_tag_treeC11"] = lambda a: _core().HTMLDocument._gen_html_tag_tree(a[0], a[1], a[2])
C["Tag_renderC11"] = lambda a: _core().Tag.render(a[0])
C["HTMLDocument_renderC11"] = lambda a: _core().HTMLDocument.render(a[0], lib_prefix=a[1], include_version=a[2])
C["HTMLDocument_initC11"] = _ret_self(lambda a: _core().HTMLDocument.__init__(a[0], *a[1], **a[2]))
C["HTMLDocument_appendC11"] = _ret_self(lambda a: _core().HTMLDocument.append(a[0], *a[1]))

_EXC = {"TypeError": TypeError, "ValueError": ValueError, "KeyError": KeyError, "IndexError": IndexError,
        "AttributeError": AttributeError, "RuntimeError": RuntimeError, "NotImplementedError": NotImplementedError,
        "Exception": Exception}


@op("srcc11")
def _srcc11(t: Toks) -> str:
    global _TABLE
    ops_src._load_plugins()
    me = __name__
    saved = (ops_src.REALIZE, ops_src.ENCODE)
    if me in ops_src.AREAS:
        _, ops_src.REALIZE, ops_src.ENCODE = ops_src.AREAS[me]
    try:
        assert t.next() == "["
        table = {}
        while t.peek() != "]":
            m = ds(t.next())
            k = t.next()
            if k == "ok":
                table[m] = ("ok", ops_src.p_pval(t))
            else:
                table[m] = ("err", _EXC[t.next()])
        t.next()
        _TABLE = table
        return ops_src._src(t)
    finally:
        _TABLE = {}
        ops_src.REALIZE, ops_src.ENCODE = saved
