/-
Helper lemmas for C12 about the ordered-dict operations of Model/DepTags.lean.
-/
import HtmlVerif.Model.DepTags

namespace HtmlVerif

theorem alookup_kvSet (k v : Str) (s : KVs) : alookup k (kvSet k v s) = some v := by
  induction s with
  | nil => simp [kvSet, alookup]
  | cons e s ih =>
    obtain ⟨k', v'⟩ := e
    by_cases h : k' = k
    · simp [kvSet, alookup, h]
    · simp [kvSet, alookup, h, ih]

theorem alookup_kvSet_ne (k k' v : Str) (s : KVs) (h : k' ≠ k) : alookup k' (kvSet k v s) = alookup k' s := by
  induction s with
  | nil => simp [kvSet, alookup, h.symm]
  | cons e s ih =>
    obtain ⟨k'', v''⟩ := e
    by_cases h1 : k'' = k
    · subst h1; simp [kvSet, alookup, h.symm]
    · by_cases h2 : k'' = k'
      · subst h2; simp [kvSet, alookup, h1]
      · simp [kvSet, alookup, h1, h2, ih]

end HtmlVerif
