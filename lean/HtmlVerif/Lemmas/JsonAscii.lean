/-
`ensure_ascii`: everything `json.dumps` writes for a string is printable ASCII.
-/
import HtmlVerif.Lemmas.JsonStr

namespace HtmlVerif

def Printable (x : Char) : Prop := 0x20 ≤ x.toNat ∧ x.toNat ≤ 0x7E

instance (x : Char) : Decidable (Printable x) := by unfold Printable; infer_instance

theorem hexDigit_printable_fin : ∀ d : Fin 16, 0x20 ≤ (hexDigit d.val).toNat ∧ (hexDigit d.val).toNat ≤ 0x7E := by decide

theorem uEsc_printable (n : Nat) (x : Char) (h : x ∈ uEsc n) : Printable x := by
  simp only [uEsc, hex4, List.mem_cons, List.not_mem_nil, or_false] at h
  rcases h with rfl | rfl | rfl | rfl | rfl | rfl
  · decide
  · decide
  · exact hexDigit_printable_fin ⟨n / 4096 % 16, Nat.mod_lt _ (by decide)⟩
  · exact hexDigit_printable_fin ⟨n / 256 % 16, Nat.mod_lt _ (by decide)⟩
  · exact hexDigit_printable_fin ⟨n / 16 % 16, Nat.mod_lt _ (by decide)⟩
  · exact hexDigit_printable_fin ⟨n % 16, Nat.mod_lt _ (by decide)⟩

theorem escChar_printable (c x : Char) (h : x ∈ escChar c) : Printable x := by
  unfold escChar at h
  by_cases h1 : c = '"'
  · subst h1; simp at h; rcases h with rfl | rfl <;> decide
  by_cases h2 : c = '\\'
  · subst h2; simp at h; subst h; decide
  by_cases h3 : c = '\n'
  · subst h3; simp at h; rcases h with rfl | rfl <;> decide
  by_cases h4 : c = '\r'
  · subst h4; simp at h; rcases h with rfl | rfl <;> decide
  by_cases h5 : c = '\t'
  · subst h5; simp at h; rcases h with rfl | rfl <;> decide
  by_cases h6 : c = Char.ofNat 8
  · subst h6; simp at h; rcases h with rfl | rfl <;> decide
  by_cases h7 : c = Char.ofNat 12
  · subst h7; simp at h; rcases h with rfl | rfl <;> decide
  simp only [h1, h2, h3, h4, h5, h6, h7, if_false] at h
  by_cases hp : 0x20 ≤ c.toNat ∧ c.toNat ≤ 0x7E
  · simp only [hp] at h
    simp at h; rw [h]; exact hp
  simp only [hp, if_false] at h
  by_cases hb : c.toNat < 0x10000
  · simp only [hb, if_true] at h
    exact uEsc_printable _ x h
  · simp only [hb, if_false, List.mem_append] at h
    rcases h with h | h <;> exact uEsc_printable _ x h

theorem jsonStr_printable (s : Str) (x : Char) (h : x ∈ jsonStr s) : Printable x := by
  simp only [jsonStr, escBody, List.mem_cons, List.mem_append, List.mem_flatMap, List.not_mem_nil, or_false] at h
  rcases h with (rfl | ⟨c, _, hc⟩) | rfl
  · decide
  · exact escChar_printable c x hc
  · decide

end HtmlVerif
