#!/usr/bin/env python3
"""Record the function fingerprints of the source the model was last aligned with (harness/source_map.json).
A changed fingerprint is never a violation; it raises the correspondence budget (core.Check.budget) and is
listed in the evidence (`changed_functions`)."""
import json
import os
import sys
sys.path.insert(0, os.path.dirname(os.path.abspath(__file__)))
import translate
fp = translate.fingerprints()
json.dump(fp, open(os.path.join(os.path.dirname(os.path.abspath(__file__)), "source_map.json"), "w"), indent=0, sort_keys=True)
print(len(fp), "fingerprints")
