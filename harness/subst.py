"""Marker substitution (DESIGN §6 C02–C04): layout-independent evaluation of
"every content leaf / attribute value contributes exactly <emission> to the output"."""
from __future__ import annotations

import re

import core
from wire import Toks, p_list, p_str, enode, enodes, es, eb

MO, MC = "\ue000", "\ue001"
MARK_RE = re.compile(MO + r"(\d+)" + MC)


def M(k: int) -> str:
    return f"{MO}{k}{MC}"


def mark_node(n, ctr):
    """same traversal as Holds/Subst.lean: per tag attribute values first, then children"""
    k = n[0]
    if k == "tag":
        attrs = []
        for key, (kind, val) in n[3]:
            attrs.append((key, (kind, M(ctr[0]))))
            ctr[1].append((ctr[0], "a" if kind == "p" else "h", val))
            ctr[0] += 1
        kids = [mark_node(c, ctr) for c in n[4]]
        return ("tag", n[1], n[2], attrs, kids)
    if k in ("text", "html", "robj"):
        m = (k, M(ctr[0]))
        ctr[1].append((ctr[0], k, n[1]))
        ctr[0] += 1
        return m
    if k in ("tobjL", "tobj1") and n[1] is not None:
        m = (k, M(ctr[0]), n[2])
        ctr[1].append((ctr[0], k, n[1]))
        ctr[0] += 1
        return m
    return n


def mark_tree(n):
    ctr = [0, []]
    return mark_node(n, ctr), ctr[1]


def mark_list(ns):
    ctr = [0, []]
    return [mark_node(n, ctr) for n in ns], ctr[1]


def parse_contribs(ans: str):
    t = Toks(ans)

    def item(t):
        i = int(t.next())
        kind = t.next()
        return (i, kind, p_str(t))
    return p_list(t, item)


def substitute(marked_out: str, contribs) -> str:
    emit = {i: e for i, _, e in contribs}
    return MARK_RE.sub(lambda m: emit.get(int(m.group(1)), m.group(0)), marked_out)


def align(marked_out: str, real_out: str, max_slots: int = 40):
    """try to explain real_out as marked_out with *some* contents in the marker slots;
    returns {id: content} or None if no alignment exists (or too large to try)"""
    parts = MARK_RE.split(marked_out)  # S0, id1, S1, id2, ...
    ids = [int(x) for x in parts[1::2]]
    segs = parts[0::2]
    if len(ids) > max_slots:
        return None
    rx = "^" + re.escape(segs[0]) + "".join("(.*?)" + re.escape(s) for s in segs[1:]) + "$"
    m = re.match(rx, real_out, re.S)
    if not m:
        return None
    return {i: m.group(j + 1) for j, i in enumerate(ids)}


def check_cases(ck: core.Check, cases, kinds: set[str], prop_desc: str, direct=None):
    """cases: list of ('tag', node, indent, eol) | ('list', nodes, indent, eol, add_ws, esc).
    `kinds`: slot kinds this property is about ('t' escaped text, 'r' verbatim, 'a' plain attr, 'h' HTML attr)."""
    if ck.driver is None:
        return
    real_lines, marked_lines, contrib_lines = [], [], []
    for c in cases:
        if c[0] == "tag":
            _, n, i, e = c
            mn, _ = mark_tree(n)
            real_lines.append(f"render_tag {enode(n)} {i} {es(e)}")
            marked_lines.append(f"render_tag {enode(mn)} {i} {es(e)}")
            contrib_lines.append(f"contribs {enode(n)}")
        elif c[0] == "via":
            _, mode, n, i, e = c
            mn, _ = mark_tree(n)
            real_lines.append(f"render_tag_via {mode} {enode(n)} {i} {es(e)}")
            marked_lines.append(f"render_tag_via {mode} {enode(mn)} {i} {es(e)}")
            contrib_lines.append(f"contribs {enode(n)}")
        else:
            _, ns, i, e, aw, esc = c
            mns, _ = mark_list(ns)
            real_lines.append(f"render_list {enodes(ns)} {i} {es(e)} {eb(aw)} {eb(esc)}")
            marked_lines.append(f"render_list {enodes(mns)} {i} {es(e)} {eb(aw)} {eb(esc)}")
            contrib_lines.append(f"contribs_list {enodes(ns)} {eb(esc)}")
    real = core.impl_many(real_lines)
    marked = core.impl_many(marked_lines)
    contribs = ck.driver.run(contrib_lines)
    from wire import ds
    for line, r, m, cb in zip(real_lines, real, marked, contribs):
        ck.holds_checked += 1
        if not (r.startswith("ok ") and m.startswith("ok ")):
            if r != m:
                ck.failures.append(core.Failure("correspondence", line=line, impl=r, model=m,
                                                detail="rendering raised for the original or the marked tree only"))
            continue
        rs, ms = ds(r[3:]), ds(m[3:])
        cs = parse_contribs(cb)
        mine = [c for c in cs if c[1] in kinds]
        ck.tagc("slots_checked", len(mine))
        exp = substitute(ms, cs)
        if exp == rs:
            continue
        al = align(ms, rs)
        if al is not None:
            bad = [(i, k, e, al.get(i)) for (i, k, e) in cs if al.get(i) != e]
            badm = [b for b in bad if b[1] in kinds]
            if badm:
                i, k, e, got = badm[0]
                ck.py_violation(line, r, f"{prop_desc}: slot {i} (kind {k}) is emitted as {got!r}, the statement requires {e!r}",
                                py=f"marked rendering: {ms!r}")
            # slots of other kinds that differ belong to the sibling property (C02/C03/C04) and are reported there
            continue
        # no alignment: the layout itself depends on content -> skeleton correspondence broken; try the direct statement
        verdict = direct(line, rs) if direct else None
        if verdict is False:
            ck.py_violation(line, r, f"{prop_desc}: direct statement fails on the real output", py=f"marked rendering: {ms!r}")
        else:
            ck.failures.append(core.Failure("correspondence", line=line, impl=r, model="ok " + es(exp),
                                            detail="output is not the marked output with contents substituted (layout depends on content)"))


def ds_(tok: str) -> str:
    from wire import ds
    return ds(tok)
