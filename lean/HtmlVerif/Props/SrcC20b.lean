/-
Source tie (DESIGN §14) for the rest of htmltools/_jsx.py (C20): the Lean functions regenerated from the *text* of
`JSXTagAttrDict.__setitem__ / _update / update / __init__` and `JSXTag.__init__ / extend / append / __copy__`
(Generated/Src.lean, harness/pytr_c20b.py) compute, for every input, what the component model (Model/Jsx.lean) computes:

  JSXTagAttrDict.__setitem__   `JProps.set` under the normalised name (`normAttrName`, through the translated
                               `JSXTagAttrDict._normalize_attr_name`), the value kept as it is
  JSXTagAttrDict._update       `foldProps` on the receiver: the names of the mapping normalised one after the other, later
                               keys replace (the code normalises into a fresh dict first and then sets its items in the
                               receiver; `merge_mkPropsC20b` shows that this is the same)
  JSXTagAttrDict.update        every positional mapping in turn, then the keywords (`propsUpdateC20b`)
  JSXTagAttrDict.__init__      on a new instance: `mkProps` (what `C20_props_normalised` is about)
  JSXTag.__init__              `jsxInit`: NotImplementedError unless the initial of the last dotted piece of the name is its own
                               upper-case form (`str.upper` = `Globals.upperC20b`, the running interpreter's) and every keyword is
                               in a declared allow-list — also an empty one (`C20_allowed`, `C20_allowed_empty`,
                               `C20_lowercase_rejected`); otherwise the component with `name`, `attrs = mkProps kwargs` and
                               `children = TagList(*args)` (`C20_init`)
  JSXTag.extend / append       the translated `TagList.extend / append` on the `children` field, every other field untouched
  JSXTag.__copy__              the component itself (a value has no identity: what the copy buys — assigning into it leaves the
                               original alone — holds by construction; that the copy owns its containers is C20's purity
                               correspondence)

Scope of the statements, made explicit by their hypotheses:
  * `hkw : kwFreeC20b [self] kw`: no keyword is called `self` (Python would bind it to the parameter of
    `JSXTagAttrDict.__init__` / `update`, or raise "multiple values"; the translation states that binding — `pyKwRestC15b` —,
    the model does not have it);
  * children: `src_jsx_tag_init_genC20b` holds for *any* positional arguments and says that `children` is whatever the translated
    `TagList.__init__` answers for them (an exception included).  The statements in terms of the component model
    (`src_jsx_tag_initC20b`, `…_extendC20b`, `…_appendC20b`) are for children that are nodes of the model other than `jsx`
    strings (`noJsxKidsC20b`): the translations of `_core.py` use the base primitives, for which an instance has no special
    methods, so the translator routes every argument of a `TagList` call through `pyNoJsxArgsC20b` (`unsupported` for a `jsx`
    string).  On such children `TagList(*args)` stores the arguments as they are (`TagList_init_plainC20b`, proved from the
    regenerated `_tagchilds_to_tagnodes` / `flatten` / `_flatten_recurse` / `is_tag_node`);
  * a `JSXTagAttrDict` instance is carried as a dict; `__copy__` is stated for stored names without `_` (`copy.copy` of a
    JSXTagAttrDict re-normalises its names; every name `mkProps` stores is free of `_`: `mkProps_no_underscoreC20b`);
  * fuel: any fuel above the call depth.

No loop body is spelled out: the five loops (`_update`, `update`, the allow-list check, and — for the children — the loops of
`_flatten_recurse` and `_tagchilds_to_tagnodes`) are taken from the regenerated definitions by unification
(Lemmas/SrcC20b.lean: `kw_loop_kC20b`, `maps_loop_kC20b`, `allowed_loop_kC20b`, `append_loop_kC20b`, `inv_loop_kC20b`).
Every theorem takes `<fn>_available = true` for the function and for every translated function it calls and is vacuous (first
alternative) when a function has left the translatable fragment.
-/
import HtmlVerif.Generated.Src
import HtmlVerif.Lemmas.SrcC20b
import HtmlVerif.Props.SrcC20

set_option linter.unusedVariables false
set_option linter.unusedSimpArgs false

namespace HtmlVerif.SrcTie
open HtmlVerif HtmlVerif.Py HtmlVerif.Generated.Src HtmlVerif.JsxL

/-! ### JSXTagAttrDict -/

/-- `JSXTagAttrDict.__setitem__(name, value)` as the source has it: the value, as it is, under the normalised name — in
    place when the name is stored already, else at the end -/
theorem src_jsx_setitemC20b (h : JSXTagAttrDict_setitemC20b_available = true) (hn : JSX_normalize_attr_name_available = true)
    (G : Globals) (ι : Str → Option Int) (ps : JProps) (k : Str) (v : JVal) :
    JSXTagAttrDict_setitemC20b G (.dict (embJProps ι ps)) (.str k) (embJVal ι v)
      = .ok (.dict (embJProps ι (ps.set (normAttrName k) v))) := by
  first
  | exact absurd h (by decide)
  | (unfold JSXTagAttrDict_setitemC20b
     simp only [src_jsx_normalize_attr_name hn, ok_bind, pure_eq_ok, pySetItem, dictSet_embJPropsC20b])

/-- `JSXTagAttrDict._update(m)` as the source has it = `foldProps`: the names of `m` normalised one after the other into the
    receiver, values kept as they are, later keys replace -/
theorem src_jsx_updateMapC20b (h : JSXTagAttrDict_updateMapC20b_available = true) (hn : JSX_normalize_attr_name_available = true)
    (G : Globals) (ι : Str → Option Int) (cur : JProps) (kw : List (Str × JVal)) :
    JSXTagAttrDict_updateMapC20b G (.dict (embJProps ι cur)) (embKwC20b ι kw) = .ok (.dict (embJProps ι (foldProps cur kw))) := by
  first
  | exact absurd h (by decide)
  | skip
  all_goals (
    unfold JSXTagAttrDict_updateMapC20b
    simp only [embKwC20b, pyItems_dict, ok_bind, pure_eq_ok, pyIterJ_listC20b]
    refine kw_loop_kC20b ι kw .nil _ (by simp [Function.comp_def]) _ _ ?step _ _ ?k
    case step =>
      intro kv hkv s b hs
      obtain ⟨s1, s2⟩ := s
      simp only at hs
      subst hs
      simp only [pyUnpack2_tuple, ok_bind, src_jsx_normalize_attr_name hn, pySetItem, pure_eq_ok, dictSet_embJPropsC20b]
      exact ⟨_, rfl, rfl⟩
    case k =>
      intro s hs
      obtain ⟨s1, s2⟩ := s
      simp only at hs
      subst hs
      simp only [pyDictUpdateKwC20b, pyDictUpdate, pure_eq_ok, ok_bind, dictUpdate_embJPropsC20b]
      rw [show foldProps JProps.nil kw = mkProps kw from rfl, merge_mkPropsC20b])

/-- `JSXTagAttrDict.update(*args, **kwargs)` as the source has it: `_update` of every positional mapping, then of the
    keywords (also when there are none) -/
theorem src_jsx_updateC20b (h : JSXTagAttrDict_updateC20b_available = true) (hm : JSXTagAttrDict_updateMapC20b_available = true)
    (hn : JSX_normalize_attr_name_available = true)
    (G : Globals) (ι : Str → Option Int) (cur : JProps) (args : List (List (Str × JVal))) (kw : List (Str × JVal)) :
    JSXTagAttrDict_updateC20b G (.dict (embJProps ι cur)) (.tuple (args.map (embKwC20b ι))) (embKwC20b ι kw)
      = .ok (.dict (embJProps ι (propsUpdateC20b cur (args ++ [kw])))) := by
  first
  | exact absurd h (by decide)
  | skip
  all_goals (
    unfold JSXTagAttrDict_updateC20b
    simp only [ok_bind, pure_eq_ok, pyIterJ_tupleC20b]
    refine maps_loop_kC20b ι args cur _ rfl _ _ ?step _ _ ?k
    case step =>
      intro m hmem s b hs
      obtain ⟨s1, s2⟩ := s
      simp only at hs
      subst hs
      simp only [src_jsx_updateMapC20b hm hn, ok_bind]
      exact ⟨_, rfl, rfl⟩
    case k =>
      intro s hs
      obtain ⟨s1, s2⟩ := s
      simp only at hs
      subst hs
      simp only [src_jsx_updateMapC20b hm hn, ok_bind, propsUpdateC20b, List.foldl_append, List.foldl_cons, List.foldl_nil])

/-- `JSXTagAttrDict.__init__(self, **kwargs)` as the source has it (`super().__init__()`, then `self.update(**kwargs)`), on
    any receiver -/
theorem src_jsx_attrdict_initC20b (h : JSXTagAttrDict_initC20b_available = true) (hu : JSXTagAttrDict_updateC20b_available = true)
    (hm : JSXTagAttrDict_updateMapC20b_available = true) (hn : JSX_normalize_attr_name_available = true)
    (G : Globals) (ι : Str → Option Int) (cur : JProps) (kw : List (Str × JVal))
    (hkw : kwFreeC20b [['s', 'e', 'l', 'f']] kw = true) :
    JSXTagAttrDict_initC20b G (.dict (embJProps ι cur)) (embKwC20b ι kw) = .ok (.dict (embJProps ι (foldProps cur kw))) := by
  first
  | exact absurd h (by decide)
  | skip
  all_goals (
    unfold JSXTagAttrDict_initC20b
    have := src_jsx_updateC20b hu hm hn G ι cur [] kw
    simp only [List.map_nil, List.nil_append, propsUpdateC20b, List.foldl_cons, List.foldl_nil] at this
    simp only [pyDictInit0C15b, pure_eq_ok, ok_bind, pyKwRest_embKwC20b ι kw _ hkw, this])

/-- `JSXTagAttrDict(**kwargs)` = `mkProps`: each keyword once, under its normalised name, the value of the last such keyword
    (`C20_props_normalised`) -/
theorem src_jsx_attrdict_newC20b (h : JSXTagAttrDict_initC20b_available = true) (hu : JSXTagAttrDict_updateC20b_available = true)
    (hm : JSXTagAttrDict_updateMapC20b_available = true) (hn : JSX_normalize_attr_name_available = true)
    (G : Globals) (ι : Str → Option Int) (kw : List (Str × JVal)) (hkw : kwFreeC20b [['s', 'e', 'l', 'f']] kw = true) :
    JSXTagAttrDict_initC20b G (.dict []) (embKwC20b ι kw) = .ok (.dict (embJProps ι (mkProps kw))) :=
  src_jsx_attrdict_initC20b h hu hm hn G ι .nil kw hkw

/-! ### the `TagList` translations of `_core.py` on plain nodes -/

theorem flatten_recurse_plainC20b (h : util_flatten_recurse_available = true) (G : Globals) (fuel : Nat) (x : PVal)
    (l acc : List PVal) (hx : pyIter x = .ok l) (hl : ∀ v ∈ l, plainNodeC20b v = true) :
    util_flatten_recurse G (fuel + 1) x (.list acc) = .ok (.list (acc ++ l)) := by
  first
  | exact absurd h (by decide)
  | skip
  all_goals (
    rw [util_flatten_recurse]
    simp only [hx, ok_bind, pure_eq_ok]
    refine append_loop_kC20b l acc _ _ ?step _ _ ?k
    case step =>
      intro a ha s b hs
      obtain ⟨s1, s2⟩ := s
      simp only at hs
      subst hs
      have hp := hl a ha
      simp only [plainNodeC20b, Bool.and_eq_true, Bool.not_eq_true'] at hp
      simp only [truthy_bool, hp.1.1.2, hp.1.2, Bool.false_eq_true, if_false, Bool.not_false, if_true, pyListAppendA, pure_eq_ok,
        ok_bind]
      exact ⟨_, rfl, rfl⟩
    case k =>
      intro s hs
      obtain ⟨s1, s2⟩ := s
      simp only at hs
      subst hs
      rfl)

/-- `_tagchilds_to_tagnodes(x)` as the source has it, for an `x` that is not a `str` and whose items are plain nodes: the
    list of the items (nothing is unnested, dropped or converted) -/
theorem tagchilds_plainC20b (h : tagchilds_to_tagnodes_available = true) (hf : util_flatten_available = true)
    (hr : util_flatten_recurse_available = true) (hn : is_tag_node_available = true)
    (G : Globals) (fuel : Nat) (x : PVal) (l : List PVal) (hx : pyIter x = .ok l) (hs : isInstance x ["str"] = false)
    (hl : ∀ v ∈ l, plainNodeC20b v = true) :
    tagchilds_to_tagnodes G (fuel + 3) x = .ok (.list l) := by
  first
  | exact absurd h (by decide)
  | exact absurd hf (by decide)
  | exact absurd hn (by decide)
  | skip
  all_goals (
    rw [tagchilds_to_tagnodes, util_flatten]
    simp only [ok_bind, pure_eq_ok, truthy_bool, flatten_recurse_plainC20b hr G fuel x l [] hx hl, List.nil_append]
    simp only [hs, Bool.false_eq_true, if_false, pyEnumerate, pyIter_list, ok_bind, pure_eq_ok]
    refine inv_loop_kC20b (fun (s : PVal × PVal × PVal) => s.1 = .list l) _ _ ?step _ rfl _ _ ?k
    case step =>
      intro a ha s hs
      obtain ⟨p, hp, rfl⟩ := List.mem_map.1 ha
      have hmem : p.2 ∈ l := (List.of_mem_zip hp).2
      have hpl := hl p.2 hmem
      simp only [plainNodeC20b, Bool.and_eq_true, Bool.not_eq_true'] at hpl
      obtain ⟨s1, s2, s3⟩ := s
      simp only at hs
      subst hs
      unfold is_tag_node at *
      simp only [pyUnpack2_tuple, ok_bind, truthy_bool, hpl.2, hpl.1.1.1, pure_eq_ok, Bool.false_eq_true, if_false, Bool.not_true]
      exact ⟨_, rfl, rfl⟩
    case k =>
      intro s hs
      obtain ⟨s1, s2, s3⟩ := s
      simp only at hs
      subst hs
      rfl)

/-- `TagList(*args)` on plain nodes: they are stored as they are -/
theorem TagList_init_plainC20b (h : TagList_init_available = true) (ht : tagchilds_to_tagnodes_available = true)
    (hf : util_flatten_available = true) (hr : util_flatten_recurse_available = true) (hn : is_tag_node_available = true)
    (G : Globals) (fuel : Nat) (l : List PVal) (hl : ∀ v ∈ l, plainNodeC20b v = true) :
    TagList_init G (fuel + 4) (.obj "TagList" []) (.tuple l) = .ok (.obj "TagList" [("data", .list l)]) := by
  first
  | exact absurd h (by decide)
  | skip
  all_goals (
    rw [TagList_init]
    simp only [tagchilds_plainC20b ht hf hr hn G fuel (.tuple l) l rfl (by simp [isInstance, builtinClasses]) hl, ok_bind,
      pure_eq_ok, userListInit_new])

/-- `tl.extend(x)` for a list / tuple `x` of plain nodes: they are appended as they are -/
theorem TagList_extend_plainC20b (h : TagList_extend_available = true) (ht : tagchilds_to_tagnodes_available = true)
    (hf : util_flatten_available = true) (hr : util_flatten_recurse_available = true) (hn : is_tag_node_available = true)
    (G : Globals) (fuel : Nat) (ds : List PVal) (x : PVal) (l : List PVal) (hx : pyIter x = .ok l)
    (hs : isInstance x ["str"] = false) (hl : ∀ v ∈ l, plainNodeC20b v = true) :
    TagList_extend G (fuel + 4) (.obj "TagList" [("data", .list ds)]) x = .ok (.obj "TagList" [("data", .list (ds ++ l))]) := by
  first
  | exact absurd h (by decide)
  | skip
  all_goals (
    rw [TagList_extend]
    simp only [tagchilds_plainC20b ht hf hr hn G fuel x l hx hs hl, ok_bind, pure_eq_ok, userListExtend_tl])

/-- `tl.append(item, *rest)` for plain nodes -/
theorem TagList_append_plainC20b (h : TagList_append_available = true) (he : TagList_extend_available = true)
    (ht : tagchilds_to_tagnodes_available = true)
    (hf : util_flatten_available = true) (hr : util_flatten_recurse_available = true) (hn : is_tag_node_available = true)
    (G : Globals) (fuel : Nat) (ds : List PVal) (item : PVal) (rest : List PVal)
    (hl : ∀ v ∈ item :: rest, plainNodeC20b v = true) :
    TagList_append G (fuel + 5) (.obj "TagList" [("data", .list ds)]) item (.tuple rest)
      = .ok (.obj "TagList" [("data", .list (ds ++ item :: rest))]) := by
  first
  | exact absurd h (by decide)
  | skip
  all_goals (
    rw [TagList_append]
    simp only [pyIter_tuple, ok_bind, pure_eq_ok, List.singleton_append,
      TagList_extend_plainC20b he ht hf hr hn G fuel ds (.list (item :: rest)) (item :: rest) rfl
        (by simp [isInstance, builtinClasses]) hl])

/-! ### JSXTag.__init__ -/

/-- `JSXTag.__init__` as the source has it, for *any* positional arguments: the two checks of `jsxInit` — the initial of the
    last dotted piece of the name is its own upper-case form; every keyword is in a declared allow-list —, NotImplementedError
    otherwise; then `name`, `attrs = JSXTagAttrDict(**kwargs)` (= `mkProps`) and `children = TagList(*args)`: whatever the
    translated `TagList.__init__` answers for these arguments, an exception included.  Run on an instance with an empty
    `__dict__` of `JSXTag` or a subclass `cls`. -/
theorem src_jsx_tag_init_genC20b (h : JSXTag_initC20b_available = true)
    (hA : JSXTagAttrDict_initC20b_available = true) (hu : JSXTagAttrDict_updateC20b_available = true)
    (hm : JSXTagAttrDict_updateMapC20b_available = true) (hnn : JSX_normalize_attr_name_available = true)
    (G : Globals) (ι : Str → Option Int) (upper : Str → Str) (fuel : Nat) (cls : String)
    (name : Str) (allowed : Option (List Str)) (kw : List (Str × JVal)) (args : List PVal)
    (hup : G.upperC20b (nameInitial name) = some (upper (nameInitial name)))
    (hkw : kwFreeC20b [['s', 'e', 'l', 'f']] kw = true)
    (hj : hasJsxArgsC20b args = false) :
    JSXTag_initC20b G (fuel + 1) (.obj cls []) (.str name) (.tuple args) (embAllowedC20b allowed) (embKwC20b ι kw)
      = match jsxInit upper name allowed kw .nil with
        | .error e => .error (embErr e)
        | .ok _ => TagList_init G fuel (.obj "TagList" []) (.tuple args) >>= fun tl =>
            .ok (.obj cls [("name", .str name), ("attrs", .dict (embJProps ι (mkProps kw))), ("children", tl)]) := by
  first
  | exact absurd h (by decide)
  | skip
  all_goals (
    rw [JSXTag_initC20b]
    have hsplit : splitOn '.' name ≠ [] := splitOn_ne_nilC20b '.' name
    simp only [ok_bind, pure_eq_ok, truthy_bool, asStr_str, pySplitSep_str]
    simp only [getItem_lastC20b _ hsplit, ok_bind, asStr_str, slice_take1C20b]
    simp only [← nameInitial_eqC20b, pyUpperC20b, hup, pyEqJ_str, ok_bind, pure_eq_ok]
    unfold jsxInit
    have hnew := src_jsx_attrdict_newC20b hA hu hm hnn G ι kw hkw
    by_cases hn : nameInitial name = upper (nameInitial name)
    · have hn' : (nameInitial name == upper (nameInitial name)) = true := by simpa using hn
      rw [if_neg (fun hh => hh hn)]
      simp only [hn', Bool.not_true, Bool.false_eq_true, if_false, truthy_bool, ok_bind, pure_eq_ok]
      have hj' : hasJsxArgC20b (.tuple args) = false := by rw [hasJsxArgC20b]; exact hj
      cases allowed with
      | none =>
        simp only [embAllowedC20b, isNone, Bool.not_true, Bool.false_eq_true, if_false, propsAllowed, pySetAttr_objC15b,
          ok_bind, pyKwRest_embKwC20b ι kw _ hkw, hnew, pyIter_tuple, pyNoJsxArgsC20b, hj', pure_eq_ok]
        cases TagList_init G fuel (PVal.obj "TagList" []) (PVal.tuple args) <;> simp [fieldSet]
      | some ps =>
        simp only [embAllowedC20b, isNone, Bool.not_false, if_true, pyKeys_embKwC20b, pyIterJ_listC20b, ok_bind]
        refine allowed_loop_kC20b ps kw _ rfl _ _ ?step _ _ ?k
        case step =>
          intro kv hkv s
          simp only [asStr_str, asStr, jsxText?, pyIn_strsC20b, ok_bind, truthy_bool]
          cases hc : ps.contains kv.1 <;> simp
        case k =>
          simp only [propsAllowed]
          by_cases hall : (kw.all fun kv => ps.contains kv.1) = true
          case neg =>
            have hall' : (kw.all fun kv => ps.contains kv.1) = false := by simpa using hall
            simp only [hall', Bool.false_eq_true, if_false, Bool.not_false, if_true]
            rfl
          case pos =>
            simp only [hall, if_true, Bool.not_true, Bool.false_eq_true, if_false]
            intro s
            simp only [pySetAttr_objC15b, ok_bind, pyKwRest_embKwC20b ι kw _ hkw, hnew, pyIter_tuple, pyNoJsxArgsC20b, hj',
              pure_eq_ok, Bool.false_eq_true, if_false]
            cases TagList_init G fuel (PVal.obj "TagList" []) (PVal.tuple args) <;> simp [fieldSet]
    · have hn' : (nameInitial name == upper (nameInitial name)) = false := by simpa using hn
      rw [if_pos hn]
      simp only [hn', Bool.not_false, if_true, truthy_bool, ok_bind, pure_eq_ok]
      rfl)

/-- `JSXTag(name, *kids, allowedProps=allowed, **kw)` as the source has it = `jsxInit` (Model/Jsx.lean), for children that are
    nodes of the component model (no `jsx` string among them): NotImplementedError for a name without a capital initial or a
    keyword outside a declared allow-list, else the component holding the normalised props and the children in the order
    given -/
theorem src_jsx_tag_initC20b (h : JSXTag_initC20b_available = true)
    (hA : JSXTagAttrDict_initC20b_available = true) (hu : JSXTagAttrDict_updateC20b_available = true)
    (hm : JSXTagAttrDict_updateMapC20b_available = true) (hnn : JSX_normalize_attr_name_available = true)
    (hT : TagList_init_available = true) (ht : tagchilds_to_tagnodes_available = true)
    (hf : util_flatten_available = true) (hr : util_flatten_recurse_available = true) (hn : is_tag_node_available = true)
    (G : Globals) (ι : Str → Option Int) (upper : Str → Str) (fuel : Nat)
    (name : Str) (allowed : Option (List Str)) (kw : List (Str × JVal)) (kids : JNodes)
    (hup : G.upperC20b (nameInitial name) = some (upper (nameInitial name)))
    (hkw : kwFreeC20b [['s', 'e', 'l', 'f']] kw = true)
    (hk : noJsxKidsC20b kids = true) :
    JSXTag_initC20b G (fuel + 5) (.obj "JSXTag" []) (.str name) (.tuple (embJNodes ι kids)) (embAllowedC20b allowed)
        (embKwC20b ι kw)
      = embRes (embJNode ι) (jsxInit upper name allowed kw kids) := by
  obtain ⟨hpl, hj⟩ := plain_embJNodesC20b ι kids hk
  rw [src_jsx_tag_init_genC20b h hA hu hm hnn G ι upper (fuel + 4) "JSXTag" name allowed kw _ hup hkw hj,
    TagList_init_plainC20b hT ht hf hr hn G fuel _ hpl]
  unfold jsxInit
  by_cases h1 : nameInitial name ≠ upper (nameInitial name)
  · rw [if_pos h1, if_pos h1]; rfl
  · rw [if_neg h1, if_neg h1]
    by_cases h2 : (!propsAllowed allowed kw) = true
    · rw [if_pos h2, if_pos h2]; rfl
    · rw [if_neg h2, if_neg h2]; rfl

/-! ### JSXTag.extend / append / __copy__ -/

theorem comp_get_childrenC20b (ι : Str → Option Int) (name : Str) (ps : JProps) (ks : JNodes) :
    pyGetAttr (embJNode ι (.comp name ps ks)) "children" = .ok (.obj "TagList" [("data", .list (embJNodes ι ks))]) := by
  simp [embJNode, pyGetAttr, fieldGet?]

theorem comp_set_childrenC20b (ι : Str → Option Int) (name : Str) (ps : JProps) (ks : JNodes) (v : PVal) :
    pySetAttr (embJNode ι (.comp name ps ks)) "children" v
      = .ok (.obj "JSXTag" [("name", .str name), ("attrs", .dict (embJProps ι ps)), ("children", v)]) := by
  simp [embJNode, pySetAttr, fieldSet]

/-- `JSXTag.extend(x)` as the source has it, for a list of nodes of the component model: they are appended to the children,
    every other field is untouched -/
theorem src_jsx_tag_extendC20b (h : JSXTag_extendC20b_available = true)
    (hE : TagList_extend_available = true) (ht : tagchilds_to_tagnodes_available = true)
    (hf : util_flatten_available = true) (hr : util_flatten_recurse_available = true) (hn : is_tag_node_available = true)
    (G : Globals) (ι : Str → Option Int) (fuel : Nat) (name : Str) (ps : JProps) (ks more : JNodes) (tup : Bool)
    (hk : noJsxKidsC20b more = true) :
    JSXTag_extendC20b G (fuel + 5) (embJNode ι (.comp name ps ks))
        (if tup then .tuple (embJNodes ι more) else .list (embJNodes ι more))
      = .ok (embJNode ι (.comp name ps (JNodes.ofList (ks.toList ++ more.toList)))) := by
  first
  | exact absurd h (by decide)
  | skip
  all_goals (
    obtain ⟨hpl, hj⟩ := plain_embJNodesC20b ι more hk
    rw [JSXTag_extendC20b]
    have hx : pyIter (if tup then PVal.tuple (embJNodes ι more) else .list (embJNodes ι more)) = .ok (embJNodes ι more) := by
      cases tup <;> rfl
    have hs : isInstance (if tup then PVal.tuple (embJNodes ι more) else .list (embJNodes ι more)) ["str"] = false := by
      cases tup <;> simp [isInstance, builtinClasses]
    have hj' : hasJsxArgC20b (if tup then PVal.tuple (embJNodes ι more) else .list (embJNodes ι more)) = false := by
      cases tup <;> simp [hasJsxArgC20b, hj]
    simp only [comp_get_childrenC20b, comp_set_childrenC20b, pure_eq_ok, ok_bind, pyNoJsxArgsC20b, hj', Bool.false_eq_true,
      if_false, TagList_extend_plainC20b hE ht hf hr hn G fuel (embJNodes ι ks) _ (embJNodes ι more) hx hs hpl]
    simp only [embJNode, embJNodes_ofList_appendC20b])

/-- `JSXTag.append(*args)` as the source has it, for nodes of the component model: TypeError when called without an
    argument (`TagList.append` requires one), else they are appended to the children -/
theorem src_jsx_tag_appendC20b (h : JSXTag_appendC20b_available = true) (hA : TagList_append_available = true)
    (hE : TagList_extend_available = true) (ht : tagchilds_to_tagnodes_available = true)
    (hf : util_flatten_available = true) (hr : util_flatten_recurse_available = true) (hn : is_tag_node_available = true)
    (G : Globals) (ι : Str → Option Int) (fuel : Nat) (name : Str) (ps : JProps) (ks more : JNodes)
    (hk : noJsxKidsC20b more = true) :
    JSXTag_appendC20b G (fuel + 6) (embJNode ι (.comp name ps ks)) (.tuple (embJNodes ι more))
      = if more.isEmpty then .error .typeError
        else .ok (embJNode ι (.comp name ps (JNodes.ofList (ks.toList ++ more.toList)))) := by
  first
  | exact absurd h (by decide)
  | skip
  all_goals (
    obtain ⟨hpl, hj⟩ := plain_embJNodesC20b ι more hk
    rw [JSXTag_appendC20b]
    have hj' : hasJsxArgC20b (PVal.tuple (embJNodes ι more)) = false := by simp [hasJsxArgC20b, hj]
    simp only [comp_get_childrenC20b, pure_eq_ok, ok_bind, pyNoJsxArgsC20b, hj', Bool.false_eq_true, if_false, pyIter_tuple]
    cases more with
    | nil => simp [embJNodes, pyPosArgC15b, JNodes.isEmpty]
    | cons m rest =>
      simp only [embJNodes] at hpl
      simp only [embJNodes, pyPosArgC15b, List.getElem?_cons_zero, pure_eq_ok, ok_bind, List.drop_succ_cons, List.drop_zero,
        TagList_append_plainC20b hA hE ht hf hr hn G fuel (embJNodes ι ks) (embJNode ι m) (embJNodes ι rest) hpl,
        comp_set_childrenC20b, JNodes.isEmpty, Bool.false_eq_true, if_false]
      simp only [embJNode, embJNodes_ofList_appendC20b, embJNodes])

/-- the names `mkProps` stores are free of `_` (so `copy.copy` of the dict a constructor built re-normalises nothing) -/
theorem normAttrName_no_underscoreC20b (x : Str) : '_' ∉ normAttrName x := by
  unfold normAttrName
  split <;>
  · simp only [List.mem_map]
    rintro ⟨c, _, hc⟩
    split at hc <;> simp_all

/-- `JSXTag.__copy__()` as the source has it: a new instance of the same class with the same attributes, `attrs` and
    `children` copied — as a value, the component itself; stated for stored names without `_` -/
theorem src_jsx_tag_copyC20b (h : JSXTag_copyC20b_available = true)
    (G : Globals) (ι : Str → Option Int) (name : Str) (ps : JProps) (ks : JNodes)
    (hps : ∀ k ∈ ps.keys, '_' ∉ k) :
    JSXTag_copyC20b G (embJNode ι (.comp name ps ks)) = .ok (embJNode ι (.comp name ps ks)) := by
  first
  | exact absurd h (by decide)
  | skip
  all_goals (
    unfold JSXTag_copyC20b
    have hany : (embJProps ι ps).any (fun kv => kv.1.contains '_') = false := by
      rw [List.any_eq_false]
      intro kv hkv
      rw [embJProps_toList] at hkv
      obtain ⟨x, hx, rfl⟩ := List.mem_map.1 hkv
      have : x.1 ∈ ps.keys := by
        have hkeys : ∀ (fs : JProps), fs.keys = fs.toList.map (·.1) := by
          intro fs
          induction fs using JProps.rec (motive_1 := fun _ => True) (motive_2 := fun _ => True) (motive_3 := fun _ => True)
            (motive_4 := fun _ => True) <;> simp_all [JProps.keys, JProps.toList]
        rw [hkeys]; exact List.mem_map.2 ⟨x, hx, rfl⟩
      simpa using hps _ this
    simp only [embJNode, pyNewLikeC20b, pyDictAttrUpdateC20b, pure_eq_ok, ok_bind, List.foldl_cons, List.foldl_nil, fieldSet,
      pyGetAttr, fieldGet?, pyCopyC20b, hany, Bool.false_eq_true, if_false, pyCopy, pySetAttr]
    simp only [fieldGet?, fieldSet, String.reduceEq, ↓reduceIte, hany, Bool.false_eq_true, ok_bind, pure_eq_ok,
      Option.isSome_none, throw_eq_error])

end HtmlVerif.SrcTie
