/-
HTML.__add__ / HTML.__radd__ (_core.py:1395-1412) and Python's dispatch of `+` between str, HTML and other objects.
`x += y` has no `__iadd__` on either class and falls back to `x = x + y`, i.e. the same tree.
-/
import HtmlVerif.Model.Render

namespace HtmlVerif

/-- an operand / result of `+` -/
inductive HVal
  | plain (s : Str)      -- str
  | html (s : Str)       -- HTML
  | ob (s : Str)         -- any other object; `s` is its str() (it has no `__add__`/`__radd__` accepting str/HTML)
  deriving DecidableEq, Repr, Inhabited

inductive HExpr
  | lit (v : HVal)
  | add (a b : HExpr)
  deriving Repr, Inhabited

/-- Python's `a + b` -/
def addVal (cfg : Cfg) : HVal → HVal → Except Err HVal
  | .plain a, .plain b => .ok (.plain (a ++ b))
  | .plain a, .html b => .ok (.html (escText cfg a ++ b))      -- str.__add__ → NotImplemented → HTML.__radd__
  | .ob a, .html b => .ok (.html (escText cfg a ++ b))         -- HTML.__radd__(other): html_escape(str(other))
  | .html a, .html b => .ok (.html (a ++ b))                   -- HTML.__add__, other is HTML
  | .html a, .plain b => .ok (.html (a ++ escText cfg b))      -- HTML.__add__: html_escape(str(other))
  | .html a, .ob b => .ok (.html (a ++ escText cfg b))
  | .plain _, .ob _ => .error .typeError
  | .ob _, .plain _ => .error .typeError
  | .ob _, .ob _ => .error .typeError

def HExpr.eval (cfg : Cfg) : HExpr → Except Err HVal
  | .lit v => .ok v
  | .add a b =>
    match a.eval cfg with
    | .error e => .error e
    | .ok va =>
      match b.eval cfg with
      | .error e => .error e
      | .ok vb => addVal cfg va vb

def HExpr.operands : HExpr → List HVal
  | .lit v => [v]
  | .add a b => a.operands ++ b.operands

def HVal.isHtml : HVal → Bool
  | .html _ => true
  | _ => false

def HExpr.containsHtml (e : HExpr) : Bool := e.operands.any HVal.isHtml

/-- what the renderer writes for the value as a child of an ordinary element (an `ob` is written as its str()) -/
def renderLeaf (cfg : Cfg) : HVal → Str
  | .plain s => escText cfg s
  | .ob s => escText cfg s
  | .html s => s

end HtmlVerif
