/-
Source tie (DESIGN §14) for the file-system half of C12: the Lean functions regenerated from the text of
`HTMLDependency.copy_to`, `HTMLDocument.save_html`, `Tag.save_html` and `TagList.save_html` (htmltools/_core.py) compute, on
every file system, what the model (Model/FS.lean `copyTo`, Model/SaveDoc.lean `saveDoc` / `saveOn`) computes — the outcome
*and* the file system afterwards, also on the paths that raise.  Obligations of C12 (`C12_copy_ok`, `C12_copy_missing`,
`C12_no_copy`, `C12_save_doc`, `C12_save_fail` are about these model functions).

What the tie covers and what it takes as given:
* the glue — which files are listed, the existence check of every listed source *before* anything is touched, the order
  remove → create → copy, the name of the target directory, what is returned, the exception on a missing file, `save_html`'s
  treatment of `libdir`, the loop over the rendered dependencies, the HTML file written last;
* every operating-system call is a primitive of Py/PrimC12b.lean **defined from the model's own FS operations**
  (`FS.exists`, `FS.removeTree`, `FS.write`, `FS.copyTree`, `FS.topLevel`, …): that each call does what the model says is
  modelled, not verified (DESIGN §6 C12); the `srcc12b` validation lines compare the regenerated functions with the real
  ones on real temporary directories on every run;
* the run-time facts: `Path(s).resolve()` answers `S.resolve s`, `os.fsdecode` of a directory entry answers `S.fsdecode`;
  `os.path.realpath` / `package_dir` as in Props/SrcC12.lean (`source_path_map` is the translated one, a callee);
* `HTMLDocument.render` and `HTMLDocument.__init__` are **not translated** in this area: `self.render(…)` answers the value
  recorded in the document object (`docRenderRecC12b`), `HTMLDocument(x)` is the constructor primitive `mkDocC12b`.

No loop body is spelled out: `comp_loop_kC12b`, `check_loop_kC12b`, `fold_loop_kC12b` / `copy_loop_kC12b`
(Lemmas/SrcC12b.lean) take the bodies from the regenerated definition by unification; what is proved about a body is its
effect on one pass.  The local macros below are proof scripts used twice (once per way of listing the files).
-/
import HtmlVerif.Generated.Src
import HtmlVerif.Lemmas.SrcC12b
import HtmlVerif.Props.SrcC12

set_option linter.unusedVariables false
set_option linter.unusedSimpArgs false

namespace HtmlVerif.SrcTie
open HtmlVerif HtmlVerif.Py HtmlVerif.Generated.Src

local macro "c12b_fin" : tactic => `(tactic| (
  first
  | exact ⟨rfl, _, rfl⟩
  | exact ⟨rfl, rfl⟩
  | exact ⟨trivial, _, rfl⟩
  | exact ⟨trivial, rfl⟩
  | exact ⟨_, rfl⟩
  | trivial
  | (trace_state; fail "c12b_fin")))

set_option hygiene false in
/-- one pass of the "copy all the files" loop -/
local macro "c12b_pass" src:term "," tgt:term "," hres:term : tactic => `(tactic| (
  intro g _ s S' _ _
  simp only [osPathJoin_ssC12b, osPathJoin_psC12b, osPathDirname_strC12b, PyFSC12b.lift_ok, pure_bind, makedirs_bind_strC12b,
    isfile_bind_strC12b, isdir_bind_strC12b, truthy_bool, cond_applyC12b, copy2_bind_strC12b, copytree_bind_strC12b,
    PyFSC12b.run_pure, target_resolveC12b _ _ g $hres]
  unfold copyOne itemOfC12b FS.isFile
  dsimp only
  cases hrd : S'.fs.read (pathResolve (posixJoin $src g)) with
  | some c => simp only [Option.isSome_some, cond_true]; c12b_fin
  | none =>
    simp only [Option.isSome_none, cond_false]
    cases hdir : S'.fs.isDir (pathResolve (posixJoin $src g)) with
    | false => simp only [cond_false, Bool.false_eq_true, if_false]; c12b_fin
    | true =>
      simp only [cond_true, if_true]
      cases hex : S'.fs.exists (pathResolve (posixJoin $tgt g)) with
      | false => simp only [Bool.false_eq_true, if_false]; c12b_fin
      | true => simp only [if_true]; c12b_fin))

set_option hygiene false in
/-- the part of `copy_to` after the names of the files are known -/
local macro "c12b_tail" src:term "," tgt:term "," fl:term "," hres:term : tactic => `(tactic| (
  simp only [pyIter_list, PyFSC12b.lift_ok, pure_bind, osPathJoin_ssC12b, mkPath_strC12b]
  refine check_loop_kC12b _ (existsUnderC12b S.fs $src) .exception S _ _ _ _ ?vstep ?vk ?ve
  case vstep =>
    intro a ha s
    obtain ⟨f, hf, rfl⟩ := List.mem_map.mp ha
    simp only [osPathJoin_ssC12b, PyFSC12b.lift_ok, pure_bind, exists_bind_strC12b, truthy_bool, existsUnderC12b]
    cases hx : S.fs.exists (pathResolve (posixJoin $src f)) <;>
      simp only [hx, Bool.not_true, Bool.not_false, cond_true, cond_false, PyFSC12b.run_pure, PyFSC12b.throw_bind,
        PyFSC12b.run_throw, if_true, if_false, Bool.false_eq_true] <;>
      first | exact ⟨_, rfl⟩ | rfl
  case ve =>
    intro hall
    rw [List.all_map] at hall
    have hall' : ($fl).all (fun f => S.fs.exists (pathResolve (posixJoin $src f))) = false := hall
    simp [copyTailC12b, hall', embOutC12b, embRes, embErr]
  case vk =>
    intro hall s'
    rw [List.all_map] at hall
    have hall' : ($fl).all (fun f => S.fs.exists (pathResolve (posixJoin $src f))) = true := hall
    simp only [resolve_bind_pathC12b, exists_bind_pathC12b, truthy_bool, cond_applyC12b, $hres:term]
    have hT : copyTailC12b $src $tgt $fl S.fs
        = if S.fs.fileOnPath (pathResolve $tgt) = true then (S.fs, .error .exception)
          else foldFSC12b copyOne (($fl).map (itemOfC12b $src $tgt)) (S.fs.removeTree (pathResolve $tgt)) := by
      simp only [copyTailC12b, hall', if_true]
    rw [hT]
    by_cases hfp : S.fs.fileOnPath (pathResolve $tgt) = true
    · cases hex : S.fs.exists (pathResolve $tgt) <;>
        simp only [cond_true, cond_false, rmtree_bind_pathC12b, mkdir_bind_pathC12b, $hres:term, hex, hfp, if_true,
          Bool.not_true, Bool.not_false, Bool.or_true, Bool.true_or, embOutC12b, embRes, embErr]
    · have hfp' : S.fs.fileOnPath (pathResolve $tgt) = false := by simpa using hfp
      cases hex : S.fs.exists (pathResolve $tgt) with
      | false =>
        simp only [cond_false, mkdir_bind_pathC12b, $hres:term, hfp', Bool.false_eq_true, if_false]
        rw [removeTree_not_existsC12b _ _ hex]
        refine copy_loop_kC12b _ _ _ _ _ S S rfl rfl ?_
        c12b_pass $src, $tgt, $hres
      | true =>
        simp only [cond_true, rmtree_bind_pathC12b, mkdir_bind_pathC12b, $hres:term, hex, hfp', Bool.not_true, Bool.or_false,
          Bool.false_eq_true, if_false, fileOnPath_removeTreeC12b _ _ hfp']
        refine copy_loop_kC12b _ _ _ _ _ S _ rfl rfl ?_
        c12b_pass $src, $tgt, $hres))

/-- **`copy_to(path, include_version=iv)` as the source has it = the model's `copyTo`** — outcome *and* file system, on every
    file system and for every dependency: the early return for a URL / absent source (nothing touched); which files are
    taken (`all_files`: the directory listing; otherwise the `src` of every script, then the `href` of every stylesheet —
    KeyError, nothing touched, for an item without its key); the existence check of *every* one of them before anything
    is touched (`Exception`, nothing touched); the target directory `path/name[-version]`, removed if it exists, then
    created; the copy loop (a file is copied, a directory is copied as a tree, anything else skipped; the error of a copy,
    with the state it left); `None` returned.
    `hres`: the run time resolves the target directory to the location its string names (no symbolic link, no `..` on the
    way; `path` absolute or the working directory the root).  `hnames` (only for `all_files`): the entries of the source
    directory decode to the `str` that names them. -/
theorem src_copy_toC12b (h : HTMLDependency_copy_toC12b_available = true) (h0 : HTMLDependency_source_path_map_available = true)
    (G : Globals) (d : DepInfo) (hh : Bool) (head : Nodes) (pdir : Str) (hpkg : PkgFacts d pdir)
    (path : Str) (iv : Bool) (S : SysC12b)
    (hres : pathResolve (S.resolve (posixJoin path (sourcePathMap d none iv).href))
      = pathResolve (posixJoin path (sourcePathMap d none iv).href))
    (hnames : d.allFiles = true → NamesOkC12b S (sourcePathMap d none iv).source) :
    HTMLDependency_copy_toC12b G (embDep d hh head pdir) (.str path) (.bool iv) S
      = embOutC12b S (copyTo d path iv S.fs) := by
  first
  | exact absurd h (by decide)
  | skip
  all_goals (
    have hspm := src_source_path_map h0 G d hh head pdir hpkg none iv
    simp only [embOptStr] at hspm
    have hsrc : pyGetItem (embPathMap (sourcePathMap d none iv)) (PVal.str ['s', 'o', 'u', 'r', 'c', 'e'])
        = .ok (.str (sourcePathMap d none iv).source) := by
      simp [embPathMap, pyGetItem, Py.dictGet?, kSource, dtKHref]
    have hhref : pyGetItem (embPathMap (sourcePathMap d none iv)) (PVal.str ['h', 'r', 'e', 'f'])
        = .ok (.str (sourcePathMap d none iv).href) := by
      simp [embPathMap, pyGetItem, Py.dictGet?, kSource, dtKHref]
    obtain ⟨-, -, -, gscript, gsheet, -, -⟩ := getattr_dep d hh head pdir
    by_cases hempty : (sourcePathMap d none iv).source = []
    · unfold HTMLDependency_copy_toC12b
      simp [hspm, hsrc, hempty, pyEq_str_strC12b, truthy_strC12b, copyTo, embOutC12b, embRes, PyFSC12b.run_pure]
    · have hne : (sourcePathMap d none iv).source.isEmpty = false := by
        cases hq : (sourcePathMap d none iv).source <;> simp_all
      have hbeq : ((sourcePathMap d none iv).source == []) = false := by
        cases hq : (sourcePathMap d none iv).source <;> simp_all
      cases haf : d.allFiles with
      | true =>
        have hn := hnames haf
        have hdec : ∀ n ∈ S.fs.topLevel (pathResolve (sourcePathMap d none iv).source), ∃ nm, S.fsdecode n = some nm :=
          fun n hm => (hn n hm).imp fun nm hh => hh.1
        unfold HTMLDependency_copy_toC12b
        simp only [ite_condC12b]
        simp only [hspm, cond_false, cond_true, hsrc, hhref, PyFSC12b.lift_ok, pure_bind, getattr_allfilesC12b, truthy_bool,
          pyEq_str_strC12b, truthy_strC12b, hne, pyIter_list, hbeq, haf, mkPath_strC12b, glob_bind_pathC12b, globEntries_okC12b S _ _ hdec,
          Bool.not_true, Bool.not_false]
        refine comp_loop_kC12b (fun n => pathObjC12b (posixJoin (sourcePathMap d none iv).source (decNameC12b S n))) PVal.str
          (fun n => .ok (decNameC12b S n)) (S.fs.topLevel (pathResolve (sourcePathMap d none iv).source)) _ S _ _ ?s1 ?k1
        case s1 =>
          intro n hm acc
          obtain ⟨nm, h1, h2, h3⟩ := hn n hm
          have hne : nm ≠ [] := by
            intro he; subst he; simp [utf8, segs_nil] at h3
          simp only [decNameC12b, h1, Option.getD_some, relativeTo_joinC12b _ nm h2 hne, pyStr_pathC12b, PyFSC12b.lift_ok,
            pure_bind, PyFSC12b.run_pure, accStep, List.map_append, List.map_cons, List.map_nil]
        case k1 =>
          simp only [mapE_okC12b]
          rw [copyTo_tailC12b d path iv S.fs _ hne (copyItems_allC12b d _ _ S haf hn)]
          c12b_tail (sourcePathMap d none iv).source, (posixJoin path (sourcePathMap d none iv).href), ((S.fs.topLevel (pathResolve (sourcePathMap d none iv).source)).map (decNameC12b S)), hres
      | false =>
        unfold HTMLDependency_copy_toC12b
        simp only [ite_condC12b]
        simp only [hspm, cond_false, cond_true, hsrc, hhref, PyFSC12b.lift_ok, pure_bind, getattr_allfilesC12b, truthy_bool, pyEq_str_strC12b,
          gscript, gsheet, pyIter_list, truthy_strC12b, hne, hbeq, haf, Bool.false_eq_true, if_false, Bool.not_true, Bool.not_false]
        refine comp_loop_kC12b embKVs PVal.str (keyStepC12b dtKSrc) d.script _ S _ _ ?s1 ?k1
        case s1 =>
          intro s _ acc
          simp only [pyGetItem_embKVs, lit_src, accStep, keyStepC12b]
          cases alookup dtKSrc s <;>
            simp only [PyFSC12b.lift_ok, PyFSC12b.lift_error, PyFSC12b.throw_bind, pure_bind, PyFSC12b.run_pure,
              PyFSC12b.run_throw, embErr, List.map_append, List.map_cons, List.map_nil]
        case k1 =>
          cases ha : mapE (keyStepC12b dtKSrc) d.script with
          | error e =>
            simp only []
            rw [copyTo_errC12b d path iv S.fs e hne (by simp [copyItems, haf, listedFiles, listKey_mapEC12b, ha])]
            rfl
          | ok a =>
            simp only []
            refine comp_loop_kC12b embKVs PVal.str (keyStepC12b dtKHref) d.stylesheet _ S _ _ ?s2 ?k2
            case s2 =>
              intro s _ acc
              simp only [pyGetItem_embKVs, lit_href, accStep, keyStepC12b]
              cases alookup dtKHref s <;>
            simp only [PyFSC12b.lift_ok, PyFSC12b.lift_error, PyFSC12b.throw_bind, pure_bind, PyFSC12b.run_pure,
              PyFSC12b.run_throw, embErr, List.map_append, List.map_cons, List.map_nil]
            case k2 =>
              cases hb : mapE (keyStepC12b dtKHref) d.stylesheet with
              | error e =>
                simp only []
                rw [copyTo_errC12b d path iv S.fs e hne (by simp [copyItems, haf, listedFiles, listKey_mapEC12b, ha, hb])]
                rfl
              | ok b =>
                simp only [starList2C12b]
                rw [copyTo_tailC12b d path iv S.fs (a ++ b) hne (copyItems_listedC12b d _ _ S.fs haf a b ha hb)]
                c12b_tail (sourcePathMap d none iv).source, (posixJoin path (sourcePathMap d none iv).href), (a ++ b), hres)

/-- the tie of `copy_to` for one dependency of a rendering, on every file system the loop of `save_html` can be in -/
def CopyTieC12b (G : Globals) (pd : DepInfo → Str) (dest : Str) (iv : Bool) (S : SysC12b) (t : DepInfo × Bool × Nodes) : Prop :=
  ∀ S' : SysC12b, S'.resolve = S.resolve → S'.fsdecode = S.fsdecode →
    HTMLDependency_copy_toC12b G (embTripleC12b pd t) (.str dest) (.bool iv) S' = embOutC12b S' (copyTo t.1 dest iv S'.fs)

/-- `CopyTieC12b` from `src_copy_toC12b` -/
theorem copyTie_of_srcC12b (h : HTMLDependency_copy_toC12b_available = true)
    (h0 : HTMLDependency_source_path_map_available = true)
    (G : Globals) (pd : DepInfo → Str) (dest : Str) (iv : Bool) (S : SysC12b) (t : DepInfo × Bool × Nodes)
    (hpkg : PkgFacts t.1 (pd t.1)) (habs : dest.head? = some '/')
    (hres : ∀ s : Str, s.head? = some '/' → pathResolve (S.resolve s) = pathResolve s)
    (hnames : t.1.allFiles = true → ∀ S' : SysC12b, S'.resolve = S.resolve → S'.fsdecode = S.fsdecode →
      NamesOkC12b S' (sourcePathMap t.1 none iv).source) :
    CopyTieC12b G pd dest iv S t := by
  intro S' hr hd
  exact src_copy_toC12b h h0 G t.1 t.2.1 t.2.2 (pd t.1) hpkg dest iv S'
    (by rw [hr]; exact hres _ (posixJoin_absC12b _ _ habs)) (fun haf => hnames haf S' hr hd)

/-- **`save_html(file, libdir, include_version)` of a document object `D` as the source has it = the model's `saveDoc`** —
    outcome *and* file system — whenever `D.render(lib_prefix=libdir, include_version=iv)` answers the model's `docRender`
    (`hrec`; `HTMLDocument.render` is not translated here): the destination `dirname(resolved file)[/libdir]` (`libdir` None
    or "" → the file's directory), an exception of `render()` before anything is touched, `copy_to` for every rendered
    dependency in order (the first failure stops, with the state it left, the file not written), then the HTML file
    (OSError when it is a directory / below a regular file) holding `rendered["html"]`, and `file` returned.
    `hcopy`: the tie of `copy_to` for each rendered dependency (`copyTie_of_srcC12b`). -/
theorem src_doc_save_html_recC12b (h : HTMLDocument_save_htmlC12b_available = true)
    (G : Globals) (cfg : Cfg) (pd : DepInfo → Str) (content : Nodes) (kw : List (Str × AttrArg)) (file : Str)
    (libdir : Option Str) (iv : Bool) (S : SysC12b) (D : PVal)
    (hrec : docRenderRecC12b D (embOptStr libdir) (.bool iv)
      = embRes (embRenderedC12b pd) (Doc.docRender cfg content kw libdir iv))
    (hnorm : normalAbsC12b (S.resolve file) = true)
    (hcopy : ∀ r, Doc.docRender cfg content kw libdir iv = .ok r → ∀ t ∈ depTriplesC12b r.deps,
      CopyTieC12b G pd (destDir (S.resolve file) libdir) iv S t) :
    HTMLDocument_save_htmlC12b G D (.str file) (embOptStr libdir) (.bool iv) S
      = embOutStrC12b S (saveDoc cfg content kw file (S.resolve file) libdir iv S.fs) := by
  first
  | exact absurd h (by decide)
  | skip
  all_goals (
    have hdest : ∀ (k : PVal → PyFSC12b PVal),
        (bif truthy (embOptStr libdir) then
          (liftM (osPathJoinC12b (.str (dirname (S.resolve file))) (embOptStr libdir)) >>= k)
         else k (.str (dirname (S.resolve file)))) = k (.str (destDir (S.resolve file) libdir)) := by
      intro k
      cases libdir with
      | none => rfl
      | some l => cases l <;> rfl
    unfold HTMLDocument_save_htmlC12b
    simp only [ite_condC12b]
    simp only [hrec]
    cases hr : Doc.docRender cfg content kw libdir iv with
    | error e =>
      -- (whether `render` is called before or after the destination is computed)
      simp only [embRes, mkPath_strC12b, PyFSC12b.lift_ok, PyFSC12b.lift_error, pure_bind, PyFSC12b.throw_bind,
        resolve_bind_pathC12b, pathParent_normC12b _ hnorm, pyStr_pathC12b, PyFSC12b.run_throw]
      first | rw [hdest] | skip
      try simp only [embRes, PyFSC12b.lift_error, PyFSC12b.throw_bind, PyFSC12b.run_throw]
      simp only [saveDoc, hr, embOutStrC12b, embRes]
    | ok r =>
      have hk1 : pyGetItem (embRenderedC12b pd r) (PVal.str ['d', 'e', 'p', 'e', 'n', 'd', 'e', 'n', 'c', 'i', 'e', 's'])
          = .ok (.list ((depTriplesC12b r.deps).map (embTripleC12b pd))) := by
        simp [embRenderedC12b, pyGetItem, Py.dictGet?, kDepsC12b, kHtmlC12b]
      have hk2 : pyGetItem (embRenderedC12b pd r) (PVal.str ['h', 't', 'm', 'l']) = .ok (.str r.html) := by
        simp [embRenderedC12b, pyGetItem, Py.dictGet?, kDepsC12b, kHtmlC12b]
      simp only [embRes, mkPath_strC12b, PyFSC12b.lift_ok, pure_bind, resolve_bind_pathC12b, pathParent_normC12b _ hnorm,
        pyStr_pathC12b, hk1, hk2, pyIter_list]
      first | rw [hdest] | skip
      try simp only [embRes, PyFSC12b.lift_ok, pure_bind, hk1, hk2, pyIter_list]
      have hmodel : saveDoc cfg content kw file (S.resolve file) libdir iv S.fs
          = match foldFSC12b (fun (t : DepInfo × Bool × Nodes) => copyTo t.1 (destDir (S.resolve file) libdir) iv)
              (depTriplesC12b r.deps) S.fs with
            | (fs', .error e) => (fs', .error e)
            | (fs', .ok _) =>
              if (fs'.isDir (pathResolve (S.resolve file)) || fs'.fileOnPath (pathResolve (S.resolve file)).dropLast) = true then
                (fs', .error .exception)
              else (fs'.write (pathResolve (S.resolve file)) (utf8 r.html), .ok file) := by
        simp only [saveDoc, hr, saveHtml, docFs, copyAll_foldC12b, depInfos_triplesC12b, foldFS_mapC12b]
        generalize foldFSC12b _ _ _ = m
        rcases m with ⟨fs', r'⟩
        cases r' <;> rfl
      rw [hmodel]
      refine fold_loop_kC12b (embTripleC12b pd) (depTriplesC12b r.deps)
        (fun t => copyTo t.1 (destDir (S.resolve file) libdir) iv) _ _ S _ _ ?pass ?after
      case pass =>
        intro t ht s S' hr' hd'
        have hc := hcopy r hr t ht S' hr' hd'
        have hcls : pyClassOf (embTripleC12b pd t) = "HTMLDependency" := rfl
        simp only [hcls]
        rw [PyFSC12b.run_bind, hc]
        rcases copyTo t.1 (destDir (S.resolve file) libdir) iv S'.fs with ⟨fs1, r1⟩
        cases r1 with
        | ok u => exact ⟨rfl, _, rfl⟩
        | error e => exact ⟨rfl, rfl⟩
      case after =>
        rcases foldFSC12b (fun (t : DepInfo × Bool × Nodes) => copyTo t.1 (destDir (S.resolve file) libdir) iv)
          (depTriplesC12b r.deps) S.fs with ⟨fs1, r1⟩
        cases r1 with
        | error e => simp only [embOutStrC12b, embRes]
        | ok u =>
          simp only []
          intro _
          simp only [openWrite_bind_strC12b]
          by_cases hbad : (fs1.isDir (pathResolve (S.resolve file)) || fs1.fileOnPath (pathResolve (S.resolve file)).dropLast) = true
          · simp only [hbad, if_true, embOutStrC12b, embRes, embErr]
          · simp only [hbad, if_false, fileWrite_bind_strC12b, PyFSC12b.run_pure, write_writeC12b, embOutStrC12b, embRes,
              Bool.false_eq_true])

/-- `HTMLDocument(*content, **kw).save_html(file, libdir, include_version)` as the source has it = `saveDoc` -/
theorem src_doc_save_htmlC12b (h : HTMLDocument_save_htmlC12b_available = true)
    (G : Globals) (cfg : Cfg) (pd : DepInfo → Str) (content : Nodes) (kw : List (Str × AttrArg)) (file : Str)
    (libdir : Option Str) (iv : Bool) (S : SysC12b)
    (hnorm : normalAbsC12b (S.resolve file) = true)
    (hcopy : ∀ r, Doc.docRender cfg content kw libdir iv = .ok r → ∀ t ∈ depTriplesC12b r.deps,
      CopyTieC12b G pd (destDir (S.resolve file) libdir) iv S t) :
    HTMLDocument_save_htmlC12b G (embDocC12b cfg pd content kw libdir iv) (.str file) (embOptStr libdir) (.bool iv) S
      = embOutStrC12b S (saveDoc cfg content kw file (S.resolve file) libdir iv S.fs) :=
  src_doc_save_html_recC12b h G cfg pd content kw file libdir iv S _ (docRenderRec_embC12b cfg pd content kw libdir iv)
    hnorm hcopy

/-- `tag.save_html(file, libdir=…, include_version=…)` as the source has it = `saveOn (.tag t)`: the document made from the
    tag does the saving -/
theorem src_tag_save_htmlC12b (h : Tag_save_htmlC12b_available = true) (hd : HTMLDocument_save_htmlC12b_available = true)
    (G : Globals) (cfg : Cfg) (pd : DepInfo → Str) (name : Str) (ws : Bool) (attrs : Attrs) (kids : Nodes) (file : Str)
    (libdir : Option Str) (iv : Bool) (S : SysC12b)
    (hnorm : normalAbsC12b (S.resolve file) = true)
    (hcopy : ∀ r, Doc.docRender cfg (.cons (.tag name ws attrs kids) .nil) [] libdir iv = .ok r →
      ∀ t ∈ depTriplesC12b r.deps, CopyTieC12b G pd (destDir (S.resolve file) libdir) iv S t) :
    Tag_save_htmlC12b G (embRecvC12b cfg pd libdir iv (.tag (.tag name ws attrs kids))) (.str file) (embOptStr libdir)
        (.bool iv) S
      = embOutStrC12b S (saveOn cfg (.tag (.tag name ws attrs kids)) file (S.resolve file) libdir iv S.fs) := by
  first
  | exact absurd h (by decide)
  | skip
  all_goals (
    obtain ⟨c, hc⟩ := mkDoc_tagC12b (embRecordC12b cfg pd (.cons (.tag name ws attrs kids) .nil) [] libdir iv) name ws
      attrs kids
    unfold Tag_save_htmlC12b
    simp only [embRecvC12b, hc, PyFSC12b.lift_ok, pure_bind]
    try simp only [bind_pure]
    rw [src_doc_save_html_recC12b hd G cfg pd (.cons (.tag name ws attrs kids) .nil) [] file libdir iv S _
        (docRenderRec_recordC12b cfg pd _ [] libdir iv c (.dict [])) hnorm hcopy]
    rfl)

/-- `taglist.save_html(file, libdir=…, include_version=…)` as the source has it = `saveOn (.tagList items)` -/
theorem src_taglist_save_htmlC12b (h : TagList_save_htmlC12b_available = true)
    (hd : HTMLDocument_save_htmlC12b_available = true)
    (G : Globals) (cfg : Cfg) (pd : DepInfo → Str) (items : Nodes) (file : Str)
    (libdir : Option Str) (iv : Bool) (S : SysC12b)
    (hnorm : normalAbsC12b (S.resolve file) = true)
    (hcopy : ∀ r, Doc.docRender cfg items [] libdir iv = .ok r →
      ∀ t ∈ depTriplesC12b r.deps, CopyTieC12b G pd (destDir (S.resolve file) libdir) iv S t) :
    TagList_save_htmlC12b G (embRecvC12b cfg pd libdir iv (.tagList items)) (.str file) (embOptStr libdir) (.bool iv) S
      = embOutStrC12b S (saveOn cfg (.tagList items) file (S.resolve file) libdir iv S.fs) := by
  first
  | exact absurd h (by decide)
  | skip
  all_goals (
    obtain ⟨c, hc⟩ := mkDoc_listC12b (embRecordC12b cfg pd items [] libdir iv) items
    unfold TagList_save_htmlC12b
    simp only [embRecvC12b, hc, PyFSC12b.lift_ok, pure_bind]
    try simp only [bind_pure]
    rw [src_doc_save_html_recC12b hd G cfg pd items [] file libdir iv S _
        (docRenderRec_recordC12b cfg pd _ [] libdir iv c (.dict [])) hnorm hcopy]
    rfl)

/-- `save_html` of a document, a tag or a list, with the tie of `copy_to` discharged by `src_copy_toC12b`: what is left are
    facts about the run time — `resolve()` answers an absolute normal path and leaves absolute paths where they are,
    `package_dir` / `realpath` answer what the model carries (`PkgFacts`), directory entries decode to their names
    (only for `all_files` dependencies, on the file systems the copies go through) -/
theorem src_save_on_closedC12b (hd : HTMLDocument_save_htmlC12b_available = true)
    (ht : Tag_save_htmlC12b_available = true) (hl : TagList_save_htmlC12b_available = true)
    (hc : HTMLDependency_copy_toC12b_available = true) (h0 : HTMLDependency_source_path_map_available = true)
    (G : Globals) (cfg : Cfg) (pd : DepInfo → Str) (recv : Receiver) (file : Str) (libdir : Option Str) (iv : Bool)
    (S : SysC12b)
    (hrecv : match recv with | .tag t => t.isTag = true | _ => True)
    (hnorm : normalAbsC12b (S.resolve file) = true)
    (hres : ∀ s : Str, s.head? = some '/' → pathResolve (S.resolve s) = pathResolve s)
    (hdeps : ∀ r, Doc.docRender cfg recv.doc.1 recv.doc.2 libdir iv = .ok r → ∀ t ∈ depTriplesC12b r.deps,
      PkgFacts t.1 (pd t.1) ∧ (t.1.allFiles = true → ∀ S' : SysC12b, S'.resolve = S.resolve → S'.fsdecode = S.fsdecode →
        NamesOkC12b S' (sourcePathMap t.1 none iv).source)) :
    (match recv with
      | .document _ _ => HTMLDocument_save_htmlC12b G (embRecvC12b cfg pd libdir iv recv) (.str file) (embOptStr libdir)
          (.bool iv) S
      | .tag _ => Tag_save_htmlC12b G (embRecvC12b cfg pd libdir iv recv) (.str file) (embOptStr libdir) (.bool iv) S
      | .tagList _ => TagList_save_htmlC12b G (embRecvC12b cfg pd libdir iv recv) (.str file) (embOptStr libdir)
          (.bool iv) S)
      = embOutStrC12b S (saveOn cfg recv file (S.resolve file) libdir iv S.fs) := by
  have hcopy : ∀ r, Doc.docRender cfg recv.doc.1 recv.doc.2 libdir iv = .ok r → ∀ t ∈ depTriplesC12b r.deps,
      CopyTieC12b G pd (destDir (S.resolve file) libdir) iv S t := fun r hr t ht =>
    copyTie_of_srcC12b hc h0 G pd _ iv S t (hdeps r hr t ht).1
      (destDir_absC12b _ _ (normalAbs_headC12b _ hnorm)) hres (hdeps r hr t ht).2
  cases recv with
  | document content kw => exact src_doc_save_htmlC12b hd G cfg pd content kw file libdir iv S hnorm hcopy
  | tagList items => exact src_taglist_save_htmlC12b hl hd G cfg pd items file libdir iv S hnorm hcopy
  | tag t =>
    cases t with
    | tag name ws attrs kids => exact src_tag_save_htmlC12b ht hd G cfg pd name ws attrs kids file libdir iv S hnorm hcopy
    | _ => simp [Node.isTag] at hrecv

end HtmlVerif.SrcTie
