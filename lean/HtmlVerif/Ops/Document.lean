/-
Driver ops for HTMLDocument (model side).

  document_render <nodes: constructor args> [ <nodes: one append call> … ] <kw attr dict> <lib_prefix> <include_version>
      → ok <html> <nodes: returned dependencies> <nodes: the stored content after the call> | err <kind>
  document_tree   (same arguments) → ok <node: the tree whose markup is the document> | err <kind>
-/
import HtmlVerif.Ops.Base
import HtmlVerif.Model.Document

namespace HtmlVerif.Ops
open HtmlVerif HtmlVerif.Wire

structure DocArgs where
  content : Nodes
  kw : List (Str × AttrArg)
  lp : Option Str
  iv : Bool

def docArgs : P DocArgs := do
  let init ← nodes
  let later ← listOf nodes
  let kw ← listOf attrPair
  let lp ← optStr
  let iv ← bool
  pure { content := Doc.docContent init later, kw, lp, iv }

def encDocRendered : Except Err Doc.DocRendered → String
  | .ok r => "ok " ++ encStr r.html ++ " " ++ encNodes (Nodes.ofList r.deps) ++ " " ++ encNodes r.after
  | .error e => "err " ++ encErr e

def documentOps : OpTable
  | "document_render" => some do
    let a ← docArgs
    pure (encDocRendered (Doc.docRender cfg a.content a.kw a.lp a.iv))
  | "document_tree" => some do
    let a ← docArgs
    pure (encExcept encNode (Doc.docTree cfg a.content a.kw a.lp a.iv))
  | _ => none

end HtmlVerif.Ops
