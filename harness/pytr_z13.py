"""Second half of the C13 translator plug-in (harness/pytr_c13.py, where the hooks and the documentation are): the
specifications of `TagList.render`, `HTMLTextDocument.render` and `HTMLDependency.serialize_to_script_json`.  They call the
translated `TagList.__init__` / `append` / `extend` of harness/pytr_c14.py and `Tag.tagify` / `get_dependencies` of
harness/pytr_c10.py; translation order is registration order and plug-ins register in file-name order, so these
specifications live in a file that sorts after those (nothing else is in this file)."""
from __future__ import annotations


def register(T):
    F = "htmltools/_core.py"
    T.SPECS += [
        T.FnSpec(F, "TagList.render", "TagList_render", group="c13_tl_render"),
        T.FnSpec(F, "HTMLTextDocument.render", "HTMLTextDocument_render", group="c13_render"),
        T.FnSpec(F, "HTMLDependency.serialize_to_script_json", "HTMLDependency_serialize", group="c13_serialize"),
    ]
    T.ARITY.update({"TagList_render": 1, "HTMLTextDocument_render": 3, "HTMLDependency_serialize": 2})
