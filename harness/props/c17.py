"""C17 — Tag context manager restores the display hook and collects children in order."""
from __future__ import annotations

import core
import gen
import srctie_c17
from wire import Toks, ehitem, ehprogs, ehval, elist, p_hitem, p_hprog, p_hval, p_list

PID = "C17"
MANIFEST = dict(
    text="Lean theorems over an inductive type of programs (display v / with tag: body / raise / give a tag a new child-list object, "
         "any nesting, raise anywhere) executed by a model that follows Tag.__enter__/__exit__/wrap_displayhook_handler/append as "
         "written: C17_restore, C17_restore_any, C17_restore_all (sys.displayhook after every with-statement, at every depth and on "
         "every exit path, is the hook before it — unconditional), C17_reenter, C17_reenter_active (entering a tag whose block is "
         "active raises RuntimeError and changes nothing), C17_collect / C17_collect_step / C17_collect_outer / C17_collect_final / "
         "C17_collect_rebind (a tag's children afterwards = before ++ normalised values displayed directly in its block, in order, up "
         "to the first raise, nested tags when their block exits; the recorder's log; untouched elsewhere), C17_child_rules / _seq / "
         "_elem / _rejects (None and Ellipsis ignored, _repr_html_ object as HTML, a Tagifiable object kept as the object also when it "
         "has _repr_html_, TagLists/lists/tuples opened in place at any depth under the rules of append, rejected exactly when an "
         "invalid value or a nested Ellipsis occurs), C17_invalid / C17_invalid_any (+_propagates, C17_raise_skips_rest), C17_once / "
         "C17_once_outer / C17_once_nobody_else / C17_once_not_on_failed_enter (each entered tag is handed exactly once, at its exit, "
         "to the hook current at its entry, on every exit path). All by mutual structural induction, for all programs and states. "
         "Tie: the same program terms are interpreted with real `with tag:` statements and sys.displayhook(v) calls on real objects "
         "(plain Tags; lists, tuples and subclasses, TagLists, Tagifiable objects, objects with tagify and _repr_html_ incl. a real "
         "JSXTag; recorder as outermost hook, hook identity sampled around every block) and children, log, flags and exception "
         "kind are compared with the model and fed to the executable statement (Lean, spec side) for every case.",
    design="DESIGN.md §6 C17",
    note="Guard: the outermost hook is the harness's recorder, which never raises. Modelled, not verified: Python's `with` "
         "protocol itself (__exit__ runs on every exit path, a None result lets the exception propagate, an exception in __exit__ "
         "replaces the one in flight); isinstance dispatch of the wrapper and of _tagchilds_to_tagnodes on the thirteen value kinds "
         "of the model (MetadataNode/HTMLDependency as a displayed value, and objects that are a list/tuple AND Tagifiable, are "
         "outside the modelled alphabet); str(number) is supplied by the interpreter. Judged on the property's observables only: the "
         "children each tag ends up with, the recorder's log, the hook identity around every block and the exception kind — not on "
         "how a Tag appends internally. Not part of the property and not exercised: whether a tag whose block has ENDED can be "
         "entered again (the pinned code refuses, Lemmas/Hook.lean `reenter_exited`); programs only re-enter ACTIVE tags.",
    technique="Lean 4 proof by mutual structural induction over block programs with exceptions + differential correspondence "
              "check (exhaustive small programs, random deep programs) + executable statement evaluated on the real run",
)
PROP_FILES = ["HtmlVerif/Props/C17.lean", "HtmlVerif/Props/SrcC17.lean"]

TXT = ("d", ("text", "a"))
NONE = ("d", ("none",))
ELL = ("d", ("ellipsis",))
REPR = ("d", ("reprHtml", "<r>"))
HTM = ("d", ("html", "<h>"))
NUM = ("d", ("num", "7"))
INV = ("d", ("invalid",))
SELF0 = ("d", ("tagRef", 0))
RAISE = ("r",)
TGF = ("d", ("tagifiable", "f"))                       # tagify() only
TGR = ("d", ("tagifiableRepr", "j"))                   # tagify() and _repr_html_(): JSXTag, widgets
TL = ("d", ("tagList", [("text", "p"), ("robj", "<o>"), ("trobj", "w")]))
LST = ("d", ("list", [("text", "x"), ("none",), ("tuple", [("num", "7"), ("reprHtml", "<q>")]), ("tagifiableRepr", "k")]))
TUP = ("d", ("tuple", [("html", "<b>"), ("list", []), ("tagifiable", "g")]))
LBAD = ("d", ("list", [("text", "x"), ("tuple", [("none",), ("ellipsis",)])]))   # `...` below top level: TypeError
LINV = ("d", ("tuple", [("text", "y"), ("invalid",)]))


# ------------------------------------------------------------------ exhaustive small scope
def forests(budget: int, depth: int, nxt: int, leafs, active=(), rebind=False):
    """all statement lists with <= budget statements and nesting <= depth, tags numbered in order of first appearance:
    a block's tag is a fresh one or one whose block is ACTIVE at that point (re-entering raises).  A tag whose block has
    ended is never entered again: whether that is possible is not part of the property.  With `rebind`, also the
    statement that gives any tag used so far a new child-list object.
    yields (stmts, n_statements, next_fresh_id)"""
    yield ([], 0, nxt)
    if budget == 0:
        return
    for first, used1, nxt1 in stmts(budget, depth, nxt, leafs, active, rebind):
        for rest, used2, nxt2 in forests(budget - used1, depth, nxt1, leafs, active, rebind):
            yield ([first] + rest, used1 + used2, nxt2)


def stmts(budget: int, depth: int, nxt: int, leafs, active=(), rebind=False):
    for l in leafs:
        yield (l, 1, nxt)
    if rebind:
        for tid in range(nxt):
            yield (("k", tid), 1, nxt)
    if depth > 0:
        for tid in tuple(active) + (nxt,):
            nxt1 = max(nxt, tid + 1)
            for body, used, nxt2 in forests(budget - 1, depth - 1, nxt1, leafs, tuple(active) + (tid,), rebind):
                yield (("b", tid, body), 1 + used, nxt2)


def reenters_exited(ps, active=(), exited=None) -> bool:
    """does the program text enter a tag after a block of that tag has ended?  (conservative: dead code counts)"""
    exited = set() if exited is None else exited
    for p in ps:
        if p[0] != "b":
            continue
        if p[1] in exited:
            return True
        if p[1] not in active:
            if reenters_exited(p[2], tuple(active) + (p[1],), exited):
                return True
            exited.add(p[1])
        # re-entering an active tag raises: its body does not run, but keep to the conservative reading
        elif reenters_exited(p[2], active, exited):
            return True
    return False


def _val_tags(v) -> int:
    if v[0] == "tagRef":
        return v[1] + 1
    if v[0] in ("list", "tuple"):
        return max([_val_tags(x) for x in v[1]] or [0])
    if v[0] == "tagList":
        return max([i[1] + 1 for i in v[1] if i[0] == "tagRef"] or [0])
    return 0


def n_tags(ps) -> int:
    m = 0
    for p in ps:
        if p[0] == "b":
            m = max(m, p[1] + 1, n_tags(p[2]))
        elif p[0] == "k":
            m = max(m, p[1] + 1)
        elif p[0] == "d":
            m = max(m, _val_tags(p[1]))
    return m


def has_block(ps) -> bool:
    return any(p[0] == "b" for p in ps)


def depth_of(ps) -> int:
    return max([1 + depth_of(p[2]) for p in ps if p[0] == "b"] or [0])


def line_of(ps, init=None) -> str:
    n = n_tags(ps)
    init = init if init is not None else [[] for _ in range(n)]
    assert len(init) >= n
    return "hook_run " + elist([elist([ehitem(i) for i in l]) for l in init]) + " " + ehprogs(ps)


# ------------------------------------------------------------------ random deep programs
def rand_item(rng, ntags: int):
    k = rng.random()
    if k < 0.4:
        return ("text", gen.rand_text(rng, 4))
    if k < 0.55:
        return ("html", rng.choice(gen.HTML_POOL))
    if k < 0.7:
        return ("robj", "<o>")
    if k < 0.8:
        return ("tobj", rng.choice(["f", "g"]))
    if k < 0.9:
        return ("trobj", rng.choice(["j", "w"]))
    return ("tagRef", rng.randrange(ntags))


def rand_val(rng, ntags: int, depth: int = 2, elem: bool = False):
    """a displayed value; `elem`: an element of a list/tuple (a bad element there makes the whole value rejected, so
    keep those rare)"""
    r = rng.random()
    if r < 0.24:
        return ("text", gen.rand_text(rng, 6))
    if r < 0.32:
        return ("none",)
    if r < 0.37:
        return ("text", "e") if elem and rng.random() < 0.8 else ("ellipsis",)
    if r < 0.45:
        x = rng.choice([0, 1, -3, 42, 10 ** 20, True, False, 1.5, -0.0, 1e100, 2.5e-7, float("inf"), float("nan"), 3.0])
        return ("num", str(x))
    if r < 0.52:
        return ("html", rng.choice(gen.HTML_POOL))
    if r < 0.62:
        return ("reprHtml", rng.choice(gen.HTML_POOL + ["<p>&</p>"]))
    if r < 0.71:
        return ("tagRef", rng.randrange(ntags))
    if r < 0.76:
        return ("tagifiable", rng.choice(["f", "g", gen.rand_text(rng, 3)]))
    if r < 0.83:
        return ("tagifiableRepr", rng.choice(["j", "w", gen.rand_text(rng, 3)]))
    if r < 0.87:
        return ("tagList", [rand_item(rng, ntags) for _ in range(rng.randint(0, 3))])
    if r < 0.95 and depth > 0:
        return (rng.choice(["list", "tuple"]), [rand_val(rng, ntags, depth - 1, True) for _ in range(rng.randint(0, 4))])
    if r < 0.95:
        return ("text", "d")
    return ("text", "i") if elem and rng.random() < 0.8 else ("invalid",)


def _is_bad(v) -> bool:
    return v[0] == "invalid" or (v[0] in ("list", "tuple") and any(x[0] == "ellipsis" or _is_bad(x) for x in v[1]))


def rand_prog(rng, ntags: int, depth: int, size: list, p_raise: float, p_inv: float, state: dict, active=()):
    """a statement list; `size` is a one-element budget; `state['next']` = next unused tag; `active` = the tags whose
    block we are inside (the only ones, besides fresh ones, a with-statement may name)"""
    out = []
    n = rng.randint(0, 4)
    for _ in range(n):
        if size[0] <= 0:
            break
        size[0] -= 1
        r = rng.random()
        if depth > 0 and r < 0.45:
            q = rng.random()
            if (q < 0.8 or not active) and state["next"] < ntags:
                t = state["next"]
                state["next"] += 1
            elif active:
                t = rng.choice(active)            # re-enter an active tag: raises RuntimeError
            else:
                continue
            # bias towards a deep spine
            out.append(("b", t, rand_prog(rng, ntags, depth - 1, size, p_raise, p_inv, state, tuple(active) + (t,))))
        elif r < 0.45 + p_raise:
            out.append(RAISE)
        elif r < 0.50 + p_raise and state["next"] > 0:
            # a new child-list object for the innermost active tag, an outer one, or any tag used so far
            out.append(("k", rng.choice(active) if active and rng.random() < 0.8 else rng.randrange(state["next"])))
        else:
            v = rand_val(rng, ntags)
            if _is_bad(v) and rng.random() > p_inv * 10:
                v = ("text", "k")
            out.append(("d", v))
    return out


def rand_spine(rng, ntags: int, depth: int, state: dict, p_raise: float, active=()):
    """a program that really reaches nesting `depth`: a chain of fresh blocks with random statements around"""
    size = [rng.randint(3, 12)]
    pre = rand_prog(rng, ntags, 0, size, 0.0, 0.0, state, active)
    if depth == 0 or state["next"] >= ntags:
        tail = rand_prog(rng, ntags, 1, [rng.randint(0, 4)], p_raise, 0.05, state, active)
        return pre + tail
    t = state["next"]
    state["next"] += 1
    inner = rand_spine(rng, ntags, depth - 1, state, p_raise, tuple(active) + (t,))
    post = rand_prog(rng, ntags, 1, [rng.randint(0, 4)], p_raise / 2, 0.02, state, active)
    return pre + [("b", t, inner)] + post


def rand_init(rng, ntags: int):
    init = []
    for _ in range(ntags):
        l = []
        while rng.random() < 0.3:
            l.append(rand_item(rng, ntags))
        init.append(l)
    return init


# ------------------------------------------------------------------ pretty printer (replays)
def item_src(i) -> str:
    return {"text": repr(i[1]), "html": f"HTML({i[1]!r})", "robj": f"ReprObj({i[1]!r})", "tagRef": f"t[{i[1]}]",
            "tobj": f"TagifyObj({i[1]!r})", "trobj": f"TagifyReprObj({i[1]!r})"}[i[0]]


def val_src(v) -> str:
    k = v[0]
    if k == "list":
        return "[" + ", ".join(val_src(x) for x in v[1]) + "]"
    if k == "tuple":
        return "(" + "".join(val_src(x) + ", " for x in v[1]) + ")"
    if k == "tagList":
        return "TagList(" + ", ".join(item_src(i) for i in v[1]) + ")"
    return {"none": "None", "ellipsis": "...", "invalid": "object()", "text": repr(v[-1]), "num": v[-1],
            "html": f"HTML({v[-1]!r})", "reprHtml": f"ReprObj({v[-1]!r})", "tagRef": f"t[{v[-1]}]",
            "tagifiable": f"TagifyObj({v[-1]!r})", "tagifiableRepr": f"TagifyReprObj({v[-1]!r})"}[k]


def py_of(ps, ind="    ") -> str:
    out = []
    for p in ps:
        if p[0] == "r":
            out.append(ind + "raise Boom()")
        elif p[0] == "k":
            out.append(ind + f"t[{p[1]}].children = TagList(*t[{p[1]}].children)   # new list object, same nodes")
        elif p[0] == "d":
            out.append(ind + f"sys.displayhook({val_src(p[1])})")
        else:
            out.append(ind + f"with t[{p[1]}]:")
            out.append(py_of(p[2], ind + "    ") if p[2] else ind + "    pass")
    return "\n".join(out)


def snippet(line: str) -> str:
    t = Toks(line.split(" ", 1)[1])
    init = p_list(t, lambda t: p_list(t, p_hitem))
    ps = p_list(t, p_hprog)
    kids = "; ".join(f"t[{k}].children = TagList({', '.join(item_src(i) for i in l)})" for k, l in enumerate(init) if l)
    return ("import sys; from htmltools import Tag, TagList, HTML\n"
            "class Boom(Exception): pass\n"
            "class ReprObj:\n    def __init__(s, h): s.h = h\n    def _repr_html_(s): return s.h\n"
            "    def __repr__(s): return f'ReprObj({s.h!r})'\n"
            "class TagifyObj:          # Tagifiable only\n    def __init__(s, n): s.n = n\n    def tagify(s): return Tag('span', s.n)\n"
            "    def __repr__(s): return f'{type(s).__name__}({s.n!r})'\n"
            "class TagifyReprObj(TagifyObj):   # Tagifiable AND self-rendering, like htmltools.JSXTag or a widget\n"
            "    def _repr_html_(s): return '<i>inert ' + s.n + '</i>'\n"
            f"t = [Tag('div') for _ in range({len(init)})]\n"
            + (kids + "   # initial children\n" if kids else "")
            + "def show(c):   # tags by position (a tag may sit inside itself)\n"
            "    k = [i for i, x in enumerate(t) if x is c]\n"
            "    return f't[{k[0]}]' if k else repr(c)\n"
            "log = []; saved = sys.displayhook; sys.displayhook = rec = log.append\n"
            "try:\n" + (py_of(ps) or "    pass") + "\n"
            "finally:\n    print('recorder restored:', sys.displayhook is rec)\n"
            "    print('children:', [[show(c) for c in x.children] for x in t])\n"
            "    print('recorder log:', [show(v) for v in log]); sys.displayhook = saved\n")


def snippet1(line: str) -> str:
    """one value through Tag.append / through the display-hook wrapper alone"""
    opn, rest = line.split(" ", 1)
    v = p_hval(Toks(rest))
    n = max(2, _val_tags(v))
    head = snippet("hook_run " + elist(["[ ]"] * n) + " [ ]").split("def show(c)")[0]
    if opn == "hook_append":
        return head + f"x = Tag('span'); x.append({val_src(v)}); print(list(x.children))\n"
    return (head + "from htmltools._core import wrap_displayhook_handler\n"
            f"got = []; wrap_displayhook_handler(got.append)({val_src(v)}); print(got)   # what the wrapper hands on\n")


def _shrinker(ck):
    def _shrink(f):
        """cases are evaluated in order of size, so the first failing input is already a smallest one; prefer a whole
        program run (real `with` blocks) over a single-value case when both fail; add the model's answer and a
        reproduction against the public API"""
        try:
            if not f.line.startswith("hook_run"):
                runs = [g for g in ck.failures if g.kind == "property" and g.line.startswith("hook_run")]
                if runs:
                    f = runs[0]
            if not f.model:
                f.model = core.Driver().run([f.line])[0]
            if not f.py:
                f.py = snippet(f.line) if f.line.startswith("hook_run") else snippet1(f.line)
        except Exception:
            pass
        return f
    return _shrink


# ------------------------------------------------------------------ runner
CORPUS = [
    # the two situations of tests/test_tags_context.py, in this alphabet
    [("b", 0, [TXT, ("d", ("tagRef", 3)), ("b", 1, [("b", 2, [("d", ("text", "world"))])]), ("d", ("text", "!"))])],
    [("b", 0, [RAISE])], [("b", 0, [INV])], [("b", 0, [("b", 0, [])])],
    # a tag displayed inside its own block (cycle through a reference), and inside a nested one
    [("b", 0, [SELF0, ("b", 1, [SELF0, ("d", ("tagRef", 1))])])],
    # re-entering an active tag at distance 1..3
    [("b", 0, [("b", 1, [("b", 2, [("b", 0, [TXT])]), TXT]), TXT]), TXT],
    [("b", 0, [("b", 1, []), ("b", 2, [("b", 2, [TXT]), TXT]), TXT])],
    # exceptions at depth with siblings before/after; invalid at top level is only logged
    [INV, ELL, NONE, ("b", 0, [NONE, ELL, REPR, HTM, NUM, ("b", 1, [TXT, INV, TXT]), TXT]), TXT],
    [("b", 0, [("b", 1, [("b", 2, [("b", 3, [RAISE])])])]), TXT],
    [],
    # sequences and Tagifiable objects under the normal child rules, inside a block and at top level (logged raw)
    [LST, TGR, ("b", 0, [TGF, TGR, TL, LST, TUP, ("b", 1, [TGR, LST]), TGR])],
    [("b", 0, [TXT, LBAD, TXT])], [("b", 0, [LST, LINV, TXT])],
    [("b", 0, [("d", ("list", [("tagRef", 0), ("tagRef", 1), ("tagList", [("tagRef", 1)])]))])],
    # the block's tag (or an enclosing one) gets a new child-list object part-way through (seeded change C17-3)
    [("b", 0, [TXT, ("k", 0), TXT, NONE, ("b", 1, [TXT]), LST])],
    [("b", 0, [TXT, ("b", 1, [("k", 0), ("k", 1), TXT, ("b", 2, [])]), TXT])],
]


def shared_container_oracle(ck) -> int:
    """one list / tuple / TagList object occurring several times inside ONE displayed value (a separator reused between
    items): every occurrence contributes its items, in order — the block's tag ends up with exactly what the same value built
    from separate equal containers gives"""
    import sys
    from htmltools import Tag, TagList
    n = 0

    def collect(value):
        t = Tag("div")
        old = sys.displayhook
        sys.displayhook = lambda v: None          # the finished tag is handed to this hook, silently
        try:
            with t:
                sys.displayhook(value)
        finally:
            sys.displayhook = old
        return [str(c) for c in t.children]

    makers = [("list", lambda: ["-", Tag("br")]), ("tuple", lambda: ("-", 7)), ("TagList", lambda: TagList("-", Tag("hr"))), ("nested", lambda: [["x"], ("y",)]),
              ("empty list", lambda: [])]
    shapes = [("twice in a list", lambda a, b: ["one", a, "two", b, 3]), ("twice in a tuple", lambda a, b: (a, b)),
              ("at two depths", lambda a, b: ["p", a, ["q", b]]), ("three times", lambda a, b: [a, b, a])]
    for ml, mk in makers:
        for sl, shape in shapes:
            n += 1
            ck.holds_checked += 1
            try:
                sep = mk()
                got = collect(shape(sep, sep))
                want = collect(shape(mk(), mk()) if sl != "three times" else (lambda a, b: [a, b, mk()])(mk(), mk()))
            except Exception as e:  # noqa: BLE001
                ck.py_violation(f"shared_container {ml} {sl}", f"raised {type(e).__name__}: {e}", "displaying a value that reuses one container object raised", py=f"{ml}, {sl}")
                continue
            if got != want:
                ck.py_violation(f"shared_container {ml} {sl}", repr(got)[:300],
                                f"a displayed value in which one {ml} object occurs {sl}: the block's tag collected {got}; the same value built from separate equal "
                                f"containers gives {want}",
                                py="sep = ['-', Tag('br')]\nwith Tag('div') as t:\n    sys.displayhook(['one', sep, 'two', sep, 3])\n[str(c) for c in t.children]")
    ck.exhaustive_scopes.append({"scope": "one container object several times inside one displayed value: 5 container kinds x 4 shapes", "n": n, "exhaustive": True})
    return n


def run(tier: str) -> int:
    ck = core.Check(PID, tier, PROP_FILES)
    ck.prepare()
    rng = ck.rng
    ck.rule = ("a case is one program run (initial children, statement list) or one single-value normalisation; non-trivial = "
               "the program contains at least one with-block; distinct by wire term")
    cases = []  # (line, nontrivial, tag)

    def add_prog(ps, tag, init=None):
        # whether a tag whose block has ENDED can be entered again is not part of the property (the pinned code
        # refuses; a maintainer may well allow it): no program depends on it
        assert not reenters_exited(ps), ps
        cases.append((line_of(ps, init), has_block(ps), tag))

    # 0. the value rules, one value at a time (Tag.append and the wrapper in isolation)
    vals = [("none",), ("ellipsis",), ("invalid",), ("tagRef", 0), ("tagRef", 1)]
    vals += [p[1] for p in (TGF, TGR, TL, LST, TUP, LBAD, LINV)]
    vals += [("list", []), ("tuple", []), ("tagList", []), ("list", [("none",)]), ("tuple", [("ellipsis",)]),
             ("list", [("list", [("list", [("tagifiableRepr", "deep")])])]), ("tuple", [("tagRef", 1), ("tagRef", 1)])]
    vals += [rand_val(rng, 2, 3) for _ in range(ck.budget(300, 3000))]
    strs = ["", "a", "<&>", "x\ny", "é😀"] + [gen.rand_text(rng, 8) for _ in range(ck.budget(20, 200))]
    for s in strs:
        vals += [("text", s), ("html", s), ("reprHtml", s), ("tagifiable", s), ("tagifiableRepr", s),
                 ("list", [("reprHtml", s), ("text", s)]), ("tagList", [("robj", s), ("trobj", s)])]
    for x in [0, 1, -1, True, False, 1.5, -0.0, 1e22, 1e-7, float("inf"), float("-inf"), float("nan"), 10 ** 30]:
        vals.append(("num", str(x)))
    for v in vals:
        cases.append(("hook_append " + ehval(v), True, "append"))
        cases.append(("hook_wrap " + ehval(v), True, "wrap"))
        add_prog([("b", 2, [("d", v)])], "single")
    # 1. corpus
    for ps in CORPUS:
        add_prog(ps, "corpus")
    # 2. exhaustive small scope: a raise of every kind at every possible point
    ex = []
    SEQ = "Tagifiable object / object with tagify and _repr_html_ / TagList / nested list / tuple / list with a nested Ellipsis / tuple with an invalid value"
    if tier == "quick":
        scopes = [(6, 4, [TXT, INV, RAISE], False, "text / invalid value / raise"),
                  (5, 4, [TXT, NONE, ELL, REPR, INV, RAISE, SELF0], False,
                   "text / None / Ellipsis / _repr_html_ object / invalid / raise / the first tag itself"),
                  (5, 3, [TXT, TGR, LST, LBAD, RAISE], False,
                   "text / object with tagify and _repr_html_ / nested list / list with a nested Ellipsis / raise"),
                  (4, 3, [TXT, TGF, TGR, TL, LST, TUP, LBAD, LINV, RAISE], False, "text / raise / " + SEQ),
                  (5, 3, [TXT, RAISE], True, "text / raise / a new child-list object for any tag used so far")]
    else:
        scopes = [(6, 4, [TXT, NONE, REPR, INV, RAISE], False, "text / None / _repr_html_ object / invalid / raise"),
                  (5, 5, [TXT, NONE, ELL, REPR, HTM, NUM, INV, RAISE, SELF0], False, "the nine scalar leaf kinds"),
                  (6, 6, [TXT, INV, RAISE], False, "text / invalid value / raise (nesting to 6)"),
                  (5, 4, [TXT, TGF, TGR, TL, LST, TUP, LBAD, LINV, RAISE], False, "text / raise / " + SEQ),
                  (6, 3, [TXT, TGR, RAISE], True,
                   "text / object with tagify and _repr_html_ / raise / a new child-list object for any tag used so far")]
    seen = set()
    for (n, d, leafs, rb, what) in scopes:
        k = 0
        for f, _, _ in forests(n, d, 0, leafs, (), rb):
            l = line_of(f)
            k += 1
            if l in seen:
                continue
            seen.add(l)
            ex.append((l, has_block(f), "exhaustive"))
        ck.exhaustive_scopes.append({
            "scope": f"all programs with <= {n} statements, nesting <= {d}, leaves: {what}; every with-statement over a fresh tag or "
                     "a tag whose block is active at that point", "programs": k, "exhaustive": True})
    cases += ex
    # 3. random deep programs (nesting up to 10), random initial children, rich values
    for _ in range(ck.budget(6000, 120000)):
        ntags = rng.randint(1, 14)
        state = {"next": 0}
        depth = rng.randint(0, 10)
        p_raise = rng.choice([0.0, 0.0, 0.03, 0.1])
        if rng.random() < 0.5:
            ps = rand_spine(rng, ntags, depth, state, p_raise)
        else:
            ps = rand_prog(rng, ntags, depth, [rng.randint(1, 40)], p_raise, rng.choice([0.0, 0.02]), state)
        add_prog(ps, f"random-depth-{min(depth_of(ps), 10)}", rand_init(rng, max(ntags, n_tags(ps))))
    cases.sort(key=lambda c: len(c[0]))   # stable; the failing input reported first is then a smallest one
    lines = [c[0] for c in cases]
    impl = core.impl_many(lines)
    for (l, nt, tag), im in zip(cases, impl):
        ck.add(l, im, nontrivial=nt, tag=tag)
        if im.startswith("raised"):
            ck.tagc("outcome-" + im.split(" ", 2)[1])
    ck.add_src(["Tag_appendC17"])        # source tie (DESIGN §14): the regenerated functions against the real ones
    srctie_c17.add_src_c17(ck, ["handler_wrapperC17", "Tag_enterC17", "Tag_exitC17", "wrap_displayhook_handlerC17", "applyCallableC17"])
    ck.extra_cov["shared_container_cases"] = shared_container_oracle(ck)
    ck.correspond(holds=True)
    return ck.finish(shrink=_shrinker(ck))


def replay(body: dict) -> int:
    import ops
    line = body.get("line")
    if not line:
        import json
        print(json.dumps(body, indent=1))
        print("no concrete input in this replay file (no-failing-input-found)")
        return 1
    impl = ops.run_line(line)
    drv = core.Driver()
    model, holds = drv.run([line, f"holds {PID} {line} | {impl}"])
    print(snippet(line) if line.startswith("hook_run") else snippet1(line))
    print("line :", line)
    print("impl :", impl, "   (outcome, recorder current again, per-with hook restored, recorder log, children per tag)")
    print("model:", model)
    print("statement holds on impl answer:", holds)
    return 0 if (impl == model and holds == "T") else 1
