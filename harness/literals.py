#!/usr/bin/env python3
"""Change-directed search (DESIGN §5.3 item 4, §14.4): string literals that the hand-written source of /repo contains
now and did not contain when the model was aligned.  A change that singles out a particular name, token or value
("special-cases an input") almost always spells it; feeding such literals to every generator turns an input no random
search would reach into one that is tried first.  On the unchanged tree the set is empty and nothing changes.

    literals.py --write     record the baseline (harness/source_literals.json) from the tree as it is"""
from __future__ import annotations

import ast
import json
import os
import re
import sys

HERE = os.path.dirname(os.path.abspath(__file__))
BASE = os.path.join(HERE, "source_literals.json")
FILES = ["htmltools/_core.py", "htmltools/_util.py", "htmltools/_jsx.py", "htmltools/__init__.py", "htmltools/_versions.py",
         "htmltools/tags.py", "htmltools/svg.py"]
BASE_INTS = os.path.join(HERE, "source_ints.json")


def harvest(repo: str) -> list[str]:
    out: set[str] = set()
    for rel in FILES:
        p = os.path.join(repo, rel)
        try:
            with open(p, encoding="utf-8") as f:
                tree = ast.parse(f.read())
        except (OSError, SyntaxError):
            continue
        docs = set()
        for n in ast.walk(tree):
            if isinstance(n, (ast.FunctionDef, ast.ClassDef, ast.Module, ast.AsyncFunctionDef)):
                b = n.body
                if b and isinstance(b[0], ast.Expr) and isinstance(b[0].value, ast.Constant) and isinstance(b[0].value.value, str):
                    docs.add(id(b[0].value))
        for n in ast.walk(tree):
            if isinstance(n, ast.Constant) and isinstance(n.value, str) and id(n) not in docs and len(n.value) <= 48:
                out.add(n.value)
                # a regular expression or a character class spells its members too
                for w in re.findall(r"[A-Za-z][A-Za-z0-9_:.-]{1,30}", n.value):
                    out.add(w)
    return sorted(out)


def harvest_ints(repo: str) -> list[int]:
    """integer literals between 8 and 4096 (sizes, lengths, depths, counts a change may compare against)"""
    out: set[int] = set()
    for rel in FILES:
        try:
            with open(os.path.join(repo, rel), encoding="utf-8") as f:
                tree = ast.parse(f.read())
        except (OSError, SyntaxError):
            continue
        for n in ast.walk(tree):
            if isinstance(n, ast.Constant) and type(n.value) is int and 8 <= n.value <= 4096:
                out.add(n.value)
            if isinstance(n, ast.Constant) and isinstance(n.value, str) and len(n.value) <= 48:
                for m in re.findall(r"\{(\d+),?(\d*)\}", n.value):       # regex quantifiers {200,} {8,64}
                    for d in m:
                        if d and 8 <= int(d) <= 4096:
                            out.add(int(d))
    return sorted(out)


def new_ints(repo: str | None = None) -> list[int]:
    repo = repo or os.environ.get("VERIF_REPO", "/repo")
    try:
        with open(BASE_INTS) as f:
            base = set(json.load(f))
    except OSError:
        return []
    return [w for w in harvest_ints(repo) if w not in base]


def new(repo: str | None = None) -> list[str]:
    repo = repo or os.environ.get("VERIF_REPO", "/repo")
    try:
        with open(BASE) as f:
            base = set(json.load(f))
    except OSError:
        return []
    return [w for w in harvest(repo) if w not in base]


if __name__ == "__main__":
    if "--write" in sys.argv:
        with open(BASE, "w") as f:
            json.dump(harvest(os.environ.get("VERIF_REPO", "/repo")), f, indent=0, ensure_ascii=False)
        with open(BASE_INTS, "w") as f:
            json.dump(harvest_ints(os.environ.get("VERIF_REPO", "/repo")), f)
    print(new(), new_ints())
