/-
Loop rule for the translated functions: a `for` loop whose body, on every state satisfying an invariant, takes one
step `g` without raising and without leaving the loop, is the fold of `g`.  The body itself is never spelled out in
a proof — it is whatever the translator emitted — only its effect on the state is.
-/
import HtmlVerif.Lemmas.PyPrim

namespace HtmlVerif.Py

theorem forIn_ok_inv {α σ : Type} (Inv : σ → Prop) (l : List α) (init : σ)
    (f : α → σ → PyM (ForInStep σ)) (g : α → σ → σ) (h0 : Inv init)
    (hstep : ∀ a ∈ l, ∀ s, Inv s → f a s = .ok (.yield (g a s)) ∧ Inv (g a s)) :
    forIn l init f = .ok (l.foldl (fun s a => g a s) init) ∧ Inv (l.foldl (fun s a => g a s) init) := by
  induction l generalizing init with
  | nil => exact ⟨rfl, h0⟩
  | cons a t ih =>
    have ⟨e, hi⟩ := hstep a (by simp) init h0
    have := ih (g a init) hi (fun b hb s hs => hstep b (by simp [hb]) s hs)
    simp only [List.forIn_cons, e, ok_bind, List.foldl_cons]
    exact this

theorem forIn_ok {α σ : Type} (l : List α) (init : σ)
    (f : α → σ → PyM (ForInStep σ)) (g : α → σ → σ)
    (hstep : ∀ a ∈ l, ∀ s, f a s = .ok (.yield (g a s))) :
    forIn l init f = .ok (l.foldl (fun s a => g a s) init) :=
  (forIn_ok_inv (fun _ => True) l init f g trivial (fun a ha s _ => ⟨hstep a ha s, trivial⟩)).1

/-- a loop in which some step raises: the first raising step decides -/
theorem forIn_error {α σ : Type} (l₁ : List α) (a : α) (l₂ : List α) (init : σ)
    (f : α → σ → PyM (ForInStep σ)) (g : α → σ → σ) (e : PyErr)
    (hstep : ∀ b ∈ l₁, ∀ s, f b s = .ok (.yield (g b s)))
    (herr : f a (l₁.foldl (fun s b => g b s) init) = .error e) :
    forIn (l₁ ++ a :: l₂) init f = .error e := by
  induction l₁ generalizing init with
  | nil => simp only [List.nil_append, List.forIn_cons]; simp only [List.foldl_nil] at herr; rw [herr]; rfl
  | cons b t ih =>
    simp only [List.cons_append, List.forIn_cons, hstep b (by simp) init, ok_bind]
    exact ih (g b init) (fun c hc s => hstep c (by simp [hc]) s) (by simpa using herr)

/-- outcome of a translated computation against a model-level outcome, through a relation on results -/
def Sim {σ β ε : Type} (R : σ → β → Prop) (emb : ε → PyErr) (x : PyM σ) (y : Except ε β) : Prop :=
  match y with
  | .ok b => ∃ s, x = .ok s ∧ R s b
  | .error e => x = .error (emb e)

/-- simulation rule: the loop runs over the images `e c` of model-level items `c`; if every pass of the loop body,
    started in a state related to a model state, does what the model step for `c` does (yields a related state, or
    raises the corresponding exception), the whole loop does what the monadic fold of the model step does.
    The body is whatever the translator emitted; only its effect per pass is examined. -/
theorem forIn_sim {α γ σ β ε : Type} (R : σ → β → Prop) (emb : ε → PyErr) (e : γ → α) (l : List γ)
    (f : α → σ → PyM (ForInStep σ)) (m : γ → β → Except ε β) (init : σ) (b0 : β) (h0 : R init b0)
    (hstep : ∀ c ∈ l, ∀ s b, R s b →
      Sim (fun (r : ForInStep σ) b' => ∃ s', r = .yield s' ∧ R s' b') emb (f (e c) s) (m c b)) :
    Sim R emb (forIn (l.map e) init f) (l.foldlM (fun b c => m c b) b0) := by
  induction l generalizing init b0 with
  | nil => exact ⟨init, rfl, h0⟩
  | cons a t ih =>
    have hs := hstep a (by simp) init b0 h0
    simp only [List.foldlM_cons, List.map_cons, List.forIn_cons]
    cases hm : m a b0 with
    | error e =>
      rw [hm] at hs
      simp only [Sim] at hs
      rw [hs]
      exact rfl
    | ok b1 =>
      rw [hm] at hs
      obtain ⟨r, hr, s', rfl, hR⟩ := hs
      rw [hr]
      exact ih s' b1 hR (fun c hc s b hsb => hstep c (by simp [hc]) s b hsb)

/-- one pass that yields a state related to the model's next state -/
theorem Sim.yield_ok {σ β ε : Type} {R : σ → β → Prop} {emb : ε → PyErr} {x : PyM (ForInStep σ)} {b : β} (X : σ)
    (hx : x = .ok (.yield X)) (hR : R X b) :
    Sim (fun (r : ForInStep σ) b' => ∃ s', r = .yield s' ∧ R s' b') emb x (.ok b) :=
  ⟨_, hx, X, rfl, hR⟩

/-- continue after a simulated computation with a step that cannot fail on related states -/
theorem Sim.bind {σ τ β ε : Type} {R : σ → β → Prop} {R' : τ → β → Prop} {emb : ε → PyErr}
    {x : PyM σ} {y : Except ε β} {k : σ → PyM τ}
    (hx : Sim R emb x y) (hk : ∀ s b, R s b → ∃ t, k s = .ok t ∧ R' t b) : Sim R' emb (x >>= k) y := by
  cases y with
  | error e => simp only [Sim] at hx ⊢; rw [hx]; rfl
  | ok b =>
    obtain ⟨s, hs, hR⟩ := hx
    obtain ⟨t, ht, hR'⟩ := hk s b hR
    exact ⟨t, by rw [hs]; exact ht, hR'⟩

/-- a simulated computation whose results are related by "is the embedding of" is the embedded model result -/
theorem Sim.eq_embRes {σ β ε : Type} {emb : ε → PyErr} {f : β → σ} {x : PyM σ} {y : Except ε β}
    (h : Sim (fun s b => s = f b) emb x y) :
    x = match y with | .ok b => .ok (f b) | .error e => .error (emb e) := by
  cases y with
  | error e => exact h
  | ok b => obtain ⟨s, hs, rfl⟩ := h; exact hs

end HtmlVerif.Py
