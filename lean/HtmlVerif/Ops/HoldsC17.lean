/-
`holds C17 <op> <args…> | <impl answer>` — the executable statement of C17, evaluated on the implementation's answer:
the clauses of `C17_restore_all`, `C17_collect_outer`, `C17_collect_final` (which contain `C17_once`, `C17_invalid`,
`C17_reenter`) with the *real* hook flags, log, children and exception kind in place of the model's.
-/
import HtmlVerif.Ops.Hook

namespace HtmlVerif.Ops
open HtmlVerif HtmlVerif.Wire HtmlVerif.Hook

def holdsC17Run (init : List (List Item)) (ps : Progs) (a : HookAnswer) : Bool :=
  let top := ps.specTop []
  let kids := hookInit init
  -- restore: every `with` statement reached left the hook as it found it; the recorder is current again at the end
  a.flags.all id && a.hookBack && a.flags.length == (ps.flags (St.init kids)).length
  -- first raise decides the exception kind (TypeError for an invalid value, RuntimeError for re-entering)
  && a.outcome == top.outcome
  -- the outermost hook received the raw top-level values and each top-level tag once, at its exit, in order
  && a.log == top.items
  -- every entered tag: former children ++ normalised values displayed directly in its block, nested tags at their exit
  && a.children.length == init.length
  && (ps.blocksTop []).all (fun q => a.children[q.1]? == some (kids q.1 ++ q.2))
  -- tags never entered are untouched
  && (List.range init.length).all (fun t => top.entered.contains t || a.children[t]? == some (kids t))

def holdsC17 : OpTable
  | "hook_run" => some do
    let init ← listOf (listOf hookItem); let ps ← hookProgs
    expect "|"
    let a ← tryCatch (some <$> hookAnswer) (fun _ => pure Option.none)
    match a with
    | some a => pure (encBool (holdsC17Run init ps a))
    | Option.none => do set ([] : List String); pure "F"       -- not an answer of the expected shape (e.g. a foreign child)
  | "hook_append" => some do
    let v ← hookVal
    let r ← implRaw
    pure (encBool (" ".intercalate r == encExcept (fun l => encList (l.map encHookItem)) (toItems v)))
  | "hook_wrap" => some do
    let v ← hookVal
    let r ← implRaw
    pure (encBool (" ".intercalate r == (match wrapFilter v with
      | Option.none => "N"
      | some v' => "S " ++ encHookVal v')))
  | _ => none

end HtmlVerif.Ops
