import HtmlVerif.Spec.WsSites
import HtmlVerif.Lemmas.Render

namespace HtmlVerif

@[simp] theorem rightJustified_wsP (s : Str) (X : List Piece) : rightJustified (wsP s ++ X) = rightJustified X := by
  unfold wsP; split <;> simp [rightJustified, Piece.isWs]

@[simp] theorem rightJustified_opn (n : Str) (w : Bool) (a : Attrs) (sc : Bool) (X : List Piece) :
    rightJustified (.opn n w a sc :: X) = w := by simp [rightJustified, Piece.isWs, Piece.isBlockBoundary]

@[simp] theorem rightJustified_cls (n : Str) (w : Bool) (X : List Piece) :
    rightJustified (.cls n w :: X) = w := by simp [rightJustified, Piece.isWs, Piece.isBlockBoundary]

theorem wsSitesOk_wsP (left : Bool) (s : Str) (X : List Piece) :
    wsSitesOk left (wsP s ++ X) = ((s.isEmpty || left || rightJustified X) && wsSitesOk left X) := by
  unfold wsP
  by_cases h : s = []
  · simp [h]
  · have : s.isEmpty = false := by simpa using h
    simp [h, this, wsSitesOk, Piece.isWs]

@[simp] theorem wsSitesOk_opn (left : Bool) (n : Str) (w : Bool) (a : Attrs) (sc : Bool) (X : List Piece) :
    wsSitesOk left (.opn n w a sc :: X) = wsSitesOk w X := by simp [wsSitesOk, Piece.isWs, Piece.isBlockBoundary]

@[simp] theorem wsSitesOk_cls (left : Bool) (n : Str) (w : Bool) (X : List Piece) :
    wsSitesOk left (.cls n w :: X) = wsSitesOk w X := by simp [wsSitesOk, Piece.isWs, Piece.isBlockBoundary]

@[simp] theorem wsSitesOk_txt (left : Bool) (s : Str) (X : List Piece) :
    wsSitesOk left (.txt s :: X) = wsSitesOk false X := by simp [wsSitesOk, Piece.isWs, Piece.isBlockBoundary]

@[simp] theorem wsSitesOk_raw (left : Bool) (s : Str) (X : List Piece) :
    wsSitesOk left (.raw s :: X) = wsSitesOk false X := by simp [wsSitesOk, Piece.isWs, Piece.isBlockBoundary]

@[simp] theorem wsSitesOk_textP (left : Bool) (b : Bool) (s : Str) (X : List Piece) :
    wsSitesOk left (textP b s :: X) = wsSitesOk false X := by unfold textP; split <;> simp

end HtmlVerif
