/-
Driver ops for `TagList.tagify` / `Tag.tagify` / `render()` (model side; the algorithm as written).
-/
import HtmlVerif.Ops.Base
import HtmlVerif.Model.Tagify

namespace HtmlVerif.Ops
open HtmlVerif HtmlVerif.Wire

def depEntryNode (e : Tagify.DepEntry) : Node := .dep e.1 e.2.1 e.2.2

def encDepEntries (ds : List Tagify.DepEntry) : String :=
  encList (ds.map fun e => encNode (depEntryNode e))

/-- `ok <html> [resolved deps] [deps in document order]` / `err <kind>` -/
def encRendered (r : Rendered) (raw : List Tagify.DepEntry) : String :=
  match r.html with
  | .ok s => "ok " ++ encStr s ++ " " ++ encDepEntries r.deps ++ " " ++ encDepEntries raw
  | .error e => "err " ++ encErr e

def tagifyOps : OpTable
  | "tagify_list" => some do
    let ks ← nodes
    pure (encNodes (tagifyNodes ks))
  | "tagify_tag" => some do
    let n ← node
    pure (encNode (tagifyTag n))
  | "render_full_list" => some do
    let ks ← nodes
    pure (encRendered (renderOfList cfg ks) (Tagify.collectDepsKids (tagifyNodes ks)))
  | "render_full_tag" => some do
    let n ← node
    pure (encRendered (renderOfTag cfg n) (Tagify.collectDeps (tagifyTag n)))
  | _ => none

end HtmlVerif.Ops
