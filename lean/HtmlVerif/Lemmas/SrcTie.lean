/-
Shared definitions and helper lemmas of the source tie (Props/Src*.lean).
-/
import HtmlVerif.Py.Prim
import HtmlVerif.Lemmas.PyLoop
import HtmlVerif.Model.Tree
import HtmlVerif.Model.Html
import HtmlVerif.Model.Attrs

namespace HtmlVerif.SrcTie
open HtmlVerif HtmlVerif.Py

/-- the module constants the translated functions read, for given tables -/
def globalsOf (cfg : Cfg) (isSpace : Char → Bool := fun _ => false) (lower : Str → Str := id) : Globals :=
  { HTML_ESCAPE_TABLE := embTbl cfg.textTbl, HTML_ATTRS_ESCAPE_TABLE := embTbl cfg.attrTbl,
    VOID_TAG_NAMES := cfg.void, NO_ESCAPE_TAG_NAMES := cfg.noesc, isSpace := isSpace, lower := lower }

/-- one pass of `for key, value in table.items(): text = text.replace(key, value)` on the state (text, key, value) -/
def escStep (it : PVal) (st : PVal × PVal × PVal) : PVal × PVal × PVal :=
  match it, st.1 with
  | .tuple [.str [c], .str r], .str x => (PVal.str (replaceChar c r x), PVal.str [c], PVal.str r)
  | _, _ => st

theorem escape_fold (t : List (Char × Str)) (s : Str) (k v : PVal) :
    ((t.map fun kv => PVal.tuple [PVal.str [kv.1], PVal.str kv.2]).foldl
      (fun st it => escStep it st) (PVal.str s, k, v)).1 = PVal.str (seqReplace t s) := by
  induction t generalizing s k v with
  | nil => rfl
  | cons kv t ih => simp only [List.map_cons, List.foldl_cons, seqReplace, escStep]; exact ih _ _ _

theorem seqReplace_foldlM (t : List (Char × Str)) (s : Str) :
    t.foldlM (m := Except Err) (fun b kv => .ok (replaceChar kv.1 kv.2 b)) s = .ok (seqReplace t s) := by
  induction t generalizing s with
  | nil => rfl
  | cons kv t ih => simp only [List.foldlM_cons, bind, Except.bind, seqReplace]; exact ih _

/-! ### embeddings of the model's types into Python values -/

def embErr : Err → PyErr
  | .typeError => .typeError
  | .valueError => .valueError
  | .keyError => .keyError
  | .runtimeError => .runtimeError
  | .notImplemented => .notImplemented
  | .exception => .exception

/-- transport a model result -/
def embRes {α} (f : α → PVal) : Except Err α → PyM PVal
  | .ok a => .ok (f a)
  | .error e => .error (embErr e)

/-- an operand of `+`: `ob s` is an instance of some other class whose `str()` is `s` and which defines no `__add__` -/
def embH : HVal → PVal
  | .plain s => .str s
  | .html s => .html s
  | .ob s => .obj "Other" [("__str__", .str s)]

/-- a value supplied for an attribute -/
def embArg : AttrArg → PVal
  | .none => .none
  | .boolF => .bool false
  | .boolT => .bool true
  | .str s => .str s
  | .html s => .html s
  | .num t => .float t
  | .bad => .obj "Other" []

def embVal : AttrVal → PVal
  | .plain s => .str s
  | .html s => .html s

def embAttrs (a : Attrs) : PVal := .dict (a.map fun kv => (kv.1, embVal kv.2))

def embArgDict (d : List (Str × AttrArg)) : PVal := .dict (d.map fun kv => (kv.1, embArg kv.2))

/-! ### attribute dictionaries -/


theorem endswith_char (s : Str) (c : Char) :
    pyEndswith (.str s) (.str [c]) = .ok (.bool (decide (s.getLast? = some c))) := by
  simp only [pyEndswith, textOf, pure_eq_ok]
  congr 2
  rcases List.eq_nil_or_concat s with rfl | ⟨t, a, rfl⟩
  · simp
  · simp [List.isPrefixOf, eq_comm]
    by_cases h : c = a <;> simp [h]

theorem slice_dropLast (s : Str) : pySlice (.str s) none (some (-1)) = .ok (.str s.dropLast) := by
  simp only [pySlice, sliceList, clampIdx, pure_eq_ok]
  congr 2
  have : ((-1 : Int) + (s.length : Int)).toNat = s.length - 1 := by omega
  simp [this, List.dropLast_eq_take]

theorem replaceChar_single (k v : Char) (s : Str) : replaceChar k [v] s = s.map fun c => if c = k then v else c := by
  induction s with
  | nil => rfl
  | cons a t ih =>
    simp only [replaceChar, List.flatMap_cons, List.map_cons] at *
    split <;> simp_all

theorem dictSet_emb (k : Str) (v : AttrVal) (a : Attrs) :
    Py.dictSet k (embVal v) (a.map fun kv => (kv.1, embVal kv.2)) = (HtmlVerif.dictSet k v a).map fun kv => (kv.1, embVal kv.2) := by
  induction a with
  | nil => rfl
  | cons x t ih =>
    obtain ⟨k', v'⟩ := x
    simp only [List.map_cons, Py.dictSet, HtmlVerif.dictSet]
    split <;> simp_all

@[simp] theorem embVal_plain (s : Str) : embVal (.plain s) = .str s := rfl
@[simp] theorem embVal_html (s : Str) : embVal (.html s) = .html s := rfl

theorem dictSet_emb_plain (k s : Str) (a : Attrs) :
    Py.dictSet k (.str s) (a.map fun kv => (kv.1, embVal kv.2)) = (HtmlVerif.dictSet k (.plain s) a).map fun kv => (kv.1, embVal kv.2) :=
  dictSet_emb k (.plain s) a
theorem dictSet_emb_html (k s : Str) (a : Attrs) :
    Py.dictSet k (.html s) (a.map fun kv => (kv.1, embVal kv.2)) = (HtmlVerif.dictSet k (.html s) a).map fun kv => (kv.1, embVal kv.2) :=
  dictSet_emb k (.html s) a

/-- the model's step for one `(k, v)` pair of the inner loop of `update` -/
def pairStep (cfg : Cfg) (kv : Str × AttrArg) (acc : Attrs) : Except Err Attrs :=
  match normAttrValue kv.2 with
  | .error e => .error e
  | .ok none => .ok acc
  | .ok (some val) =>
    let nm := normAttrName kv.1
    let val' := match alookup nm acc with
      | some old => mergeVal cfg old val
      | none => val
    .ok (HtmlVerif.dictSet nm val' acc)

theorem accumPairs_fold (cfg : Cfg) (l : List (Str × AttrArg)) (acc : Attrs) :
    accumPairs cfg l acc = l.foldlM (fun acc kv => pairStep cfg kv acc) acc := by
  induction l generalizing acc with
  | nil => rfl
  | cons kv t ih =>
    obtain ⟨k, v⟩ := kv
    simp only [accumPairs, List.foldlM_cons, pairStep]
    cases normAttrValue v with
    | error e => rfl
    | ok o => cases o with
      | none => exact ih acc
      | some w => exact ih _

theorem accumDicts_fold (cfg : Cfg) (ds : List (List (Str × AttrArg))) (acc : Attrs) :
    accumDicts cfg ds acc = ds.foldlM (fun acc d => accumPairs cfg d acc) acc := by
  induction ds generalizing acc with
  | nil => rfl
  | cons d t ih =>
    simp only [accumDicts, List.foldlM_cons]
    cases accumPairs cfg d acc with
    | error e => rfl
    | ok a => exact ih a

theorem dictGet_emb (k : Str) (a : Attrs) :
    Py.dictGet? k (a.map fun kv => (kv.1, embVal kv.2)) = (alookup k a).map embVal := by
  induction a with
  | nil => rfl
  | cons x t ih =>
    obtain ⟨k', v'⟩ := x
    simp only [List.map_cons, Py.dictGet?, alookup]
    split <;> simp_all

theorem attrsUpdate_fold (cfg : Cfg) (cur : Attrs) (ds : List (List (Str × AttrArg))) :
    attrsUpdate cfg cur ds
      = match ds.foldlM (fun acc d => d.foldlM (fun acc kv => pairStep cfg kv acc) acc) [] with
        | .ok attrz => .ok (dictUpdate cur attrz)
        | .error e => .error e := by
  simp only [attrsUpdate, accumDicts_fold]
  have : (fun acc d => accumPairs cfg d acc)
      = fun (acc : Attrs) (d : List (Str × AttrArg)) => d.foldlM (m := Except Err) (fun acc kv => pairStep cfg kv acc) acc := by
    funext acc d; exact accumPairs_fold cfg d acc
  rw [this]
  cases List.foldlM (m := Except Err) (fun (acc : Attrs) (d : List (Str × AttrArg)) =>
    List.foldlM (fun acc kv => pairStep cfg kv acc) acc d) [] ds <;> rfl

theorem dictUpdate_emb (cur attrz : Attrs) :
    (attrz.map fun kv => (kv.1, embVal kv.2)).foldl (fun c kv => Py.dictSet kv.1 kv.2 c)
        (cur.map fun kv => (kv.1, embVal kv.2))
      = (dictUpdate cur attrz).map fun kv => (kv.1, embVal kv.2) := by
  induction attrz generalizing cur with
  | nil => rfl
  | cons x t ih =>
    simp only [List.map_cons, List.foldl_cons, dictUpdate, dictSet_emb]
    exact ih _

end HtmlVerif.SrcTie
