/-
C15 — Attribute names and values are normalised and merged in argument order.

Model: `Model/Attrs.lean` (TagAttrDict, attribute half of Tag.__init__), `Model/Consolidate.lean`.
Spec side: `Spec/AttrMerge.lean` (`normNameSpec`, `normValSpec`, `mergeSpec`, `overrideKeepOrder`).

`mergeSpec cfg pairs` is the closed form "all (name, value) pairs of the call in argument order; None/False
dropped, True ↦ "", number ↦ its text; grouped by normalised name in order of first appearance; the values of
one name joined by single spaces in argument order".  `C15_merge_order`, `C15_merge_value`,
`C15_merge_plain`, `C15_merge_html`, `C15_merge_text` say exactly that about it.

Dictionaries are association lists; the representation invariant "keys are distinct" (`(keysOf a).Nodup`) is
established by construction and preserved by every operation (`C15_wf_*`).
-/
import HtmlVerif.Lemmas.Consolidate

namespace HtmlVerif.C15
open HtmlVerif

/-! ### names and values -/

/-- one trailing underscore removed, the remaining underscores turned into hyphens -/
theorem C15_normName_spec (x : Str) :
    normAttrName x = (dropOneTrailing '_' x).map (fun c => if c = '_' then '-' else c) :=
  normAttrName_eq_spec x

/-- a normalised name contains no underscore … -/
theorem C15_normName_no_underscore (x : Str) : '_' ∉ normAttrName x :=
  underscore_not_mem_normAttrName x

/-- … hence normalising twice is normalising once -/
theorem C15_normName_idem (x : Str) : normAttrName (normAttrName x) = normAttrName x :=
  normAttrName_idem x

/-- None/False dropped, True as empty string, numbers as text, str/HTML unchanged; any other type is a TypeError -/
theorem C15_normValue_spec (v : AttrArg) :
    normAttrValue v = if v = .bad then .error .typeError else .ok (normValSpec v) := by
  cases v <;> simp [normAttrValue, normValSpec]

/-! ### one call: `Tag(*dicts, **kw)` -/

/-- the attributes of a freshly built tag are the closed form over positional dicts left to right, then keywords -/
theorem C15_init_is_merge (cfg : Cfg) (dicts : List (List (Str × AttrArg))) (kw : List (Str × AttrArg))
    (hok : ∀ kv ∈ dicts.flatten ++ kw, kv.2 ≠ .bad) :
    tagInitAttrs cfg dicts kw = .ok (mergeSpec cfg (dicts.flatten ++ kw)) :=
  tagInitAttrs_eq cfg dicts kw hok

/-- the error twin: one value of an invalid type anywhere rejects the whole call -/
theorem C15_init_rejects (cfg : Cfg) (dicts : List (List (Str × AttrArg))) (kw : List (Str × AttrArg))
    (hbad : ∃ kv ∈ dicts.flatten ++ kw, kv.2 = .bad) :
    tagInitAttrs cfg dicts kw = .error .typeError :=
  tagInitAttrs_bad cfg dicts kw hbad

/-- attributes are ordered by first appearance of their normalised name -/
theorem C15_merge_order (cfg : Cfg) (pairs : List (Str × AttrArg)) :
    keysOf (mergeSpec cfg pairs) = ((normPairs pairs).map Prod.fst).eraseDups :=
  keysOf_mergeSpecN cfg _

/-- the value of a name is the left-to-right join of all (undropped) values given for it, and a name is
    present iff some undropped value was given for it -/
theorem C15_merge_value (cfg : Cfg) (pairs : List (Str × AttrArg)) (k : Str) :
    alookup k (mergeSpec cfg pairs) =
      match groupVals k (normPairs pairs) with
      | [] => none
      | v :: vs => some (joinVals cfg v vs) :=
  alookup_mergeSpecN cfg _ k

/-- all values plain: the stored value is the plain texts joined by single spaces, in argument order -/
theorem C15_merge_plain (cfg : Cfg) (pairs : List (Str × AttrArg)) (k : Str) (s : Str) (ss : List Str)
    (h : groupVals k (normPairs pairs) = (s :: ss).map .plain) :
    alookup k (mergeSpec cfg pairs) = some (.plain (joinStr [' '] (s :: ss))) := by
  rw [C15_merge_value, h]
  simp [joinVals_plain]

/-- all values HTML(): likewise, and the result is HTML() -/
theorem C15_merge_html (cfg : Cfg) (pairs : List (Str × AttrArg)) (k : Str) (s : Str) (ss : List Str)
    (h : groupVals k (normPairs pairs) = (s :: ss).map .html) :
    alookup k (mergeSpec cfg pairs) = some (.html (joinStr [' '] (s :: ss))) := by
  rw [C15_merge_value, h]
  simp [joinVals_html]

/-- any mix of kinds: the *emitted* text is the operands' emissions joined by single spaces in argument order
    (`hdistrib`: attribute escaping distributes over a one-space join, see `escDistrib_of_no_space_key`) -/
theorem C15_merge_text (cfg : Cfg) (hdistrib : EscDistrib cfg) (pairs : List (Str × AttrArg)) (k : Str)
    (v : AttrVal) (vs : List AttrVal) (h : groupVals k (normPairs pairs) = v :: vs) :
    ∃ m, alookup k (mergeSpec cfg pairs) = some m ∧
      emitAttrVal cfg m = joinStr [' '] ((v :: vs).map (emitOperand cfg)) := by
  refine ⟨joinVals cfg v vs, ?_, emit_joinVals cfg hdistrib v vs⟩
  rw [C15_merge_value, h]

/-! ### later calls replace, never append -/

/-- `attrs.update(*dicts, **kw)`: names given in this call get exactly this call's merged value (their old value
    is discarded), keep their position if they existed, and are appended in first-appearance order otherwise -/
theorem C15_update_replaces (cfg : Cfg) (cur : Attrs) (args : List (List (Str × AttrArg)))
    (hwf : (keysOf cur).Nodup) (hok : ∀ kv ∈ args.flatten, kv.2 ≠ .bad) :
    attrsUpdate cfg cur args = .ok (overrideKeepOrder cur (mergeSpec cfg args.flatten)) := by
  rw [attrsUpdate_eq cfg cur args hok, dictUpdate_eq_override _ _ hwf (nodup_keysOf_mergeSpec _ _)]

/-- the same, name by name: this call's value if the call gave one, else the old one -/
theorem C15_update_lookup (cfg : Cfg) (cur new : Attrs) (args : List (List (Str × AttrArg)))
    (h : attrsUpdate cfg cur args = .ok new) (k : Str) :
    alookup k new = (alookup k (mergeSpec cfg args.flatten)).or (alookup k cur) := by
  by_cases hb : ∃ kv ∈ args.flatten, kv.2 = .bad
  · rw [attrsUpdate_bad cfg cur args hb] at h; cases h
  · have hok : ∀ kv ∈ args.flatten, kv.2 ≠ .bad := fun kv hkv e => hb ⟨kv, hkv, e⟩
    rw [attrsUpdate_eq cfg cur args hok] at h
    cases h
    exact alookup_dictUpdate k cur _ (nodup_keysOf_mergeSpec _ _)

/-- an invalid value rejects the whole `update`; nothing was written (the receiver is the unchanged `cur`) -/
theorem C15_update_rejects (cfg : Cfg) (cur : Attrs) (args : List (List (Str × AttrArg)))
    (hbad : ∃ kv ∈ args.flatten, kv.2 = .bad) :
    attrsUpdate cfg cur args = .error .typeError :=
  attrsUpdate_bad cfg cur args hbad

/-- `attrs[k] = v` is the one-pair case of the same override -/
theorem C15_setitem_replaces (cfg : Cfg) (cur : Attrs) (k : Str) (v : AttrArg)
    (hwf : (keysOf cur).Nodup) (hok : v ≠ .bad) :
    attrsSetItem cur k v = .ok (overrideKeepOrder cur (mergeSpec cfg [(k, v)])) := by
  have hu := C15_update_replaces cfg cur [[(k, v)]] hwf (by simpa using hok)
  simp only [List.flatten_cons, List.flatten_nil, List.append_nil] at hu
  rw [← hu, attrsUpdate_single]

theorem C15_setitem_rejects (cur : Attrs) (k : Str) : attrsSetItem cur k .bad = .error .typeError := rfl

/-! ### the representation invariant -/

theorem C15_wf_init (cfg : Cfg) (dicts : List (List (Str × AttrArg))) (kw : List (Str × AttrArg)) (a : Attrs)
    (h : tagInitAttrs cfg dicts kw = .ok a) : (keysOf a).Nodup := by
  rw [(tagInitAttrs_ok_inv cfg dicts kw a h).1]
  exact nodup_keysOf_mergeSpec _ _

theorem C15_wf_update (cfg : Cfg) (cur new : Attrs) (args : List (List (Str × AttrArg)))
    (hwf : (keysOf cur).Nodup) (h : attrsUpdate cfg cur args = .ok new) : (keysOf new).Nodup :=
  nodup_attrsUpdate cfg cur new args hwf h

theorem C15_wf_setitem (cur new : Attrs) (k : Str) (v : AttrArg)
    (hwf : (keysOf cur).Nodup) (h : attrsSetItem cur k v = .ok new) : (keysOf new).Nodup := by
  simp only [attrsSetItem] at h
  split at h
  · cases h
  · cases h; exact hwf
  · cases h; exact nodup_dictSet _ _ _ hwf

/-! ### consolidate_attrs -/

/-- `consolidate_attrs(*args, **kw)` returns exactly the attributes `Tag(*args, **kw)` would have, plus the
    non-dict arguments unchanged and in order -/
theorem C15_consolidate_spec {α} (cfg : Cfg) (chk : List α → Except Err Unit)
    (args : List (TagArg α)) (kw : List (Str × AttrArg))
    (hok : ∀ kv ∈ (dictsOf args).flatten ++ kw, kv.2 ≠ .bad) (hkids : chk (kidsOf args) = .ok ()) :
    consolidate cfg chk args kw = .ok (mergeSpec cfg ((dictsOf args).flatten ++ kw), kidsOf args)
    ∧ tagInitSplit cfg chk args kw = .ok (mergeSpec cfg ((dictsOf args).flatten ++ kw), kidsOf args) := by
  simp [consolidate, tagInitSplit, tagInitAttrs_eq cfg _ _ hok, hkids]

/-- it raises exactly when building the tag raises -/
theorem C15_consolidate_error {α} (cfg : Cfg) (chk : List α → Except Err Unit)
    (args : List (TagArg α)) (kw : List (Str × AttrArg)) (e : Err) :
    consolidate cfg chk args kw = .error e ↔ tagInitSplit cfg chk args kw = .error e := by
  unfold consolidate
  cases tagInitSplit cfg chk args kw <;> simp

/-- rebuilding a tag from the result — `Tag(name, attrs, *children)` — equals building it directly -/
theorem C15_consolidate_rebuild {α} (cfg : Cfg) (chk : List α → Except Err Unit)
    (args : List (TagArg α)) (kw : List (Str × AttrArg)) (a : Attrs) (cs : List α)
    (h : consolidate cfg chk args kw = .ok (a, cs)) :
    tagInitSplit cfg chk (.dict (asDictArg a) :: cs.map .child) [] = tagInitSplit cfg chk args kw := by
  unfold consolidate at h
  cases hs : tagInitSplit cfg chk args kw with
  | error e => rw [hs] at h; cases h
  | ok r =>
    obtain ⟨a', cs'⟩ := r
    rw [hs] at h
    cases h
    unfold tagInitSplit at hs ⊢
    cases hi : tagInitAttrs cfg (dictsOf args) kw with
    | error e => rw [hi] at hs; cases hs
    | ok a'' =>
      rw [hi] at hs
      cases hc : chk (kidsOf args) with
      | error e => rw [hc] at hs; cases hs
      | ok u =>
        rw [hc] at hs
        cases hs
        rw [dictsOf_dict_children, kidsOf_dict_children, (tagInitAttrs_ok_inv cfg _ _ _ hi).1,
          tagInitAttrs_asDictArg, hc]

/-! ### non-vacuity -/

private def cfg0 : Cfg := { void := [], noesc := [], textTbl := [], attrTbl := [('"', ['&', 'q', ';'])] }

/-- colliding raw names `x`, `x_`, a dropped value in between, True, a number; then keywords -/
example : tagInitAttrs cfg0
    [[(['x'], .str ['a']), (['y', '_', 'z'], .boolT)], [(['x', '_'], .none), (['x', '_'], .num ['1'])]]
    [(['x'], .html ['<']), (['y', '-', 'z', '_'], .boolF)]
    = .ok [(['x'], .html ['a', ' ', '1', ' ', '<']), (['y', '-', 'z'], .plain [])] := by
  rfl

example : attrsUpdate cfg0 [(['a'], .plain ['0']), (['x'], .plain ['o', 'l', 'd'])]
    [[(['x', '_'], .str ['n'])], [(['b'], .boolT), (['x'], .str ['m'])]]
    = .ok [(['a'], .plain ['0']), (['x'], .plain ['n', ' ', 'm']), (['b'], .plain [])] := by
  rfl

example : consolidate cfg0 (fun (_ : List Nat) => .ok ())
    [.child 1, .dict [(['x'], .str ['a'])], .child 2, .dict [(['x', '_'], .boolT)]] [(['k'], .num ['3'])]
    = .ok ([(['x'], .plain ['a', ' ']), (['k'], .plain ['3'])], [1, 2]) := by
  rfl

example : normAttrName ['x', '_', '_'] = ['x', '-'] ∧ normAttrName ['a', '_', 'b'] = ['a', '-', 'b']
    ∧ normAttrName ['_'] = [] := by decide

end HtmlVerif.C15
