/-
Object-identity layer (C08): the tag tree with a `Nat` id on every mutable library object.

  Tag                      three objects: the Tag itself, its `TagAttrDict` (`attrs`), its `TagList` (`children`)
  MetadataNode             one object
  HTMLDependency           the object itself and its containers: the `source` dict, the `script` / `stylesheet` /
                           `meta` lists and every dict in them, the `head` TagList and everything in it
  str / HTML / number      immutable: no id
  `_repr_html_` objects,   user objects: no id of their own; what an un-expanded tagifiable object holds keeps its ids
  tagifiable objects       (its `tagify()` is called on exactly those nodes)

Operations that allocate take and return the fresh-id counter.  `erase` forgets ids and lands in `Node`.

  `Tag.__copy__`          _core.py:683-690   new Tag; every `__dict__` value copied with `copy()`: new attrs dict, new child list
  `Tag.tagify`            _core.py:844-851   `cp = copy(self); cp.children = cp.children.tagify()`
  `TagList.tagify`        _core.py:323-346   `cp = copy(self)`; from the last index down: `child.tagify()` / `copy(child)` for metadata
  `copy(MetadataNode)`                       new object
  `copy(HTMLDependency)`                     modelled as the PROPERTY demands (`icopy`): a new object that shares no container with
                                             the original — new `source` dict, new item lists with new dicts, `head` copied node by
                                             node (new TagList, new Tags, new metadata nodes; nothing is expanded).  The pinned code
                                             has no `HTMLDependency.__copy__`: its `copy()` is shallow (`ITree.itagifyPinned` below,
                                             used only for the negative twin `C08_pinned_copy_shares`).
-/
import HtmlVerif.Model.Tagify

namespace HtmlVerif.Ident
open HtmlVerif

/-- a `dict[str, str]` object -/
structure IDict where
  id  : Nat
  kvs : List (Str × Str)
  deriving DecidableEq, Repr, Inhabited

/-- a `list[dict]` object (`script`, `stylesheet`, `meta` of a dependency) -/
structure IDictList where
  id    : Nat
  items : List IDict
  deriving DecidableEq, Repr, Inhabited

/-- the non-tree fields of an HTMLDependency, with the ids of its containers -/
structure IDep where
  name       : Str
  version    : Str
  vrank      : Nat
  source     : DepSource
  sourceId   : Nat           -- id of the `source` dict; meaningful when `source ≠ none`
  script     : IDictList
  stylesheet : IDictList
  metas      : IDictList
  allFiles   : Bool
  deriving DecidableEq, Repr, Inhabited

mutual
  inductive ITree
    | tag (id aid kid : Nat) (name : Str) (ws : Bool) (attrs : Attrs) (kids : ITrees)
    | text (s : Str)
    | html (s : Str)
    | robj (s : Str)
    | mnode (id : Nat) (n : Nat)
    | dep (id : Nat) (d : IDep) (hasHead : Bool) (hid : Nat) (head : ITrees)   -- `hid`: id of the head TagList (when `hasHead`)
    | tobjL (rh : Option Str) (content : ITrees)
    | tobj1 (rh : Option Str) (content : ITree)
  inductive ITrees
    | nil
    | cons (h : ITree) (t : ITrees)
end

instance : Inhabited ITree := ⟨.text []⟩
instance : Inhabited ITrees := ⟨.nil⟩

def ITrees.append : ITrees → ITrees → ITrees
  | .nil, b => b
  | .cons h t, b => .cons h (t.append b)

instance : Append ITrees := ⟨ITrees.append⟩

/-! ### erasure -/

def IDictList.erase (l : IDictList) : List (List (Str × Str)) := l.items.map (·.kvs)

def IDep.erase (d : IDep) : DepInfo :=
  { name := d.name, version := d.version, vrank := d.vrank, source := d.source, script := d.script.erase,
    stylesheet := d.stylesheet.erase, metas := d.metas.erase, allFiles := d.allFiles }

mutual
  def ITree.erase : ITree → Node
    | .tag _ _ _ n w a k => .tag n w a k.eraseAll
    | .text s => .text s
    | .html s => .html s
    | .robj s => .robj s
    | .mnode _ n => .mnode n
    | .dep _ d hh _ hd => .dep d.erase hh hd.eraseAll
    | .tobjL rh c => .tobjL rh c.eraseAll
    | .tobj1 rh c => .tobj1 rh c.erase
  def ITrees.eraseAll : ITrees → Nodes
    | .nil => .nil
    | .cons h t => .cons h.erase t.eraseAll
end

/-! ### the ids of the mutable objects reachable from a tree -/

def IDictList.ids (l : IDictList) : List Nat := l.id :: l.items.map (·.id)

def DepSource.isNone : DepSource → Bool
  | .none => true
  | _ => false

def IDep.ids (d : IDep) : List Nat :=
  (if DepSource.isNone d.source then [] else [d.sourceId]) ++ d.script.ids ++ d.stylesheet.ids ++ d.metas.ids

mutual
  def ITree.ids : ITree → List Nat
    | .tag i a k _ _ _ kids => i :: a :: k :: kids.idsAll
    | .mnode i _ => [i]
    | .dep i d hh hid hd => i :: d.ids ++ (if hh then [hid] else []) ++ hd.idsAll
    | .tobjL _ c => c.idsAll
    | .tobj1 _ c => c.ids
    | .text _ => []
    | .html _ => []
    | .robj _ => []
  def ITrees.idsAll : ITrees → List Nat
    | .nil => []
    | .cons h t => h.ids ++ t.idsAll
end

/-! ### copies -/

/-- new dict objects for the items of a `list[dict]` -/
def freshItems : List IDict → Nat → List IDict
  | [], _ => []
  | d :: r, n => { d with id := n } :: freshItems r (n + 1)

/-- `deepcopy` of a `list[dict]`: a new list holding new dicts -/
def IDictList.fresh (l : IDictList) (n : Nat) : IDictList × Nat :=
  ({ id := n, items := freshItems l.items (n + 1) }, n + 1 + l.items.length)

/-- the containers of a dependency, all new: `source`, `script`, `stylesheet`, `meta`
    (one id is consumed for `source` also when it is `None`) -/
def IDep.fresh (d : IDep) (n : Nat) : IDep × Nat :=
  let s := d.script.fresh (n + 1)
  let y := d.stylesheet.fresh s.2
  let m := d.metas.fresh y.2
  ({ d with sourceId := n, script := s.1, stylesheet := y.1, metas := m.1 }, m.2)

mutual
  /-- `copy(x)` as the property demands for what `tagify()` copies: a structure-preserving copy in which every
      library object is new.  Tag: `Tag.__copy__` (Tag `n`, attrs `n+1`, child list `n+2`, dropped) and its children
      copied into a new list (`n+3`); metadata node: new object; dependency: new object, new containers, head copied
      node by node; str / HTML / user objects: the same object. -/
  def ITree.icopy : ITree → Nat → ITree × Nat
    | .tag _ _ _ nm ws a kids, n =>
      let r := kids.icopyAll (n + 4)
      (.tag n (n + 1) (n + 3) nm ws a r.1, r.2)
    | .mnode _ k, n => (.mnode n k, n + 1)
    | .dep _ d hh _ hd, n =>
      let rd := d.fresh (n + 1)
      let rh := hd.icopyAll (rd.2 + 1)
      (.dep n rd.1 hh rd.2 rh.1, rh.2)
    | .text s, n => (.text s, n)
    | .html s, n => (.html s, n)
    | .robj s, n => (.robj s, n)
    | .tobjL rh c, n => (.tobjL rh c, n)
    | .tobj1 rh c, n => (.tobj1 rh c, n)
  def ITrees.icopyAll : ITrees → Nat → ITrees × Nat
    | .nil, n => (.nil, n)
    | .cons h t, n =>
      let rh := h.icopy n
      let rt := t.icopyAll rh.2
      (.cons rh.1 rt.1, rt.2)
end

mutual
  /-- what takes the place of one child in the list `TagList.tagify` returns (cf. `Node.expand`), with the objects
      the code creates.  Tag child: `child.tagify()` = `copy(child)` (Tag `n`, attrs `n+1`, child list `n+2` — replaced
      at once) then `cp.children.tagify()` whose own `copy(self)` is the list `n+3`.  Tagifiable object: whatever its
      `tagify()` returns (the harness' objects call `tagify()` / `copy()` on their content).  Metadata: `copy(child)`.
      Everything else is kept (the same object). -/
  def ITree.itagify : ITree → Nat → ITrees × Nat
    | .tag _ _ _ nm ws a kids, n =>
      let r := kids.itagifyAll (n + 4)
      (.cons (.tag n (n + 1) (n + 3) nm ws a r.1) .nil, r.2)
    | .tobjL _ c, n => c.itagifyAll n
    | .tobj1 _ c, n => c.itagify n
    | .mnode _ k, n => (.cons (.mnode n k) .nil, n + 1)
    | .dep _ d hh _ hd, n =>
      let rd := d.fresh (n + 1)
      let rh := hd.icopyAll (rd.2 + 1)
      (.cons (.dep n rd.1 hh rd.2 rh.1) .nil, rh.2)
    | .text s, n => (.cons (.text s) .nil, n)
    | .html s, n => (.cons (.html s) .nil, n)
    | .robj s, n => (.cons (.robj s) .nil, n)
  /-- the loop of `TagList.tagify` on the copied list: indices from the last one down, so the objects of the tail are
      created first -/
  def ITrees.itagifyAll : ITrees → Nat → ITrees × Nat
    | .nil, n => (.nil, n)
    | .cons h t, n =>
      let rt := t.itagifyAll n
      let rh := h.itagify rt.2
      (rh.1 ++ rt.1, rh.2)
end

/-- `Tag.tagify()`: the new tag (other nodes have no such method: returned as they are) -/
def ITree.itagifyTag : ITree → Nat → ITree × Nat
  | .tag _ _ _ nm ws a kids, n =>
    let r := kids.itagifyAll (n + 4)
    (.tag n (n + 1) (n + 3) nm ws a r.1, r.2)
  | x, n => (x, n)

/-- `TagList.tagify()` on a list object: `copy(self)` is the list `n` -/
def ITrees.itagifyList (ks : ITrees) (n : Nat) : Nat × ITrees × Nat :=
  let r := ks.itagifyAll (n + 1)
  (n, r.1, r.2)

/-- `copy.copy(tag)` (`Tag.__copy__`): new Tag, new attrs dict, new child list — holding the same children -/
def ITree.icopyShallow : ITree → Nat → ITree × Nat
  | .tag _ _ _ nm ws a kids, n => (.tag n (n + 1) (n + 2) nm ws a kids, n + 3)
  | .mnode _ k, n => (.mnode n k, n + 1)
  | x, n => (x, n)

/-! ### the pinned code: `copy(HTMLDependency)` is the default shallow copy -/

mutual
  /-- as `itagify`, except that a dependency is copied as the pinned code does: a new object whose `__dict__`
      holds the *same* `source`, `script`, `stylesheet`, `meta` and `head` objects -/
  def ITree.itagifyPinned : ITree → Nat → ITrees × Nat
    | .tag _ _ _ nm ws a kids, n =>
      let r := kids.itagifyAllPinned (n + 4)
      (.cons (.tag n (n + 1) (n + 3) nm ws a r.1) .nil, r.2)
    | .tobjL _ c, n => c.itagifyAllPinned n
    | .tobj1 _ c, n => c.itagifyPinned n
    | .mnode _ k, n => (.cons (.mnode n k) .nil, n + 1)
    | .dep _ d hh hid hd, n => (.cons (.dep n d hh hid hd) .nil, n + 1)
    | .text s, n => (.cons (.text s) .nil, n)
    | .html s, n => (.cons (.html s) .nil, n)
    | .robj s, n => (.cons (.robj s) .nil, n)
  def ITrees.itagifyAllPinned : ITrees → Nat → ITrees × Nat
    | .nil, n => (.nil, n)
    | .cons h t, n =>
      let rt := t.itagifyAllPinned n
      let rh := h.itagifyPinned rt.2
      (rh.1 ++ rt.1, rh.2)
end

/-! ### mutation of one object through the public API -/

/-- what a mutation does to the object it is applied to, by kind of object.  Any function is allowed: the
    independence theorem does not depend on what the mutation is. -/
structure Mut where
  tagF    : Str × Bool → Str × Bool := id     -- a Tag's own fields (`name`, `add_ws`)
  attrsF  : Attrs → Attrs := id               -- a TagAttrDict (`attrs[k] = v`, `update`, `add_class`, `add_style`, …)
  listF   : ITrees → ITrees := id             -- a TagList (`append`, `extend`, `insert`, `del`, …), incl. a dependency head
  mnodeF  : Nat → Nat := id                   -- a bare metadata node's field
  depF    : IDep → IDep := id                 -- attribute assignment on the dependency object itself
  sourceF : DepSource → DepSource := id       -- the `source` dict
  dictF   : List (Str × Str) → List (Str × Str) := id     -- one dict of `script` / `stylesheet` / `meta`
  dictsF  : List IDict → List IDict := id     -- a `script` / `stylesheet` / `meta` list (`append({...})`, `pop()`, …)

def IDict.mutate (i : Nat) (f : Mut) (d : IDict) : IDict :=
  if d.id = i then { d with kvs := f.dictF d.kvs } else d

def IDictList.mutate (i : Nat) (f : Mut) (l : IDictList) : IDictList :=
  let items := l.items.map (IDict.mutate i f)
  if l.id = i then { l with items := f.dictsF items } else { l with items := items }

def IDep.mutate (i : Nat) (f : Mut) (d : IDep) : IDep :=
  { d with
    source := if d.sourceId = i ∧ DepSource.isNone d.source = false then f.sourceF d.source else d.source,
    script := d.script.mutate i f, stylesheet := d.stylesheet.mutate i f, metas := d.metas.mutate i f }

mutual
  /-- the tree after the object with id `i` has been mutated by `f` (every occurrence of the id: an object that
      occurs twice is one object) -/
  def ITree.mutateAt (i : Nat) (f : Mut) : ITree → ITree
    | .tag id aid kid nm ws a kids =>
      let kids' := kids.mutateAll i f
      .tag id aid kid (if id = i then (f.tagF (nm, ws)).1 else nm) (if id = i then (f.tagF (nm, ws)).2 else ws)
        (if aid = i then f.attrsF a else a) (if kid = i then f.listF kids' else kids')
    | .mnode id k => .mnode id (if id = i then f.mnodeF k else k)
    | .dep id d hh hid hd =>
      let hd' := hd.mutateAll i f
      let d' := d.mutate i f
      .dep id (if id = i then f.depF d' else d') hh hid (if hid = i ∧ hh = true then f.listF hd' else hd')
    | .tobjL rh c => .tobjL rh (c.mutateAll i f)
    | .tobj1 rh c => .tobj1 rh (c.mutateAt i f)
    | .text s => .text s
    | .html s => .html s
    | .robj s => .robj s
  def ITrees.mutateAll (i : Nat) (f : Mut) : ITrees → ITrees
    | .nil => .nil
    | .cons h t => .cons (h.mutateAt i f) (t.mutateAll i f)
end

/-! ### guard: no un-expanded tagifiable object inside a dependency head

`tagify()` never looks into the `head` of a dependency, so a tagifiable user object placed there is neither expanded
nor copied (the copy of the head holds the same user object, with whatever that object holds privately); it cannot be
rendered either (`get_html_string` raises RuntimeError on it).  Such trees are outside the freshness statement. -/

mutual
  /-- no tagifiable object anywhere below (heads included) -/
  def ITree.noTobj : ITree → Bool
    | .tag _ _ _ _ _ _ kids => kids.noTobjAll
    | .dep _ _ _ _ hd => hd.noTobjAll
    | .tobjL .. => false
    | .tobj1 .. => false
    | .mnode .. => true
    | .text _ => true
    | .html _ => true
    | .robj _ => true
  def ITrees.noTobjAll : ITrees → Bool
    | .nil => true
    | .cons h t => h.noTobj && t.noTobjAll
end

mutual
  /-- every dependency head in the tree is free of tagifiable objects -/
  def ITree.headsPlain : ITree → Bool
    | .tag _ _ _ _ _ _ kids => kids.headsPlainAll
    | .dep _ _ _ _ hd => hd.noTobjAll
    | .tobjL _ c => c.headsPlainAll
    | .tobj1 _ c => c.headsPlain
    | .mnode .. => true
    | .text _ => true
    | .html _ => true
    | .robj _ => true
  def ITrees.headsPlainAll : ITrees → Bool
    | .nil => true
    | .cons h t => h.headsPlain && t.headsPlainAll
end

/-! ### canonical labelling of a plain tree (driver side: the ids a freshly built tree would get) -/

def labelItems : List (List (Str × Str)) → Nat → List IDict
  | [], _ => []
  | d :: r, n => { id := n, kvs := d } :: labelItems r (n + 1)

def labelDictList (l : List (List (Str × Str))) (n : Nat) : IDictList × Nat :=
  ({ id := n, items := labelItems l (n + 1) }, n + 1 + l.length)

def labelDep (d : DepInfo) (n : Nat) : IDep × Nat :=
  let s := labelDictList d.script (n + 1)
  let y := labelDictList d.stylesheet s.2
  let m := labelDictList d.metas y.2
  ({ name := d.name, version := d.version, vrank := d.vrank, source := d.source, sourceId := n,
     script := s.1, stylesheet := y.1, metas := m.1, allFiles := d.allFiles }, m.2)

mutual
  def labelNode : Node → Nat → ITree × Nat
    | .tag nm ws a kids, n =>
      let r := labelNodes kids (n + 3)
      (.tag n (n + 1) (n + 2) nm ws a r.1, r.2)
    | .text s, n => (.text s, n)
    | .html s, n => (.html s, n)
    | .robj s, n => (.robj s, n)
    | .mnode k, n => (.mnode n k, n + 1)
    | .dep d hh hd, n =>
      let rd := labelDep d (n + 1)
      let rh := labelNodes hd (rd.2 + 1)
      (.dep n rd.1 hh rd.2 rh.1, rh.2)
    | .tobjL rh c, n => let r := labelNodes c n; (.tobjL rh r.1, r.2)
    | .tobj1 rh c, n => let r := labelNode c n; (.tobj1 rh r.1, r.2)
  def labelNodes : Nodes → Nat → ITrees × Nat
    | .nil, n => (.nil, n)
    | .cons h t, n =>
      let rh := labelNode h n
      let rt := labelNodes t rh.2
      (.cons rh.1 rt.1, rt.2)
end

end HtmlVerif.Ident
