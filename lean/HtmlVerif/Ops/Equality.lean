import HtmlVerif.Ops.Base
import HtmlVerif.Model.Equality

namespace HtmlVerif.Ops
open HtmlVerif HtmlVerif.Wire

def equalityOps : OpTable
  | "eq" => some do
    let a ← node; let b ← node
    pure (encBool (a.eqv b) ++ " " ++ encBool (b.eqv a))
  | "eq_list" => some do
    let a ← nodes; let b ← nodes
    pure (encBool (a.eqvKids b) ++ " " ++ encBool (b.eqvKids a))
  | _ => none

end HtmlVerif.Ops
