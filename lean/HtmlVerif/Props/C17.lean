/-
C17 — Tag context manager restores the display hook and collects children in order.

Programs (`Prog`/`Progs`, Model/Hook.lean) are an inductive type, so every theorem below quantifies over all nesting
depths and shapes of `with` blocks, all sequences of displayed values and a raise at any point (explicit, an invalid
displayed value, re-entering a tag).  `exec` follows `Tag.__enter__` / body / `Tag.__exit__` as written
(_core.py:692-707, 1015-1034); `spec`/`specTop`/`blocks` (Spec/Hook.lean) read the expected result off the program text.

Guard (DESIGN §6 C17): the outermost hook does not raise — in the model it is the harness's recorder.
-/
import HtmlVerif.Lemmas.Hook

namespace HtmlVerif.C17
open HtmlVerif HtmlVerif.Hook

/-! ### restore: `sys.displayhook` after a block is the hook installed when it was entered, on every exit path -/

/-- whatever the body does (complete, raise, raise in a nested block, fail to enter): the hook after the `with`
    statement is the hook before it.  No hypothesis on the state. -/
theorem C17_restore (t : TagId) (b : Progs) (s : St) : ((Prog.block t b).exec s).1.hook = s.hook :=
  Prog.exec_hook _ s

/-- the same for any statement list (so also for the whole program: the process-global hook is as it was) -/
theorem C17_restore_any (ps : Progs) (s : St) : (ps.exec s).1.hook = s.hook :=
  Progs.exec_hook ps s

/-- every `with` statement reached anywhere in the run, at any depth, restores the hook (`flags` is what the harness
    samples: hook identity before/after each block) -/
theorem C17_restore_all (ps : Progs) (s : St) : ∀ f ∈ ps.flags s, f = true :=
  Progs.flags_true ps s

/-- the saved hook of an entered tag is never overwritten -/
theorem C17_prev_stable (ps : Progs) (s : St) (u : TagId) (h : HookId) (hp : (s.tags u).prev = some h) :
    ((ps.exec s).1.tags u).prev = some h :=
  Progs.exec_prev ps s u h hp

/-! ### re-entering -/

/-- entering a tag whose `prev_displayhook` is set raises RuntimeError; hook chain and all state are untouched -/
theorem C17_reenter (t : TagId) (b : Progs) (s : St) (h : (s.tags t).prev ≠ none) :
    (Prog.block t b).exec s = (s, .raised .runtimeError) :=
  block_exec_some b h

/-- at every point reachable inside a block of `t` — after any completed statements, inside any further blocks —
    the tag counts as entered -/
theorem C17_reach_prev {s s' : St} (hr : Reach s s') (u : TagId) (h : HookId) (hp : (s.tags u).prev = some h) :
    (s'.tags u).prev = some h := by
  induction hr with
  | refl => exact hp
  | stmt p _ ih => exact Prog.exec_prev p _ u h ih
  | enter t _ ht ih =>
    have hne : u ≠ t := by intro e; subst e; simp [ht] at ih
    rw [entered_prev_ne _ _ _ hne]; exact ih

/-- entering a tag whose block is still active (any point reachable from just inside its block) raises and leaves
    the hook chain and everything else intact -/
theorem C17_reenter_active (t : TagId) (b : Progs) (s s' : St) (hr : Reach (s.entered t) s') :
    (Prog.block t b).exec s' = (s', .raised .runtimeError) :=
  C17_reenter t b s' (by rw [C17_reach_prev hr t s.hook (entered_prev_self s t)]; simp)

/-! ### collect -/

/-- the child rules for one displayed value that is not a sequence: None and Ellipsis are ignored, a `_repr_html_`
    object is kept as HTML, a number as its `str`, a Tag by reference, strings and HTML as they are; a Tagifiable object
    is kept as the object — also when it has `_repr_html_` as well (a JSXTag, a widget): it is NOT turned into HTML,
    so its `tagify()` and its dependencies survive; exactly the invalid values are rejected, with TypeError -/
theorem C17_child_rules (s h : Str) (t : TagId) :
    normDisplayed .none = .ok [] ∧ normDisplayed .ellipsis = .ok [] ∧
    normDisplayed (.reprHtml h) = .ok [.html h] ∧ normDisplayed (.html h) = .ok [.html h] ∧
    normDisplayed (.text s) = .ok [.text s] ∧ normDisplayed (.num s) = .ok [.text s] ∧
    normDisplayed (.tagRef t) = .ok [.tagRef t] ∧ normDisplayed .invalid = .error .typeError ∧
    normDisplayed (.tagifiable s) = .ok [.tobj s] ∧ normDisplayed (.tagifiableRepr s) = .ok [.trobj s] ∧
    (∀ v e, v.isSeq = false → normDisplayed v = .error e → v = .invalid ∧ e = .typeError) := by
  refine ⟨rfl, rfl, rfl, rfl, rfl, rfl, rfl, rfl, rfl, rfl, ?_⟩
  intro v e hs hv
  cases v <;> simp [normDisplayed, wrapFilter, toItems, Val.flat, toNodes, nodeOf, Val.isSeq] at hv hs ⊢
  exact hv.symm

/-- the child rules for displayed sequences: a TagList contributes its nodes as they are; a list and a tuple contribute,
    in order, what each element contributes under the rules of `append` (`toItems`), the first rejected element
    rejecting the whole value (nothing is appended then, see `C17_invalid_any`) -/
theorem C17_child_rules_seq (its : List Item) (v : Val) (vs : Vals) :
    normDisplayed (.tagList its) = .ok its ∧
    normDisplayed (.list .nil) = .ok [] ∧ normDisplayed (.tuple .nil) = .ok [] ∧
    normDisplayed (.list (.cons v vs)) = appendE (toItems v) (normDisplayed (.list vs)) ∧
    normDisplayed (.tuple (.cons v vs)) = appendE (toItems v) (normDisplayed (.tuple vs)) := by
  refine ⟨?_, rfl, rfl, ?_, ?_⟩
  · simp [normDisplayed, wrapFilter, toItems, Val.flat, toNodes_map_toVal]
  · simp [normDisplayed, wrapFilter, toItems, Val.flat, Vals.flat, toNodes_append]
  · simp [normDisplayed, wrapFilter, toItems, Val.flat, Vals.flat, toNodes_append]

/-- an element of a displayed list/tuple is under the rules of `append`, which differ from those of a displayed value
    in two places: `...` is rejected (only the hook wrapper ignores it), and a `_repr_html_` object is kept as the
    object; nested lists/tuples/TagLists are opened in place -/
theorem C17_child_rules_elem (s h : Str) (t : TagId) (its : List Item) (v : Val) (vs : Vals) :
    toItems .none = .ok [] ∧ toItems .ellipsis = .error .typeError ∧ toItems .invalid = .error .typeError ∧
    toItems (.reprHtml h) = .ok [.robj h] ∧ toItems (.html h) = .ok [.html h] ∧
    toItems (.text s) = .ok [.text s] ∧ toItems (.num s) = .ok [.text s] ∧ toItems (.tagRef t) = .ok [.tagRef t] ∧
    toItems (.tagifiable s) = .ok [.tobj s] ∧ toItems (.tagifiableRepr s) = .ok [.trobj s] ∧
    toItems (.tagList its) = .ok its ∧
    toItems (.list .nil) = .ok [] ∧ toItems (.list (.cons v vs)) = appendE (toItems v) (toItems (.list vs)) ∧
    toItems (.tuple vs) = toItems (.list vs) := by
  refine ⟨rfl, rfl, rfl, rfl, rfl, rfl, rfl, rfl, rfl, rfl, ?_, rfl, ?_, rfl⟩
  · simp [toItems, Val.flat, toNodes_map_toVal]
  · simp [toItems, Val.flat, Vals.flat, toNodes_append]

/-- a displayed value is rejected exactly when it is an invalid value, or a list/tuple holding at any depth an invalid
    value or `...` (`Val.rejected`, read off the value); the exception is always TypeError -/
theorem C17_child_rules_rejects (v : Val) (e : Err) :
    normDisplayed v = .error e ↔ e = .typeError ∧ v.rejected = true := by
  cases v with
  | list vs => simpa [normDisplayed, wrapFilter, Val.rejected] using toItems_error_iff (.list vs) e
  | tuple vs => simpa [normDisplayed, wrapFilter, Val.rejected] using toItems_error_iff (.tuple vs) e
  | tagList its => simp [normDisplayed, wrapFilter, Val.rejected, Val.badChild, toItems, Val.flat, toNodes_map_toVal]
  | invalid => simp [normDisplayed, wrapFilter, Val.rejected, Val.badChild, toItems, Val.flat, toNodes, nodeOf]; exact eq_comm
  | none => simp [normDisplayed, wrapFilter, Val.rejected, Val.badChild]
  | ellipsis => simp [normDisplayed, wrapFilter, Val.rejected]
  | text s => simp [normDisplayed, wrapFilter, Val.rejected, Val.badChild, toItems, Val.flat, toNodes, nodeOf]
  | num s => simp [normDisplayed, wrapFilter, Val.rejected, Val.badChild, toItems, Val.flat, toNodes, nodeOf]
  | html s => simp [normDisplayed, wrapFilter, Val.rejected, Val.badChild, toItems, Val.flat, toNodes, nodeOf]
  | reprHtml s => simp [normDisplayed, wrapFilter, Val.rejected, Val.badChild, toItems, Val.flat, toNodes, nodeOf]
  | tagRef t => simp [normDisplayed, wrapFilter, Val.rejected, Val.badChild, toItems, Val.flat, toNodes, nodeOf]
  | tagifiable s => simp [normDisplayed, wrapFilter, Val.rejected, Val.badChild, toItems, Val.flat, toNodes, nodeOf]
  | tagifiableRepr s => simp [normDisplayed, wrapFilter, Val.rejected, Val.badChild, toItems, Val.flat, toNodes, nodeOf]

/-- a block's tag afterwards holds its former children followed by the normalised values displayed directly in the
    block, in order, up to the first raise, nested blocks contributing their tag when they exit (`Progs.spec`).
    `E` = the tags entered before. -/
theorem C17_collect (t : TagId) (b : Progs) (s : St) (E : List TagId) (hA : Agree s E) (hk : HookOk s)
    (ht : (s.tags t).prev = none) :
    (((Prog.block t b).exec s).1.tags t).children = (s.tags t).children ++ (b.spec (t :: E)).items := by
  have htE : t ∉ E := by rw [hA t]; simp [ht]
  exact Prog.exec_blocks (.block t b) s E hA hk.2 (t, (b.spec (t :: E)).items) (by simp [Prog.blocks, htE])

/-- a statement directly inside a block appends exactly its `spec` items to that block's tag and ends as `spec` says -/
theorem C17_collect_step (p : Prog) (s : St) (E : List TagId) (x : TagId) (hA : Agree s E)
    (hk : s.hook = .wrap x) (hx : (s.tags x).prev ≠ none) :
    ((p.exec s).1.tags x).children = (s.tags x).children ++ (p.spec E).items ∧ (p.exec s).2 = (p.spec E).outcome :=
  have h := Prog.exec_spec p s E x hA hk hx
  ⟨h.sink, h.outcome⟩

/-- under the outermost hook: the recorder receives every displayed value raw and every top-level tag when its
    block exits, in order, up to the first raise; the run ends with the kind of that first raise -/
theorem C17_collect_outer (ps : Progs) (s : St) (E : List TagId) (hA : Agree s E) (hk : s.hook = .outer) :
    (ps.exec s).1.outer = s.outer ++ (ps.specTop E).items ∧ (ps.exec s).2 = (ps.specTop E).outcome :=
  have h := Progs.exec_specTop ps s E hA hk
  ⟨h.log, h.outcome⟩

/-- the final state of a whole run: every block entered anywhere (`blocksTop`, any depth) has its former children
    followed by its body's items — later statements do not disturb it —, and every other tag is untouched -/
theorem C17_collect_final (ps : Progs) (s : St) (E : List TagId) (hA : Agree s E) (hk : s.hook = .outer) :
    (∀ q ∈ ps.blocksTop E, ((ps.exec s).1.tags q.1).children = (s.tags q.1).children ++ q.2) ∧
    (∀ u, u ∈ E → ((ps.exec s).1.tags u).children = (s.tags u).children) ∧
    (∀ u, u ∉ (ps.specTop E).entered → ((ps.exec s).1.tags u).children = (s.tags u).children) := by
  refine ⟨Progs.exec_blocksTop ps s E hA hk, ?_, ?_⟩
  · intro u hu
    exact Progs.exec_frame ps s u ((hA u).mp hu) (by rw [hk]; intro e; cases e)
  · intro u hu
    have h := Progs.exec_specTop ps s E hA hk
    exact Progs.exec_frame_none ps s u (prev_none_of_notin h.agree hu) (by rw [hk]; intro e; cases e)

/-- a self-rendering object displayed directly is never stored raw: a non-sequence value leaves strings, HTML, Tag
    references and Tagifiable objects only (inside a list/tuple the rules of `append` keep it as the object) -/
theorem C17_items_normal (v : Val) (its : List Item) (hs : v.isSeq = false) (h : normDisplayed v = .ok its) :
    ∀ i ∈ its, ∀ r, i ≠ .robj r := by
  cases v <;> simp [normDisplayed, wrapFilter, toItems, Val.flat, toNodes, nodeOf, Val.isSeq] at h hs <;> subst h <;> simp

/-- replacing a tag's child-list object by a new one holding the same nodes, at any point, changes nothing: what is
    displayed afterwards still reaches the tag (`Progs.spec` passes over `rebind`, and `C17_collect` holds for bodies
    containing it) — the hook is tied to the tag, not to the list object it had at entry -/
theorem C17_collect_rebind (t : TagId) (s : St) (E : List TagId) :
    (Prog.rebind t).exec s = (s, .done) ∧ ((Prog.rebind t).spec E).items = [] ∧ ((Prog.rebind t).spec E).outcome = .done :=
  ⟨rfl, rfl, rfl⟩

/-! ### invalid values and propagation -/

/-- an invalid value displayed inside a block raises TypeError and appends nothing -/
theorem C17_invalid (s : St) (x : TagId) (hk : s.hook = .wrap x) :
    (Prog.display .invalid).exec s = (s, .raised .typeError) := by
  rw [display_exec_wrap hk]; rfl

/-- any rejected value (an invalid one, or a list/tuple holding one or `...` at any depth) displayed inside a block
    raises TypeError and appends nothing — not even the elements before the bad one -/
theorem C17_invalid_any (s : St) (x : TagId) (v : Val) (hk : s.hook = .wrap x) (hv : v.rejected = true) :
    (Prog.display v).exec s = (s, .raised .typeError) := by
  rw [display_exec_wrap hk, (C17_child_rules_rejects v .typeError).mpr ⟨rfl, hv⟩]

/-- a raise ends the statement list: nothing after it runs -/
theorem C17_raise_skips_rest (p : Prog) (ps : Progs) (s : St) (e : Err) (h : (p.exec s).2 = .raised e) :
    (Progs.cons p ps).exec s = p.exec s := by
  simp only [Progs.exec]
  split
  · next s' he => rw [he] at h; cases h
  · next s' e' he => exact he.symm

/-- an exception in a body propagates out of the block unchanged (`__exit__` runs, does not raise, returns None);
    by `C17_restore` the hook is restored at every level it passes through, by `C17_once` each tag is still handed on -/
theorem C17_invalid_propagates (t : TagId) (b : Progs) (s : St) (hk : HookOk s) (ht : (s.tags t).prev = none) :
    ((Prog.block t b).exec s).2 = (b.exec (s.entered t)).2 :=
  block_outcome b ht hk.1

/-- `HookOk` is an invariant: it holds at every point of a run that starts under the recorder -/
theorem C17_hookOk_reach {s s' : St} (h : HookOk s) (hr : Reach s s') : HookOk s' := by
  induction hr with
  | refl => exact h
  | @stmt s1 p _ ih =>
    refine ⟨by rw [Prog.exec_hook]; exact ih.1, ?_⟩
    intro x hx
    rw [Prog.exec_hook] at hx
    obtain ⟨y, hy⟩ := Option.ne_none_iff_exists'.mp (ih.2 x hx)
    rw [Prog.exec_prev p s1 x y hy]; simp
  | enter t _ ht ih =>
    refine ⟨by simp, ?_⟩
    intro x hx
    simp only [entered_hook] at hx
    injection hx with hx; subst hx; simp

theorem C17_hookOk_init (kids : TagId → List Item) : HookOk (St.init kids) ∧ Agree (St.init kids) [] := by
  refine ⟨⟨by simp [St.init], by intro x hx; simp [St.init] at hx⟩, ?_⟩
  intro u; simp [St.init]

/-! ### once: every entered tag is handed exactly once, at its exit, to the hook current at its entry -/

/-- entered under the recorder: the recorder's log grows by exactly the tag, on every exit path -/
theorem C17_once_outer (t : TagId) (b : Progs) (s : St) (ht : (s.tags t).prev = none) (hk : s.hook = .outer) :
    ((Prog.block t b).exec s).1.outer = s.outer ++ [.tagRef t] := by
  have hp2 : (((b.exec (s.entered t)).1).tags t).prev = some .outer := by
    have := Progs.exec_prev b _ t s.hook (entered_prev_self s t)
    rw [hk] at this; exact this
  rw [block_exec_none b ht, exitTag_outer hp2]
  simp [Progs.exec_outer b (s.entered t) (by simp)]

/-- entered inside the block of `x`: the children of `x` grow by exactly a reference to the tag — nothing the body
    does reaches `x` —, on every exit path -/
theorem C17_once (t x : TagId) (b : Progs) (s : St) (ht : (s.tags t).prev = none) (hk : s.hook = .wrap x)
    (hx : (s.tags x).prev ≠ none) :
    (((Prog.block t b).exec s).1.tags x).children = (s.tags x).children ++ [.tagRef t] := by
  have hxt : x ≠ t := ne_of_prev ht hx
  have hp2 : (((b.exec (s.entered t)).1).tags t).prev = some (.wrap x) := by
    have := Progs.exec_prev b _ t s.hook (entered_prev_self s t)
    rw [hk] at this; exact this
  have hfr := Progs.exec_frame b (s.entered t) x (by rw [entered_prev_ne _ _ _ hxt]; exact hx)
        (by simp only [entered_hook]; intro e; injection e with e; exact hxt e.symm)
  rw [block_exec_none b ht, exitTag_wrap hp2]
  simp [hfr]

/-- … and to nobody else: no other entered tag's children change, and under a tag's wrapper the recorder is not called -/
theorem C17_once_nobody_else (t : TagId) (b : Progs) (s : St) :
    (∀ u, (s.tags u).prev ≠ none → s.hook ≠ .wrap u →
        (((Prog.block t b).exec s).1.tags u).children = (s.tags u).children) ∧
    (s.hook ≠ .outer → ((Prog.block t b).exec s).1.outer = s.outer) :=
  ⟨fun u hu hk => Prog.exec_frame _ s u hu hk, fun hk => Prog.exec_outer _ s hk⟩

/-- a failed `__enter__` (re-entering an active tag) hands the tag to nobody: state, children and log are unchanged, so
    the one hand-over at the exit of the active block stays the only one — see `C17_reenter_active` -/
theorem C17_once_not_on_failed_enter (t : TagId) (b : Progs) (s s' : St) (hr : Reach (s.entered t) s') :
    ((Prog.block t b).exec s').1 = s' := by
  rw [C17_reenter_active t b s s' hr]

/-! ### non-vacuity: concrete instances -/

/-- `with t0: display("a"); display(None); t0.children = <new list, same nodes>;
      with t1: display(<repr r>); display(<JSXTag j>); display(["x", None, (7, <repr q>)]); raise`
    followed by dead code, from the initial state -/
def demo : Progs :=
  .cons (.block 0 (.cons (.display (.text ['a'])) (.cons (.display .none) (.cons (.rebind 0)
    (.cons (.block 1 (.cons (.display (.reprHtml ['r'])) (.cons (.display (.tagifiableRepr ['j']))
      (.cons (.display (.list (.cons (.text ['x']) (.cons .none (.cons (.tuple (.cons (.num ['7']) (.cons (.reprHtml ['q']) .nil))) .nil)))))
        (.cons .raise .nil)))))
      (.cons (.display (.text ['z'])) .nil)))))) .nil

example : ((demo.exec (St.init fun _ => [])).1.tags 0).children = [.text ['a'], .tagRef 1] := by decide
example : ((demo.exec (St.init fun _ => [])).1.tags 1).children =
    [.html ['r'], .trobj ['j'], .text ['x'], .text ['7'], .robj ['q']] := by decide
example : (demo.exec (St.init fun _ => [])).2 = .raised .exception ∧
    (demo.exec (St.init fun _ => [])).1.outer = [.tagRef 0] ∧ (demo.exec (St.init fun _ => [])).1.hook = .outer := by decide
example : demo.blocksTop [] = [(0, [.text ['a'], .tagRef 1]),
    (1, [.html ['r'], .trobj ['j'], .text ['x'], .text ['7'], .robj ['q']])] := by decide
/-- a rejected sequence: the bad element sits two levels down, after good ones -/
example : (Val.list (.cons (.text ['x']) (.cons (.tuple (.cons .none (.cons .ellipsis .nil))) .nil))).rejected = true ∧
    normDisplayed (.list (.cons (.text ['x']) (.cons (.tuple (.cons .none (.cons .ellipsis .nil))) .nil))) = .error .typeError :=
  ⟨by decide, (C17_child_rules_rejects _ _).mpr ⟨rfl, by decide⟩⟩
/-- the hypotheses of `C17_reenter_active` are satisfiable: just inside the block of tag 0, two statements later -/
example : Reach ((St.init fun _ => []).entered 0)
    ((Prog.display .none).exec ((Prog.display (.text ['a'])).exec ((St.init fun _ => []).entered 0)).1).1 :=
  .stmt _ (.stmt _ .refl)

end HtmlVerif.C17
