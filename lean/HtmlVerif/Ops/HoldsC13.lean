/-
`holds C13 <op> <args…> | <impl answer>` — the executable statement of C13 evaluated on the implementation's
answer, with the same definitions the theorems of Props/C13.lean are about.
-/
import HtmlVerif.Ops.Json
import HtmlVerif.Spec.EndTag
import HtmlVerif.Spec.SerDep

namespace HtmlVerif.Ops
open HtmlVerif HtmlVerif.Wire

def asciiPrintable (s : Str) : Bool := s.all fun c => 0x20 ≤ c.toNat && c.toNat ≤ 0x7E

/-- `C13_json_str_roundtrip` on the real `json.dumps` output (and `ensure_ascii`) -/
def holdsJstr (s out : Str) : Bool := jsonParseStr out == some s && asciiPrintable out

def isSuffixOfB (suf s : Str) : Bool := suf.length ≤ s.length && s.drop (s.length - suf.length) == suf

/-- the body of a serialised element, if the text is OPEN … CLOSE -/
def elementBody? (out : Str) : Option Str :=
  if openMarker.isPrefixOf out && isSuffixOfB closeMarker out && openMarker.length + closeMarker.length ≤ out.length then
    some ((out.drop openMarker.length).take (out.length - openMarker.length - closeMarker.length))
  else none

/-- `C13_element_render`, `C13_no_end_tag_inside`, `C13_no_open_inside`, `C13_recover_body` on the real element -/
def holdsSer (d : SDep) (out : Str) : Bool :=
  match elementBody? out with
  | none => false
  | some body =>
    !hasEndTagLike body && !isInfix openMarker body &&
      (!d.wellFormed || (match recover body with | .ok r => r == d.norm | .error _ => false))

/-- keep-first by key, executable (the specification-side `dedupOn` of Lemmas/Scan.lean restated over the model's
    `dedupGo`: the bodies that survive, then the first item carrying each) -/
def firstWith (items : List (Option Nat × SDep × Str)) (b : Str) : Option SDep :=
  (items.find? fun it => serBody it.1 it.2.1 == b).map (·.2.1)

def expectedDeps (items : List (Option Nat × SDep × Str)) : List SDep :=
  (tdDedupKeepFirst (items.map fun it => serBody it.1 it.2.1)).filterMap fun b => (firstWith items b).map SDep.norm

def remTextB (t0 : Str) : List (Option Nat × SDep × Str) → Str
  | [] => t0
  | (_, _, t) :: r => t0 ++ remTextB t r

def implExtract : P (Option (Str × List SDep)) := do
  expect "|"
  let t ← next
  if t == "ok" then do
    let h ← str; let ds ← listOf sdepP
    pure (some (h, ds))
  else do let _ ← next; pure none

/-- `C13_extract_spec` on the real extraction -/
def holdsExtract (t0 : Str) (items : List (Option Nat × SDep × Str)) (impl : Option (Str × List SDep)) : Bool :=
  let guard := !isInfix openMarker t0 && items.all (fun it => !isInfix openMarker it.2.2 && it.2.1.wellFormed)
  if !guard then true else
  match impl with
  | none => false
  | some (rem, ds) => rem == remTextB t0 items && ds == expectedDeps items

/-- `rem` is `h` followed by layout whitespace only (the newlines that joined the serialised copies) -/
def wsSuffix (h rem : Str) : Bool := h.isPrefixOf rem && (rem.drop h.length).all jsonIsWs

/-- `C13_json_mode_equiv` on a JSON-mode string: scanning it gives back the invisible-mode rendering (plus joining
    whitespace) and the dependencies, field by field -/
def holdsJsonMode (h : Str) (ds : List SDep) (out : Str) : Bool :=
  let bodies := ds.map (serBody none)
  let guard := !isInfix openMarker h && ds.all SDep.wellFormed && (tdDedupKeepFirst bodies).length == bodies.length
  if !guard then true else
  let r := scan out.length out
  wsSuffix h r.1 &&
    (match recoverAll (tdDedupKeepFirst r.2) with
     | .ok got => got == ds.map SDep.norm
     | .error _ => false)

def holdsC13 : OpTable
  | "jstr" => some do
    let s ← str
    expect "|"
    let out ← str
    pure (encBool (holdsJstr s out))
  | "ser" => some do
    let _i ← indentP; let d ← sdepP
    match (← implStr) with
    | some out => pure (encBool (holdsSer d out))
    | none => pure "F"
  | "sern" => some do
    let _i ← indentP; let n ← node
    match (← implStr), sdepOfDepNode n with
    | some out, some d => pure (encBool (holdsSer d out))
    | _, _ => pure "F"
  | "extract" => some do
    let t0 ← str; let items ← listOf itemP
    let impl ← implExtract
    pure (encBool (holdsExtract t0 items impl))
  | "jmrt" => some do
    -- `C13_json_mode_equiv`: remaining text = invisible-mode rendering (+ n-1 joining newlines), dependencies back
    let n ← node
    let impl ← implExtract
    match renderTagChecked cfg n 0 ['\n'] with
    | .error _ => pure (encBool impl.isNone)
    | .ok h =>
      let ds := collectSDeps n
      let bodies := ds.map (serBody none)
      let guard := !isInfix openMarker h && ds.all SDep.wellFormed && (tdDedupKeepFirst bodies).length == bodies.length
      if !guard then pure "T" else
      match impl with
      | none => pure "F"
      | some (rem, got) =>
        pure (encBool (wsSuffix h rem && got == ds.map SDep.norm && listingText got == listingText ds))
  | "extract_html" => some do
    let h ← str
    let impl ← implExtract
    match extract h, impl with
    | .ok r, some i => pure (encBool (r.1 == i.1 && r.2 == i.2))
    | .error _, none => pure "T"
    | _, _ => pure "F"
  | "textdoc" => some do
    -- `C13_replace_first` / `C13_inserted`: the statement is the equation itself
    let h ← str; let ph ← optStr; let deps ← optDepsP; let tbl ← listOf tagsEntryP
    let impl ← implExtract
    match textDocRun h deps ph tbl, impl with
    | .ok r, some i => pure (encBool (r.1 == i.1 && r.2 == i.2))
    | .error _, none => pure "T"
    | _, _ => pure "F"
  | "scan_raw" => some do
    let h ← str
    expect "|"
    let rem ← str; let bs ← listOf str
    let r := scan h.length h
    pure (encBool (r.1 == rem && r.2 == bs))
  | "jsonmode" => some do
    let n ← node
    match (← implStr), renderTagChecked cfg n 0 ['\n'] with
    | some out, .ok h => pure (encBool (holdsJsonMode h (collectSDeps n) out))
    | none, .error _ => pure "T"
    | _, _ => pure "F"
  | _ => none

end HtmlVerif.Ops
