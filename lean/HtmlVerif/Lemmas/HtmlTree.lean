/-
Layers 1 and 3 of C01 (the only file that mixes the renderer's pieces with tokens):
  serialize_toks   : serialising the tokens of the piece list gives the rendered string
  pieces_ok        : the pieces of an ordinary tree are well formed
  buildN_tag/kids  : the normalising machine, run over the tokens of a tree, produces `expected`
-/
import HtmlVerif.Spec.Pieces
import HtmlVerif.Lemmas.Pieces
import HtmlVerif.Lemmas.HtmlBuild

namespace HtmlVerif

/-! ### pieces → tokens -/

def rawAttrs (cfg : Cfg) (a : Attrs) : List (Str × Str) := a.map fun kv => (kv.1, emitAttrVal cfg kv.2)

def Piece.tok (cfg : Cfg) : Piece → Tok
  | .opn n _ a sc => .stag n (rawAttrs cfg a) sc
  | .cls n _ => .etag n
  | .ws s => .text s
  | .txt s => .text (escText cfg s)
  | .raw s => .text s

def toksOf (cfg : Cfg) (ps : List Piece) : List Tok := ps.map (Piece.tok cfg)

@[simp] theorem toksOf_nil (cfg : Cfg) : toksOf cfg [] = [] := rfl
@[simp] theorem toksOf_cons (cfg : Cfg) (p : Piece) (ps : List Piece) :
    toksOf cfg (p :: ps) = p.tok cfg :: toksOf cfg ps := rfl
@[simp] theorem toksOf_append (cfg : Cfg) (a b : List Piece) :
    toksOf cfg (a ++ b) = toksOf cfg a ++ toksOf cfg b := by simp [toksOf]

theorem serAttrs_raw (cfg : Cfg) (a : Attrs) : serAttrs (rawAttrs cfg a) = renderAttrs cfg a := by
  induction a with
  | nil => rfl
  | cons kv r ih =>
    obtain ⟨k, v⟩ := kv
    have : rawAttrs cfg ((k, v) :: r) = (k, emitAttrVal cfg v) :: rawAttrs cfg r := rfl
    simp [this, serAttrs, renderAttrs, ih]

theorem ser_tok (cfg : Cfg) (p : Piece) : (p.tok cfg).ser = p.realize cfg := by
  cases p with
  | opn n w a sc => cases sc <;> simp [Piece.tok, Tok.ser, openTag, serAttrs_raw, tagEnd]
  | cls n w => simp [Piece.tok, Tok.ser, closeTag]
  | _ => simp [Piece.tok, Tok.ser]

/-- Layer 1: the token list read off the pieces serialises to the piece realisation -/
theorem serialize_toksOf (cfg : Cfg) (ps : List Piece) : serialize (toksOf cfg ps) = realizeAll cfg ps := by
  induction ps with
  | nil => rfl
  | cons p r ih => simp [ser_tok, ih]

/-! ### the pieces of an ordinary tree are well formed -/

def Piece.okP : Piece → Bool
  | .opn n _ a _ => validName n && attrsOrdinary a
  | .cls n _ => validName n
  | .ws s => wsOnly s
  | .txt _ => true
  | .raw _ => false

theorem okP_wsP (s : Str) (h : wsOnly s = true) : (wsP s).all Piece.okP = true := by
  unfold wsP; split <;> simp [Piece.okP, h]

theorem ordinary_visible (noesc : List Str) (ks : Nodes) (h : ks.ordinaryKids noesc = true) :
    ∀ x ∈ ks.visible, x.ordinary noesc = true := by
  induction ks using Nodes.rec (motive_1 := fun _ => True) with
  | nil => simp [Nodes.visible]
  | cons x t _ ih =>
    simp only [Nodes.ordinaryKids, Bool.and_eq_true] at h
    have iht := ih h.2
    simp only [Nodes.visible]
    split
    · exact iht
    · intro y hy; simp at hy; rcases hy with rfl | hy
      · exact h.1
      · exact iht y hy
  | _ => trivial

/-- under the guard, the single-child exit only ever sees a plain string -/
theorem inline_ordinary (noesc : List Str) (ks : Nodes) (h : ks.ordinaryKids noesc = true) (c : Str × Bool)
    (hc : inlineChild? ks.visible = some c) : c.2 = false ∧ ks.visible = [.text c.1] := by
  rcases inlineChild?_some hc with h1 | ⟨_, h2⟩
  · exact h1
  · have := ordinary_visible noesc ks h (.html c.1) (by simp [h2])
    simp [Node.ordinary] at this

mutual
  theorem pieces_ok (cfg : Cfg) (t : Node) (i : Nat) (e : Str) (ht : t.ordinary cfg.noesc = true)
      (he : wsOnly e = true) : (t.pieces cfg i e).all Piece.okP = true := by
    cases t with
    | tag name ws attrs kids =>
      simp only [Node.ordinary, Bool.and_eq_true, Bool.not_eq_true'] at ht
      obtain ⟨⟨⟨hn, hne⟩, ha⟩, hk⟩ := ht
      have hkids := kids_ok cfg kids (i + 1) e true ws hk he
      have hne' : name ∉ cfg.noesc := by simpa using hne
      have hi := okP_wsP (indentStr i) (wsOnly_indentStr i)
      have hei : wsOnly (e ++ indentStr i) = true := by simp [wsOnly_append, he, wsOnly_indentStr]
      simp only [Node.pieces]
      by_cases h0 : kids.visible.isEmpty = true
      · by_cases hv : name ∈ cfg.void <;>
          simp [h0, hv, hi, Piece.okP, hn, ha]
      · simp only [h0]
        cases h1 : inlineChild? kids.visible with
        | some c =>
          obtain ⟨hc, _⟩ := inline_ordinary cfg.noesc kids hk c h1
          simp [hi, Piece.okP, hn, ha, hne', hc, textP]
        | none =>
          simp only [hne, Bool.not_false] at hkids ⊢
          cases ws <;> simp [hi, Piece.okP, hn, ha, hkids, okP_wsP _ he, okP_wsP _ hei]
    | _ => simp [Node.pieces]
  theorem kids_ok (cfg : Cfg) (ks : Nodes) (i : Nat) (e : Str) (first prevWs : Bool)
      (hk : ks.ordinaryKids cfg.noesc = true) (he : wsOnly e = true) :
      (ks.piecesKids cfg i e first prevWs true).all Piece.okP = true := by
    cases ks with
    | nil => simp [Nodes.piecesKids]
    | cons h t =>
      simp only [Nodes.ordinaryKids, Bool.and_eq_true] at hk
      obtain ⟨hh, ht⟩ := hk
      have iht := kids_ok cfg t i e
      have hi := okP_wsP (indentStr i) (wsOnly_indentStr i)
      have hee := okP_wsP e he
      cases h with
      | tag n w a k =>
        have h1 := pieces_ok cfg (.tag n w a k) i e hh he
        have h2 := pieces_ok cfg (.tag n w a k) 0 [] hh (by simp)
        simp only [Nodes.piecesKids]
        cases first <;> cases prevWs <;> cases w <;> simp [iht, ht, he, h1, h2, hee]
      | text s =>
        simp only [Nodes.piecesKids]
        cases first <;> cases prevWs <;> simp [iht, ht, he, hi, hee, textP, Piece.okP]
      | mnode m => simp [Nodes.piecesKids, iht, ht, he]
      | dep d hd hs => simp [Nodes.piecesKids, iht, ht, he]
      | _ => simp [Node.ordinary] at hh
end

/-! ### well-formed pieces give well-formed, compositionally decodable tokens -/

theorem escText_eq (cfg : Cfg) (h : TextTblOk cfg.textTbl) (s : Str) :
    escText cfg s = s.flatMap (escCharT cfg.textTbl) :=
  htmlEscapeT_eq_flatMap _ (tblOk_seq h) s

theorem attrOk_raw (cfg : Cfg) (h : AttrTblOk cfg.attrTbl) (a : Attrs) (ha : attrsOrdinary a = true) :
    (rawAttrs cfg a).all attrOk = true := by
  induction a with
  | nil => rfl
  | cons kv r ih =>
    obtain ⟨k, v⟩ := kv
    simp only [attrsOrdinary, Bool.and_eq_true, Bool.not_eq_true'] at ha
    obtain ⟨⟨⟨⟨hk, hkc⟩, hv⟩, _⟩, hr⟩ := ha
    have hcons : rawAttrs cfg ((k, v) :: r) = (k, emitAttrVal cfg v) :: rawAttrs cfg r := rfl
    cases v with
    | html s => simp [AttrVal.isHtml] at hv
    | plain s =>
      have hin := esc_inert h s
      have he : emitAttrVal cfg (.plain s) = s.flatMap (escCharT cfg.attrTbl) :=
        htmlEscapeT_eq_flatMap _ (tblOk_seq h) s
      rw [hcons, List.all_cons, ih hr, he]
      simp only [attrOk, hk, hkc, Bool.and_true, Bool.true_and, Bool.not_eq_true', Bool.not_false]
      simpa using hin
  
theorem tok_ok (cfg : Cfg) (h1 : TextTblOk cfg.textTbl) (h2 : AttrTblOk cfg.attrTbl) (p : Piece)
    (hp : p.okP = true) : (p.tok cfg).ok = true := by
  cases p with
  | opn n w a sc =>
    simp only [Piece.okP, Bool.and_eq_true] at hp
    simp [Piece.tok, Tok.ok, hp.1, attrOk_raw cfg h2 a hp.2]
  | cls n w => simpa [Piece.tok, Tok.ok, Piece.okP] using hp
  | ws s =>
    simp only [Piece.okP, wsOnly, List.all_eq_true] at hp
    simp only [Piece.tok, Tok.ok, Bool.not_eq_true', List.contains_eq_mem, decide_eq_false_iff_not]
    intro hm; have := hp _ hm; revert this; decide
  | txt s =>
    have := esc_inert h1 s
    simpa [Piece.tok, Tok.ok, escText_eq cfg h1] using this
  | raw s => simp [Piece.okP] at hp

theorem tok_closed (cfg : Cfg) (h1 : TextTblOk cfg.textTbl) (p : Piece) (hp : p.okP = true) :
    (p.tok cfg).closed := by
  cases p with
  | opn n w a sc => trivial
  | cls n w => trivial
  | ws s => exact closed_of_decodes (fun r => ws_decodes s r hp)
  | txt s =>
    show Closed (escText cfg s)
    rw [escText_eq cfg h1]
    exact closed_of_decodes (fun r => esc_decodes h1 s r)
  | raw s => simp [Piece.okP] at hp

theorem decode_raw (cfg : Cfg) (h : AttrTblOk cfg.attrTbl) (a : Attrs) (ha : attrsOrdinary a = true) :
    decodeAttrs (rawAttrs cfg a) = plainAttrs a := by
  induction a with
  | nil => rfl
  | cons kv r ih =>
    obtain ⟨k, v⟩ := kv
    simp only [attrsOrdinary, Bool.and_eq_true, Bool.not_eq_true'] at ha
    obtain ⟨⟨⟨_, hv⟩, _⟩, hr⟩ := ha
    have ih' := ih hr
    cases v with
    | html s => simp [AttrVal.isHtml] at hv
    | plain s =>
      have he : emitAttrVal cfg (.plain s) = s.flatMap (escCharT cfg.attrTbl) :=
        htmlEscapeT_eq_flatMap _ (tblOk_seq h) s
      have hd := esc_decodes h s []
      have hnil : decodeRefs [] = [] := by simp [decodeRefs, decodeGo]
      simp only [List.append_nil, hnil] at hd
      simp only [decodeAttrs, rawAttrs, plainAttrs, List.map_cons, List.map_map] at ih' ⊢
      simp [he, hd, AttrVal.str, ih']

end HtmlVerif
