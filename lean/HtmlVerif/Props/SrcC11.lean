/-
Source tie (DESIGN §14) for C11 — HTMLDocument builds one head/body and hoists every dependency into head.  The Lean
functions regenerated from the *text* of `HTMLDocument._gen_html_tag_tree`, `_hoist_head_content`, `render`, `__init__`,
`append`, `Tag.render`, `Tag.insert / extend / append`, `TagAttrDict.__init__` (htmltools/_core.py; harness/pytr_c11.py)
compute what the model (Model/Document.lean: `genTree`, `hoist`, `genHtmlTagTree`, `docRender`, `docInit`, `docAppend`)
computes, error for error.

  src_TagAttrDict_initC11                 TagAttrDict(*dicts, **kw)                = attrsUpdate        (all inputs)
  src_Tag_insert/extend/appendC11_partial Tag.insert / extend / append             on already-normalised children
  src_gen_html_tag_treeC11                _gen_html_tag_tree up to the call of _hoist_head_content = genTree   (all contents)
  src_hoist_head_contentC11               _hoist_head_content                      = hoist              (all tag trees)
  src_gen_html_tag_tree_fullC11 / _nowC11 the two composed, callee ties discharged = genHtmlTagTree
  src_Tag_renderC11, src_HTMLDocument_renderC11, …_render_fullC11 / _nowC11        = docRender
  src_HTMLDocument_initC11_partial / appendC11_partial                             = docInit / docAppend on normalised children

Conventions
* Trees are embedded by `embT tv` (Lemmas/SrcC10.lean), the embedding of the `tagify` / `get_dependencies` ties, which
  these functions call; the renderer tie is restated on it in Props/SrcRenderC11.lean.
* The ties of the callees of other areas are *hypotheses* stated on the values in play (`UpdateTieC11` = `src_update`,
  `hT` = `src_tagify_tag`, `hD` = `src_get_dependencies_tag`, …); the `_full` / `_now` corollaries discharge them.
* A call of another big regenerated function in tail position (`_hoist_head_content` at the end of `_gen_html_tag_tree`)
  is abstracted as a continuation `K` with `hK : ∀ v, callee … v … = K v` — the statement is about what is handed to it.
  (Without this the kernel compares a `match` of the model with the unfolded callee: minutes instead of seconds.)
* Every theorem that unfolds a regenerated function takes `<fn>_available = true`; when the function has left the fragment
  the first alternative closes the goal and the rest of the proof (in `all_goals (…)`) does not run.
* What is **not** translated in this area and therefore *assumed* (validated against the interpreter by the `srcc11` op on
  every run, Py/PrimC11.lean): `Tag(…)` is the primitive `mkTagC11` (children must already be normalised; the attributes go
  through the translated `TagAttrDict.__init__` / `update`), `d.as_html_tags(…)` is a parameter (`Globals.asHtmlTagsC11`,
  hypothesis `hA`: it answers what the model's `depTags` says), `copy(x)` is the value itself (Py/PrimC10.lean).
* Guard of the statements about keyword arguments: no key collides with a parameter name of `Tag.__init__`
  (`kwAvoidsC11 reservedKw kw`; the model does not describe the resulting TypeError — harness/props/c11.py does not
  generate such names either).
-/
import HtmlVerif.Generated.Src
import HtmlVerif.Lemmas.SrcC11
import HtmlVerif.Props.SrcAttrs
import HtmlVerif.Props.SrcC09
import HtmlVerif.Props.SrcC10
import HtmlVerif.Props.SrcRenderC11

set_option linter.unusedVariables false
set_option linter.unusedSimpArgs false

namespace HtmlVerif.SrcTie
open HtmlVerif HtmlVerif.Py HtmlVerif.Generated.Src

/-! ### the normalisation functions of area C14 on already-normalised children

Stated at the level of Python values: on a sequence whose items are plain tag nodes (`plainC11`) or TagLists of such
(`kidItemsC11`), the regenerated `_flatten_recurse`, `flatten`, `_tagchilds_to_tagnodes`, `TagList.insert / extend / append`
"unnest one level" (`kidFlatC11`).  This is what every call made by the C11 functions meets; the general case (None,
numbers, deeper nesting, TypeError) is Props/SrcC14.lean on that area's own embedding. -/

theorem flatten_recurse_plainC11 (h : util_flatten_recurse_available = true) (G : Globals) (fuel : Nat) (X : PVal)
    (xs acc : List PVal) (hX : pyIter X = .ok xs) (hp : ∀ x ∈ xs, plainC11 x = true) :
    util_flatten_recurse G (fuel + 1) X (.list acc) = .ok (.list (acc ++ xs)) := by
  first
  | exact absurd h (by decide)
  | rw [util_flatten_recurse]
    simp only [pure_eq_ok, truthy_bool, hX, ok_bind]
    refine app_loop_kC11 xs (fun c => [c]) acc _ _ ?step _ _ ?k
    case k => intro s hs; rw [hs]; simp
    case step =>
      intro c hc s b hs
      obtain ⟨s1, s2⟩ := s
      simp only at hs; subst hs
      have hf := plainC11_facts (hp c hc)
      simp [isInstance_cons2, hf.notList, hf.notTuple, hf.notTL, hf.notNone, pyListAppend_list]

theorem flatten_recurse_kidsC11 (h : util_flatten_recurse_available = true) (G : Globals) (fuel : Nat) (X : PVal)
    (xs acc : List PVal) (hX : pyIter X = .ok xs) (hp : ∀ x ∈ xs, (kidItemsC11 x).isSome = true) :
    util_flatten_recurse G (fuel + 2) X (.list acc) = .ok (.list (acc ++ xs.flatMap kidFlatC11)) := by
  first
  | exact absurd h (by decide)
  | rw [util_flatten_recurse]
    simp only [pure_eq_ok, truthy_bool, hX, ok_bind]
    refine app_loop_kC11 xs kidFlatC11 acc _ _ ?step _ _ ?k
    case k => intro s hs; rw [hs]
    case step =>
      intro c hc s b hs
      obtain ⟨s1, s2⟩ := s
      simp only at hs; subst hs
      obtain ⟨items, hi⟩ := Option.isSome_iff_exists.mp (hp c hc)
      have hkf : kidFlatC11 c = items := by simp [kidFlatC11, hi]
      rcases kidItems_casesC11 hi with ⟨hpl, rfl⟩ | ⟨_, fs, rfl, hd, hall⟩
      · have hf := plainC11_facts hpl
        simp [isInstance_cons2, hf.notList, hf.notTuple, hf.notTL, hf.notNone, pyListAppend_list, hkf]
      · have hit : pyIter (.obj "TagList" fs) = .ok items := by
          simp [pyIter, find_of_fieldGet _ _ _ hd]
        have hrec := flatten_recurse_plainC11 h G fuel (.obj "TagList" fs) items b hit hall
        have hinst : isInstance (.obj "TagList" fs) ["list", "tuple", "TagList"] = true := by
          simp [isInstance]
        simp only [hinst, if_true, hrec, ok_bind, hkf]
        exact ⟨_, rfl, rfl⟩

theorem is_tag_node_plainC11 (hn : is_tag_node_available = true) (G : Globals) (v : PVal) (hp : plainC11 v = true) :
    is_tag_node G v = .ok (.bool true) := by
  first
  | exact absurd hn (by decide)
  | unfold is_tag_node
    have hf := (plainC11_facts hp).node
    simp only [Bool.or_eq_true] at hf
    simp only [pure_eq_ok, isInstance_cons2]
    congr 2
    rcases hf with (((hf | hf) | hf) | hf) | hf <;> simp [hf]

theorem tagchilds_kidsC11 (h : tagchilds_to_tagnodes_available = true) (hf' : util_flatten_available = true)
    (hr' : util_flatten_recurse_available = true) (hn : is_tag_node_available = true) (G : Globals) (fuel : Nat) (X : PVal)
    (xs : List PVal) (hX : pyIter X = .ok xs) (hs : isInstance X ["str"] = false)
    (hp : ∀ x ∈ xs, (kidItemsC11 x).isSome = true) :
    tagchilds_to_tagnodes G (fuel + 4) X = .ok (.list (xs.flatMap kidFlatC11)) := by
  first
  | exact absurd h (by decide)
  | exact absurd hf' (by decide)
  | rw [tagchilds_to_tagnodes]
    simp only [pure_eq_ok, truthy_bool, hs, Bool.false_eq_true, if_false]
    have hfl : util_flatten G (fuel + 3) X = .ok (.list (xs.flatMap kidFlatC11)) := by
      rw [util_flatten]
      simp only [pure_eq_ok, ok_bind, flatten_recurse_kidsC11 hr' G fuel X xs [] hX hp, List.nil_append]
    obtain ⟨E, hE, hmem⟩ := pyEnumerate_listC11 (xs.flatMap kidFlatC11)
    simp only [hfl, ok_bind, hE, pyIter_list]
    refine keep_loop_kC11 E _ _ _ ?step _ _ ?k
    case k => intro s hs'; rw [hs']
    case step =>
      intro c hc s hs'
      obtain ⟨i, x, rfl, hx⟩ := hmem c hc
      have hpl := kidFlat_plainC11 xs hp x hx
      have hf := plainC11_facts hpl
      simp [isInstance_cons2, hf.notInt, hf.notFloat, is_tag_node_plainC11 hn G x hpl, hs']

theorem TagList_insert_kidC11 (h : TagList_insert_available = true) (ht : tagchilds_to_tagnodes_available = true)
    (hf' : util_flatten_available = true) (hr' : util_flatten_recurse_available = true) (hn : is_tag_node_available = true)
    (G : Globals) (fuel : Nat) (ds : List PVal) (i : Int) (x : PVal) (hx : (kidItemsC11 x).isSome = true) :
    TagList_insert G (fuel + 5) (tagListOf ds) (.int i) x
      = .ok (tagListOf (ds.take (HtmlVerif.clampIdx ds.length i) ++ kidFlatC11 x ++ ds.drop (HtmlVerif.clampIdx ds.length i))) := by
  first
  | exact absurd h (by decide)
  | rw [TagList_insert]
    have key := tagchilds_kidsC11 ht hf' hr' hn G fuel (.list [x]) [x] rfl (by simp [isInstance, builtinClasses])
      (by intro y hy; simp at hy; subst hy; exact hx)
    simp only [pure_eq_ok, key, ok_bind, tagListOf, userListSliceInsert_tl, List.flatMap_cons, List.flatMap_nil, List.append_nil]

theorem TagList_extend_kidsC11 (h : TagList_extend_available = true) (ht : tagchilds_to_tagnodes_available = true)
    (hf' : util_flatten_available = true) (hr' : util_flatten_recurse_available = true) (hn : is_tag_node_available = true)
    (G : Globals) (fuel : Nat) (ds : List PVal) (X : PVal) (xs : List PVal) (hX : pyIter X = .ok xs)
    (hs : isInstance X ["str"] = false) (hp : ∀ x ∈ xs, (kidItemsC11 x).isSome = true) :
    TagList_extend G (fuel + 5) (tagListOf ds) X = .ok (tagListOf (ds ++ xs.flatMap kidFlatC11)) := by
  first
  | exact absurd h (by decide)
  | rw [TagList_extend]
    simp only [pure_eq_ok, tagchilds_kidsC11 ht hf' hr' hn G fuel X xs hX hs hp, ok_bind, tagListOf, userListExtend_tl]

theorem TagList_append_kidsC11 (h : TagList_append_available = true) (he : TagList_extend_available = true)
    (ht : tagchilds_to_tagnodes_available = true)
    (hf' : util_flatten_available = true) (hr' : util_flatten_recurse_available = true) (hn : is_tag_node_available = true)
    (G : Globals) (fuel : Nat) (ds : List PVal) (x : PVal) (rest : List PVal)
    (hp : ∀ y ∈ x :: rest, (kidItemsC11 y).isSome = true) :
    TagList_append G (fuel + 6) (tagListOf ds) x (.tuple rest) = .ok (tagListOf (ds ++ (x :: rest).flatMap kidFlatC11)) := by
  first
  | exact absurd h (by decide)
  | rw [TagList_append]
    simp only [pure_eq_ok, pyIter_tuple, ok_bind, List.singleton_append,
      TagList_extend_kidsC11 he ht hf' hr' hn G fuel ds (.list (x :: rest)) (x :: rest) rfl (by simp [isInstance, builtinClasses]) hp]

/-! ### `TagAttrDict.__init__` -/

/-- `TagAttrDict(*args, **kwargs)` as the source has it (`super().__init__(); self.update(*args, **kwargs)`) = `attrsUpdate`
    on the positional dicts followed by the keyword dict when it is non-empty; a keyword named `self` collides with the
    receiver of `update` (TypeError) -/
theorem src_TagAttrDict_initC11 (h : TagAttrDict_initC11_available = true) (G : Globals) (cfg : Cfg)
    (hU : UpdateTieC11 G cfg) (cur : Attrs) (args : List (List (Str × AttrArg))) (kw : List (Str × AttrArg)) :
    TagAttrDict_initC11 G (embAttrs cur) (.tuple (args.map embArgDict)) (embArgDict kw)
      = if kwAvoidsC11 [kSelfC11] kw then embRes embAttrs (attrsUpdate cfg cur (if kw.isEmpty then args else args ++ [kw]))
        else .error .typeError := by
  first
  | exact absurd h (by decide)
  | unfold TagAttrDict_initC11
    have hd : pyDictInit0C11 (embAttrs cur) = .ok (embAttrs cur) := rfl
    have hs : pyStarArgsC11 (.tuple (args.map embArgDict)) = .ok (.tuple (args.map embArgDict)) := rfl
    have hk := pyKwSplat_embC11 kw [kSelfC11]
    simp only [kSelfC11] at hk ⊢
    simp only [pure_eq_ok, ok_bind, hd, hs, hk]
    by_cases hb : kwAvoidsC11 [['s', 'e', 'l', 'f']] kw = true
    · simp only [hb, if_true, ok_bind, hU cur args kw]
      cases attrsUpdate cfg cur (if kw.isEmpty then args else args ++ [kw]) <;> rfl
    · simp only [hb, Bool.false_eq_true, if_false, error_bind]

theorem tad_init_emptyC11 (hi : TagAttrDict_initC11_available = true) (G : Globals) (cfg : Cfg) (hU : UpdateTieC11 G cfg) :
    TagAttrDict_initC11 G (.dict []) (.tuple []) (.dict []) = .ok (.dict []) := by
  have := src_TagAttrDict_initC11 hi G cfg hU [] [] []
  simpa [embAttrs, embArgDict, kwAvoidsC11, attrsUpdate, accumDicts, dictUpdate, embRes] using this


/-! ### `HTMLDocument._gen_html_tag_tree` -/

set_option hygiene false in
/-- the code after `body = …`: given `hb`, the tie for `body.tagify()` -/
local macro "gen_tree_tailC11" : tactic => `(tactic| (
  simp only [hb, ok_bind, hsp3, hinit, hempty, mkTag_nilC11]
  cases attrsUpdate cfg [] (if kw.isEmpty = true then [] else [] ++ [kw]) with
  | error e => rfl
  | ok a =>
    simp only [embRes, ok_bind]
    rw [mkTag_pairC11 _ _ _ _ _ (plain_tagObjC11 _ _ _ _) (plainC11_embT tv _)]
    simp only [ok_bind, bind_ok_self]
    rfl))

theorem pyEq_len1C11 (n : Nat) : pyEq (.int (n : Nat)) (.int 1) = .ok (.bool (n == 1)) := by
  simp only [pyEq, pure_eq_ok]
  congr 2
  by_cases h : n = 1
  · subst h; rfl
  · have : ((n : Int) == 1) = false := by simp; omega
    simp [this, h]

theorem src_gen_html_tag_treeC11 (h : HTMLDocument_gen_html_tag_treeC11_available = true)
    (hi : TagAttrDict_initC11_available = true)
    (G : Globals) (cfg : Cfg) (tv : Node → PVal) (hU : UpdateTieC11 G cfg) (fuel : Nat)
    (hT : ∀ t : Node, t.isTag = true → 2 * nodeDepth t ≤ fuel → Tag_tagify G fuel (embT tv t) = .ok (embT tv (tagifyTag t)))
    (content : Nodes) (kw : List (Str × AttrArg)) (hkw : kwAvoidsC11 reservedKw kw = true)
    (hf : 2 * kidsDepth content + 2 ≤ fuel) (lp iv : PVal)
    (K : PVal → PyM PVal) (hK : ∀ v, HTMLDocument_hoist_head_contentC11 G fuel v lp iv = K v) :
    HTMLDocument_gen_html_tag_treeC11 G (fuel + 1) (docObjC11 (embTs tv content) (embArgDict kw)) lp iv
      = match Doc.genTree cfg content kw with
        | .error e => .error (embErr e)
        | .ok (x, _) => K (embT tv x) := by
  first
  | exact absurd h (by decide)
  | skip
  all_goals (
    rw [HTMLDocument_gen_html_tag_treeC11]
    simp only [hK]
    have hc : pyGetAttr (docObjC11 (embTs tv content) (embArgDict kw)) "_content" = .ok (tagListOf (embTs tv content)) := by
      simp [docObjC11, pyGetAttr, fieldGet?]
    have hk : pyGetAttr (docObjC11 (embTs tv content) (embArgDict kw)) "_html_attr_args" = .ok (embArgDict kw) := by
      simp [docObjC11, pyGetAttr, fieldGet?]
    have hself : kwAvoidsC11 [kSelfC11] kw = true :=
      kwAvoids_monoC11 reservedKw [kSelfC11] kw (by intro k hk; simp at hk; subst hk; decide) hkw
    have hsp1 := pyKwSplat_embC11 kw [kSelfC11]
    have hsp3 := pyKwSplat_embC11 kw reservedKw
    have hinit := src_TagAttrDict_initC11 hi G cfg hU [] [] kw
    have hempty := tad_init_emptyC11 hi G cfg hU
    simp only [hself, hkw, if_true] at hsp1 hsp3 hinit
    simp only [kSelfC11, reservedKw, embAttrs, List.map_nil] at hsp1 hsp3 hinit
    -- the fragment case: `body = Tag("body", content)`
    have hfrag := hT (.tag Doc.nBody true [] content) rfl (by simp only [nodeDepth]; omega)
    have hclsB : pyClassOf (embT tv (.tag Doc.nBody true [] content)) = "Tag" := rfl
    simp only [pure_eq_ok, ok_bind, hc, hk, pyLenU_tagListOf, len_embTsC11]
    have hm := mkTag_bodyC11 tv content
    have hb := hfrag
    cases content with
    | nil =>
      simp only [embTs, Nodes.length, pyEq_len1C11, pyAnd_okC11, truthy_bool] at hm ⊢
      simp only [Nat.reduceBEq, truthy_bool, Bool.false_eq_true, if_false, ok_bind, hempty, hm, hclsB]
      simp only [Doc.genTree, Doc.wrapHtml, tagInitAttrs]
      gen_tree_tailC11
    | cons hd tl =>
      cases tl with
      | cons h2 t2 =>
        simp only [embTs, Nodes.length, pyEq_len1C11, pyAnd_okC11, truthy_bool] at hm ⊢
        have hl : ((t2.length + 1 + 1) == 1) = false := by simp
        simp only [hl, truthy_bool, Bool.false_eq_true, if_false, ok_bind, hempty, hm, hclsB]
        simp only [Doc.genTree, Doc.wrapHtml, tagInitAttrs]
        gen_tree_tailC11
      | nil =>
        simp only [embTs, Nodes.length] at hm ⊢
        simp only [pyEq_len1C11, pyAnd_okC11, truthy_bool, pyGetItemU_headC11, isTag_embT, Nat.zero_add, beq_self_eq_true,
          if_true, ok_bind]
        by_cases htag : hd.isTag = true
        · cases hd <;> simp [Node.isTag] at htag
          rename_i n w a kids
          have hsole := hT (.tag n w a kids) rfl (by simp only [kidsDepth] at hf; omega)
          have hcls : pyClassOf (embT tv (.tag n w a kids)) = "Tag" := rfl
          have hname : pyGetAttr (embT tv (.tag n w a kids)) "name" = .ok (.str n) := getattr_nameC11 _ _ _ _
          simp only [Node.isTag, truthy_bool, if_true, hname, ok_bind, pyEq_strC11, hcls]
          by_cases hn : n = Doc.nHtml
          · have hn' : (n == ['h', 't', 'm', 'l']) = true := by subst hn; rfl
            simp only [hn', if_true, hsole, ok_bind]
            simp only [tagifyTag, embT_tagC11, getattr_attrsC11, recv_dictC11, hsp1, ok_bind]
            have hu := hU a [] kw
            simp only [List.map_nil, List.nil_append] at hu
            simp only [hu, Doc.genTree, hn, if_true, Doc.updateKw]
            cases attrsUpdate cfg a (if kw.isEmpty = true then [] else [kw]) with
            | error e => rfl
            | ok a' => simp only [embRes, ok_bind, setattr_attrsC11, bind_ok_self, tagifyTag, embT_tagC11]
          · have hn' : (n == ['h', 't', 'm', 'l']) = false := by
              simpa [Doc.nHtml] using hn
            simp only [hn', Bool.false_eq_true, if_false]
            by_cases hbd : n = Doc.nBody
            · have hbd' : (n == ['b', 'o', 'd', 'y']) = true := by subst hbd; rfl
              simp only [hbd', if_true]
              have hb := hsole
              simp only [Doc.genTree, hn, hbd, if_false, if_true, Doc.wrapHtml, tagInitAttrs]
              subst hbd
              gen_tree_tailC11
            · have hbd' : (n == ['b', 'o', 'd', 'y']) = false := by
                simpa [Doc.nBody] using hbd
              simp only [hbd', Bool.false_eq_true, if_false, ok_bind, hempty, hm, hclsB]
              simp only [Doc.genTree, hn, hbd, if_false, Doc.wrapHtml, tagInitAttrs]
              gen_tree_tailC11
        · have htag' : hd.isTag = false := by simpa using htag
          simp only [htag', truthy_bool, Bool.false_eq_true, if_false, ok_bind, hempty, hm, hclsB]
          have hg : Doc.genTree cfg (.cons hd .nil) kw
              = match Doc.wrapHtml cfg (tagifyTag (.tag Doc.nBody true [] (.cons hd .nil))) kw with
                | .error e => .error e
                | .ok x => .ok (x, .cons hd .nil) := by
            cases hd <;> first | rfl | simp [Node.isTag] at htag'
          rw [hg]
          simp only [Doc.wrapHtml, tagInitAttrs]
          gen_tree_tailC11)

/-! ### `Tag.insert`, `Tag.extend`, `Tag.append`

Stated at the level of Python values (`tagObjC11`: any instance with the four fields of a Tag), for arguments that are
**already normalised** children — a plain tag node or a TagList of such (`kidItemsC11`).  `_partial`: what is missing is the
normalisation of other children (None is dropped, numbers become strings, nested lists / tuples are flattened, anything
else is a TypeError), which is the subject of `src_TagList_insert / _extend / _append` (Props/SrcC14.lean) on that area's
own embedding of the arguments. -/

theorem src_Tag_insertC11_partial (h : Tag_insertC11_available = true) (hc : CalleesC11) (G : Globals) (fuel : Nat)
    (n a w : PVal) (ds : List PVal) (i : Int) (x : PVal) (hx : (kidItemsC11 x).isSome = true) :
    Tag_insertC11 G (fuel + 6) (tagObjC11 n a ds w) (.int i) x
      = .ok (tagObjC11 n a (ds.take (HtmlVerif.clampIdx ds.length i) ++ kidFlatC11 x ++ ds.drop (HtmlVerif.clampIdx ds.length i)) w) := by
  first
  | exact absurd h (by decide)
  | rw [Tag_insertC11]
    simp only [pure_eq_ok, ok_bind, getattr_childrenC11, recv_taglistC11,
      TagList_insert_kidC11 hc.insert hc.tagchilds hc.flatten hc.recurse hc.isnode G fuel ds i x hx, setattr_childrenC11]

theorem src_Tag_extendC11_partial (h : Tag_extendC11_available = true) (hc : CalleesC11) (G : Globals) (fuel : Nat)
    (n a w : PVal) (ds : List PVal) (X : PVal) (xs : List PVal) (hX : pyIter X = .ok xs) (hs : isInstance X ["str"] = false)
    (hp : ∀ x ∈ xs, (kidItemsC11 x).isSome = true) :
    Tag_extendC11 G (fuel + 6) (tagObjC11 n a ds w) X = .ok (tagObjC11 n a (ds ++ xs.flatMap kidFlatC11) w) := by
  first
  | exact absurd h (by decide)
  | rw [Tag_extendC11]
    simp only [pure_eq_ok, ok_bind, getattr_childrenC11, recv_taglistC11,
      TagList_extend_kidsC11 hc.extend hc.tagchilds hc.flatten hc.recurse hc.isnode G fuel ds X xs hX hs hp, setattr_childrenC11]

theorem src_Tag_appendC11_partial (h : Tag_appendC11_available = true) (hc : CalleesC11) (G : Globals) (fuel : Nat)
    (n a w : PVal) (ds : List PVal) (args : List PVal) (hp : ∀ x ∈ args, (kidItemsC11 x).isSome = true) :
    Tag_appendC11 G (fuel + 7) (tagObjC11 n a ds w) (.tuple args)
      = if args.isEmpty then .error .typeError else .ok (tagObjC11 n a (ds ++ args.flatMap kidFlatC11) w) := by
  first
  | exact absurd h (by decide)
  | rw [Tag_appendC11]
    cases args with
    | nil => simp [getattr_childrenC11, recv_taglistC11, pyStarSplit1C11]
    | cons x rest =>
      have hsp : pyStarSplit1C11 (.tuple (x :: rest)) = .ok (x, .tuple rest) := rfl
      simp only [pure_eq_ok, ok_bind, getattr_childrenC11, recv_taglistC11, hsp,
        TagList_append_kidsC11 hc.append hc.extend hc.tagchilds hc.flatten hc.recurse hc.isnode G fuel ds x rest hp,
        setattr_childrenC11, List.isEmpty_cons, Bool.false_eq_true, if_false]

/-! ### `HTMLDocument._hoist_head_content` -/

/-- `TagAttrDict(k=v)` for a plain string value under a name that normalisation leaves alone -/
theorem tad_init_oneC11 (hi : TagAttrDict_initC11_available = true) (G : Globals) (cfg : Cfg) (hU : UpdateTieC11 G cfg)
    (k v : Str) (hk : normAttrName k = k) (hs : (k == kSelfC11) = false) :
    TagAttrDict_initC11 G (.dict []) (.tuple []) (.dict [(k, .str v)]) = .ok (.dict [(k, .str v)]) := by
  have := src_TagAttrDict_initC11 hi G cfg hU [] [] [(k, .str v)]
  have hav : kwAvoidsC11 [kSelfC11] [(k, AttrArg.str v)] = true := by
    simp only [kwAvoidsC11, List.any_cons, List.any_nil, List.contains_cons, List.contains_nil, hs]; rfl
  simp only [hav, if_true, embAttrs, embArgDict, List.map_cons, List.map_nil, embArg] at this
  rw [this]
  simp [attrsUpdate, accumDicts, accumPairs, normAttrValue, hk, alookup, HtmlVerif.dictSet, dictUpdate, embRes, embAttrs]

set_option hygiene false in
/-- everything after `head = cast(Tag, res.children[head_index])`: given `hget` / `hset` (reading and writing the place
    `res.children[head_index]`), `hmodel` (the model's result in terms of `mapM depTags`) and `hfinal` (the value of the final
    tree for any extra head content) -/
local macro "hoist_restC11" : tactic => `(tactic| (
  simp only [hget, pyCopy_tagObjC11, hset, setattr_childrenC11, getattr_childrenC11, recv_tagC11, hmeta, mkTag_nil'C11,
    ok_bindC11, hIns _ _ _ _ _ (kidItems_tagObj_someC11 _ _ _ _), clampIdx_zeroC11, List.take_zero, List.drop_zero,
    kidFlat_tagObjC11, List.nil_append, List.singleton_append, pyLenU_list'C11, pyGt_int'C11, truthy_boolC11,
    List.length_map]
  by_cases hde : ds = []
  · subst hde
    -- (`if len(deps) > 0:` or `if deps:`)
    simp only [List.length_nil, List.map_nil, Int.natCast_zero, gt_iff_lt, Int.lt_irrefl, decide_false, truthy_list_nilC11,
      Bool.false_eq_true, if_false]
    refine (comp_loop_simC11 [] (embT tv) (Doc.depTags cfg lp iv) (fun ns => tagListOf (embTs tv ns)) _ ?st _).trans ?fin
    case st => intro d hd; simp at hd
    case fin =>
      rw [hmodel]
      simp only [List.mapM_nil, pure, Except.pure, List.map_nil, hExt _ _ _ _ _ [] (pyIter_listC11 _)
        (by simp [isInstance, builtinClasses]) (by simp), List.flatMap_nil, List.append_nil, ok_bindC11, embRes,
        hfinal, Doc.listing, List.isEmpty_nil, if_true, concatNodesC11, embTs, embT_metaCharsetC11]
      simp [embTs_appendC11, embTs]
  · have hpos := len_posC11 ds hde
    have hne : ds.isEmpty = false := by cases ds <;> simp_all
    have htr : truthy (PVal.list (ds.map (embT tv))) = true := by cases ds <;> simp_all [truthy]
    simp only [hpos, htr, if_true]
    refine comp_loop_kC11 ds (embT tv) (fun d => PVal.str (depListingC11 d)) _ ?stl _ _ ?kl
    case stl =>
      intro d hd s
      have hdd := hdep d hd
      cases d <;> simp [Node.isDep] at hdd
      simp [embT, embDepFields, pyGetAttr, fieldGet?, pyStrC11, pyAdd_strC11, depListingC11, Node.depName,
        depVersionC11, List.append_assoc]
    case kl =>
      have hmm : ds.map (fun d => PVal.str (depListingC11 d)) = (ds.map depListingC11).map PVal.str := by simp
      simp only [hmm, pyJoin_strsC11, ok_bindC11, htype, mkTag_oneC11 _ _ _ _ (plain_strC11 _), hApp1]
      refine (comp_loop_simC11 ds (embT tv) (Doc.depTags cfg lp iv) (fun ns => tagListOf (embTs tv ns)) _ ?st _).trans ?fin
      case st =>
        intro d hd s
        rw [pyAsHtmlTags_depC11 G tv d (hdep d hd), hA d hd]
        cases Doc.depTags cfg lp iv d <;> rfl
      case fin =>
        rw [hmodel]
        cases List.mapM (Doc.depTags cfg lp iv) ds with
        | error e => rfl
        | ok vs =>
          simp only [recv_tagC11, ok_bindC11, hExt _ _ _ _ _ _ (pyIter_listC11 _)
            (by simp [isInstance, builtinClasses]) (kidItems_taglistsC11 tv vs), flat_taglistsC11, embRes, hfinal,
            Doc.listing, hne, Bool.false_eq_true, if_false, ← listingText_eqC11 ds hdep, embT_metaCharsetC11]
          simp [embTs_appendC11, embTs, embT_listingNodeC11]))

/-- `HTMLDocument._hoist_head_content(x, lib_prefix, include_version)` as the source has it = `hoist`, for every tag `x`:
    ValueError unless `x` is an `<html>` tag; the first direct `<head>` child (a new one inserted at index 0 if there is
    none) is copied, `<meta charset="utf-8">` goes to its front, the listing script (iff there are dependencies) and the
    tags of every resolved dependency, in order, to its end; the first failing `as_html_tags` propagates.
    `hD`: the tie of `Tag.get_dependencies` on `x` (Props/SrcC10.lean).  `hA`: `as_html_tags` (not translated) answers, for
    each resolved dependency, what the model's `depTags` says. -/
theorem src_hoist_head_contentC11 (h : HTMLDocument_hoist_head_contentC11_available = true)
    (hins : Tag_insertC11_available = true) (hext : Tag_extendC11_available = true) (happ : Tag_appendC11_available = true)
    (hi : TagAttrDict_initC11_available = true) (hc : CalleesC11)
    (G : Globals) (cfg : Cfg) (tv : Node → PVal) (hU : UpdateTieC11 G cfg) (fuel : Nat) (hfu : 7 ≤ fuel)
    (n : Str) (w : Bool) (a : Attrs) (kids : Nodes) (lp : Option Str) (iv : Bool)
    (hD : Tag_get_dependencies G fuel (embT tv (.tag n w a kids)) (.bool true)
            = .ok (.list (((Node.tag n w a kids).getDeps true).map (embT tv))))
    (hA : ∀ d ∈ (Node.tag n w a kids).getDeps true, G.asHtmlTagsC11 (embT tv d) (embLpC11 lp) (.bool iv)
            = embRes (fun ns => tagListOf (embTs tv ns)) (Doc.depTags cfg lp iv d)) :
    HTMLDocument_hoist_head_contentC11 G (fuel + 1) (embT tv (.tag n w a kids)) (embLpC11 lp) (.bool iv)
      = embRes (embT tv) (Doc.hoist cfg (.tag n w a kids) lp iv) := by
  first
  | exact absurd h (by decide)
  | skip
  all_goals (
    rw [HTMLDocument_hoist_head_contentC11]
    have hname : pyGetAttr (embT tv (.tag n w a kids)) "name" = .ok (.str n) := getattr_nameC11 _ _ _ _
    have hcp : pyCopy (embT tv (.tag n w a kids)) = .ok (embT tv (.tag n w a kids)) := by
      simp [embT, pyCopy, fieldGet?]
    have hcls : pyClassOf (embT tv (.tag n w a kids)) = "Tag" := rfl
    have hdep := getDeps_isDepC11 n w a kids
    generalize hds : (Node.tag n w a kids).getDeps true = ds at hD hA hdep
    simp only [pure_eq_ok, ok_bind, hname, pyEq_strC11, truthy_bool, hcp, hcls, hD]
    by_cases hn : n = Doc.nHtml
    · have hn' : (n == ['h', 't', 'm', 'l']) = true := by subst hn; rfl
      simp only [hn', Bool.not_true, Bool.false_eq_true, if_false]
      rw [embT_tagC11]
      simp only [getattr_childrenC11, ok_bindC11, pyEnumerate_tlC11, pyIter_listC11, embTs_toList]
      refine head_loop_kC11 tv kids.toList 0 _ _ ?step _ _ ?k
      case step =>
        intro i c hcm s hs
        obtain ⟨s1, s2, s3⟩ := s
        simp only at hs; subst hs
        simp only [pyUnpack2_tuple, ok_bind, isTag_embT, pyAnd_okC11, truthy_bool]
        cases c with
        | tag nm ws at' kk =>
          have hnm : pyGetAttr (embT tv (.tag nm ws at' kk)) "name" = .ok (.str nm) := getattr_nameC11 _ _ _ _
          simp only [Node.isTag, if_true, hnm, ok_bind, pyEq_strC11, truthy_bool, Doc.isTagNamed, Doc.nHead]
          by_cases hh : (nm == ['h', 'e', 'a', 'd']) = true
          · simp only [hh, if_true]; exact ⟨_, rfl, rfl⟩
          · simp only [hh, Bool.false_eq_true, if_false]; exact ⟨_, rfl, rfl⟩
        | _ => simp [Node.isTag, Doc.isTagNamed]
      case k =>
        intro s hs
        simp only [Nat.zero_add, ← headIndex_findIdxC11] at hs
        obtain ⟨f7, rfl⟩ : ∃ f7, fuel = f7 + 7 := ⟨fuel - 7, by omega⟩
        have hIns := fun n a ds w x hx => src_Tag_insertC11_partial hins hc G (f7 + 1) n a w ds 0 x hx
        have hApp := fun n a ds w args hp => src_Tag_appendC11_partial happ hc G f7 n a w ds args hp
        have hExt := fun n a ds w X xs hX hs hp => src_Tag_extendC11_partial hext hc G (f7 + 1) n a w ds X xs hX hs hp
        simp only [show f7 + 1 + 6 = f7 + 7 from rfl] at hIns hExt
        have hmeta := tad_init_oneC11 hi G cfg hU kCharsetC11 vUtf8C11 (by rfl) (by rfl)
        have htype := tad_init_oneC11 hi G cfg hU kTypeC11 vDepsTypeC11 (by rfl) (by rfl)
        have hempty := tad_init_emptyC11 hi G cfg hU
        simp only [kCharsetC11, vUtf8C11, kTypeC11, vDepsTypeC11] at hmeta htype
        have hApp1 : ∀ (n a : PVal) (ds : List PVal) (w tn ta : PVal) (tk : List PVal) (tw : PVal),
            Tag_appendC11 G (f7 + 7) (tagObjC11 n a ds w) (.tuple [tagObjC11 tn ta tk tw])
              = .ok (tagObjC11 n a (ds ++ [tagObjC11 tn ta tk tw]) w) := by
          intro n a ds w tn ta tk tw
          rw [hApp n a ds w [tagObjC11 tn ta tk tw]
            (by intro x hx; simp at hx; subst hx; exact kidItems_tagObj_someC11 _ _ _ _)]
          simp [kidFlat_tagObjC11]
        subst hn
        have hmodel := hoist_modelC11 cfg w a kids lp iv
        rw [hds] at hmodel
        cases hhi : Doc.headIndex kids with
        | none =>
          rw [hhi] at hs hmodel
          simp only [Option.getD_none] at hs hmodel
          simp only [hs, isNone, if_true, hempty, mkTag_nil'C11, recv_tagC11, ok_bindC11,
            hIns _ _ _ _ _ (kidItems_tagObj_someC11 _ _ _ _), clampIdx_zeroC11, List.take_zero, List.drop_zero,
            kidFlat_tagObjC11, List.nil_append, List.singleton_append]
          have hget : ∀ (c : PVal) (r : List PVal), pyGetItemU (tagListOf (c :: r)) (.int 0) = .ok c := pyGetItemU_headC11
          have hset : ∀ (c v : PVal) (r : List PVal), pySetItemU (tagListOf (c :: r)) (.int 0) v = .ok (tagListOf (v :: r)) := by
            intro c v r; exact pySetItemU_at [] c v r
          have hfinal : ∀ (extra : Nodes),
              embT tv (.tag Doc.nHtml w a (Doc.modifyAt (Doc.hoistHead extra) (Nodes.cons Doc.emptyHead kids) 0))
                = tagObjC11 (.str Doc.nHtml) (embAttrs a)
                    (tagObjC11 (.str ['h', 'e', 'a', 'd']) (.dict []) (embT tv Doc.metaCharset :: embTs tv extra) (.bool true)
                      :: kids.toList.map (embT tv)) (.bool w) := by
            intro extra
            simp [Doc.modifyAt, Doc.hoistHead, Doc.emptyHead, embT_tagC11, embTs, embTs_toList, Doc.nHead, embAttrs,
              Nodes.toList]
          hoist_restC11
        | some i =>
          rw [hhi] at hs hmodel
          simp only [Option.getD_some] at hs hmodel
          obtain ⟨pre, hd, post, hsplit, hlen, hhd, _⟩ := headIndex_someC11 kids i hhi
          cases hd <;> simp [Doc.isTagNamed] at hhd
          rename_i hdn hw ha hk
          simp only [hs, isNone, Bool.false_eq_true, if_false, hsplit, List.map_append, List.map_cons, embT_tagC11]
          have hPl : (pre.map (embT tv)).length = i := by simpa using hlen
          have hget : ∀ c, pyGetItemU (tagListOf (pre.map (embT tv) ++ c :: post.map (embT tv))) (.int (i : Nat)) = .ok c := by
            intro c; have := pyGetItemU_at (pre.map (embT tv)) c (post.map (embT tv)); rwa [hPl] at this
          have hset : ∀ c v, pySetItemU (tagListOf (pre.map (embT tv) ++ c :: post.map (embT tv))) (.int (i : Nat)) v
              = .ok (tagListOf (pre.map (embT tv) ++ v :: post.map (embT tv))) := by
            intro c v; have := pySetItemU_at (pre.map (embT tv)) c v (post.map (embT tv)); rwa [hPl] at this
          have hfinal : ∀ (extra : Nodes),
              embT tv (.tag Doc.nHtml w a (Doc.modifyAt (Doc.hoistHead extra) kids i))
                = tagObjC11 (.str Doc.nHtml) (embAttrs a)
                    (pre.map (embT tv) ++ tagObjC11 (.str hdn) (embAttrs ha)
                      (embT tv Doc.metaCharset :: (embTs tv hk ++ embTs tv extra)) (.bool hw) :: post.map (embT tv)) (.bool w) := by
            intro extra
            rw [embT_tagC11, embTs_toList, ← hlen, modifyAt_splitC11 _ kids pre _ post hsplit]
            simp [Doc.hoistHead, embT_tagC11, embTs, embTs_appendC11]
          hoist_restC11
    · have hn' : (n == ['h', 't', 'm', 'l']) = false := by simpa [Doc.nHtml] using hn
      simp [hn', Doc.hoist, hn, embRes, embErr])

/-! ### `_gen_html_tag_tree` with `_hoist_head_content`: the hypotheses discharged from the ties of the other areas -/

/-- `TagAttrDict.update` does not consult `asHtmlTagsC11`: its tie (`src_update`) holds for the globals of this file -/
theorem updateTie_ofC11 (h : TagAttrDict_update_available = true) (h1 : normalize_attr_value_available = true)
    (h2 : normalize_attr_name_available = true) (h3 : html_escape_available = true)
    (h4 : HTML_add_available = true) (h5 : HTML_radd_available = true) (h6 : HTML_as_string_available = true)
    (cfg : Cfg) (hsp : escText cfg [' '] = [' ']) (ht : keysPlain cfg.textTbl = true) (ha : keysPlain cfg.attrTbl = true)
    (f : PVal → PVal → PVal → PyM PVal) : UpdateTieC11 (globalsC11 cfg f) cfg := by
  intro cur args kw
  have e : TagAttrDict_update (globalsC11 cfg f) (embAttrs cur) (.tuple (args.map embArgDict)) (embArgDict kw)
      = TagAttrDict_update (globalsOf cfg) (embAttrs cur) (.tuple (args.map embArgDict)) (embArgDict kw) := rfl
  rw [e]
  exact src_update h h1 h2 h3 h4 h5 h6 cfg hsp ht ha cur args kw

theorem genTree_isTagC11 (cfg : Cfg) (content : Nodes) (kw : List (Str × AttrArg)) (x : Node) (after : Nodes)
    (h : Doc.genTree cfg content kw = .ok (x, after)) : x.isTag = true := by
  have wrap : ∀ (b : Node) (c : Nodes), (match Doc.wrapHtml cfg b kw with
      | .error e => (.error e : Except Err (Node × Nodes)) | .ok hh => .ok (hh, c)) = .ok (x, after) → x.isTag = true := by
    intro b c hw
    simp only [Doc.wrapHtml] at hw
    cases hti : tagInitAttrs cfg [] kw with
    | error e => rw [hti] at hw; simp at hw
    | ok a => rw [hti] at hw; simp at hw; rw [← hw.1]; rfl
  unfold Doc.genTree at h
  split at h
  · split at h
    · rename_i n w a kids hn
      cases hu : Doc.updateKw cfg a kw with
      | error e => simp [hu] at h
      | ok a' => simp [hu] at h; rw [← h.1]; rfl
    · exact wrap _ _ h
  · exact wrap _ _ h

/-- `HTMLDocument._gen_html_tag_tree(lib_prefix, include_version)` as the source has it, **with** the call of
    `_hoist_head_content` = `genHtmlTagTree` (`genTree`, then `hoist`), for every stored content, keyword arguments that do
    not collide with parameter names, `lib_prefix` None or a string, any fuel that covers the nesting of the content and of
    the tree handed to `_hoist_head_content`.  `hA`: what the untranslated `as_html_tags` answers (a parameter of `G`) is what
    the model's `depTags` says, for the resolved dependencies of that tree. -/
theorem src_gen_html_tag_tree_fullC11 (h : HTMLDocument_gen_html_tag_treeC11_available = true)
    (hh : HTMLDocument_hoist_head_contentC11_available = true)
    (hins : Tag_insertC11_available = true) (hext : Tag_extendC11_available = true) (happ : Tag_appendC11_available = true)
    (hi : TagAttrDict_initC11_available = true) (hc : CalleesC11)
    (ht1 : Tag_tagify_available = true) (ht2 : TagList_tagify_available = true)
    (hd1 : Tag_get_dependencies_available = true) (hd2 : TagList_get_dependencies_available = true)
    (hr : resolve_dependencies_available = true)
    (G : Globals) (cfg : Cfg) (hU : UpdateTieC11 G cfg) (tv : Node → PVal) (htv : TvOk tv)
    (content : Nodes) (kw : List (Str × AttrArg)) (hkw : kwAvoidsC11 reservedKw kw = true) (lp : Option Str) (iv : Bool)
    (fuel : Nat) (hf : 2 * kidsDepth content + 4 ≤ fuel)
    (hfx : ∀ x after, Doc.genTree cfg content kw = .ok (x, after) → 2 * nodeDepth x + 9 ≤ fuel)
    (hA : ∀ x after, Doc.genTree cfg content kw = .ok (x, after) → ∀ d ∈ x.getDeps true,
      G.asHtmlTagsC11 (embT tv d) (embLpC11 lp) (.bool iv)
        = embRes (fun ns => tagListOf (embTs tv ns)) (Doc.depTags cfg lp iv d)) :
    HTMLDocument_gen_html_tag_treeC11 G fuel (docObjC11 (embTs tv content) (embArgDict kw)) (embLpC11 lp) (.bool iv)
      = embRes (fun p => embT tv p.1) (Doc.genHtmlTagTree cfg content kw lp iv) := by
  obtain ⟨f, rfl⟩ : ∃ f, fuel = f + 2 := ⟨fuel - 2, by omega⟩
  have hT : ∀ t : Node, t.isTag = true → 2 * nodeDepth t ≤ f + 1 →
      Tag_tagify G (f + 1) (embT tv t) = .ok (embT tv (tagifyTag t)) :=
    fun t htag hle => src_tagify_tag ht1 ht2 G tv htv t htag (f + 1) hle
  rw [src_gen_html_tag_treeC11 h hi G cfg tv hU (f + 1) hT content kw hkw (by omega) (embLpC11 lp) (.bool iv)
    (fun v => HTMLDocument_hoist_head_contentC11 G (f + 1) v (embLpC11 lp) (.bool iv)) (fun _ => rfl)]
  unfold Doc.genHtmlTagTree
  cases hg : Doc.genTree cfg content kw with
  | error e => rfl
  | ok p =>
    obtain ⟨x, after⟩ := p
    have htag := genTree_isTagC11 cfg content kw x after hg
    cases x <;> simp [Node.isTag] at htag
    rename_i n w a kids
    have hfx' := hfx _ _ hg
    have hD := src_get_dependencies_tag hd1 hd2 hr G tv (.tag n w a kids) rfl f (by omega) true
    have := src_hoist_head_contentC11 hh hins hext happ hi hc G cfg tv hU f (by omega) n w a kids lp iv hD (hA _ _ hg)
    simp only [this]
    cases Doc.hoist cfg (.tag n w a kids) lp iv <;> rfl

/-- the same for the tables as they are in the source right now (`cfgNow`, `src_tables_ok`: Props/SrcEscape.lean), the
    objects' `tagify()` answering what the model says (`tvSpec`), and `as_html_tags` answering `f` -/
theorem src_gen_html_tag_tree_nowC11 (h : HTMLDocument_gen_html_tag_treeC11_available = true)
    (hh : HTMLDocument_hoist_head_contentC11_available = true)
    (hins : Tag_insertC11_available = true) (hext : Tag_extendC11_available = true) (happ : Tag_appendC11_available = true)
    (hi : TagAttrDict_initC11_available = true) (hc : CalleesC11)
    (ht1 : Tag_tagify_available = true) (ht2 : TagList_tagify_available = true)
    (hd1 : Tag_get_dependencies_available = true) (hd2 : TagList_get_dependencies_available = true)
    (hr : resolve_dependencies_available = true)
    (hu : TagAttrDict_update_available = true) (hu1 : normalize_attr_value_available = true)
    (hu2 : normalize_attr_name_available = true) (hu3 : html_escape_available = true)
    (hu4 : HTML_add_available = true) (hu5 : HTML_radd_available = true) (hu6 : HTML_as_string_available = true)
    (f : PVal → PVal → PVal → PyM PVal)
    (content : Nodes) (kw : List (Str × AttrArg)) (hkw : kwAvoidsC11 reservedKw kw = true) (lp : Option Str) (iv : Bool)
    (fuel : Nat) (hf : 2 * kidsDepth content + 4 ≤ fuel)
    (hfx : ∀ x after, Doc.genTree cfgNow content kw = .ok (x, after) → 2 * nodeDepth x + 9 ≤ fuel)
    (hA : ∀ x after, Doc.genTree cfgNow content kw = .ok (x, after) → ∀ d ∈ x.getDeps true,
      f (embT tvSpec d) (embLpC11 lp) (.bool iv)
        = embRes (fun ns => tagListOf (embTs tvSpec ns)) (Doc.depTags cfgNow lp iv d)) :
    HTMLDocument_gen_html_tag_treeC11 (globalsC11 cfgNow f) fuel (docObjC11 (embTs tvSpec content) (embArgDict kw))
        (embLpC11 lp) (.bool iv)
      = embRes (fun p => embT tvSpec p.1) (Doc.genHtmlTagTree cfgNow content kw lp iv) :=
  src_gen_html_tag_tree_fullC11 h hh hins hext happ hi hc ht1 ht2 hd1 hd2 hr (globalsC11 cfgNow f) cfgNow
    (updateTie_ofC11 hu hu1 hu2 hu3 hu4 hu5 hu6 cfgNow src_tables_ok.2.2 src_tables_ok.1 src_tables_ok.2.1 f)
    tvSpec tvSpec_ok content kw hkw lp iv fuel hf hfx hA

/-! ### `Tag.render`, `HTMLDocument.render`, `HTMLDocument.__init__`, `HTMLDocument.append` -/

def kDepsC11 : Str := ['d', 'e', 'p', 'e', 'n', 'd', 'e', 'n', 'c', 'i', 'e', 's']
def kHtmlC11 : Str := ['h', 't', 'm', 'l']

/-- the dict `render()` returns -/
def renderedObjC11 (deps : List PVal) (html : Str) : PVal :=
  .dict [(kDepsC11, .list deps), (kHtmlC11, .str html)]

/-- `Tag.render()` as the source has it: `cp = self.tagify()`, `cp.get_dependencies()`, `cp.get_html_string()`; the ties of the
    three callees on this tree are hypotheses (`src_tagify_tag`, `src_get_dependencies_tag`, `src_render_tagC11`) -/
theorem src_Tag_renderC11 (h : Tag_renderC11_available = true) (G : Globals) (cfg : Cfg) (tv : Node → PVal) (fuel : Nat)
    (t : Node) (htag : t.isTag = true)
    (hT : Tag_tagify G fuel (embT tv t) = .ok (embT tv (tagifyTag t)))
    (hD : Tag_get_dependencies G fuel (embT tv (tagifyTag t)) (.bool true)
            = .ok (.list (((tagifyTag t).getDeps true).map (embT tv))))
    (hR : Tag_get_html_string G fuel (embT tv (tagifyTag t)) (.int 0) (.str ['\n'])
            = embRes PVal.str (renderTagChecked cfg (tagifyTag t) 0 ['\n'])) :
    Tag_renderC11 G (fuel + 1) (embT tv t)
      = match renderTagChecked cfg (tagifyTag t) 0 ['\n'] with
        | .error e => .error (embErr e)
        | .ok s => .ok (renderedObjC11 (((tagifyTag t).getDeps true).map (embT tv)) s) := by
  first
  | exact absurd h (by decide)
  | skip
  all_goals (
    rw [Tag_renderC11]
    have hc1 := classOf_embT_tagC11 tv t htag
    have htag' : (tagifyTag t).isTag = true := by cases t <;> simp [Node.isTag] at htag; rfl
    have hc2 := classOf_embT_tagC11 tv (tagifyTag t) htag'
    simp only [pure_eq_ok, ok_bind, hc1, hT, hc2, hD, hR]
    cases renderTagChecked cfg (tagifyTag t) 0 ['\n'] <;> rfl)

/-- `HTMLDocument.render(lib_prefix=…, include_version=…)` as the source has it = `docRender`: the tree of
    `_gen_html_tag_tree`, rendered by `Tag.render`, with `"<!DOCTYPE html>\n"` put before the markup in the returned dict.
    `hG`: the tie of `_gen_html_tag_tree` on this document (`src_gen_html_tag_tree_fullC11`); `hTR`: the tie of `Tag.render`
    on the tree it returns (`src_Tag_renderC11`). -/
theorem src_HTMLDocument_renderC11 (h : HTMLDocument_renderC11_available = true) (G : Globals) (cfg : Cfg) (tv : Node → PVal)
    (fuel : Nat) (doc lpv ivv : PVal) (content : Nodes) (kw : List (Str × AttrArg)) (lp : Option Str) (iv : Bool)
    (hG : HTMLDocument_gen_html_tag_treeC11 G fuel doc lpv ivv
            = embRes (fun p => embT tv p.1) (Doc.genHtmlTagTree cfg content kw lp iv))
    (hTR : ∀ t after, Doc.genHtmlTagTree cfg content kw lp iv = .ok (t, after) →
      t.isTag = true ∧ Tag_renderC11 G fuel (embT tv t)
        = match renderTagChecked cfg (tagifyTag t) 0 ['\n'] with
          | .error e => .error (embErr e)
          | .ok s => .ok (renderedObjC11 (((tagifyTag t).getDeps true).map (embT tv)) s)) :
    HTMLDocument_renderC11 G (fuel + 1) doc lpv ivv
      = match Doc.docRender cfg content kw lp iv with
        | .error e => .error (embErr e)
        | .ok r => .ok (renderedObjC11 (r.deps.map (embT tv)) r.html) := by
  first
  | exact absurd h (by decide)
  | skip
  all_goals (
    rw [HTMLDocument_renderC11]
    simp only [pure_eq_ok, ok_bind, hG, Doc.docRender]
    cases hg : Doc.genHtmlTagTree cfg content kw lp iv with
    | error e => rfl
    | ok p =>
      obtain ⟨t, after⟩ := p
      obtain ⟨htag, hr⟩ := hTR t after hg
      have hcls := classOf_embT_tagC11 tv t htag
      simp only [embRes, ok_bind, hcls, hr]
      cases renderTagChecked cfg (tagifyTag t) 0 ['\n'] with
      | error e => rfl
      | ok s =>
        simp [renderedObjC11, kDepsC11, kHtmlC11, pyGetItemU, userListData?, pyGetItem, Py.dictGet?, pyAdd_str, pySetItem, Py.dictSet,
          Doc.doctype])

/-! ### `HTMLDocument.__init__`, `HTMLDocument.append` (on already-normalised children) -/

theorem TagList_init_kidsC11 (h : TagList_init_available = true) (ht : tagchilds_to_tagnodes_available = true)
    (hf' : util_flatten_available = true) (hr' : util_flatten_recurse_available = true) (hn : is_tag_node_available = true)
    (G : Globals) (fuel : Nat) (xs : List PVal) (hp : ∀ x ∈ xs, (kidItemsC11 x).isSome = true) :
    TagList_init G (fuel + 5) (.obj "TagList" []) (.tuple xs) = .ok (tagListOf (xs.flatMap kidFlatC11)) := by
  first
  | exact absurd h (by decide)
  | rw [TagList_init]
    simp only [pure_eq_ok, tagchilds_kidsC11 ht hf' hr' hn G fuel (.tuple xs) xs rfl (by simp [isInstance, builtinClasses]) hp,
      ok_bind, userListInit_new, tagListOf]

/-- `HTMLDocument(*args, **kwargs)` = `docInit`: `_content` is the TagList of the arguments, `_html_attr_args` the keyword dict.
    `_partial`: for arguments that are already normalised children (see `src_Tag_insertC11_partial`). -/
theorem src_HTMLDocument_initC11_partial (h : HTMLDocument_initC11_available = true) (hti : TagList_init_available = true)
    (hc : CalleesC11) (G : Globals) (fuel : Nat) (args : List PVal) (kw : PVal)
    (hp : ∀ x ∈ args, (kidItemsC11 x).isSome = true) :
    HTMLDocument_initC11 G (fuel + 6) (.obj "HTMLDocument" []) (.tuple args) kw
      = .ok (docObjC11 (args.flatMap kidFlatC11) kw) := by
  first
  | exact absurd h (by decide)
  | rw [HTMLDocument_initC11]
    simp only [pure_eq_ok, pyIter_tuple, ok_bind,
      TagList_init_kidsC11 hti hc.tagchilds hc.flatten hc.recurse hc.isnode G fuel args hp]
    simp [pySetAttr, fieldSet, docObjC11]

/-- `doc.append(*args)` = `docAppend` (`self._content.append(*args)`; no argument at all is a TypeError).  `_partial`: as above. -/
theorem src_HTMLDocument_appendC11_partial (h : HTMLDocument_appendC11_available = true) (hc : CalleesC11) (G : Globals)
    (fuel : Nat) (content : List PVal) (kw : PVal) (args : List PVal) (hp : ∀ x ∈ args, (kidItemsC11 x).isSome = true) :
    HTMLDocument_appendC11 G (fuel + 7) (docObjC11 content kw) (.tuple args)
      = if args.isEmpty then .error .typeError else .ok (docObjC11 (content ++ args.flatMap kidFlatC11) kw) := by
  first
  | exact absurd h (by decide)
  | rw [HTMLDocument_appendC11]
    have hg : pyGetAttr (docObjC11 content kw) "_content" = .ok (tagListOf content) := by
      simp [docObjC11, pyGetAttr, fieldGet?]
    cases args with
    | nil => simp [hg, recv_taglistC11, pyStarSplit1C11]
    | cons x rest =>
      have hsp : pyStarSplit1C11 (.tuple (x :: rest)) = .ok (x, .tuple rest) := rfl
      simp only [pure_eq_ok, ok_bind, hg, recv_taglistC11, hsp,
        TagList_append_kidsC11 hc.append hc.extend hc.tagchilds hc.flatten hc.recurse hc.isnode G fuel content x rest hp,
        List.isEmpty_cons, Bool.false_eq_true, if_false]
      simp [pySetAttr, fieldSet, docObjC11]

theorem hoist_isTagC11 (cfg : Cfg) (x : Node) (lp : Option Str) (iv : Bool) (t : Node)
    (h : Doc.hoist cfg x lp iv = .ok t) : t.isTag = true := by
  cases x with
  | tag n w a kids =>
    simp only [Doc.hoist] at h
    split at h
    · simp at h
    · split at h
      · simp at h
      · simp at h; rw [← h]; rfl
  | _ => simp [Doc.hoist] at h

theorem genHtmlTagTree_isTagC11 (cfg : Cfg) (content : Nodes) (kw : List (Str × AttrArg)) (lp : Option Str) (iv : Bool)
    (t : Node) (after : Nodes) (h : Doc.genHtmlTagTree cfg content kw lp iv = .ok (t, after)) : t.isTag = true := by
  unfold Doc.genHtmlTagTree at h
  cases hg : Doc.genTree cfg content kw with
  | error e => rw [hg] at h; simp at h
  | ok p =>
    obtain ⟨x, c⟩ := p
    rw [hg] at h
    simp only at h
    cases hh : Doc.hoist cfg x lp iv with
    | error e => rw [hh] at h; simp at h
    | ok t' =>
      rw [hh] at h
      simp at h
      rw [← h.1]
      exact hoist_isTagC11 cfg x lp iv t' hh

/-- `HTMLDocument.render` with every hypothesis discharged from the ties of the functions it reaches: for every stored content,
    keyword arguments that do not collide with parameter names, `lib_prefix` None or a string, any sufficient fuel, the answers
    `af` of the untranslated `as_html_tags` agreeing with the model's `depTags` on the resolved dependencies of the tree. -/
theorem src_HTMLDocument_render_fullC11 (h : HTMLDocument_renderC11_available = true) (htr : Tag_renderC11_available = true)
    (hg : HTMLDocument_gen_html_tag_treeC11_available = true) (hh : HTMLDocument_hoist_head_contentC11_available = true)
    (hins : Tag_insertC11_available = true) (hext : Tag_extendC11_available = true) (happ : Tag_appendC11_available = true)
    (hi : TagAttrDict_initC11_available = true) (hc : CalleesC11)
    (ht1 : Tag_tagify_available = true) (ht2 : TagList_tagify_available = true)
    (hd1 : Tag_get_dependencies_available = true) (hd2 : TagList_get_dependencies_available = true)
    (hr : resolve_dependencies_available = true)
    (hu : TagAttrDict_update_available = true) (hu1 : normalize_attr_value_available = true)
    (hu2 : normalize_attr_name_available = true) (hu3 : html_escape_available = true)
    (hu4 : HTML_add_available = true) (hu5 : HTML_radd_available = true) (hu6 : HTML_as_string_available = true)
    (hs1 : Tag_get_html_string_available = true) (hs2 : TagList_get_html_string_available = true)
    (hnt : normalize_text_available = true)
    (cfg : Cfg) (hsp : escText cfg [' '] = [' ']) (hkt : keysPlain cfg.textTbl = true) (hka : keysPlain cfg.attrTbl = true)
    (af : PVal → PVal → PVal → PyM PVal) (tv : Node → PVal) (htv : TvOk tv)
    (content : Nodes) (kw : List (Str × AttrArg)) (hkw : kwAvoidsC11 reservedKw kw = true) (lp : Option Str) (iv : Bool)
    (fuel : Nat) (hf : 2 * kidsDepth content + 4 ≤ fuel)
    (hfx : ∀ x after, Doc.genTree cfg content kw = .ok (x, after) → 2 * nodeDepth x + 9 ≤ fuel)
    (hfr : ∀ t after, Doc.genHtmlTagTree cfg content kw lp iv = .ok (t, after) →
      2 * nodeDepth t + 1 ≤ fuel ∧ 2 * nodeDepth (tagifyTag t) + 1 ≤ fuel)
    (hA : ∀ x after, Doc.genTree cfg content kw = .ok (x, after) → ∀ d ∈ x.getDeps true,
      af (embT tv d) (embLpC11 lp) (.bool iv) = embRes (fun ns => tagListOf (embTs tv ns)) (Doc.depTags cfg lp iv d)) :
    HTMLDocument_renderC11 (globalsC11 cfg af) (fuel + 1) (docObjC11 (embTs tv content) (embArgDict kw)) (embLpC11 lp) (.bool iv)
      = match Doc.docRender cfg content kw lp iv with
        | .error e => .error (embErr e)
        | .ok r => .ok (renderedObjC11 (r.deps.map (embT tv)) r.html) := by
  have hU := updateTie_ofC11 hu hu1 hu2 hu3 hu4 hu5 hu6 cfg hsp hkt hka af
  have hG := src_gen_html_tag_tree_fullC11 hg hh hins hext happ hi hc ht1 ht2 hd1 hd2 hr (globalsC11 cfg af) cfg hU tv htv
    content kw hkw lp iv fuel hf hfx hA
  refine src_HTMLDocument_renderC11 h (globalsC11 cfg af) cfg tv fuel _ _ _ content kw lp iv hG ?_
  intro t after hgt
  have htag := genHtmlTagTree_isTagC11 cfg content kw lp iv t after hgt
  obtain ⟨hf1, hf2⟩ := hfr t after hgt
  obtain ⟨f, rfl⟩ : ∃ f, fuel = f + 1 := ⟨fuel - 1, by omega⟩
  have htag' : (tagifyTag t).isTag = true := by cases t <;> simp [Node.isTag] at htag; rfl
  refine ⟨htag, src_Tag_renderC11 htr (globalsC11 cfg af) cfg tv f t htag
    (src_tagify_tag ht1 ht2 _ tv htv t htag f (by omega))
    (src_get_dependencies_tag hd1 hd2 hr _ tv (tagifyTag t) htag' f (by omega) true) ?_⟩
  have hren := src_render_tagC11 hs1 hs2 hnt hu3 hu6 cfg af tv hkt hka (tagifyTag t) htag' f (by omega) 0 ['\n']
  rw [show ((0 : Nat) : Int) = 0 from rfl] at hren
  rw [hren]
  unfold renderTagChecked
  cases (tagifyTag t).hasTobj <;> rfl
/-- the same for the tables as they are in the source right now, `tagify()` of foreign objects answering what the model says -/
theorem src_HTMLDocument_render_nowC11 (h : HTMLDocument_renderC11_available = true) (htr : Tag_renderC11_available = true)
    (hg : HTMLDocument_gen_html_tag_treeC11_available = true) (hh : HTMLDocument_hoist_head_contentC11_available = true)
    (hins : Tag_insertC11_available = true) (hext : Tag_extendC11_available = true) (happ : Tag_appendC11_available = true)
    (hi : TagAttrDict_initC11_available = true) (hc : CalleesC11)
    (ht1 : Tag_tagify_available = true) (ht2 : TagList_tagify_available = true)
    (hd1 : Tag_get_dependencies_available = true) (hd2 : TagList_get_dependencies_available = true)
    (hr : resolve_dependencies_available = true)
    (hu : TagAttrDict_update_available = true) (hu1 : normalize_attr_value_available = true)
    (hu2 : normalize_attr_name_available = true) (hu3 : html_escape_available = true)
    (hu4 : HTML_add_available = true) (hu5 : HTML_radd_available = true) (hu6 : HTML_as_string_available = true)
    (hs1 : Tag_get_html_string_available = true) (hs2 : TagList_get_html_string_available = true)
    (hnt : normalize_text_available = true)
    (af : PVal → PVal → PVal → PyM PVal)
    (content : Nodes) (kw : List (Str × AttrArg)) (hkw : kwAvoidsC11 reservedKw kw = true) (lp : Option Str) (iv : Bool)
    (fuel : Nat) (hf : 2 * kidsDepth content + 4 ≤ fuel)
    (hfx : ∀ x after, Doc.genTree cfgNow content kw = .ok (x, after) → 2 * nodeDepth x + 9 ≤ fuel)
    (hfr : ∀ t after, Doc.genHtmlTagTree cfgNow content kw lp iv = .ok (t, after) →
      2 * nodeDepth t + 1 ≤ fuel ∧ 2 * nodeDepth (tagifyTag t) + 1 ≤ fuel)
    (hA : ∀ x after, Doc.genTree cfgNow content kw = .ok (x, after) → ∀ d ∈ x.getDeps true,
      af (embT tvSpec d) (embLpC11 lp) (.bool iv)
        = embRes (fun ns => tagListOf (embTs tvSpec ns)) (Doc.depTags cfgNow lp iv d)) :
    HTMLDocument_renderC11 (globalsC11 cfgNow af) (fuel + 1) (docObjC11 (embTs tvSpec content) (embArgDict kw))
        (embLpC11 lp) (.bool iv)
      = match Doc.docRender cfgNow content kw lp iv with
        | .error e => .error (embErr e)
        | .ok r => .ok (renderedObjC11 (r.deps.map (embT tvSpec)) r.html) :=
  src_HTMLDocument_render_fullC11 h htr hg hh hins hext happ hi hc ht1 ht2 hd1 hd2 hr hu hu1 hu2 hu3 hu4 hu5 hu6 hs1 hs2 hnt
    cfgNow src_tables_ok.2.2 src_tables_ok.1 src_tables_ok.2.1 af tvSpec tvSpec_ok content kw hkw lp iv fuel hf hfx hfr hA

/-- the guard on the keyword arguments is satisfiable by a non-trivial instance, and excludes the parameter names -/
example : kwAvoidsC11 reservedKw [("lang".toList, .str "en".toList), ("class_".toList, .html "a".toList)] = true := by decide
example : kwAvoidsC11 reservedKw [("_add_ws".toList, .boolF)] = false := by decide

end HtmlVerif.SrcTie
