/-
Executable statement of C05, evaluated by the driver on the *implementation's* output.
-/
import HtmlVerif.Spec.Flat
import HtmlVerif.Spec.WsSites

namespace HtmlVerif.Holds
open HtmlVerif

mutual
  /-- every visible descendant of a tag, with the escaping flag of its own parent -/
  def descs (cfg : Cfg) : Node → List (Node × Bool)
    | .tag name _ _ kids => descsKids cfg kids (!cfg.noesc.contains name)
    | _ => []
  def descsKids (cfg : Cfg) : Nodes → Bool → List (Node × Bool)
    | .nil, _ => []
    | .cons h t, esc =>
      (if h.isMeta then [] else (h, esc) :: descs cfg h) ++ descsKids cfg t esc
end

mutual
  /-- every pair of adjacent visible siblings at every level, with their parent's escaping flag -/
  def adjPairs (cfg : Cfg) : Node → List (Node × Node × Bool)
    | .tag name _ _ kids =>
      let esc := !cfg.noesc.contains name
      (let v := kids.visible; (v.zip v.tail).map fun (a, b) => (a, b, esc)) ++ adjPairsKids cfg kids
    | _ => []
  def adjPairsKids (cfg : Cfg) : Nodes → List (Node × Node × Bool)
    | .nil => []
    | .cons h t => adjPairs cfg h ++ adjPairsKids cfg t
end

/-! ### clause 4 on the real output

The real output is read as the model's non-whitespace pieces (opening tags, closing tags, content), in order,
separated by gaps made only of `eol` and two-space indentation units; the gaps become the whitespace pieces and
`wsSitesOk` is evaluated on the result.  If the output cannot be read that way, or a content piece could be
confused with a gap (it starts with a space or with eol's first character), the answer is `none` (not decided here;
the exact-string correspondence still applies). -/

def stripGap (eol r : Str) : Nat → Str → Str → Option (Str × Str)
  | 0, _, _ => none
  | fuel + 1, gap, rest =>
    if r.isPrefixOf rest then some (gap, rest)
    else if !eol.isEmpty && eol.isPrefixOf rest then stripGap eol r fuel (gap ++ eol) (rest.drop eol.length)
    else if [' ', ' '].isPrefixOf rest then stripGap eol r fuel (gap ++ [' ', ' ']) (rest.drop 2)
    else none

def contentConfusable (eol : Str) (r : Str) : Bool :=
  match r with
  | [] => false
  | c :: _ => c == ' ' || eol.head? == some c

def alignPieces (cfg : Cfg) (eol : Str) : List Piece → Str → List Piece → Option (List Piece)
  | [], rest, acc => if rest.isEmpty then some acc.reverse else none
  | p :: ps, rest, acc =>
    if p.isWs then alignPieces cfg eol ps rest acc
    else if (p.realize cfg).isEmpty then alignPieces cfg eol ps rest acc   -- empty content occupies no position
    else
      let r := p.realize cfg
      let confus := match p with
        | .txt _ => contentConfusable eol r
        | .raw _ => contentConfusable eol r
        | _ => false
      if confus then none
      else match stripGap eol r (rest.length + 2) [] rest with
        | none => none
        | some (gap, rest') =>
          alignPieces cfg eol ps (rest'.drop r.length) (p :: (if gap.isEmpty then acc else .ws gap :: acc))

/-- `some true/false`: clause 4 decided on the real output; `none`: not decidable here -/
def wsSitesOnOutput (cfg : Cfg) (ps : List Piece) (eol out : Str) : Option Bool :=
  -- the caller's own leading indentation is exempt: start scanning in the justified state
  (alignPieces cfg eol ps out []).map (wsSitesOk true)

def holdsC05Tag (cfg : Cfg) (t : Node) (i : Nat) (e : Str) (out : Str) : Bool :=
  (if t.noWs then out == indentStr i ++ t.flat cfg else true)
  && (wsSitesOnOutput cfg (t.pieces cfg i e) e out).getD true
  && (descs cfg t).all (fun (d, esc) => !d.noWs || isInfix (d.flatIn cfg esc) out)
  && (adjPairs cfg t).all (fun (a, b, esc) =>
        !(a.noWs && b.noWs) || isInfix (a.flatIn cfg esc ++ b.flatIn cfg esc) out)

def holdsC05List (cfg : Cfg) (ks : Nodes) (aw esc : Bool) (out : Str) : Bool :=
  (if ks.noWsKids && !aw then out == ks.flatKids cfg esc else true)
  && (descsKids cfg ks esc).all (fun (d, e) => !d.noWs || isInfix (d.flatIn cfg e) out)
  && ((let v := ks.visible; (v.zip v.tail)).all fun (a, b) =>
        !(a.noWs && b.noWs) || isInfix (a.flatIn cfg esc ++ b.flatIn cfg esc) out)
  && (adjPairsKids cfg ks).all (fun (a, b, e) =>
        !(a.noWs && b.noWs) || isInfix (a.flatIn cfg e ++ b.flatIn cfg e) out)

end HtmlVerif.Holds
