#!/usr/bin/env python3
"""Change-directed search (DESIGN §5.3 item 4, §14.4): string literals that the hand-written source of /repo contains
now and did not contain when the model was aligned.  A change that singles out a particular name, token or value
("special-cases an input") almost always spells it; feeding such literals to every generator turns an input no random
search would reach into one that is tried first.  On the unchanged tree the set is empty and nothing changes.

    literals.py --write     record the baseline (harness/source_literals.json) from the tree as it is"""
from __future__ import annotations

import ast
import json
import os
import re
import sys

HERE = os.path.dirname(os.path.abspath(__file__))
BASE = os.path.join(HERE, "source_literals.json")
FILES = ["htmltools/_core.py", "htmltools/_util.py", "htmltools/_jsx.py", "htmltools/__init__.py", "htmltools/_versions.py",
         "htmltools/tags.py", "htmltools/svg.py"]
BASE_INTS = os.path.join(HERE, "source_ints.json")
BASE_RX = os.path.join(HERE, "source_regexes.json")


def harvest(repo: str) -> list[str]:
    out: set[str] = set()
    for rel in FILES:
        p = os.path.join(repo, rel)
        try:
            with open(p, encoding="utf-8") as f:
                tree = ast.parse(f.read())
        except (OSError, SyntaxError):
            continue
        docs = set()
        for n in ast.walk(tree):
            if isinstance(n, (ast.FunctionDef, ast.ClassDef, ast.Module, ast.AsyncFunctionDef)):
                b = n.body
                if b and isinstance(b[0], ast.Expr) and isinstance(b[0].value, ast.Constant) and isinstance(b[0].value.value, str):
                    docs.add(id(b[0].value))
        for n in ast.walk(tree):
            if isinstance(n, ast.Constant) and isinstance(n.value, str) and id(n) not in docs and len(n.value) <= 48:
                out.add(n.value)
                # a regular expression or a character class spells its members too
                for w in re.findall(r"[A-Za-z][A-Za-z0-9_:.-]{1,30}", n.value):
                    out.add(w)
    return sorted(out)


RE_FUNCS = {"compile", "search", "match", "fullmatch", "sub", "subn", "findall", "finditer", "split"}


def harvest_regexes(repo: str) -> list[str]:
    """string literals passed as the pattern of a call `re.<f>(pattern, …)`"""
    out: set[str] = set()
    for rel in FILES:
        try:
            with open(os.path.join(repo, rel), encoding="utf-8") as f:
                tree = ast.parse(f.read())
        except (OSError, SyntaxError):
            continue
        for n in ast.walk(tree):
            if (isinstance(n, ast.Call) and isinstance(n.func, ast.Attribute) and n.func.attr in RE_FUNCS
                    and isinstance(n.func.value, ast.Name) and n.func.value.id == "re" and n.args
                    and isinstance(n.args[0], ast.Constant) and isinstance(n.args[0].value, str) and len(n.args[0].value) <= 300):
                out.add(n.args[0].value)
    return sorted(out)


def sample_regex(pattern: str, rng, n: int = 6) -> list[str]:
    """strings matched by `pattern` (checked with re.search), by walking the parsed pattern; best effort, never raises"""
    try:
        import re._parser as sp      # Python >= 3.11
    except ImportError:              # pragma: no cover
        import sre_parse as sp
    try:
        tree = sp.parse(pattern)
        rx = re.compile(pattern)
    except Exception:  # noqa: BLE001
        return []
    CAT = {"CATEGORY_DIGIT": "0123456789", "CATEGORY_WORD": "abzAZ09_", "CATEGORY_SPACE": " \t\n",
           "CATEGORY_NOT_DIGIT": "ax-", "CATEGORY_NOT_WORD": "-+ .", "CATEGORY_NOT_SPACE": "ab1-"}

    def in_set(items):
        neg = False
        pool = []
        for op, av in items:
            nm = str(op)
            if nm == "NEGATE":
                neg = True
            elif nm == "LITERAL":
                pool.append(chr(av))
            elif nm == "RANGE":
                lo, hi = av
                pool += [chr(lo), chr(hi), chr((lo + hi) // 2)]
            elif nm == "CATEGORY":
                pool += list(CAT.get(str(av), "a"))
        if neg:
            cand = [c for c in "aZ0-_<&\"' x" if c not in pool]
            return cand or ["~"]
        return pool or ["a"]

    def gen(t):
        out = []
        for op, av in t:
            nm = str(op)
            if nm == "LITERAL":
                out.append(chr(av))
            elif nm == "NOT_LITERAL":
                out.append("a" if chr(av) != "a" else "b")
            elif nm == "ANY":
                out.append(rng.choice("a<&\"x"))
            elif nm == "IN":
                out.append(rng.choice(in_set(av)))
            elif nm in ("MAX_REPEAT", "MIN_REPEAT", "POSSESSIVE_REPEAT"):
                lo, hi, sub = av
                k = rng.choice([lo, lo, min(lo + 1, hi), min(lo + 2, hi)]) if hi >= lo else lo
                k = min(k, lo + 3)
                for _ in range(k):
                    out.append(gen(sub))
            elif nm == "SUBPATTERN":
                out.append(gen(av[3]))
            elif nm == "ATOMIC_GROUP":
                out.append(gen(av))
            elif nm == "BRANCH":
                out.append(gen(rng.choice(av[1])))
            elif nm == "CATEGORY":
                out.append(rng.choice(CAT.get(str(av), "a")))
            # AT, ASSERT, ASSERT_NOT, GROUPREF: nothing emitted; the match is checked below
        return "".join(out)

    res = []
    for _ in range(n * 4):
        try:
            w = gen(tree)
        except Exception:  # noqa: BLE001
            break
        if w and rx.search(w) and w not in res:
            res.append(w)
        if len(res) >= n:
            break
    return res


def new_regex_samples(repo: str | None = None, seed: int = 0) -> list[str]:
    """sample matches of every regular expression the source has gained"""
    import random
    repo = repo or os.environ.get("VERIF_REPO", "/repo")
    try:
        with open(BASE_RX) as f:
            base = set(json.load(f))
    except OSError:
        return []
    rng = random.Random(seed)
    out = []
    for p in harvest_regexes(repo):
        if p not in base:
            out += sample_regex(p, rng)
    return out


def harvest_ints(repo: str) -> list[int]:
    """integer literals between 8 and 4096 (sizes, lengths, depths, counts a change may compare against)"""
    out: set[int] = set()
    for rel in FILES:
        try:
            with open(os.path.join(repo, rel), encoding="utf-8") as f:
                tree = ast.parse(f.read())
        except (OSError, SyntaxError):
            continue
        for n in ast.walk(tree):
            if isinstance(n, ast.Constant) and type(n.value) is int and 8 <= n.value <= 4096:
                out.add(n.value)
            if isinstance(n, ast.Constant) and isinstance(n.value, str) and len(n.value) <= 48:
                for m in re.findall(r"\{(\d+),?(\d*)\}", n.value):       # regex quantifiers {200,} {8,64}
                    for d in m:
                        if d and 8 <= int(d) <= 4096:
                            out.add(int(d))
    return sorted(out)


def new_ints(repo: str | None = None) -> list[int]:
    repo = repo or os.environ.get("VERIF_REPO", "/repo")
    try:
        with open(BASE_INTS) as f:
            base = set(json.load(f))
    except OSError:
        return []
    return [w for w in harvest_ints(repo) if w not in base]


def new(repo: str | None = None) -> list[str]:
    repo = repo or os.environ.get("VERIF_REPO", "/repo")
    try:
        with open(BASE) as f:
            base = set(json.load(f))
    except OSError:
        return []
    return [w for w in harvest(repo) if w not in base]


if __name__ == "__main__":
    if "--write" in sys.argv:
        with open(BASE, "w") as f:
            json.dump(harvest(os.environ.get("VERIF_REPO", "/repo")), f, indent=0, ensure_ascii=False)
        with open(BASE_RX, "w") as f:
            json.dump(harvest_regexes(os.environ.get("VERIF_REPO", "/repo")), f, indent=0)
        with open(BASE_INTS, "w") as f:
            json.dump(harvest_ints(os.environ.get("VERIF_REPO", "/repo")), f)
    print(new(), new_ints(), new_regex_samples())
