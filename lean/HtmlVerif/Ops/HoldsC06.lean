/-
Executable statement of C06: the real output of a validly nested tree equals its declarative line layout.
-/
import HtmlVerif.Ops.Base
import HtmlVerif.Spec.Layout

namespace HtmlVerif.Ops
open HtmlVerif HtmlVerif.Wire

def holdsC06 : OpTable
  | "render_tag" => some do
    let n ← node; let i ← nat; let e ← str
    match (← implStr) with
    | some out => pure (encBool (!(n.isTag && n.valid) || out == joinLines e (n.layout cfg i)))
    | none => pure (encBool n.hasTobj)
  | "render_list" => some do
    let ks ← nodes; let i ← nat; let e ← str; let aw ← bool; let esc ← bool
    match (← implStr) with
    | some out => pure (encBool (!(ks.validKids && aw) || out == joinLines e (ks.groupLines cfg i esc none)))
    | none => pure (encBool ks.hasTobjKids)
  | "layout" => some do
    let n ← node; let i ← nat
    pure (encList ((n.layout cfg i).map fun l => toString l.1 ++ " " ++ encStr l.2))
  | _ => none

end HtmlVerif.Ops
