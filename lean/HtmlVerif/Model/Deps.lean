/-
Dependencies: collection, resolution, constructor validation, release-segment order.

  TagList.get_dependencies      htmltools/_core.py:463-485   (`Nodes.collect`, `Nodes.getDeps`)
  Tag.get_dependencies          htmltools/_core.py:942-946   (`Node.collect`, `Node.getDeps`)
  _resolve_dependencies         htmltools/_core.py:1813-1822 (`amapGet?`, `amapSet`, `resolveStep`, `resolveBy`, `resolve`)
  HTMLDependency.__init__       htmltools/_core.py:1573-1623 (`depInit`)
  _validate_dicts/_validate_dict htmltools/_core.py:1786-1801 (`validateDicts`, `validateDict`)
  packaging `_cmpkey` (release part): trailing zeros stripped, then tuple comparison (`cmpkeyLe`)

What `packaging.version.Version` contributes to resolution is a parameter: `resolveBy gt` takes the
"strictly greater" test; the instance used for trees reads it off `DepInfo.vrank`, which the harness
computes with the real `Version` objects.
-/
import HtmlVerif.Model.Tree
import HtmlVerif.Model.Render

namespace HtmlVerif

/-! ### collection (pre-order, through tags only) -/

def Node.isDep : Node → Bool
  | .dep .. => true
  | _ => false

def Node.depName : Node → Str
  | .dep d _ _ => d.name
  | _ => []

def Node.vrank : Node → Nat
  | .dep d _ _ => d.vrank
  | _ => 0

mutual
  /-- `Tag.get_dependencies(dedup=False)`: `self.children.get_dependencies(dedup=False)`.
      Only a `Tag` has the method; other nodes contribute nothing through this path. -/
  def Node.collect : Node → List Node
    | .tag _ _ _ kids => kids.collect
    | _ => []
  /-- the loop of `TagList.get_dependencies`:
      `for x in self: if isinstance(x, HTMLDependency): deps.append(x) elif isinstance(x, Tag): deps.extend(x.get_dependencies(dedup=False))`.
      Dependency heads and un-expanded tagifiable objects are not entered. -/
  def Nodes.collect : Nodes → List Node
    | .nil => []
    | .cons h t =>
      match h with
      | .dep .. => h :: t.collect
      | .tag .. => h.collect ++ t.collect
      | _ => t.collect
end

/-! ### resolution: insertion-ordered dict `name ↦ dependency` -/

section resolve
variable {κ α : Type} [DecidableEq κ]

/-- `map[k]` / `k in map` on an insertion-ordered dict kept as an association list -/
def amapGet? (k : κ) : List (κ × α) → Option α
  | [] => none
  | (k', v) :: r => if k' = k then some v else amapGet? k r

/-- `map[k] = v`: an existing key keeps its position, a new key goes to the end -/
def amapSet (k : κ) (v : α) : List (κ × α) → List (κ × α)
  | [] => [(k, v)]
  | (k', v') :: r => if k' = k then (k', v) :: r else (k', v') :: amapSet k v r

/-- one iteration of the loop in `_resolve_dependencies` -/
def resolveStep (gt : α → α → Bool) (name : α → κ) (m : List (κ × α)) (d : α) : List (κ × α) :=
  match amapGet? (name d) m with
  | none => amapSet (name d) d m                            -- `if dep.name not in map: map[dep.name] = dep`
  | some cur => if gt d cur then amapSet (name d) d m else m  -- `if dep.version > map[dep.name].version: …`

/-- the dict after the loop -/
def resolveMap (gt : α → α → Bool) (name : α → κ) (ds : List α) : List (κ × α) :=
  ds.foldl (resolveStep gt name) []

/-- `_resolve_dependencies`: `list(map.values())` -/
def resolveBy (gt : α → α → Bool) (name : α → κ) (ds : List α) : List α :=
  (resolveMap gt name ds).map Prod.snd

end resolve

/-- `dep.version > map[dep.name].version`, as reported by `packaging` through the ranks -/
def depGt (a b : Node) : Bool := decide (a.vrank > b.vrank)

/-- `_resolve_dependencies` on dependency nodes -/
def resolve (ds : List Node) : List Node := resolveBy depGt Node.depName ds

/-- `TagList.get_dependencies(dedup=…)` -/
def Nodes.getDeps (ks : Nodes) (dedup : Bool) : List Node :=
  if dedup then resolve ks.collect else ks.collect

/-- `Tag.get_dependencies(dedup=…)` -/
def Node.getDeps (n : Node) (dedup : Bool) : List Node :=
  match n with
  | .tag _ _ _ kids => kids.getDeps dedup
  | _ => []

/-! ### constructor validation -/

/-- an element of the list given for `script=` / `stylesheet=` / `meta=` -/
inductive PyItem
  | dict (kvs : List (Str × Str))
  | other                              -- anything that is not a dict
  deriving DecidableEq, Repr, Inhabited

/-- what is given for `script=` / `stylesheet=` / `meta=` -/
inductive ItemsArg
  | none                               -- None
  | one (kvs : List (Str × Str))       -- a single dict
  | many (items : List PyItem)         -- a list
  | scalar                             -- a non-dict that cannot be iterated (e.g. a number)
  deriving DecidableEq, Repr, Inhabited

/-- what is given for `source=` -/
inductive SourceArg
  | none
  | dict (kvs : List (Str × Str))
  | other                              -- not a dict, not None
  deriving DecidableEq, Repr, Inhabited

/-- keyword arguments of `HTMLDependency(name, version, …)`; `verOk` is `packaging`'s verdict on the
    version string (a parameter), `vrank` its rank -/
structure DepArg where
  name       : Str
  version    : Str
  verOk      : Bool
  vrank      : Nat
  source     : SourceArg
  script     : ItemsArg
  stylesheet : ItemsArg
  metas      : ItemsArg
  allFiles   : Bool
  deriving DecidableEq, Repr, Inhabited

def hasKey (k : Str) (d : List (Str × Str)) : Bool := d.any (fun p => p.1 == k)

/-- `_validate_dict`'s inner loop: `for a in req_attr: if a not in d: raise KeyError` -/
def checkKeys (d : List (Str × Str)) : List Str → Except Err Unit
  | [] => .ok ()
  | a :: r => if hasKey a d then checkKeys d r else .error .keyError

/-- `_validate_dict`: returns the dict when it passes -/
def validateDict (req : List Str) : PyItem → Except Err (List (Str × Str))
  | .other => .error .typeError
  | .dict d => match checkKeys d req with
    | .ok () => .ok d
    | .error e => .error e

/-- `_validate_dicts`: in order, the first failing item decides -/
def validateDicts (req : List Str) : List PyItem → Except Err (List (List (Str × Str)))
  | [] => .ok []
  | x :: r =>
    match validateDict req x with
    | .error e => .error e
    | .ok d => match validateDicts req r with
      | .error e => .error e
      | .ok ds => .ok (d :: ds)

/-- `if x is None: x = [] elif isinstance(x, dict): x = [x]`, then `_validate_dicts(x, req)`;
    iterating a number raises TypeError -/
def normItems (req : List Str) : ItemsArg → Except Err (List (List (Str × Str)))
  | .none => .ok []
  | .one d => validateDicts req [.dict d]
  | .many l => validateDicts req l
  | .scalar => .error .typeError

/-- the `source=` check (_core.py:1588-1597) -/
def checkSource : SourceArg → Except Err DepSource
  | .none => .ok .none
  | .other => .error .typeError
  | .dict d =>
    if hasKey ['h','r','e','f'] d then .ok (.href ((alookup ['h','r','e','f'] d).getD []))
    else if hasKey ['s','u','b','d','i','r'] d then
      .ok (.subdir (alookup ['p','a','c','k','a','g','e'] d) ((alookup ['s','u','b','d','i','r'] d).getD []) [])
    else .error .typeError

/-- `for s in self.stylesheet: if "rel" not in s: s["rel"] = "stylesheet"` -/
def addRel (d : List (Str × Str)) : List (Str × Str) :=
  if hasKey ['r','e','l'] d then d else d ++ [(['r','e','l'], ['s','t','y','l','e','s','h','e','e','t'])]

def reqScript : List Str := [['s','r','c']]
def reqStylesheet : List Str := [['h','r','e','f']]
def reqMeta : List Str := [['n','a','m','e'], ['c','o','n','t','e','n','t']]

/-- `HTMLDependency.__init__` up to the fields the property talks about, checks in source order:
    version, source, script, stylesheet, meta -/
def depInit (a : DepArg) : Except Err DepInfo :=
  if !a.verOk then .error .valueError else
  match checkSource a.source with
  | .error e => .error e
  | .ok src =>
    match normItems reqScript a.script with
    | .error e => .error e
    | .ok sc =>
      match normItems reqStylesheet a.stylesheet with
      | .error e => .error e
      | .ok st =>
        match normItems reqMeta a.metas with
        | .error e => .error e
        | .ok me =>
          .ok { name := a.name, version := a.version, vrank := a.vrank, source := src, script := sc,
                stylesheet := st.map addRel, metas := me, allFiles := a.allFiles }

/-! ### release-segment order -/

/-- `reversed(list(dropwhile(lambda x: x == 0, reversed(release))))` in packaging's `_cmpkey` -/
def stripTrailingZeros (r : List Nat) : List Nat := (r.reverse.dropWhile (· == 0)).reverse

/-- tuple `<=` on release tuples -/
def lexLe : List Nat → List Nat → Bool
  | [], _ => true
  | _ :: _, [] => false
  | a :: as, b :: bs => a < b || (a == b && lexLe as bs)

/-- `Version(a) <= Version(b)` for plain dotted releases, the way packaging computes it -/
def cmpkeyLe (a b : List Nat) : Bool := lexLe (stripTrailingZeros a) (stripTrailingZeros b)

/-- `Version(a) > Version(b)` for plain dotted releases -/
def cmpkeyGt (a b : List Nat) : Bool := !cmpkeyLe a b

/-- the version-number order of PEP 440 on releases: components compared numerically left to
    right, the shorter release padded with zeros -/
def vle : List Nat → List Nat → Bool
  | [], _ => true
  | a :: as, [] => a == 0 && vle as []
  | a :: as, b :: bs => a < b || (a == b && vle as bs)

/-- digits of a decimal numeral -/
def parseNat? (s : Str) : Option Nat :=
  if s.isEmpty then none else
  s.foldl (fun acc c => acc.bind fun n => if c.isDigit then some (n * 10 + (c.toNat - '0'.toNat)) else none) (some 0)

/-- split at every '.' -/
def splitDots : Str → List Str
  | [] => [[]]
  | c :: r =>
    match splitDots r with
    | [] => [[c]]
    | w :: ws => if c = '.' then [] :: w :: ws else (c :: w) :: ws

/-- release tuple of a plain dotted numeric version string (`"1.10.0"` ↦ `[1, 10, 0]`) -/
def parseRelease (s : Str) : Option (List Nat) := (splitDots s).mapM parseNat?

end HtmlVerif
