/-
Source tie (DESIGN §14) for C17 — the Tag context manager and the display-hook wrapper.  The Lean functions regenerated from
the *text* of `wrap_displayhook_handler`, the function defined inside it, `Tag.append`, `Tag.__enter__` and `Tag.__exit__`
(htmltools/_core.py; harness/pytr_c17.py says how state, function values and bound methods are translated) compute what the
display-hook model (Model/Hook.lean) computes:

* `src_handler_wrapperC17` — the inner function, for **every** displayed value kind and **every** meaning of calling the
  handler (`call`): the handler is called with exactly the value the model's `wrapFilter` hands on, or not at all.
* `src_wrap_displayhook_handlerC17` — `wrap_displayhook_handler(h)` is the closure over `h`.
* `src_Tag_enterC17` — `__enter__` is the model's `enterTag` (RuntimeError and an untouched state on re-entering; otherwise
  `prev_displayhook` saved and the wrapper around this tag's `append` installed), on every state.
* `src_Tag_exitC17` — `__exit__` is the model's `exitTag` — the hook is restored *before* the tag is handed over, and it stays
  restored when the hand-over raises — for every application function that does what `callHook` does for a tag
  (`CallTieC17`); `src_Tag_exit_applyC17` discharges that for the generated `applyCallableC17`.
* `src_applyCallableC17` — applying what sits in `sys.displayhook` (the recorder, the wrapper of a tag, `None`) to a displayed
  value is the model's `callHook`, for every value, state and hook, any fuel above the value's nesting depth + 8: the wrapper
  runs the translated inner function, whose handler `tag.append` runs the translated `Tag.append` → `TagList.append` →
  `TagList.extend` → `_tagchilds_to_tagnodes` → `flatten` (the C14 translations) on the heap object of that tag.
  `src_display_stmtC17` is the same statement as the model's `display v`.
  The C14 functions are tied here to the display-hook model's `Val.flat` / `toNodes` directly (`src_flattenC17`,
  `src_tagchildsC17`, `src_TagList_extendC17`, `src_TagList_appendC17`, `src_Tag_appendC17`): the C14 theorems are about
  another value universe (tags by value).

States: `embStC17 m s` for every model state `s` and every choice `m` of the tag fields the model does not speak about.
The state after an exception is part of every statement about a state-passing function (`PySM`, Py/PrimC17.lean).

Every theorem takes `<fn>_available = true` for the function and for every translated function it calls; when a function has
left the translatable fragment the flag is `false` and the first alternative (`absurd`) proves the theorem vacuously.
No loop body is spelled out: the loops are taken from the regenerated definitions by unification (`flat_loop_kC17`,
`conv_loopC17`, Lemmas/SrcC17.lean).
-/
import HtmlVerif.Generated.Src
import HtmlVerif.Lemmas.SrcC17
import HtmlVerif.Lemmas.SrcC14

set_option linter.unusedSimpArgs false   -- the simp sets cover equivalent spellings of the source, not only the current one
set_option linter.unusedVariables false

namespace HtmlVerif.SrcTie
open HtmlVerif HtmlVerif.Py HtmlVerif.Hook HtmlVerif.Generated.Src

/-! ### the inner function of `wrap_displayhook_handler` -/

/-- what the wrapper does with the value the model's `wrapFilter` hands on: call the handler with it — once, with nothing
    else — or do nothing; `None` is returned -/
def handOnC17 (call : CallC17) (handler : PVal) : Option Val → PySM PVal
  | Option.none => pure .none
  | some v' => do let _ ← call handler [embValC17 v']; pure .none

/-- the function defined inside `wrap_displayhook_handler`, as the source has it, on every displayed value kind:
    a Tag / TagList / Tagifiable object (also one that has `_repr_html_` too) is handed on as it is, an object that only has
    `_repr_html_` as `HTML(value._repr_html_())`, `None` and `...` are dropped, anything else is handed on as it is -/
theorem src_handler_wrapperC17 (h : handler_wrapperC17_available = true) (G : Globals) (call : CallC17) (handler : PVal) (v : Val) :
    handler_wrapperC17 G call handler (embValC17 v) = handOnC17 call handler (wrapFilter v) := by
  first
  | exact absurd h (by decide)
  | unfold handler_wrapperC17
    cases v <;>
      simp [embValC17, embTagListC17, tagRefC17, mkRefC17, ellipsisC17, isInstance, builtinClasses, classBases, pyInConstsC17, singletonC17, isNone,
        wrapFilter, handOnC17, pyReprHtml, mkHTML, pyStr]

/-- `wrap_displayhook_handler(handler)` returns the closure of its inner function over `handler` -/
theorem src_wrap_displayhook_handlerC17 (h : wrap_displayhook_handlerC17_available = true) (G : Globals) (handler : PVal) :
    wrap_displayhook_handlerC17 G handler = .ok (wrapperC17 handler) := by
  first
  | exact absurd h (by decide)
  | unfold wrap_displayhook_handlerC17
    first | rfl | simp [wrapperC17]

/-! ### `Tag.__enter__` / `Tag.__exit__` -/

/-- `tag_t.__enter__()` as the source has it = the model's `enterTag`, on every state in which the tag's saved hook is not the
    `unset` marker (a state no program reaches: `unset` stands for a `None` that `__exit__` installed, and `None` saved as
    `prev_displayhook` is indistinguishable, for the code, from "not entered") -/
theorem src_Tag_enterC17 (h : Tag_enterC17_available = true) (hw : wrap_displayhook_handlerC17_available = true)
    (G : Globals) (call : CallC17) (m : TagId → TagMetaC17) (s : St) (t : TagId) (hp : (s.tags t).prev ≠ some .unset) :
    Tag_enterC17 G call (tagRefC17 t) (embStC17 m s)
      = match enterTag t s with
        | .ok s' => (.ok .none, embStC17 m s')
        | .error e => (.error (embErr e), embStC17 m s) := by
  first
  | exact absurd h (by decide)
  | unfold Tag_enterC17 enterTag
    cases hq : (s.tags t).prev with
    | some x =>
      have hx : x ≠ .unset := fun hx => hp (by rw [hq, hx])
      simp [PySM.run_bind, PySM.run_pure, PySM.run_throw, heapGet_prevC17, hq, embPrevC17, isNone_embHookC17 x hx, embErr]
    | none =>
      simp only [PySM.run_bind, PySM.run_pure, PySM.run_throw, heapGet_prevC17, hq, embPrevC17, isNone, truthy_bool,
        src_wrap_displayhook_handlerC17 hw, PySM.lift_ok, sysGet_hookC17, heapSet_prev_hookC17, sysSet_wrapC17,
        Bool.not_true, Bool.not_false, Bool.false_eq_true, if_true, if_false, ite_applyC17, pure_bind, bind_assoc]
      first | rfl | simp [setPrevC17, St.entered]

/-- the application function does, for the displayed value `v`, what the model's `callHook` does: on every state and for every
    hook, the new state — or the exception, with the state as it was -/
def CallTieC17 (m : TagId → TagMetaC17) (call : CallC17) (v : Val) : Prop :=
  ∀ (h : HookId) (s : St), call (embHookC17 h) [embValC17 v] (embStC17 m s)
    = match callHook h v s with
      | .ok s' => (.ok .none, embStC17 m s')
      | .error e => (.error (embErr e), embStC17 m s)

/-- `tag_t.__exit__(…)` as the source has it = the model's `exitTag`: outcome *and* state (the restored hook also when the
    previous hook raises), for every application function that is tied to `callHook` on the tag -/
theorem src_Tag_exitC17 (h : Tag_exitC17_available = true) (G : Globals) (call : CallC17) (m : TagId → TagMetaC17) (s : St)
    (t : TagId) (a b c : PVal) (hcall : CallTieC17 m call (.tagRef t)) :
    Tag_exitC17 G call (tagRefC17 t) a b c (embStC17 m s) = embOutC17 m (exitTag t s) := by
  first
  | exact absurd h (by decide)
  | unfold Tag_exitC17
    simp only [PySM.run_bind, PySM.run_pure, heapGet_prevC17, embPrev_eq_hookC17, sysSet_hookC17, sysGet_hookC17, pure_bind,
      bind_assoc]
    have hc := hcall (prevHookC17 (s.tags t).prev) { s with hook := prevHookC17 (s.tags t).prev }
    simp only [embValC17] at hc
    simp only [hc, exitTag, embOutC17]
    cases (s.tags t).prev <;> simp only [prevHookC17] <;> cases callHook _ (Val.tagRef t) _ <;> rfl

/-! ### `flatten` on displayed values -/

/-- one level of `_flatten_recurse`, given the tie for the nested lists / tuples / TagLists at this fuel -/
theorem flatten_recurse_stepC17 (h : util_flatten_recurse_available = true) (G : Globals) (fuel : Nat)
    (vs : Vals) (acc : List PVal) (X : PVal) (hX : pyIter X = .ok (embValsC17 vs))
    (HP : ∀ c ∈ vs.toList, ∀ (b : List PVal), valIsNestC17 c = true →
      util_flatten_recurse G fuel (embValC17 c) (.list b) = .ok (.list (b ++ c.flat.map embValC17))) :
    util_flatten_recurse G (fuel + 1) X (.list acc) = .ok (.list (acc ++ vs.flat.map embValC17)) := by
  first
  | exact absurd h (by decide)
  | rw [util_flatten_recurse]
    simp only [pure_eq_ok, truthy_bool, hX, ok_bind]
    refine flat_loop_kC17 vs acc _ (embValsC17_toList vs) _ _ ?step _ _ ?k
    case k => intro s hs; rw [hs]
    case step =>
      intro c hc s b hs
      obtain ⟨s1, s2⟩ := s
      simp only at hs; subst hs
      cases c with
      | list ys => 
        have := HP _ hc b rfl
        simp only [embValC17] at this
        simp [embValC17, isInstance, builtinClasses, classBases, isNone, this]
      | tuple ys => 
        have := HP _ hc b rfl
        simp only [embValC17] at this
        simp [embValC17, isInstance, builtinClasses, classBases, isNone, this]
      | tagList ys => 
        have := HP _ hc b rfl
        simp only [embValC17, embTagListC17] at this
        simp [embValC17, embTagListC17, isInstance, builtinClasses, classBases, isNone, this]
      | _ => simp [embValC17, tagRefC17, mkRefC17, ellipsisC17, isInstance, builtinClasses, classBases, isNone, Val.flat, pyListAppendA_listC17]

/-- `_flatten_recurse(x, result)`, for all items nested to depth ≤ n and any fuel above n: `result` followed by the model's
    flattening -/
theorem flatten_recurse_depthC17 (h : util_flatten_recurse_available = true) (G : Globals) (n : Nat) :
    ∀ (vs : Vals), valsDepthC17 vs ≤ n → ∀ fuel, n < fuel → ∀ (X : PVal) (acc : List PVal), pyIter X = .ok (embValsC17 vs) →
      util_flatten_recurse G fuel X (.list acc) = .ok (.list (acc ++ vs.flat.map embValC17)) := by
  induction n with
  | zero =>
    intro vs hd fuel hf X acc hX
    obtain ⟨f, rfl⟩ : ∃ f, fuel = f + 1 := ⟨fuel - 1, by omega⟩
    refine flatten_recurse_stepC17 h G f vs acc X hX ?_
    intro c hc b hn
    have := depth_memC17 vs c hc
    cases c <;> simp [valIsNestC17] at hn <;> simp [valDepthC17] at this <;> omega
  | succ n ih =>
    intro vs hd fuel hf X acc hX
    obtain ⟨f, rfl⟩ : ∃ f, fuel = f + 1 := ⟨fuel - 1, by omega⟩
    refine flatten_recurse_stepC17 h G f vs acc X hX ?_
    intro c hc b hn
    have hdc := depth_memC17 vs c hc
    cases c with
    | list ys => exact ih ys (by simp [valDepthC17] at hdc; omega) f (by omega) _ b rfl
    | tuple ys => exact ih ys (by simp [valDepthC17] at hdc; omega) f (by omega) _ b rfl
    | tagList its =>
      have := ih (Vals.ofList (its.map Item.toVal)) (by rw [depth_ofItemsC17]; omega) f (by omega) (embValC17 (.tagList its)) b
        (by simp [embValC17, embTagListC17, pyIter, embVals_ofItemsC17])
      rw [this, flat_ofItemsC17]
      rfl
    | _ => simp [valIsNestC17] at hn

/-- `flatten(x)` where iterating `x` yields the values `vs` -/
theorem src_flattenC17 (h : util_flatten_available = true) (hr : util_flatten_recurse_available = true) (G : Globals)
    (vs : Vals) (X : PVal) (hX : pyIter X = .ok (embValsC17 vs)) (fuel : Nat) (hf : valsDepthC17 vs + 1 < fuel) :
    util_flatten G fuel X = .ok (.list (vs.flat.map embValC17)) := by
  first
  | exact absurd h (by decide)
  | obtain ⟨f, rfl⟩ : ∃ f, fuel = f + 1 := ⟨fuel - 1, by omega⟩
    rw [util_flatten]
    simp only [pure_eq_ok]
    have := flatten_recurse_depthC17 hr G (valsDepthC17 vs) vs (Nat.le_refl _) f (by omega) X [] hX
    simp only [List.nil_append] at this
    rw [this]
    rfl

/-! ### `_tagchilds_to_tagnodes`: the loop over `enumerate(result)` -/

/-- `is_tag_node(x)` on what `flatten` can yield: exactly the values the model's `nodeOf` accepts -/
theorem is_tag_node_leafC17 (hn : is_tag_node_available = true) (G : Globals) (a : Val) (hl : valIsLeafC17 a = true)
    (hnn : ∀ t, a ≠ .num t) :
    is_tag_node G (embValC17 a) = .ok (.bool (match nodeOf a with | .ok _ => true | .error _ => false)) := by
  first
  | exact absurd hn (by decide)
  | unfold is_tag_node
    cases a <;> simp [valIsLeafC17] at hl <;> first
      | exact absurd rfl (hnn _)
      | simp [embValC17, tagRefC17, mkRefC17, ellipsisC17, isInstance, builtinClasses, classBases, nodeOf]

/-- `_tagchilds_to_tagnodes(x)` where `x` is not a `str` and iterating it yields the values `vs`: flatten, then the loop -/
theorem src_tagchildsC17 (h : tagchilds_to_tagnodes_available = true) (hf' : util_flatten_available = true)
    (hr' : util_flatten_recurse_available = true) (hn : is_tag_node_available = true) (G : Globals)
    (vs : Vals) (X : PVal) (hX : pyIter X = .ok (embValsC17 vs)) (hs : isInstance X ["str"] = false)
    (fuel : Nat) (hf : valsDepthC17 vs + 2 < fuel) :
    tagchilds_to_tagnodes G fuel X = embRes (fun r => .list (r.map embItemC17)) (toNodes vs.flat) := by
  first
  | exact absurd h (by decide)
  | obtain ⟨f, rfl⟩ : ∃ f, fuel = f + 1 := ⟨fuel - 1, by omega⟩
    rw [tagchilds_to_tagnodes]
    simp only [pure_eq_ok, truthy_bool, hs, Bool.false_eq_true, if_false]
    rw [src_flattenC17 hf' hr' G vs X hX f (by omega)]
    have hleaf := flat_leavesC17 (valsDepthC17 vs) vs (Nat.le_refl _)
    simp only [ok_bind, pyEnumerate_embC17, pyIter_list]
    refine conv_loopC17 vs.flat hleaf _ _ ?step
    intro p hp s b hs hlen
    obtain ⟨i, a⟩ := p
    obtain ⟨s1, s2⟩ := s
    simp only at hs; subst hs
    have hm := enumP_memC17 _ _ _ hp
    have hi : i < b.length := by simp at hm; omega
    have hla : valIsLeafC17 a = true := hleaf a hm.2.2
    simp only [embIdxC17, pyUnpack2_tuple, ok_bind]
    by_cases hnum : ∃ t, a = .num t
    · obtain ⟨t, rfl⟩ := hnum
      have hfl : isInstance (embValC17 (Val.num t)) ["int", "float"] = true := by simp [embValC17, isInstance, builtinClasses]
      have hfl' : isInstance (embValC17 (Val.num t)) ["float", "int"] = true := by simp [embValC17, isInstance, builtinClasses]
      simp only [hfl, hfl', truthy_bool, if_true]
      simp only [embValC17, pyStr, pure_eq_ok, ok_bind, pySetItem_list_nat b i _ hi, convStep_numC17, Sim]
      exact ⟨_, rfl, _, rfl, rfl, by simpa using hlen⟩
    · have hnn : ∀ t, a ≠ .num t := fun t ht => hnum ⟨t, ht⟩
      have hfl : isInstance (embValC17 a) ["int", "float"] = false := by
        cases a <;> first | exact absurd rfl (hnn _) | simp [embValC17, embTagListC17, tagRefC17, mkRefC17, ellipsisC17, isInstance, builtinClasses, classBases]
      have hfl' : isInstance (embValC17 a) ["float", "int"] = false := by
        cases a <;> first | exact absurd rfl (hnn _) | simp [embValC17, embTagListC17, tagRefC17, mkRefC17, ellipsisC17, isInstance, builtinClasses, classBases]
      have hcs : convStepC17 (i, a) b = match nodeOf a with
          | .ok _ => .ok b
          | .error e => .error e := by
        cases a <;> first | rfl | exact absurd rfl (hnn _)
      rw [hcs]
      simp only [hfl, hfl', truthy_bool, Bool.false_eq_true, if_false, is_tag_node_leafC17 hn G a hla hnn, ok_bind]
      cases hno : nodeOf a with
      | ok it => simp only [Bool.not_true, Bool.false_eq_true, if_false, Sim]; exact ⟨_, rfl, _, rfl, rfl, hlen⟩
      | error e =>
        have : e = .typeError := by cases a <;> simp [nodeOf] at hno <;> exact hno.symm
        subst this
        simp [Sim, embErr]

/-- `self.extend(other)` on a TagList of stored children, `other` not a `str`, iterating it yields `vs` -/
theorem src_TagList_extendC17 (h : TagList_extend_available = true) (ht : tagchilds_to_tagnodes_available = true)
    (hf' : util_flatten_available = true) (hr' : util_flatten_recurse_available = true) (hn : is_tag_node_available = true)
    (G : Globals) (its : List Item) (vs : Vals) (X : PVal) (hX : pyIter X = .ok (embValsC17 vs))
    (hs : isInstance X ["str"] = false) (fuel : Nat) (hf : valsDepthC17 vs + 3 < fuel) :
    TagList_extend G fuel (embTagListC17 its) X
      = embRes (fun new => embTagListC17 (its ++ new)) (toNodes vs.flat) := by
  first
  | exact absurd h (by decide)
  | obtain ⟨f, rfl⟩ : ∃ f, fuel = f + 1 := ⟨fuel - 1, by omega⟩
    rw [TagList_extend]
    simp only [pure_eq_ok, src_tagchildsC17 ht hf' hr' hn G vs X hX hs f (by omega)]
    cases toNodes vs.flat with
    | error e => rfl
    | ok r => simp [embRes, embTagListC17, userListExtend_tl]

/-- `self.append(v)` on a TagList of stored children = the model's `toItems v` appended -/
theorem src_TagList_appendC17 (h : TagList_append_available = true) (he : TagList_extend_available = true)
    (ht : tagchilds_to_tagnodes_available = true) (hf' : util_flatten_available = true)
    (hr' : util_flatten_recurse_available = true) (hn : is_tag_node_available = true)
    (G : Globals) (its : List Item) (v : Val) (fuel : Nat) (hf : valDepthC17 v + 4 < fuel) :
    TagList_append G fuel (embTagListC17 its) (embValC17 v) (.tuple [])
      = embRes (fun new => embTagListC17 (its ++ new)) (toItems v) := by
  first
  | exact absurd h (by decide)
  | obtain ⟨f, rfl⟩ : ∃ f, fuel = f + 1 := ⟨fuel - 1, by omega⟩
    rw [TagList_append]
    have key := src_TagList_extendC17 he ht hf' hr' hn G its (.cons v .nil) (.list [embValC17 v]) rfl rfl f
      (by simp only [valsDepthC17]; omega)
    simp only [Vals.flat, List.append_nil] at key
    simp only [pure_eq_ok, pyIter_tuple, ok_bind, List.singleton_append, key, toItems, bind_ok_self]

/-! ### `Tag.append` and the application of function values -/

/-- the tag object after `items` have been appended to its children -/
theorem src_Tag_appendC17 (h : Tag_appendC17_available = true) (G : Globals) (fuel : Nat) (m : TagMetaC17) (ts : TagSt) (v : Val)
    (hA : ∀ its, TagList_append G fuel (embTagListC17 its) (embValC17 v) (.tuple [])
            = embRes (fun new => embTagListC17 (its ++ new)) (toItems v)) :
    Tag_appendC17 G (fuel + 1) (embTagC17 m ts) (.tuple [embValC17 v])
      = embRes (fun new => embTagC17 m { ts with children := ts.children ++ new }) (toItems v) := by
  first
  | exact absurd h (by decide)
  | rw [Tag_appendC17]
    have hg : pyGetAttr (embTagC17 m ts) "children" = .ok (embTagListC17 ts.children) := by
      simp [embTagC17, pyGetAttr, fieldGet?]
    simp only [pure_eq_ok, hg, ok_bind, pyStarSplit1C17, hA]
    cases toItems v with
    | error e => rfl
    | ok new => simp [embRes, embTagC17, pySetAttr, fieldSet]

/-- the generated `applyCallableC17` does what the model's `callHook` does, given the tie for `TagList.append` on the value
    the wrapper hands on -/
theorem src_applyCallable_stepC17 (ha : Tag_appendC17_available = true) (hw : handler_wrapperC17_available = true)
    (G : Globals) (fuel : Nat) (m : TagId → TagMetaC17) (v : Val)
    (hA : ∀ v', wrapFilter v = some v' → ∀ its, TagList_append G fuel (embTagListC17 its) (embValC17 v') (.tuple [])
            = embRes (fun new => embTagListC17 (its ++ new)) (toItems v')) :
    CallTieC17 m (applyCallableC17 G (fuel + 3)) v := by
  first
  | exact absurd ha (by decide)
  | exact absurd hw (by decide)
  | skip
  all_goals (
    intro hk s
    cases hk with
    | outer =>
      simp [applyCallableC17, embHookC17, callHook, recordC17, embStC17]
    | unset =>
      simp [applyCallableC17, embHookC17, callHook, notCallableC17, PySM.run_throw, embErr]
    | wrap t =>
      have hq : ("wrap_displayhook_handler.<inner>".toList = "wrap_displayhook_handler.<inner>".toList) = True := by simp
      simp only [applyCallableC17, embHookC17, wrapperC17, mkClosureC17, hq, if_true, src_handler_wrapperC17 hw, callHook]
      cases hwf : wrapFilter v with
      | none => simp [handOnC17, PySM.run_pure]
      | some v' =>
        have hq2 : ("Tag.append".toList = "Tag.append".toList) = True := by simp
        simp only [handOnC17, PySM.run_bind, appendOfC17, mkMethodC17, applyCallableC17, hq2, if_true, heapUpdateByC17,
          refId_tagRefC17]
        have key := src_Tag_appendC17 ha G fuel (m t) (s.tags t) v' (hA v' hwf)
        have hh : (embStC17 m s).heap t = embTagC17 (m t) (s.tags t) := rfl
        rw [hh, key]
        cases toItems v' with
        | error e => simp [embRes]
        | ok new =>
          simp only [embRes, PySM.run_pure]
          rw [embSt_addChildrenC17])

/-! ### end to end: the generated application function, `__exit__` with it, a displayed value -/

theorem wrapFilter_depthC17 (v v' : Val) (h : wrapFilter v = some v') : valDepthC17 v' ≤ valDepthC17 v := by
  cases v <;> simp [wrapFilter] at h <;> subst h <;> simp [valDepthC17]

/-- applying what sits in `sys.displayhook` to a displayed value = the model's `callHook`: for every hook (the recorder, the
    wrapper installed by any tag's `__enter__`, `None`), every value, every state; any fuel above the nesting depth + 8 -/
theorem src_applyCallableC17 (ha : Tag_appendC17_available = true) (hw : handler_wrapperC17_available = true)
    (hta : TagList_append_available = true) (he : TagList_extend_available = true)
    (ht : tagchilds_to_tagnodes_available = true) (hf' : util_flatten_available = true)
    (hr' : util_flatten_recurse_available = true) (hn : is_tag_node_available = true)
    (G : Globals) (m : TagId → TagMetaC17) (v : Val) (fuel : Nat) (hf : valDepthC17 v + 8 ≤ fuel) :
    CallTieC17 m (applyCallableC17 G fuel) v := by
  obtain ⟨f, rfl⟩ : ∃ f, fuel = f + 3 := ⟨fuel - 3, by omega⟩
  refine src_applyCallable_stepC17 ha hw G f m v ?_
  intro v' hv its
  have := wrapFilter_depthC17 v v' hv
  exact src_TagList_appendC17 hta he ht hf' hr' hn G its v' f (by omega)

/-- `tag_t.__exit__(…)` with function values applied by the generated `applyCallableC17` = the model's `exitTag`, outcome and
    state, on every state -/
theorem src_Tag_exit_applyC17 (h : Tag_exitC17_available = true) (ha : Tag_appendC17_available = true)
    (hw : handler_wrapperC17_available = true)
    (hta : TagList_append_available = true) (he : TagList_extend_available = true)
    (ht : tagchilds_to_tagnodes_available = true) (hf' : util_flatten_available = true)
    (hr' : util_flatten_recurse_available = true) (hn : is_tag_node_available = true)
    (G : Globals) (m : TagId → TagMetaC17) (s : St) (t : TagId) (a b c : PVal) (fuel : Nat) (hf : 8 ≤ fuel) :
    Tag_exitC17 G (applyCallableC17 G fuel) (tagRefC17 t) a b c (embStC17 m s) = embOutC17 m (exitTag t s) :=
  src_Tag_exitC17 h G _ m s t a b c
    (src_applyCallableC17 ha hw hta he ht hf' hr' hn G m (.tagRef t) fuel (by simpa [valDepthC17] using hf))

/-- the statement `sys.displayhook(v)` (what the REPL / the recorder's caller does with a value) with the generated application
    function = the model's `display v`, outcome and state -/
theorem src_display_stmtC17 (ha : Tag_appendC17_available = true) (hw : handler_wrapperC17_available = true)
    (hta : TagList_append_available = true) (he : TagList_extend_available = true)
    (ht : tagchilds_to_tagnodes_available = true) (hf' : util_flatten_available = true)
    (hr' : util_flatten_recurse_available = true) (hn : is_tag_node_available = true)
    (G : Globals) (m : TagId → TagMetaC17) (s : St) (v : Val) (fuel : Nat) (hf : valDepthC17 v + 8 ≤ fuel) :
    applyCallableC17 G fuel (embStC17 m s).displayhook [embValC17 v] (embStC17 m s)
      = embOutC17 m ((Prog.display v).exec s) := by
  have := src_applyCallableC17 ha hw hta he ht hf' hr' hn G m v fuel hf s.hook s
  show applyCallableC17 G fuel (embHookC17 s.hook) [embValC17 v] (embStC17 m s) = _
  rw [this]
  simp only [Prog.exec, embOutC17]
  cases callHook s.hook v s <;> rfl

end HtmlVerif.SrcTie
