"""C08 — Rendering and tagify are pure and consistent; tagify returns an independent copy."""
from __future__ import annotations

import itertools
import os

import core
import gen
import ops  # noqa: F401  (registers the implementation side, incl. ops_ident / ops_equality)
import ops_ident as oi
from ops_tagify import rank_terms
from wire import eattrdict, enode, enodes, es

PID = "C08"
MANIFEST = dict(
    text="Lean: an identity layer (Model/Ident.lean) puts a Nat id on every mutable object — Tag, its TagAttrDict, its TagList, "
         "every MetadataNode, and for an HTMLDependency also its source dict, its script/stylesheet/meta lists with their dicts and "
         "its head list with everything in it — with an allocator threading a fresh-id counter; `itagify` follows Tag.__copy__ / "
         "Tag.tagify / TagList.tagify / copy(MetadataNode) as to what is created and what is shared, and copies a dependency as the "
         "property demands (no container shared). Proved for all trees: erasing ids, itagify is the expansion of C09 "
         "(C08_tagify_refines*); the result equals the original (== both ways) when the tree consists of plain library objects "
         "(C08_tagify_eq*), is a fixed point (C08_tagify_fixed*); if all ids of the original are < n, every id in the result is in "
         "[n, counter'), none occurs twice, none is an id of the original (C08_tagify_fresh*, guard: no un-expanded tagifiable user "
         "object inside a dependency head; C08_tagify_fresh_guard_needed shows the guard is needed); hence any mutation of any "
         "object of either tree leaves the other unchanged (C08_independent, for an arbitrary mutation function per object kind); "
         "every read-only operation, modelled as (result, receiver', counter'), returns receiver' = receiver and a result that is a "
         "function of the receiver's value (C08_pure*), so any history of them yields, at position k, the value of the k-th "
         "operation on the initial receiver (C08_repeat, _history, _order, _twice); HTMLDocument._gen_html_tag_tree as repaired "
         "leaves the document unchanged and builds the same tree as the pinned code (C08_doc_pure, C08_doc_same_tree) whereas the "
         "pinned code did not (C08_doc_pinned_impure, F-C08a); the pinned shallow dependency copy shares its script list with the "
         "original (C08_pinned_copy_shares, F-C08b); str/repr/_repr_html_/render()['html'] are one function in the default mode, "
         "the markup of the expanded tree (C08_views*); == laws (C08_eq_*). Tie to /repo on every run: (1) c08_seq — for every "
         "listed read-only operation (tagify, render, str, repr, _repr_html_, get_html_string, get_dependencies(dedup T/F), copy.copy; "
         "as_html_tags/as_dict/source_path_map/serialize_to_script_json on dependency receivers) a deep snapshot of the receiver "
         "before and after every operation of every history of <= 4 operations over a receiver pool (exhaustive) and random longer "
         "ones on random receivers, results compared with the model's history-free values and across histories; (2) c08_doc — "
         "HTMLDocument.render()/save_html() (temporary directory, removed) with html/body/fragment content and html attribute "
         "arguments, snapshot of content and arguments; (3) c08_tagify — value = expansion, == both ways, fixed point, id() sets of "
         "original vs result by object kind (incl. dependency containers) compared with the model's sharing relation, no object "
         "twice, object count; (4) c08_mutate — every public mutator (append/extend/insert, attrs[...]=, attrs.update, add_class, "
         "add_style, remove_class, name/add_ws assignment, dep.script.append, dep.head.append, dict item assignment, …) applied to "
         "every object of the copy, original re-snapshotted, and vice versa; (5) c08_views; (6) eq / eq_list on single-edit pairs.",
    design="DESIGN.md §6 C08, §7 F-C08a / F-C08b",
    note="Modelled, not verified: tagifiable / _repr_html_ user objects are the harness' helper classes (their tagify() calls "
         "tagify()/copy() on what they hold); ids of what a user object holds are tracked, the user object itself has none. "
         "HTMLDocument: only _gen_html_tag_tree's handling of the user's objects is modelled here; everything after it "
         "(_hoist_head_content, render, files written by save_html) is an abstract function of the tagified copy (C11/C12 model "
         "it) — its purity on the real code is checked by snapshots only. JSON render mode of str() is modelled (C08_views_json_mode) "
         "but not exercised here (C13 does). Exceptions raised half-way: the snapshot check also runs when an operation raises. "
         "Not claimed: copy.copy(tag) shares the children by design (shallow), as_dict()'s result shares the `meta` list with the "
         "dependency, as_html_tags() returns the head's own nodes.",
    technique="Lean 4 proof (mutual structural induction over an id-annotated tree, id-range invariants, state-transformer purity) + "
              "differential correspondence on deep snapshots, id() aliasing and results of operation histories",
)
PROP_FILES = ["HtmlVerif/Props/C08.lean", "HtmlVerif/Props/SrcC08.lean", "HtmlVerif/Props/SrcC18.lean", "HtmlVerif/Props/SrcC08b.lean"]


# ------------------------------------------------------------------ terms
def dep(name="a", version="1.0", source=("href", "https://x/y"), script=(), stylesheet=(), metas=(), all_files=False, head=None):
    info = dict(name=name, version=version, vrank=0, source=source,
                script=[[("src", s)] for s in script],
                stylesheet=[[("href", s), ("rel", "stylesheet")] for s in stylesheet],
                metas=[[("name", k), ("content", v)] for k, v in metas], all_files=all_files)
    return ("dep", info, head is not None, list(head or []))


T = lambda s: ("text", s)  # noqa: E731
DIV = lambda *k, attrs=(): ("tag", "div", True, list(attrs), list(k))  # noqa: E731
SPAN = lambda *k, attrs=(): ("tag", "span", False, list(attrs), list(k))  # noqa: E731

DEP_FULL = dep("full", "1.2", script=["s.js", "t.js"], stylesheet=["c.css"], metas=[("k", "v")],
               head=[DIV(T("h"), ("meta", 5), attrs=[("id", ("p", "hd"))]), T("txt"), dep("inner", "2", script=["i.js"])])
DEP_BARE = dep("bare", "0.1", source=None)
W_C08A = [("tag", "html", True, [], [("tag", "body", True, [], [T("x")])])]
W_C08B = DIV(dep("a", "1", source=None, script=["s.js"], head=[DIV(T("h"))]))

CORPUS = [
    W_C08B,
    DIV(DEP_FULL, T("t")),
    # suite: test_tagify_deep_copy / test_tag_shallow_copy shapes
    DIV(T("a"), SPAN(T("b"), attrs=[("class", ("p", "k"))]), attrs=[("id", ("p", "i")), ("style", ("h", "color:red;"))]),
    DIV(("tobj1", None, DEP_FULL), ("tobjL", None, [SPAN(("meta", 1)), ("meta", 2)]), ("robj", "<u>"), ("html", "<i>")),
    DIV(dep("h", "1", head=[("tobjL", None, [SPAN(("meta", 7))])])),         # outside the freshness guard
    ("tag", "html", True, [("lang", ("p", "fr"))], [("tag", "head", True, [], [DEP_BARE]), ("tag", "body", True, [], [DEP_FULL])]),
]

SRC = [None, ("href", "https://x/y"), ("href", "/z")]
VERSIONS = ["1.0", "1.0.0", "1.2", "0.9", "2.0", "1.10", "1.2.post1", "1.0rc1"]


def rand_dep(rng, depth, p_head_obj=0.15):
    head = None
    if rng.random() < 0.45:
        po = 0.4 if rng.random() < p_head_obj else 0.0
        head = [rand_t(rng, min(depth, 2), p_obj=po, p_head_obj=p_head_obj if po else 0.0) for _ in range(rng.randint(0, 3))]
    return dep(rng.choice(["a", "b", "jq", "a"]), rng.choice(VERSIONS), source=rng.choice(SRC),
               script=rng.sample(["s.js", "t.js", "u v.js"], rng.randint(0, 2)),
               stylesheet=rng.sample(["c.css", "d.css"], rng.randint(0, 2)),
               metas=[("k", "v")] if rng.random() < 0.3 else [], all_files=False, head=head)


def rand_leaf(rng, depth, p_head_obj=0.15):
    r = rng.random()
    if r < 0.35:
        return ("text", gen.rand_text(rng, 6))
    if r < 0.5:
        return ("html", rng.choice(gen.HTML_POOL))
    if r < 0.6:
        return ("robj", rng.choice(gen.HTML_POOL))
    if r < 0.72:
        return ("meta", rng.randint(0, 9))
    return rand_dep(rng, depth, p_head_obj)


def rand_t(rng, depth: int, p_obj: float = 0.3, p_head_obj: float = 0.15):
    if depth <= 0 or rng.random() < 0.2:
        return rand_leaf(rng, depth, p_head_obj)
    r = rng.random()
    rh = None if rng.random() < 0.75 else rng.choice(["<rh>", "", "x\ny"])
    if r < p_obj * 0.6:
        return ("tobjL", rh, [rand_t(rng, depth - 1, p_obj, p_head_obj) for _ in range(rng.choice([0, 1, 1, 2, 3]))])
    if r < p_obj:
        return ("tobj1", rh, rand_t(rng, depth - 1, p_obj, p_head_obj))
    name, ws = gen.rand_name(rng)
    if rng.random() < 0.15:
        ws = not ws
    return ("tag", name, ws, gen.rand_attrs(rng, 2),
            [rand_t(rng, depth - 1, p_obj, p_head_obj) for _ in range(rng.choice([0, 1, 1, 2, 2, 3, 4]))])


def rand_tag(rng, depth, p_obj=0.3, p_head_obj=0.15):
    while True:
        n = rand_t(rng, depth, p_obj, p_head_obj)
        if n[0] == "tag":
            return n


def has_obj(n) -> bool:
    k = n[0]
    if k in ("tobjL", "tobj1"):
        return True
    if k == "tag":
        return any(has_obj(c) for c in n[4])
    if k == "dep":
        return any(has_obj(c) for c in n[3])
    return False


def has_dep(n) -> bool:
    k = n[0]
    if k == "dep":
        return True
    if k == "tag":
        return any(has_dep(c) for c in n[4])
    if k == "tobjL":
        return any(has_dep(c) for c in n[2])
    if k == "tobj1":
        return has_dep(n[2])
    return False


def recv_line(opn, kind, term, tail=""):
    if kind == "list":
        e = enodes(rank_terms(list(term)))
    else:
        e = enode(rank_terms([term])[0])
    return f"{opn} {kind} {e}" + (f" {tail}" if tail else "")


# ------------------------------------------------------------------ read-only operation histories
TAG_OPS = ["tg", "rd", "st", "rp", "rh", f"gh 0 {es(chr(10))}", "gd T", "cp"]
TAG_OPS_MORE = [f"gh 2 {es('<!>')}", "gd F"]
DEP_OPS = ["cp", f"dt S {es('lib')} T", "dd N F", f"dm S {es('lib')} T", "ds N"]
DEP_OPS_MORE = ["dt N F", f"dd S {es('p/q')} T", "dm N F", "ds I 2"]


def seq_pool():
    """(kind, term) receivers for the exhaustive histories"""
    return [
        ("tag", DIV(DEP_FULL, T("t"), SPAN(("meta", 1), attrs=[("class", ("h", "a&b"))]), attrs=[("id", ("p", "r"))])),
        ("tag", DIV(("tobjL", None, [T("a"), dep("a", "1.10", script=["s.js"])]), ("tobj1", "<rh>", SPAN(T("b"))), dep("a", "1.2", source=None),
                    ("robj", "<u>r</u>"))),
        ("tag", ("tag", "html", True, [("lang", ("p", "en"))], [("tag", "head", True, [], []), ("tag", "body", True, [], [T("x"), DEP_BARE])])),
        ("list", [T("a"), DIV(DEP_FULL), ("tobjL", None, [SPAN(T("b")), ("meta", 3)]), ("html", "<i>")]),
        ("list", []),
        ("tag", DIV(("tobjL", None, [T("no-repr")]))),          # get_html_string raises RuntimeError, the rest works
        ("dep", DEP_FULL),
        ("dep", DEP_BARE),
        ("dep", dep("u", "3.0rc1", source=("href", "/z"), stylesheet=["a b.css"], head=[("html", "<!-- c -->")])),
    ]


def seq_lines(ck, tier):
    lines = []
    n_hist = 0
    full = 4
    for kind, term in seq_pool():
        alpha = DEP_OPS if kind == "dep" else TAG_OPS
        for n in range(0, full + 1):
            for combo in itertools.product(alpha, repeat=n):
                lines.append(recv_line("c08_seq", kind, term, "[ " + " ".join(combo) + " ]"))
                n_hist += 1
        if tier == "thorough":
            # length 5 over the operations that copy (tagify / render / str / copy) + one reader
            core4 = DEP_OPS[:4] if kind == "dep" else ["tg", "rd", "st", "cp", "gd T"]
            for combo in itertools.product(core4, repeat=5):
                lines.append(recv_line("c08_seq", kind, term, "[ " + " ".join(combo) + " ]"))
                n_hist += 1
    ck.exhaustive_scopes.append({
        "scope": f"all histories of <= {full} read-only operations over {len(TAG_OPS)} operations (Tag / TagList receivers) resp. "
                 f"{len(DEP_OPS)} (dependency receivers), on a pool of {len(seq_pool())} receivers"
                 + "; thorough: additionally all histories of 5 over the five copying operations" * (tier == "thorough"),
        "histories": n_hist, "exhaustive": True})
    return lines


def rand_seq_line(rng):
    r = rng.random()
    if r < 0.2:
        kind, term = "dep", rand_dep(rng, 2)
        alpha = DEP_OPS + DEP_OPS_MORE
    elif r < 0.45:
        kind, term = "list", [rand_t(rng, rng.randint(0, 3)) for _ in range(rng.randint(0, 4))]
        alpha = TAG_OPS + TAG_OPS_MORE
    else:
        kind, term = "tag", rand_tag(rng, rng.randint(1, 4))
        alpha = TAG_OPS + TAG_OPS_MORE
    seq = [rng.choice(alpha) for _ in range(rng.randint(1, 8))]
    return recv_line("c08_seq", kind, term, "[ " + " ".join(seq) + " ]")


# ------------------------------------------------------------------ small exhaustive trees
def small_leaves():
    return [T("a"), ("html", "<i>"), ("robj", "<u>r</u>"), ("meta", 0),
            dep("d", "1", source=None, script=["s.js"], head=[SPAN(T("h"))]),
            ("tobjL", None, [T("o"), ("meta", 1)]), ("tobj1", None, SPAN(T("p")))]


def small_tags():
    return [("div", True), ("span", False)]


# ------------------------------------------------------------------ documents
KW_POOL = [
    [],
    [("lang", ("str", "en"))],
    [("class_", ("html", "a&amp;b")), ("data_x", ("num", "3")), ("hidden", ("true",)), ("skip", ("none",)), ("off", ("false",))],
    [("lang", ("str", "de")), ("id", ("str", "root"))],
]


def doc_contents():
    body = ("tag", "body", True, [("class", ("p", "b"))], [T("x"), DEP_FULL])
    return [
        W_C08A,
        [("tag", "html", True, [("lang", ("p", "fr")), ("id", ("p", "keep"))], [("tag", "head", True, [], [("tag", "title", True, [], [T("t")])]), body])],
        [("tag", "html", True, [], [DEP_BARE])],
        [body],
        [T("a"), DIV(DEP_FULL)],
        [DIV(("tobjL", None, [SPAN(T("o"))]), dep("a", "1", source=None))],
        [("tobj1", None, ("tag", "html", True, [], [T("frag")]))],
        [("tag", "html", True, [], []), T("two items")],
        [],
    ]


def doc_line(content, kwargs):
    return f"c08_doc {enodes(rank_terms(list(content)))} {eattrdict(kwargs)}"


def rand_doc(rng):
    ks = [rand_t(rng, rng.randint(0, 3), p_obj=0.25) for _ in range(rng.choice([0, 1, 2, 3]))]
    r = rng.random()
    if r < 0.45:
        head = [("tag", "head", True, [], [rand_t(rng, 1, 0.2) for _ in range(rng.randint(0, 2))])] if rng.random() < 0.6 else []
        ks = [("tag", "html", True, gen.rand_attrs(rng, 2), head + [("tag", "body", True, [], ks)])]
    elif r < 0.65:
        ks = [("tag", "body", True, gen.rand_attrs(rng, 1), ks)]
    kw = rng.choice(KW_POOL)
    if rng.random() < 0.3:
        kw = [(rng.choice(["lang", "title", "data_k", "class_", "style"]), ("str", gen.rand_text(rng, 5)))]
    return doc_line(ks, kw)


# ------------------------------------------------------------------ equality: single-edit pairs
def edits(rng, t):
    """(edited tree, expected ==, label): one difference each; `expected` from the property's wording
    ('a' vs HTML('a') and 1.10 vs 1.10.0 are the same text / the same version; attribute order is not part of a set)"""
    out = []
    if t[0] != "tag":
        return out
    _, nm, ws, attrs, kids = t
    out.append((("tag", nm + "x", ws, attrs, kids), False, "name"))
    out.append((("tag", nm, not ws, attrs, kids), False, "flag"))
    out.append((("tag", nm, ws, attrs + [("zz", ("p", "1"))], kids), False, "attr-added"))
    if attrs:
        out.append((("tag", nm, ws, attrs[1:], kids), False, "attr-removed"))
        k, (kd, v) = attrs[0]
        out.append((("tag", nm, ws, [(k, (kd, v + "!"))] + attrs[1:], kids), False, "attr-value"))
        out.append((("tag", nm, ws, [(k, ("h" if kd == "p" else "p", v))] + attrs[1:], kids), True, "attr-kind-same-text"))
    if len(attrs) > 1:
        out.append((("tag", nm, ws, attrs[::-1], kids), True, "attr-order"))
    out.append((("tag", nm, ws, attrs, kids + [T("extra")]), False, "child-added"))
    if kids:
        i = rng.randrange(len(kids))
        c = kids[i]
        rest = lambda x: ("tag", nm, ws, attrs, kids[:i] + [x] + kids[i + 1:])  # noqa: E731
        out.append((("tag", nm, ws, attrs, kids[:i] + kids[i + 1:]), False, "child-removed"))
        if c[0] in ("text", "html"):
            out.append((rest((c[0], c[1] + "!")), False, "child-text"))
            out.append((rest(("html" if c[0] == "text" else "text", c[1])), True, "child-html-vs-str-same-text"))
            out.append((rest(SPAN(c)), False, "child-kind"))
        elif c[0] == "tag":
            for e, exp, lab in edits(rng, c)[:6]:
                out.append((rest(e), exp, "nested-" + lab))
            out.append((rest(T("t")), False, "child-kind"))
        elif c[0] == "dep":
            info = c[1]

            def di(**kw):
                d = dict(info)
                d.update(kw)
                return rest(("dep", d, c[2], c[3]))
            out.append((di(name=info["name"] + "x"), False, "dep-name"))
            out.append((di(version={"1.10": "1.10.0", "1.0": "1.0.0", "1.0.0": "1.0", "1.2": "1.2.0", "2.0": "2", "0.9": "0.9.0"}.get(
                info["version"], info["version"])), True, "dep-version-same-number"))
            out.append((di(version="9.9.9"), False, "dep-version"))
            out.append((di(script=info["script"] + [[("src", "more.js")]]), False, "dep-script"))
            out.append((di(stylesheet=info["stylesheet"] + [[("href", "m.css"), ("rel", "stylesheet")]]), False, "dep-stylesheet"))
            out.append((di(metas=info["metas"] + [[("name", "m"), ("content", "c")]]), False, "dep-meta"))
            out.append((di(all_files=not info["all_files"]), False, "dep-all_files"))
            out.append((di(source=("href", "https://other")), False, "dep-source"))
            out.append((rest(("dep", info, True, c[3] + [T("hd")])), False, "dep-head"))
        elif c[0] == "meta":
            out.append((rest(("meta", c[1] + 1)), False, "meta-number"))
            out.append((rest(T("m")), False, "child-kind"))
        elif c[0] == "robj":
            out.append((rest(("robj", c[1] + "!")), False, "robj-text"))
    return out


def eq_lines(rng, n_trees):
    """[(line, expected, label)]"""
    out = []
    base = [CORPUS[1], CORPUS[2], DIV(dep("v", "1.10"), dep("w", "1.0", source=None, script=["a.js"], head=[T("h")]))]
    for _ in range(n_trees):
        base.append(rand_tag(rng, rng.randint(1, 3), p_obj=0.0, p_head_obj=0.0))
    for t in base:
        a = rank_terms([t])[0]
        out.append((f"eq {enode(a)} {enode(a)}", True, "identical"))
        for e, exp, lab in edits(rng, t):
            x, y = rank_terms([t, e])
            out.append((f"eq {enode(x)} {enode(y)}", exp, lab))
            if rng.random() < 0.15:
                out.append((f"eq_list {enodes([x, T('s')])} {enodes([y, T('s')])}", exp, "list-" + lab))
        out.append((f"eq {enode(a)} {enode(T('x'))}", False, "kind-tag-vs-str"))
        out.append((f"eq_list {enodes([a])} {enodes([a, a])}", False, "list-length"))
    return out


# ------------------------------------------------------------------ Python-only receivers (not expressible as alias-free terms)
def py_pool():
    """(label, receiver factory) — aliasing, subdir sources with real files, attribute arguments of every kind"""
    from htmltools import HTML, HTMLDependency, Tag, TagList, div, span, tags
    import tempfile
    out = []

    def aliased():
        s = span("same", class_="s")
        d = HTMLDependency("al", "1.0", script={"src": "a.js"}, head=div("hd"))
        return div(s, s, d, span(d), {"data-x": 1, "hidden": True, "title": HTML("<b>")})
    out.append(("same Tag and same dependency at two positions", aliased))

    def files():
        tmp = tempfile.mkdtemp(prefix="c08src")
        with open(os.path.join(tmp, "s.js"), "w") as f:
            f.write("//")
        with open(os.path.join(tmp, "c d.css"), "w") as f:
            f.write("/**/")
        d = HTMLDependency("files", "2.1", source={"subdir": tmp}, script={"src": "s.js"}, stylesheet={"href": "c d.css"},
                           meta={"name": "n", "content": "c"}, head=TagList(tags.title("t"), HTML("<!-- h -->")))
        x = tags.body(div("b"), d)
        x._c08_tmp = tmp
        return x
    out.append(("dependency with files on disk (save_html copies them)", files))

    def nested_head():
        inner = HTMLDependency("inner", "1", script=[{"src": "i.js"}, {"src": "j.js", "defer": ""}])
        return TagList(div(HTMLDependency("outer", "1", head=TagList(div(inner, "x")))), "t", 3, 2.5)
    out.append(("dependency whose head holds a tag holding a dependency", nested_head))

    def subclass_fields():
        from htmltools._core import TagAttrDict

        class Card(Tag):
            """a user's Tag subclass with an attribute map and a child list of its own (Tag.__copy__ / tagify() build the
            copy with self.__class__ and shallow-copy every instance field)"""

            def __init__(self, *args, **kwargs):
                super().__init__("div", *args, **kwargs)
                self.header_attrs = TagAttrDict({"class": "hd", "data-x": 1})
                self.footer = TagList("f1", HTML("<i>f2</i>"))

        inner = Card("in", id="i")
        t = div("a", inner, Card(span("s"), class_="c"))
        t.note_attrs = TagAttrDict(title="n")
        return t
    out.append(("Tag subclass (and a plain Tag) carrying an attribute map and a child list in further instance fields", subclass_fields))
    return out


def jsx_receiver_oracle(ck) -> int:
    """read-only operations on a JSX component whose props hold lists / dicts / tuples of tags, components and tagifiable
    objects: every container the caller handed over still holds the very same objects afterwards, and the results repeat"""
    from htmltools import HTMLDependency, HTMLDocument, Tag, TagList
    from htmltools._jsx import jsx_tag_create
    n = 0

    class Comp:
        def __init__(self, k):
            self.k = k

        def tagify(self):
            return Tag("em", self.k, HTMLDependency("c" + self.k, "1.0"))

    def shape(v):
        """identity-and-structure snapshot of a prop value"""
        if isinstance(v, (list, tuple)):
            return (type(v).__name__, id(v), tuple(shape(x) for x in v))
        if isinstance(v, dict):
            return ("dict", id(v), tuple((k, shape(x)) for k, x in v.items()))
        if isinstance(v, Tag):
            return ("Tag", id(v), v.name, tuple(v.attrs.items()), tuple(shape(c) for c in v.children))
        return (type(v).__name__, id(v) if not isinstance(v, (str, int, float, bool, type(None))) else v)

    Foo, Bar = jsx_tag_create("Foo"), jsx_tag_create("Bar")

    def builds():
        yield "list prop with a tag, a component and a tagifiable object", lambda: Foo(items=[Tag("b", "x"), Bar(n=1), Comp("k"), "s"])
        yield "dict prop with tagifiable values", lambda: Foo(cfg={"a": Comp("a"), "b": Tag("i", Comp("n")), "c": 3})
        yield "nested list / dict / tuple props", lambda: Foo(Tag("p", "child"), rows=[[Comp("r1")], {"cell": Tag("td", "t")}, (Comp("r2"), "u")])
        yield "list prop inside a nested component", lambda: Foo(Bar(items=[Comp("z"), Tag("u")]), Tag("div", Bar(opts={"o": Comp("o")})))

    ops_ = [("str()", lambda x: str(x)), ("tagify()", lambda x: str(x.tagify())), ("repr()", lambda x: repr(x)), ("_repr_html_()", lambda x: x._repr_html_()),
            ("TagList(x).render()", lambda x: (lambda r: (r["html"], [d.name for d in r["dependencies"]]))(TagList(x).render())),
            ("HTMLDocument(x).render()", lambda x: (lambda r: (r["html"], [d.name for d in r["dependencies"]]))(HTMLDocument(x).render()))]
    for bl, mk in builds():
        x = mk()
        before = (tuple((k, shape(v)) for k, v in x.attrs.items()), tuple(shape(c) for c in x.children))
        first = {}
        for name, f in ops_ + list(reversed(ops_)):
            n += 1
            ck.holds_checked += 1
            try:
                r = f(x)
            except Exception as e:  # noqa: BLE001
                r = f"raised {type(e).__name__}: {e}"
            after = (tuple((k, shape(v)) for k, v in x.attrs.items()), tuple(shape(c) for c in x.children))
            if after != before:
                ck.py_violation(f"jsx_receiver {bl} / {name}", str(after)[:300],
                                f"{name} on a JSX component ({bl}) changed what the component's props / children hold (containers handed over by the caller must keep "
                                f"the very same objects)", py=f"x = Foo(items=[Tag('b', 'x'), Bar(n=1), Comp('k'), 's']); items = x.attrs['items']; {name}; items   # {bl}")
                break
            if first.setdefault(name, r) != r:
                ck.py_violation(f"jsx_receiver {bl} / {name}", str(r)[:300], f"{name} on a JSX component ({bl}) gave a different result when repeated", py=bl)
                break
    ck.exhaustive_scopes.append({"scope": "read-only operations on JSX components whose props are lists / dicts / tuples of tags, components, tagifiable objects: 4 receivers x 6 operations x 2", "n": n, "exhaustive": True})
    return n


def snapshot_oracle(ck, rng, rounds):
    """independent of Lean: every read-only operation, in random orders, on receivers with aliasing / real files;
    tagify() result disjoint from the original; mutation of either side leaves the other's snapshot unchanged"""
    import copy as _copy
    import shutil
    import tempfile
    from htmltools import HTMLDocument, Tag
    n_ops = 0
    for label, make in py_pool():
        for _ in range(rounds):
            x = make()
            tmp = tempfile.mkdtemp(prefix="c08out")
            try:
                s0 = oi.snap(x)
                doc = HTMLDocument(x, lang="en") if isinstance(x, Tag) else HTMLDocument(x)
                sd = oi.snap(doc)
                calls = [
                    ("tagify()", lambda: x.tagify()), ("render()", lambda: x.render()), ("str()", lambda: str(x)),
                    ("repr()", lambda: repr(x)), ("_repr_html_()", lambda: x._repr_html_()),
                    ("get_html_string()", lambda: x.get_html_string()), ("get_dependencies()", lambda: x.get_dependencies()),
                    ("get_dependencies(dedup=False)", lambda: x.get_dependencies(dedup=False)), ("copy.copy()", lambda: _copy.copy(x)),
                    ("save_html()", lambda: x.save_html(os.path.join(tmp, "a", "i.html"))),
                    ("HTMLDocument.render()", lambda: doc.render()),
                    ("HTMLDocument.save_html()", lambda: doc.save_html(os.path.join(tmp, "b", "i.html"), libdir="L")),
                ]
                for d in x.get_dependencies(dedup=False):
                    calls += [("dep.as_html_tags()", lambda d=d: d.as_html_tags()), ("dep.as_dict()", lambda d=d: d.as_dict(lib_prefix=None)),
                              ("dep.source_path_map()", lambda d=d: d.source_path_map()),
                              ("dep.serialize_to_script_json()", lambda d=d: d.serialize_to_script_json(indent=2))]
                os.makedirs(os.path.join(tmp, "a"))
                os.makedirs(os.path.join(tmp, "b"))
                first = {}
                order = [rng.choice(calls) for _ in range(12)] + calls
                for name, f in order:
                    try:
                        r = f()
                        rv = oi.snap(r) if not isinstance(r, dict) else oi.snap_plain({k: (oi.snap(v) if not isinstance(v, (str, list)) else
                                                                                          [oi.snap(i) for i in v] if isinstance(v, list) else v)
                                                                                      for k, v in r.items()})
                    except Exception as e:  # an operation may legitimately raise; it still must not mutate
                        rv = ("raised", type(e).__name__)
                    n_ops += 1
                    if name.endswith("save_html()"):
                        rv = ("path",)
                    if oi.snap(x) != s0 or oi.snap(doc) != sd:
                        ck.py_violation(f"py_pool {label}", "receiver changed", f"{name} changed its receiver / arguments ({label})",
                                        py=f"# receiver: {label} (harness/props/c08.py: py_pool)\n# operation: {name}")
                        return n_ops
                    if first.setdefault(name, rv) != rv:
                        ck.py_violation(f"py_pool {label}", "result changed", f"{name} returned a different value when repeated ({label})",
                                        py=f"# receiver: {label} (harness/props/c08.py: py_pool)\n# operation: {name}")
                        return n_ops
                # independence
                for direction in (0, 1):
                    x2 = make()
                    y2 = x2.tagify()
                    a, b = (y2, x2) if direction == 0 else (x2, y2)
                    shared = {i for _, i in oi.kinded(x2)} & {i for _, i in oi.kinded(y2)}
                    leak = oi.mutate_all(a, b, oi.snap(b))
                    if shared or leak:
                        ck.py_violation(f"py_pool {label}", "shared", f"tagify() result shares {len(shared)} object(s) with the original; "
                                        f"first visible leak: {leak} ({label})",
                                        py=f"# receiver: {label} (harness/props/c08.py: py_pool); direction {direction}")
                        return n_ops
                    for z in (x2,):
                        t = getattr(z, "_c08_tmp", None)
                        if t:
                            shutil.rmtree(t, ignore_errors=True)
            finally:
                shutil.rmtree(tmp, ignore_errors=True)
                t = getattr(x, "_c08_tmp", None)
                if t:
                    shutil.rmtree(t, ignore_errors=True)
    return n_ops


# ------------------------------------------------------------------ replay support
def py_of(n) -> str:
    k = n[0]
    if k == "tag":
        attrs = "".join(f", {{{key!r}: {('HTML(%r)' % v[1]) if v[0] == 'h' else repr(v[1])}}}" for key, v in n[3])
        return f"Tag({n[1]!r}" + "".join(", " + py_of(c) for c in n[4]) + attrs + f", _add_ws={n[2]})"
    if k == "text":
        return repr(n[1])
    if k == "html":
        return f"HTML({n[1]!r})"
    if k == "robj":
        return f"ReprObj({n[1]!r})"
    if k == "meta":
        return f"Meta({n[1]})"
    if k == "dep":
        i = n[1]
        src = None if i["source"] is None else ({"href": i["source"][1]} if i["source"][0] == "href" else {"subdir": i["source"][2]})
        parts = [repr(i["name"]), repr(i["version"]), f"source={src!r}"]
        for fld, key in (("script", "script"), ("stylesheet", "stylesheet"), ("meta", "metas")):
            if i[key]:
                parts.append(f"{fld}={[dict(x) for x in i[key]]!r}")
        if i["all_files"]:
            parts.append("all_files=True")
        if n[2]:
            parts.append(f"head=TagList({', '.join(py_of(c) for c in n[3])})")
        return "HTMLDependency(" + ", ".join(parts) + ")"
    if k == "tobjL":
        c = "[" + ", ".join(py_of(x) for x in n[2]) + "]"
        return f"TObjL({c})" if n[1] is None else f"TObjLR({c}, {n[1]!r})"
    if k == "tobj1":
        return f"TObj1({py_of(n[2])})" if n[1] is None else f"TObj1R({py_of(n[2])}, {n[1]!r})"
    return repr(n)


HEADER = ("# cd harness && VERIF_REPO=<repo> /venv/bin/python   (ReprObj, Meta, TObjL/TObj1[R] are the helper classes of adapters.py;\n"
          "#  snap / kinded / mutate_all are the observers of ops_ident.py)\n"
          "from adapters import *\nfrom ops_ident import *\nfrom htmltools import HTMLDocument\n")


def _parse(line):
    from wire import Toks, p_attrpair, p_list, p_node
    t = Toks(line)
    opn = t.next()
    if opn == "c08_doc":
        return opn, "doc", p_list(t, p_node), p_list(t, p_attrpair), ""
    if opn in ("eq", "eq_list"):
        return opn, None, None, None, ""
    kind = t.next()
    term = p_list(t, p_node) if kind == "list" else p_node(t)
    return opn, kind, term, None, " ".join(t.t[t.i:])


def _mk(opn, kind, term, extra, tail):
    if opn == "c08_doc":
        return doc_line(term, extra)
    return recv_line(opn, kind, term, tail)


def _kw_py(v):
    return {"none": "None", "true": "True", "false": "False"}.get(v[0]) or (f"HTML({v[1]!r})" if v[0] == "html" else
                                                                             v[1] if v[0] == "num" else repr(v[1]))


def snippet(line, detail="") -> str:
    opn, kind, term, extra, tail = _parse(line)
    if opn in ("eq", "eq_list"):
        return ""
    if opn == "c08_doc":
        kw = ", ".join(f"{k}={_kw_py(v)}" for k, v in extra)
        args = ", ".join([py_of(c) for c in term] + ([kw] if kw else []))
        first = None
        try:
            first = oi.doc_first_impure(term, extra)
        except Exception:
            pass
        return (HEADER + f"doc = HTMLDocument({args})\nbefore = snap(doc)\ndoc.{first or 'render()'}\n"
                "print(snap(doc) == before)   # False: the document's content was modified\n"
                "print(doc._content[0].attrs if len(doc._content) else None)")
    obj = f"TagList({', '.join(py_of(c) for c in term)})" if kind == "list" else py_of(term)
    s = HEADER + f"x = {obj}\n"
    if opn == "c08_tagify":
        s += ("y = x.tagify()\nshared = {i for _, i in kinded(x)} & {i for _, i in kinded(y)}\n"
              "print([(KIND_NAMES[k], p) for k, o, p in objects(y) if id(o) in shared])   # objects of the copy that are objects of the original\n"
              "print(canon(y) if not isinstance(y, TagList) else canon_list(y), y == x, x == y)\n"
              "before = snap(x); mutate_all(y); print(snap(x) == before)   # False when a shared object was mutated through the copy")
    elif opn == "c08_mutate":
        leak = None
        try:
            make = (lambda: oi.realize_list(term)) if kind == "list" else (lambda: oi.realize(term))
            for d in (0, 1):
                leak = oi.mutate_leak(make, d)
                if leak:
                    leak = (d,) + leak
                    break
        except Exception:
            pass
        if leak:
            d, path, kn, mut = leak
            a, b = ("y", "x") if d == 0 else ("x", "y")
            s += (f"y = x.tagify()\nbefore = snap({b})\n# mutate the {kn} at {path.replace('x', a, 1)} of the "
                  f"{'copy' if d == 0 else 'original'}: {mut}\n"
                  f"mutate_all({a})   # applies every public mutator to every object of {a}; the first visible one is the line above\n"
                  f"print(snap({b}) == before)   # False: the {'original' if d == 0 else 'copy'} changed")
        else:
            s += "y = x.tagify(); before = snap(x); mutate_all(y); print(snap(x) == before)"
    elif opn == "c08_seq":
        s += f"before = snap(x)\n# operations: {tail}\n# (tg tagify, rd render, st str, rp repr, rh _repr_html_, gh get_html_string, gd get_dependencies, cp copy.copy,\n#  dt as_html_tags, dd as_dict, dm source_path_map, ds serialize_to_script_json)\nprint(snap(x) == before)"
    elif opn == "c08_views":
        s += "print(str(x) == repr(x) == x._repr_html_() == x.render()['html'])"
    return s


def _fails(drv, line):
    im = ops.run_line(line)
    h = drv.run([f"holds {PID} {line} | {im}"])[0]
    return h != "T", im, h


def _variants(n):
    k = n[0]
    if k == "tag":
        kids = n[4]
        for i in range(len(kids)):
            yield ("tag", n[1], n[2], n[3], kids[:i] + kids[i + 1:])
        if n[3]:
            yield ("tag", n[1], n[2], [], kids)
        for i, c in enumerate(kids):
            for v in _variants(c):
                yield ("tag", n[1], n[2], n[3], kids[:i] + [v] + kids[i + 1:])
    elif k == "tobjL":
        kids = n[2]
        for i in range(len(kids)):
            yield ("tobjL", n[1], kids[:i] + kids[i + 1:])
        for i, c in enumerate(kids):
            for v in _variants(c):
                yield ("tobjL", n[1], kids[:i] + [v] + kids[i + 1:])
    elif k == "tobj1":
        yield n[2]
        for v in _variants(n[2]):
            yield ("tobj1", n[1], v)
    elif k == "dep":
        info = n[1]
        for key in ("script", "stylesheet", "metas"):
            if info[key]:
                d = dict(info)
                d[key] = info[key][:-1]
                yield ("dep", d, n[2], n[3])
        if info["source"] is not None:
            d = dict(info)
            d["source"] = None
            yield ("dep", d, n[2], n[3])
        if n[2]:
            yield ("dep", info, False, [])
            for i in range(len(n[3])):
                yield ("dep", info, True, n[3][:i] + n[3][i + 1:])
            for i, c in enumerate(n[3]):
                for v in _variants(c):
                    yield ("dep", info, True, n[3][:i] + [v] + n[3][i + 1:])
    elif k in ("text", "html", "robj") and len(n[1]) > 1:
        yield (k, n[1][:1])


def _list_variants(ks):
    for i in range(len(ks)):
        yield ks[:i] + ks[i + 1:]
    for i, c in enumerate(ks):
        for v in _variants(c):
            yield ks[:i] + [v] + ks[i + 1:]


def make_shrinker(ck):
    def shrink(f):
        if ck.driver is None or not f.line or f.line.startswith("py_pool"):
            return f
        opn, kind, term, extra, tail = _parse(f.line)
        if opn in ("eq", "eq_list"):
            return f
        cur, cur_extra, steps, improved = term, extra, 0, True
        while improved and steps < 300:
            improved = False
            cands = list(_list_variants(cur)) if isinstance(cur, list) else [v for v in _variants(cur) if v[0] == cur[0]]
            for v in cands:
                steps += 1
                if _fails(ck.driver, _mk(opn, kind, v, cur_extra, tail))[0]:
                    cur, improved = v, True
                    break
            if not improved and opn == "c08_doc" and cur_extra and len(cur_extra) > 1:
                for i in range(len(cur_extra)):
                    e2 = cur_extra[:i] + cur_extra[i + 1:]
                    steps += 1
                    if _fails(ck.driver, _mk(opn, kind, cur, e2, tail))[0]:
                        cur_extra, improved = e2, True
                        break
        line = _mk(opn, kind, cur, cur_extra, tail)
        bad, im, h = _fails(ck.driver, line)
        if not bad:
            line, im, h = f.line, f.impl, f.detail
        return core.Failure("property", line=line, impl=im, model=ck.driver.run([line])[0],
                            detail=f"clause {h} of the executable statement fails on the implementation's answer; "
                                   "model_output is what the property prescribes", py=snippet(line))
    return shrink


def replay(body: dict) -> int:
    line = body.get("line")
    if not line or line.startswith("py_pool"):
        import json
        print(json.dumps(body, indent=1))
        print("no wire input in this replay file")
        return 1
    drv = core.Driver()
    bad, im, h = _fails(drv, line)
    print("line  :", line)
    print("impl  :", im)
    print("model :", drv.run([line])[0])
    print("holds :", h)
    print(snippet(line))
    return 1 if bad else 0


# ------------------------------------------------------------------ run
def run(tier: str) -> int:
    ck = core.Check(PID, tier, PROP_FILES)
    ck.prepare()
    rng = ck.rng
    ck.rule = ("a case is one receiver taken through one observation: a history of read-only operations with a deep snapshot after "
               "each (c08_seq / c08_doc), tagify() with the id() sets of both trees (c08_tagify), every public mutator on every object "
               "of one side (c08_mutate), the four string views (c08_views), or one == (eq); non-trivial when the receiver holds a "
               "dependency, a tagifiable object, a metadata node or attributes (c08_seq: and the history has >= 2 operations); "
               "distinct by wire term")
    ck.assumptions += [
        "wire receivers are alias-free (no object at two positions); aliasing, dependencies with files on disk and save_html on "
        "Tag/TagList receivers are exercised by the Python-side snapshot oracle (py_pool) only",
        "user objects are the harness' helper classes: tagify() of a tagifiable object returns tagify()/copy() of what it holds",
        "freshness / independence are claimed for trees without an un-expanded tagifiable object inside a dependency head "
        "(tagify() never looks into heads); on such inputs model and implementation are still compared",
        "Version ranks are computed by packaging and passed in; dependency sources are None / href (subdir sources need files: py_pool)",
    ]
    lines, nontriv, tags = [], [], []

    def push(l, nt, tag):
        lines.append(l)
        nontriv.append(nt)
        tags.append(tag)

    def interesting(term):
        ts = term if isinstance(term, list) else [term]
        return any(has_dep(t) or has_obj(t) or gen.count_nodes(t) > 2 for t in ts)

    # 0. corpus
    for t in CORPUS:
        for opn in ("c08_tagify", "c08_mutate", "c08_views"):
            push(recv_line(opn, "tag", t), True, "corpus")
        push(recv_line("c08_tagify", "list", [t, T("s")]), True, "corpus")
        push(recv_line("c08_mutate", "list", [t, ("meta", 4)]), True, "corpus")
    for kw in KW_POOL:
        push(doc_line(W_C08A, kw), True, "corpus")

    # 1. exhaustive: operation histories
    for l in seq_lines(ck, tier):
        push(l, l.count(" ") > 0 and not l.endswith("[ ]"), "seq-exhaustive")

    # 2. exhaustive: small trees
    b_tag = 4 if tier == "quick" else 5
    b_mut = 4 if tier == "quick" else 5
    n_t = n_m = 0
    for t in gen.trees_upto(b_tag, small_leaves(), small_tags()):
        if t[0] != "tag":
            continue
        n = gen.count_nodes(t)
        push(recv_line("c08_tagify", "tag", t), interesting(t), "tagify-exhaustive")
        n_t += 1
        if n <= b_mut:
            push(recv_line("c08_mutate", "tag", t), interesting(t), "mutate-exhaustive")
            push(recv_line("c08_views", "tag", t), interesting(t), "views-exhaustive")
            n_m += 1
    for f in gen.forests_upto(3 if tier == "quick" else 4, small_leaves(), small_tags()):
        push(recv_line("c08_tagify", "list", f), interesting(f), "tagify-exhaustive")
        if sum(gen.count_nodes(c) for c in f) <= 3:
            push(recv_line("c08_mutate", "list", f), interesting(f), "mutate-exhaustive")
            push(recv_line("c08_views", "list", f), interesting(f), "views-exhaustive")
        n_t += 1
    ck.exhaustive_scopes.append({
        "scope": f"all tag-rooted trees with <= {b_tag} nodes (tagify; <= {b_mut} nodes also every mutator and the four views) and all "
                 "top-level lists over 2 tag kinds x 7 leaf kinds (str, HTML, _repr_html_ object, metadata node, dependency with script "
                 "and a head holding a tag, list-kind object holding a metadata node, single-kind object holding a tag)",
        "receivers": n_t, "with_mutators": n_m, "exhaustive": True})

    # 3. exhaustive: documents
    n_d = 0
    for c in doc_contents():
        for kw in KW_POOL:
            push(doc_line(c, kw), True, "doc-exhaustive")
            n_d += 1
    ck.exhaustive_scopes.append({"scope": f"{len(doc_contents())} content shapes (sole <html> with/without head and attributes, sole <body>, "
                                          f"fragments, tagifiable content, empty) x {len(KW_POOL)} html attribute argument sets, each through "
                                          "render() x 2 settings, save_html() x 2 settings, render() again", "documents": n_d, "exhaustive": True})

    # 4. random
    for _ in range(ck.budget(1500, 30000)):
        t = rand_tag(rng, rng.randint(1, 5), p_obj=rng.choice([0.0, 0.3, 0.5]))
        push(recv_line("c08_tagify", "tag", t), interesting(t), "tagify-random")
    for _ in range(ck.budget(600, 10000)):
        ks = [rand_t(rng, rng.randint(0, 4)) for _ in range(rng.randint(0, 5))]
        push(recv_line("c08_tagify", "list", ks), interesting(ks), "tagify-random")
    for _ in range(ck.budget(600, 10000)):
        if rng.random() < 0.3:
            ks = [rand_t(rng, rng.randint(0, 3)) for _ in range(rng.randint(0, 4))]
            push(recv_line("c08_mutate", "list", ks), interesting(ks), "mutate-random")
        else:
            t = rand_tag(rng, rng.randint(1, 4), p_obj=rng.choice([0.0, 0.3]))
            push(recv_line("c08_mutate", "tag", t), interesting(t), "mutate-random")
    for _ in range(ck.budget(600, 10000)):
        t = rand_tag(rng, rng.randint(1, 4), p_obj=0.4)
        push(recv_line("c08_views", "tag", t), True, "views-random")
    for _ in range(ck.budget(2000, 40000)):
        push(rand_seq_line(rng), True, "seq-random")
    for _ in range(ck.budget(600, 8000)):
        push(rand_doc(rng), True, "doc-random")

    # 5. equality on single-edit pairs
    eqs = eq_lines(rng, ck.budget(150, 2500))
    expect = {}
    for l, exp, lab in eqs:
        push(l, True, "eq-" + ("same" if exp else "differs"))
        expect[l] = (exp, lab)

    impl = core.impl_many(lines)
    seen_result = {}
    for l, im, nt, tg in zip(lines, impl, nontriv, tags):
        flag = ":impure" if " pure F" in im else ":leak" if (l.startswith("c08_mutate") and "F" in im.split()) else ""
        ck.add(l, im, nontrivial=nt, tag=tg + flag)
        # Python-side oracles, independent of the Lean model
        if l in expect:
            exp, lab = expect[l]
            want = ("T T" if exp else "F F")
            if im != want:
                ck.py_violation(l, im, f"== on a pair differing only in [{lab}] answered {im}, the property says {want}")
        elif l.startswith("c08_seq "):
            opn, kind, term, _x, tail = _parse(l)
            if not im.startswith("pure T"):
                continue    # reported through the executable statement
            try:
                res = _split_results(im)
            except Exception:
                continue
            key0 = l[: len(l) - len(tail)]
            for o, r in zip(_split_ops(tail), res):
                if seen_result.setdefault((key0, o), r) != r:
                    ck.py_violation(l, im, f"operation `{o}` returned different values in two histories on the same receiver",
                                    py=snippet(l))
    ck.add_src(['equals_impl', 'Tag_eq', 'TagList_eq', 'HTMLDependency_eq'], quick=250, thorough=2500)
    ck.add_src(['Tag_repr', 'Tag_repr_html', 'TagList_repr', 'TagList_repr_html'], quick=60, thorough=400)
    __import__('srctie_c18').add_src_c18(ck, ['render_tag_or_taglist', 'Tag_str', 'TagList_str'], quick=200, thorough=2000)   # str views: op srcc18 (render mode)
    ck.add_src(['Tag_copyC08b', 'HTMLDocument_copyC08b', 'copy_tag_nodesC08b', 'HTMLDependency_copyC08b', 'HTMLDependency_reprC08b', 'HTMLDependency_strC08b'], quick=120, thorough=1200); __import__('srctie_c08b').add_src_c08b(ck, ['Tag_copyHC08b', 'HTMLDocument_copyHC08b', 'copy_tag_nodesHC08b', 'HTMLDependency_copyHC08b'], quick=150, thorough=1500)   # copies: by value (op src) and over the heap (op srcc08b)
    ck.correspond(holds=True)
    n_py = snapshot_oracle(ck, rng, 2 if tier == "quick" else 12)
    ck.extra_cov["jsx_receiver_cases"] = jsx_receiver_oracle(ck)
    ck.extra_cov["py_pool_operations"] = n_py
    ck.extra_cov["extra_evaluations"] = n_py
    shrink = make_shrinker(ck)
    report_other_classes(ck, shrink)
    return ck.finish(shrink=shrink)


def classify(f) -> str:
    """which clause of the property a failing input is about (one VIOLATION line per clause that fails)"""
    d = f.detail or ""
    if f.line.startswith("c08_doc"):
        return "1-document-render-modifies-user-objects"
    if "tagify_fresh" in d or "independent" in d or f.impl == "shared":
        return "2-tagify-copy-shares-objects"
    if "pure" in d or "repeat" in d or f.impl in ("receiver changed", "result changed"):
        return "3-read-only-operation-not-pure"
    if f.line.startswith("eq"):
        return "5-equality"
    return "4-" + (d.split(":")[1] if d.startswith("F:") and ":" in d[2:] else d[2:] if d.startswith("F:") else "other")


def report_other_classes(ck, shrink):
    """core.finish() reports the first failing input; when inputs fail for different clauses of the statement
    (two independent defects), each further clause gets its own replay file and VIOLATION line here."""
    known = core.load_known()
    if any(k["property"] == PID for k in known.get("findings", [])):
        return        # recorded findings are filtered by finish(); keep a single report
    prop = [f for f in ck.failures if f.kind == "property"] + ck.py_fail
    classes = {}
    for f in prop:
        classes.setdefault(classify(f), []).append(f)
    if len(classes) <= 1:
        return
    names = sorted(classes)
    os.makedirs(os.path.join(core.VERIF, "replays"), exist_ok=True)
    for nm in names[1:]:
        f = classes[nm][0]
        try:
            f = shrink(f) or f
        except Exception:
            pass
        body = {"property": PID, "kind": "failing-input", "clause": nm, "line": f.line, "impl_output": f.impl,
                "model_output": f.model, "detail": f.detail, "python": f.py, "n_failing_inputs": len(classes[nm])}
        print(f"VIOLATION property={PID} replay={ck._write_replay(body)}")
    # finish() takes the first property failure: make it one of the first clause
    main = set(id(f) for f in classes[names[0]])
    ck.failures.sort(key=lambda f: 0 if id(f) in main else 1)
    ck.py_fail.sort(key=lambda f: 0 if id(f) in main else 1)


def _split_ops(tail: str):
    toks = tail.split()
    assert toks[0] == "[" and toks[-1] == "]"
    toks = toks[1:-1]
    out, i = [], 0
    arity = {"gh": 2, "gd": 1, "dt": None, "dd": None, "dm": None, "ds": None}
    while i < len(toks):
        c = toks[i]
        if c in ("dt", "dd", "dm"):
            n = 3 if toks[i + 1] == "S" else 2      # optStr + bool
        elif c == "ds":
            n = 2 if toks[i + 1] == "I" else 1
        else:
            n = arity.get(c, 0) or 0
        out.append(" ".join(toks[i:i + 1 + n]))
        i += 1 + n
    return out


def _split_results(im: str):
    """the items of `pure T [ ; r1 ; r2 … ]`"""
    body = im.split(" ", 2)[2].strip()
    assert body.startswith("[") and body.endswith("]")
    inner = body[1:-1].strip()
    return [x.strip() for x in (" " + inner).split(" ; ")[1:]] if inner else []
