/-
The read-only operations of C08 as state transformers: `step op receiver counter = (observed result, receiver', counter')`.

"Mutation becomes returned state" (DESIGN §3.2): an operation that is supposed to be pure returns the receiver as the
code leaves it, so that purity is the statement `receiver' = receiver`.  None of the Tag / TagList / HTMLDependency
operations writes to anything reachable from its receiver (they work on the copy `tagify()` made, or only read);
`HTMLDocument.render()` did, in its sole-`<html>` branch (`docGenTreePinned`, F-C08a), and no longer does
(`docGenTree`).  The *observed* result is the result by value (ids forgotten).

  Tag.tagify / render / __str__ / __repr__ / _repr_html_ / get_html_string / get_dependencies   _core.py:844-978
  TagList.tagify / render / … / get_html_string / get_dependencies                               _core.py:323-509
  _render_tag_or_taglist                                                                          _core.py:1003-1020
  HTMLDependency.as_html_tags / as_dict / source_path_map / serialize_to_script_json             _core.py:1635-1740
  HTMLDocument._gen_html_tag_tree                                                                 _core.py:1142-1174
-/
import HtmlVerif.Model.Ident
import HtmlVerif.Model.Deps
import HtmlVerif.Model.DepTags
import HtmlVerif.Model.TextDoc

namespace HtmlVerif.Ident
open HtmlVerif

/-- `htmltools.html_dependency_render_mode` -/
inductive RenderMode
  | invisible      -- the default
  | json
  deriving DecidableEq, Repr, Inhabited

/-- the read-only operations (Tag, TagList or HTMLDependency receiver) -/
inductive ReadOp
  | tagify
  | render
  | strOf (mode : RenderMode)          -- `str(x)`
  | reprOf (mode : RenderMode)         -- `repr(x)`
  | reprHtmlOf (mode : RenderMode)     -- `x._repr_html_()`
  | getHtmlString (indent : Nat) (eol : Str)
  | getDeps (dedup : Bool)
  | copy                               -- `copy.copy(x)`
  | depAsHtmlTags (lp : Option Str) (iv : Bool)
  | depAsDict (lp : Option Str) (iv : Bool)
  | depSourcePathMap (lp : Option Str) (iv : Bool)
  | depSerialize (indent : Option Nat)
  deriving Repr, Inhabited

/-- what an operation returns, by value -/
inductive Obs
  | tree (n : Node)
  | list (ks : Nodes)
  | rendered (html : Except Err Str) (deps : List Tagify.DepEntry)
  | text (s : Except Err Str)
  | deps (ds : List Node)
  | nodes (r : Except Err Nodes)
  | dict (r : Except Err DepDict)
  | pathMap (m : PathMap)
  | notApplicable                      -- the receiver has no such method
  deriving Inhabited

/-- `_render_tag_or_taglist` given what `render()` returned -/
def strOfRendered (cfg : Cfg) (mode : RenderMode) (r : Rendered) : Except Err Str :=
  match mode with
  | .invisible => r.html
  | .json =>
    match r.html with
    | .error e => .error e
    | .ok h => .ok (jsonModeStr h (r.deps.map fun e => sdepOfNode cfg e.1 e.2.1 e.2.2))

/-- `str(tag)` -/
def strView (cfg : Cfg) (mode : RenderMode) (x : Node) : Except Err Str := strOfRendered cfg mode (renderOfTag cfg x)
/-- `repr(tag)`: `return str(self)` -/
def reprView (cfg : Cfg) (mode : RenderMode) (x : Node) : Except Err Str := strView cfg mode x
/-- `tag._repr_html_()`: `return str(self)` -/
def reprHtmlView (cfg : Cfg) (mode : RenderMode) (x : Node) : Except Err Str := strView cfg mode x
/-- `tag.render()["html"]` -/
def renderHtmlView (cfg : Cfg) (x : Node) : Except Err Str := (renderOfTag cfg x).html

/-- the same four for a TagList -/
def strViewList (cfg : Cfg) (mode : RenderMode) (ks : Nodes) : Except Err Str := strOfRendered cfg mode (renderOfList cfg ks)
def reprViewList (cfg : Cfg) (mode : RenderMode) (ks : Nodes) : Except Err Str := strViewList cfg mode ks
def reprHtmlViewList (cfg : Cfg) (mode : RenderMode) (ks : Nodes) : Except Err Str := strViewList cfg mode ks
def renderHtmlViewList (cfg : Cfg) (ks : Nodes) : Except Err Str := (renderOfList cfg ks).html

/-- `dep.serialize_to_script_json(indent)`: the `script` tag; RuntimeError when `head` holds an un-expanded object -/
def serializeDep (cfg : Cfg) (d : DepInfo) (hh : Bool) (hd : Nodes) (ind : Option Nat) : Except Err Nodes :=
  if hh && hd.hasTobjKids then .error .runtimeError
  else .ok (.cons (serNode ind (sdepOfNode cfg d hh hd)) .nil)

/-- the value an operation returns, as a function of the receiver's value (a Tag, or an HTMLDependency) -/
def ReadOp.obs (cfg : Cfg) : ReadOp → Node → Obs
  | .tagify, x => .tree (tagifyTag x)
  | .render, x => .rendered (renderOfTag cfg x).html (renderOfTag cfg x).deps
  | .strOf m, x => .text (strView cfg m x)
  | .reprOf m, x => .text (reprView cfg m x)
  | .reprHtmlOf m, x => .text (reprHtmlView cfg m x)
  | .getHtmlString i e, x => .text (renderTagChecked cfg x i e)
  | .getDeps dd, x => .deps (x.getDeps dd)
  | .copy, x => .tree x
  | .depAsHtmlTags lp iv, .dep d hh hd => .nodes (asHtmlTags cfg d hh hd lp iv)
  | .depAsDict lp iv, .dep d hh hd => .dict (asDict cfg d hh hd lp iv)
  | .depSourcePathMap lp iv, .dep d _ _ => .pathMap (sourcePathMap d lp iv)
  | .depSerialize ind, .dep d hh hd => .nodes (serializeDep cfg d hh hd ind)
  | _, _ => .notApplicable

/-- the same for a TagList receiver -/
def ReadOp.obsList (cfg : Cfg) : ReadOp → Nodes → Obs
  | .tagify, ks => .list (tagifyNodes ks)
  | .render, ks => .rendered (renderOfList cfg ks).html (renderOfList cfg ks).deps
  | .strOf m, ks => .text (strViewList cfg m ks)
  | .reprOf m, ks => .text (reprViewList cfg m ks)
  | .reprHtmlOf m, ks => .text (reprHtmlViewList cfg m ks)
  | .getHtmlString i e, ks => .text (renderListChecked cfg ks i e true true)
  | .getDeps dd, ks => .deps (ks.getDeps dd)
  | .copy, ks => .list ks
  | _, _ => .notApplicable

/-- one operation on a Tag / HTMLDependency receiver: `(result, receiver afterwards, counter afterwards)`.
    `render` and the string views work on `cp = self.tagify()`; `get_html_string` / `get_dependencies` and the
    dependency methods only read (`as_dict` deep-copies `script` / `stylesheet` before rewriting the URLs in the copies). -/
def ReadOp.step (cfg : Cfg) (o : ReadOp) (x : ITree) (n : Nat) : Obs × ITree × Nat :=
  match o with
  | .tagify => let r := x.itagifyTag n; (.tree r.1.erase, x, r.2)
  | .render =>
    let r := x.itagifyTag n
    (.rendered (renderTagChecked cfg r.1.erase 0 ['\n']) (Tagify.resolveDeps (Tagify.collectDeps r.1.erase)), x, r.2)
  | .strOf m =>
    let r := x.itagifyTag n
    (.text (strOfRendered cfg m { deps := Tagify.resolveDeps (Tagify.collectDeps r.1.erase),
                                  html := renderTagChecked cfg r.1.erase 0 ['\n'] }), x, r.2)
  | .reprOf m =>
    let r := x.itagifyTag n
    (.text (strOfRendered cfg m { deps := Tagify.resolveDeps (Tagify.collectDeps r.1.erase),
                                  html := renderTagChecked cfg r.1.erase 0 ['\n'] }), x, r.2)
  | .reprHtmlOf m =>
    let r := x.itagifyTag n
    (.text (strOfRendered cfg m { deps := Tagify.resolveDeps (Tagify.collectDeps r.1.erase),
                                  html := renderTagChecked cfg r.1.erase 0 ['\n'] }), x, r.2)
  | .copy => let r := x.icopyShallow n; (.tree r.1.erase, x, r.2)
  | o => (o.obs cfg x.erase, x, n)

/-- one operation on a TagList receiver (the list object `lid` holding `ks`) -/
def ReadOp.stepList (cfg : Cfg) (o : ReadOp) (s : Nat × ITrees) (n : Nat) : Obs × (Nat × ITrees) × Nat :=
  match o with
  | .tagify => let r := s.2.itagifyList n; (.list r.2.1.eraseAll, s, r.2.2)
  | .render =>
    let r := s.2.itagifyList n
    (.rendered (renderListChecked cfg r.2.1.eraseAll 0 ['\n'] true true)
       (Tagify.resolveDeps (Tagify.collectDepsKids r.2.1.eraseAll)), s, r.2.2)
  | .strOf m =>
    let r := s.2.itagifyList n
    (.text (strOfRendered cfg m { deps := Tagify.resolveDeps (Tagify.collectDepsKids r.2.1.eraseAll),
                                  html := renderListChecked cfg r.2.1.eraseAll 0 ['\n'] true true }), s, r.2.2)
  | .reprOf m =>
    let r := s.2.itagifyList n
    (.text (strOfRendered cfg m { deps := Tagify.resolveDeps (Tagify.collectDepsKids r.2.1.eraseAll),
                                  html := renderListChecked cfg r.2.1.eraseAll 0 ['\n'] true true }), s, r.2.2)
  | .reprHtmlOf m =>
    let r := s.2.itagifyList n
    (.text (strOfRendered cfg m { deps := Tagify.resolveDeps (Tagify.collectDepsKids r.2.1.eraseAll),
                                  html := renderListChecked cfg r.2.1.eraseAll 0 ['\n'] true true }), s, r.2.2)
  | .copy => (.list s.2.eraseAll, s, n + 1)            -- `UserList.__copy__`: a new list holding the same children
  | o => (o.obsList cfg s.2.eraseAll, s, n)

/-- a history of operations on one receiver: the results in order, the receiver and the counter at the end -/
def runSeq {σ ω κ : Type} (step : κ → σ → Nat → ω × σ × Nat) : List κ → σ → Nat → List ω × σ × Nat
  | [], s, n => ([], s, n)
  | o :: r, s, n =>
    let a := step o s n
    let b := runSeq step r a.2.1 a.2.2
    (a.1 :: b.1, b.2.1, b.2.2)

/-! ### HTMLDocument._gen_html_tag_tree — the part of `HTMLDocument.render()` that handles the user's objects -/

/-- an HTMLDocument: `_content` (a TagList object) and `_html_attr_args` (the constructor's keyword arguments) -/
structure IDoc where
  cid     : Nat
  content : ITrees
  args    : List (Str × AttrArg)

def nHtml : Str := ['h', 't', 'm', 'l']
def nBody : Str := ['b', 'o', 'd', 'y']
def nHead : Str := ['h', 'e', 'a', 'd']

/-- `html.attrs.update(**self._html_attr_args)` on a tag value -/
def updateRootAttrs (cfg : Cfg) (args : List (Str × AttrArg)) : Node → Except Err Node
  | .tag nm w a k =>
    match attrsUpdate cfg a [args] with
    | .ok a' => .ok (.tag nm w a' k)
    | .error e => .error e
  | x => .ok x

/-- `Tag("html", Tag("head"), body, _add_ws=True, **self._html_attr_args)` -/
def wrapHtml (cfg : Cfg) (args : List (Str × AttrArg)) (body : Node) : Except Err Node :=
  match tagInitAttrs cfg [] args with
  | .ok a => .ok (.tag nHtml true a (.cons (.tag nHead true [] .nil) (.cons body .nil)))
  | .error e => .error e

/-- `_gen_html_tag_tree` up to the call of `_hoist_head_content`, as repaired: `(the <html> tree handed to
    _hoist_head_content, the document afterwards, counter)`.  Sole `<html>` content: tagify FIRST, then update the
    attributes of the copy. -/
def docGenTree (cfg : Cfg) (d : IDoc) (n : Nat) : Except Err Node × IDoc × Nat :=
  match d.content with
  | .cons (.tag i a k nm w at' kids) .nil =>
    let r := (ITree.tag i a k nm w at' kids).itagifyTag n
    if nm = nHtml then (updateRootAttrs cfg d.args r.1.erase, d, r.2)
    else if nm = nBody then (wrapHtml cfg d.args r.1.erase, d, r.2)
    else
      -- `Tag("body", content)`: Tag n, attrs n+1, child list n+2 holding the same children; then `.tagify()`
      let r := (ITree.tag n (n + 1) (n + 2) nBody true [] d.content).itagifyTag (n + 3)
      (wrapHtml cfg d.args r.1.erase, d, r.2)
  | c =>
    let r := (ITree.tag n (n + 1) (n + 2) nBody true [] c).itagifyTag (n + 3)
    (wrapHtml cfg d.args r.1.erase, d, r.2)

/-- the same as the PINNED code wrote it: in the sole-`<html>` branch `html.attrs.update(...)` ran on the user's
    own tag before `tagify()` -/
def docGenTreePinned (cfg : Cfg) (d : IDoc) (n : Nat) : Except Err Node × IDoc × Nat :=
  match d.content with
  | .cons (.tag i a k nm w at' kids) .nil =>
    if nm = nHtml then
      match attrsUpdate cfg at' [d.args] with
      | .error e => (.error e, d, n)
      | .ok at'' =>
        let recv := ITree.tag i a k nm w at'' kids             -- the user's tag, updated in place
        let r := recv.itagifyTag n
        (.ok r.1.erase, { d with content := .cons recv .nil }, r.2)
    else if nm = nBody then
      let r := (ITree.tag i a k nm w at' kids).itagifyTag n
      (wrapHtml cfg d.args r.1.erase, d, r.2)
    else
      let r := (ITree.tag n (n + 1) (n + 2) nBody true [] d.content).itagifyTag (n + 3)
      (wrapHtml cfg d.args r.1.erase, d, r.2)
  | c =>
    let r := (ITree.tag n (n + 1) (n + 2) nBody true [] c).itagifyTag (n + 3)
    (wrapHtml cfg d.args r.1.erase, d, r.2)

/-- `HTMLDocument.render()` / `save_html()`: everything after `_gen_html_tag_tree` built its tree
    (`_hoist_head_content`, `render()`, the doctype; for `save_html` the files written) is a function `rest` of that
    tree (a tagified copy) — the document model of C11 / C12 -/
def docRender {ρ : Type} (rest : Node → ρ) (cfg : Cfg) (d : IDoc) (n : Nat) : Except Err ρ × IDoc × Nat :=
  let r := docGenTree cfg d n
  (r.1.map rest, r.2.1, r.2.2)

/-- the attributes of the document's first content item, if it is a tag (what F-C08a changes) -/
def IDoc.rootAttrs (d : IDoc) : Option Attrs :=
  match d.content with
  | .cons (.tag _ _ _ _ _ a _) _ => some a
  | _ => none

end HtmlVerif.Ident
