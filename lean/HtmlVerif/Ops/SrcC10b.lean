/-
Driver op that *runs* the regenerated `HTMLDependency._validate_dict` / `_validate_dicts` / `__init__` with what
`packaging.version.Version` answers taken from the line (DESIGN §14, translator validation):

  srcc10b [ (<raw> <T|F> <rank> <str(Version)>)… ] <function> [ <pval>… ]      → ok <pval> | err <kind> | unsupported

The table says, for each version string the harness expects the function to parse, whether `packaging` accepts it and,
if so, the rank the harness gives the resulting Version and its `str()`.  A string that is parsed but is not in the table
yields a marked object and the answer is `unsupported` — no verdict, never a guess.  The pval syntax is that of
`Ops/Src.lean`.
-/
import HtmlVerif.Ops.Base
import HtmlVerif.Generated.Src

namespace HtmlVerif.Ops
open HtmlVerif HtmlVerif.Wire HtmlVerif.Py

private def c10bUnknown : PVal := .obj "VersionNotInTable" []

private def c10bG (tbl : List (Str × Bool × Nat × Str)) : Globals :=
  { HTML_ESCAPE_TABLE := embTbl cfg.textTbl, HTML_ATTRS_ESCAPE_TABLE := embTbl cfg.attrTbl,
    VOID_TAG_NAMES := cfg.void, NO_ESCAPE_TAG_NAMES := cfg.noesc, isSpace := fun _ => false, lower := id,
    mkVersion := fun s => match tbl.find? (fun e => e.1 == s) with
      | some (_, true, r, t) => some (versionObjC10b r t)
      | some (_, false, _, _) => none
      | none => some c10bUnknown }

private partial def c10bPVal : P PVal := do
  let t ← next
  match t with
  | "N" => pure .none
  | "T" => pure (.bool true)
  | "F" => pure (.bool false)
  | "I" => do
    let s ← next
    match s.toInt? with
    | some n => pure (.int n)
    | none => throw s!"bad int {s}"
  | "D" => .float <$> str
  | "S" => .str <$> str
  | "H" => .html <$> str
  | "L" => .list <$> listOf c10bPVal
  | "U" => .tuple <$> listOf c10bPVal
  | "M" => .dict <$> listOf (do let k ← str; let v ← c10bPVal; pure (k, v))
  | "O" => do
    let c ← next
    let fs ← listOf (do let k ← next; let v ← c10bPVal; pure (k, v))
    pure (.obj c fs)
  | _ => throw s!"bad pval {t}"

private partial def c10bEnc : PVal → String
  | .none => "N"
  | .bool true => "T"
  | .bool false => "F"
  | .int n => s!"I {n}"
  | .float t => "D " ++ encStr t
  | .str s => "S " ++ encStr s
  | .html s => "H " ++ encStr s
  | .list xs => "L " ++ encList (xs.map c10bEnc)
  | .tuple xs => "U " ++ encList (xs.map c10bEnc)
  | .dict kvs => "M " ++ encList (kvs.map fun kv => encStr kv.1 ++ " " ++ c10bEnc kv.2)
  | .obj c fs => "O " ++ c ++ " " ++ encList (fs.map fun kv => kv.1 ++ " " ++ c10bEnc kv.2)

/-- the value holds a Version the table says nothing about -/
private partial def c10bTainted : PVal → Bool
  | .list xs => xs.any c10bTainted
  | .tuple xs => xs.any c10bTainted
  | .dict kvs => kvs.any fun kv => c10bTainted kv.2
  | .obj c fs => c == "VersionNotInTable" || fs.any fun kv => c10bTainted kv.2
  | _ => false

private def c10bErr : PyErr → String
  | .typeError => "err TypeError"
  | .valueError => "err ValueError"
  | .keyError => "err KeyError"
  | .indexError => "err IndexError"
  | .attributeError => "err AttributeError"
  | .runtimeError => "err RuntimeError"
  | .notImplemented => "err NotImplementedError"
  | .exception => "err Exception"
  | .fuel => "unsupported fuel"
  | .unsupported => "unsupported"

def srcC10bOps : OpTable
  | "srcc10b" => some do
    let tbl ← listOf (do
      let raw ← str
      let ok ← bool
      let r ← nat
      let t ← str
      pure (raw, ok, r, t))
    let f ← next
    let a ← listOf c10bPVal
    match Generated.Src.runByName (c10bG tbl) f a with
    | none => pure "unsupported"      -- not translated (left the fragment) or unknown: no verdict
    | some r =>
      match r with
      | .ok v => pure (if c10bTainted v then "unsupported version" else "ok " ++ c10bEnc v)
      | .error e => pure (c10bErr e)
  | _ => none

end HtmlVerif.Ops
