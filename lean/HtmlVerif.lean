-- Root of the `HtmlVerif` library.
import HtmlVerif.Generated.Tables
import HtmlVerif.Generated.TagFns
import HtmlVerif.Model.Str
import HtmlVerif.Model.Escape
import HtmlVerif.Model.Tree
import HtmlVerif.Model.Render
