/-
Helper lemmas for the consolidate_attrs round trip (C15): a stored attribute dict, handed back as a
positional dict argument, reproduces itself.
-/
import HtmlVerif.Lemmas.AttrMerge
import HtmlVerif.Model.Consolidate

namespace HtmlVerif

theorem groupVals_of_not_mem (k : Str) (r : List (Str × AttrVal)) (h : k ∉ r.map Prod.fst) :
    groupVals k r = [] := by
  induction r with
  | nil => rfl
  | cons hd t ih =>
    obtain ⟨k', v⟩ := hd
    simp only [List.map_cons, List.mem_cons, not_or] at h
    rw [groupVals_cons_ne _ _ _ _ (Ne.symm h.1), ih h.2]

theorem withoutKey_of_not_mem (k : Str) (r : List (Str × AttrVal)) (h : k ∉ r.map Prod.fst) :
    withoutKey k r = r := by
  rw [withoutKey, List.filter_eq_self]
  intro kv hkv
  have : kv.1 ≠ k := fun e => h (e ▸ List.mem_map_of_mem hkv)
  simpa using this

/-- nothing to merge when the names are already distinct -/
theorem mergeSpecN_of_nodup (cfg : Cfg) (a : Attrs) (h : (keysOf a).Nodup) : mergeSpecN cfg a = a := by
  induction a with
  | nil => simp [mergeSpecN]
  | cons hd t ih =>
    obtain ⟨k, v⟩ := hd
    simp only [keysOf, List.map_cons, List.nodup_cons] at h
    rw [mergeSpecN_cons, groupVals_of_not_mem k t h.1, withoutKey_of_not_mem k t h.1,
      ih (by simpa [keysOf] using h.2)]
    rfl

theorem normPairs_cons (k : Str) (x : AttrArg) (r : List (Str × AttrArg)) :
    normPairs ((k, x) :: r) =
      match normValSpec x with
      | none => normPairs r
      | some v => (normNameSpec k, v) :: normPairs r := by
  simp only [normPairs, List.filterMap_cons]
  cases normValSpec x <;> rfl

theorem nodup_keysOf_mergeSpec (cfg : Cfg) (pairs : List (Str × AttrArg)) :
    (keysOf (mergeSpec cfg pairs)).Nodup := nodup_keysOf_mergeSpecN _ _

theorem normPairs_asDictArg (a : Attrs) (h : ∀ k ∈ keysOf a, normNameSpec k = k) :
    normPairs (asDictArg a) = a := by
  induction a with
  | nil => rfl
  | cons hd t ih =>
    obtain ⟨k, v⟩ := hd
    have hk : normNameSpec k = k := h k (by simp [keysOf])
    have ht := ih (fun k' hk' => h k' (by simp_all [keysOf]))
    cases v with
    | plain s =>
      show normPairs ((k, .str s) :: asDictArg t) = _
      rw [normPairs_cons, ht]; simp [normValSpec, hk]
    | html s =>
      show normPairs ((k, .html s) :: asDictArg t) = _
      rw [normPairs_cons, ht]; simp [normValSpec, hk]

theorem asDictArg_not_bad (a : Attrs) : ∀ kv ∈ asDictArg a, kv.2 ≠ .bad := by
  intro kv hkv
  simp only [asDictArg, List.mem_map] at hkv
  obtain ⟨x, _, rfl⟩ := hkv
  cases x.2 <;> simp

theorem normNameSpec_keys_normPairs (pairs : List (Str × AttrArg)) :
    ∀ k ∈ (normPairs pairs).map Prod.fst, normNameSpec k = k := by
  intro k hk
  simp only [normPairs, List.mem_map, List.mem_filterMap, Option.map_eq_some_iff] at hk
  obtain ⟨x, ⟨kv, _, v, _, rfl⟩, rfl⟩ := hk
  simp only
  rw [← normAttrName_eq_spec, ← normAttrName_eq_spec, normAttrName_idem]

theorem tagInitAttrs_flatten (dicts : List (List (Str × AttrArg))) (kw : List (Str × AttrArg)) :
    (if kw.isEmpty then dicts else dicts ++ [kw]).flatten = dicts.flatten ++ kw := by
  cases kw <;> simp

theorem nodup_dictUpdate (cur new : Attrs) (h : (keysOf cur).Nodup) : (keysOf (dictUpdate cur new)).Nodup := by
  induction new generalizing cur with
  | nil => simpa [dictUpdate]
  | cons hd t ih =>
    obtain ⟨k, v⟩ := hd
    rw [dictUpdate_cons]
    exact ih _ (nodup_dictSet k v cur h)

theorem nodup_attrsUpdate (cfg : Cfg) (cur new : Attrs) (args : List (List (Str × AttrArg)))
    (hwf : (keysOf cur).Nodup) (h : attrsUpdate cfg cur args = .ok new) : (keysOf new).Nodup := by
  simp only [attrsUpdate] at h
  split at h
  · cases h
  · rename_i attrz _
    cases h
    exact nodup_dictUpdate cur attrz hwf

/-- `attrs[k] = v` and `attrs.update({k: v})` are the same operation -/
theorem attrsUpdate_single (cfg : Cfg) (cur : Attrs) (k : Str) (v : AttrArg) :
    attrsUpdate cfg cur [[(k, v)]] = attrsSetItem cur k v := by
  cases v <;> simp [attrsSetItem, attrsUpdate, accumDicts, accumPairs, normAttrValue, alookup, dictSet, dictUpdate]

theorem dictUpdate_nil_left (new : Attrs) (hn : (keysOf new).Nodup) : dictUpdate [] new = new := by
  rw [dictUpdate_eq_override [] new (by simp) hn]
  simp only [overrideKeepOrder, List.map_nil, keysOf_nil, List.nil_append]
  exact List.filter_eq_self.mpr (by simp)

/-- closed form of the attribute half of `Tag.__init__` -/
theorem tagInitAttrs_eq (cfg : Cfg) (dicts : List (List (Str × AttrArg))) (kw : List (Str × AttrArg))
    (hok : ∀ kv ∈ dicts.flatten ++ kw, kv.2 ≠ .bad) :
    tagInitAttrs cfg dicts kw = .ok (mergeSpec cfg (dicts.flatten ++ kw)) := by
  rw [tagInitAttrs, attrsUpdate_eq cfg [] _ (by rw [tagInitAttrs_flatten]; exact hok),
    tagInitAttrs_flatten, dictUpdate_nil_left _ (nodup_keysOf_mergeSpec _ _)]

theorem tagInitAttrs_bad (cfg : Cfg) (dicts : List (List (Str × AttrArg))) (kw : List (Str × AttrArg))
    (hbad : ∃ kv ∈ dicts.flatten ++ kw, kv.2 = .bad) :
    tagInitAttrs cfg dicts kw = .error .typeError := by
  rw [tagInitAttrs, attrsUpdate_bad cfg [] _ (by rw [tagInitAttrs_flatten]; exact hbad)]

/-- a successful construction has the closed form (a value of invalid type would have raised) -/
theorem tagInitAttrs_ok_inv (cfg : Cfg) (dicts : List (List (Str × AttrArg))) (kw : List (Str × AttrArg))
    (a : Attrs) (h : tagInitAttrs cfg dicts kw = .ok a) :
    a = mergeSpec cfg (dicts.flatten ++ kw) ∧ ∀ kv ∈ dicts.flatten ++ kw, kv.2 ≠ .bad := by
  by_cases hb : ∃ kv ∈ dicts.flatten ++ kw, kv.2 = .bad
  · rw [tagInitAttrs_bad cfg dicts kw hb] at h; cases h
  · have hok : ∀ kv ∈ dicts.flatten ++ kw, kv.2 ≠ .bad := fun kv hkv e => hb ⟨kv, hkv, e⟩
    rw [tagInitAttrs_eq cfg dicts kw hok] at h
    exact ⟨by cases h; rfl, hok⟩

/-- the round trip at the level of attributes: a dict produced by one call reproduces itself -/
theorem tagInitAttrs_asDictArg (cfg : Cfg) (pairs : List (Str × AttrArg)) :
    tagInitAttrs cfg [asDictArg (mergeSpec cfg pairs)] [] = .ok (mergeSpec cfg pairs) := by
  rw [tagInitAttrs_eq cfg _ _ (by simpa using asDictArg_not_bad _)]
  have hkeys : ∀ k ∈ keysOf (mergeSpec cfg pairs), normNameSpec k = k := by
    intro k hk
    rw [mergeSpec, mem_keysOf_mergeSpecN] at hk
    exact normNameSpec_keys_normPairs pairs k hk
  simp only [List.flatten_cons, List.flatten_nil, List.append_nil]
  conv => lhs; rw [mergeSpec, normPairs_asDictArg _ hkeys]
  rw [mergeSpecN_of_nodup cfg _ (nodup_keysOf_mergeSpec _ _)]

theorem dictsOf_dict_children {α} (d : List (Str × AttrArg)) (cs : List α) :
    dictsOf (TagArg.dict d :: cs.map TagArg.child) = [d] := by
  induction cs with
  | nil => rfl
  | cons c t ih => simp_all [dictsOf]

theorem kidsOf_dict_children {α} (d : List (Str × AttrArg)) (cs : List α) :
    kidsOf (TagArg.dict d :: cs.map TagArg.child) = cs := by
  induction cs with
  | nil => rfl
  | cons c t ih => simp_all [kidsOf]

end HtmlVerif
