"""Value generators for the `src` lines of the C08 area (translator validation, DESIGN §14.3).

Objects are written with their real `__dict__` (attribute-creation order): Tag = name, add_ws, attrs, children,
prev_displayhook; TagList = data; HTMLDependency = name, version, source, script, stylesheet, meta, all_files, head.
Every comparison line pairs a value with (a) a rebuilt copy, (b) a near copy differing in exactly one place (name,
add_ws, one attribute's text / mark / presence / order, one child's text / kind / presence, one dependency field), or
(c) an unrelated value of any kind — so both answers of `==` are met at every depth."""
from __future__ import annotations

import copy

from wire import es
from srctie import S, H, rstr, scalar

VERSIONS = ["1.0", "1.0.0", "1.2", "0.9", "2.0", "1.10", "1.2.post1", "1.0rc1", "1", "2"]


def vrank(v: str) -> int:
    from packaging.version import Version
    order = sorted({Version(x) for x in VERSIONS})
    return order.index(Version(v))


def pv_version(v: str) -> str:
    return f"O Version [ __str__ {S(v)} rank I {vrank(v)} ]"


def pv_kvs(ds) -> str:
    return "L [ " + "".join("M [ " + "".join(es(k) + " " + S(v) + " " for k, v in d) + "] " for d in ds) + "]"


def pv_source(src) -> str:
    if src is None:
        return "N"
    if src[0] == "href":
        return f"M [ {es('href')} {S(src[1])} ]"
    return "M [ " + es("subdir") + " " + S(src[2]) + " " + (es("package") + " " + S(src[1]) + " " if src[1] is not None else "") + "]"


def pv_list(kids) -> str:
    return "O TagList [ data L [ " + "".join(pv(c) + " " for c in kids) + "] ]"


def pv(n) -> str:
    """a node term as the Python object `==` sees"""
    k = n[0]
    if k == "tag":
        attrs = "M [ " + "".join(es(a) + " " + ("H " if v[0] == "h" else "S ") + es(v[1]) + " " for a, v in n[3]) + "]"
        return (f"O Tag [ name {S(n[1])} add_ws {'T' if n[2] else 'F'} attrs {attrs} children {pv_list(n[4])} "
                f"prev_displayhook N ]")
    if k == "text":
        return S(n[1])
    if k == "html":
        return H(n[1])
    if k == "robj":
        return f"O EqReprObj [ s {S(n[1])} ]"
    if k == "meta":
        return f"O EqMeta [ n I {n[1]} ]"
    if k == "dep":
        d = n[1]
        return (f"O HTMLDependency [ name {S(d['name'])} version {pv_version(d['version'])} source {pv_source(d['source'])} "
                f"script {pv_kvs(d['script'])} stylesheet {pv_kvs(d['stylesheet'])} meta {pv_kvs(d['metas'])} "
                f"all_files {'T' if d['all_files'] else 'F'} head {pv_list(n[3]) if n[2] else 'N'} ]")
    if k == "foreign":
        return n[1]
    raise ValueError(k)


SRC = [None, ("href", "https://x/y"), ("href", "/z"), ("subdir", None, "lib"), ("subdir", "htmltools", "lib"), ("subdir", "pkg", "lib")]


def rand_dep(rng, depth):
    head = None
    if rng.random() < 0.45:
        head = [rand_t(rng, min(depth, 1)) for _ in range(rng.randint(0, 2))]
    info = dict(name=rng.choice(["a", "b", "jq"]), version=rng.choice(VERSIONS), source=rng.choice(SRC),
                script=[[("src", s)] for s in rng.sample(["s.js", "t.js", "u v.js"], rng.randint(0, 2))],
                stylesheet=[[("href", s), ("rel", "stylesheet")] for s in rng.sample(["c.css", "d.css"], rng.randint(0, 2))],
                metas=[[("name", "k"), ("content", "v")]] if rng.random() < 0.3 else [], all_files=rng.random() < 0.2)
    return ("dep", info, head is not None, list(head or []))


def rand_t(rng, depth):
    import gen
    r = rng.random()
    if depth <= 0 or r < 0.25:
        q = rng.random()
        if q < 0.35:
            return ("text", gen.rand_text(rng, 5))
        if q < 0.55:
            return ("html", gen.rand_text(rng, 5))
        if q < 0.67:
            return ("robj", rng.choice(["<u>", "", "a"]))
        if q < 0.80:
            return ("meta", rng.randint(0, 3))
        return rand_dep(rng, depth)
    name, ws = gen.rand_name(rng)
    return ("tag", name, ws if rng.random() < 0.85 else not ws, gen.rand_attrs(rng, 3),
            [rand_t(rng, depth - 1) for _ in range(rng.choice([0, 1, 1, 2, 2, 3]))])


def rand_tag(rng, depth):
    while True:
        n = rand_t(rng, depth)
        if n[0] == "tag":
            return n


def _paths(n, p=()):
    yield p
    if n[0] == "tag":
        for i, c in enumerate(n[4]):
            yield from _paths(c, p + (i,))
    elif n[0] == "dep" and n[2]:
        for i, c in enumerate(n[3]):
            yield from _paths(c, p + (i,))


def _kids(n):
    return n[4] if n[0] == "tag" else n[3]


def _edit_at(n, path, f):
    if not path:
        return f(n)
    n = list(n)
    idx = 4 if n[0] == "tag" else 3
    ks = list(n[idx])
    ks[path[0]] = _edit_at(ks[path[0]], path[1:], f)
    n[idx] = ks
    return tuple(n)


def _one_change(rng, n):
    """the same node with exactly one place changed (sometimes a change `==` must not see: attribute order, the
    str/HTML mark of a text with the same characters)"""
    k = n[0]
    if k == "text":
        return rng.choice([("html", n[1]), ("text", n[1] + "x"), ("text", n[1][:-1]), ("robj", n[1]), ("meta", 0)])
    if k == "html":
        return rng.choice([("text", n[1]), ("html", n[1] + " "), ("robj", n[1])])
    if k == "robj":
        return rng.choice([("robj", n[1] + "y"), ("html", n[1]), ("meta", 1)])
    if k == "meta":
        return rng.choice([("meta", n[1] + 1), ("text", str(n[1]))])
    if k == "tag":
        name, ws, attrs, kids = n[1], n[2], list(n[3]), list(n[4])
        c = rng.randrange(9)
        if c == 0:
            name = rng.choice([name + "x", name.upper(), "span" if name != "span" else "div"])
        elif c == 1:
            ws = not ws
        elif c == 2 and attrs:
            i = rng.randrange(len(attrs))
            a, v = attrs[i]
            attrs[i] = (a, rng.choice([("h" if v[0] == "p" else "p", v[1]), (v[0], v[1] + "z"), (v[0], v[1].upper())]))
        elif c == 3 and attrs:
            attrs.pop(rng.randrange(len(attrs)))
        elif c == 4:
            attrs.append(("data-q", ("p", "1")))
        elif c == 5 and len(attrs) > 1:
            attrs.reverse()
        elif c == 6 and kids:
            kids.pop(rng.randrange(len(kids)))
        elif c == 7:
            kids.insert(rng.randint(0, len(kids)), rng.choice([("text", ""), ("text", "k"), ("meta", 0), ("tag", "b", False, [], [])]))
        elif c == 8 and len(kids) > 1:
            kids.reverse()
        return ("tag", name, ws, attrs, kids)
    if k == "dep":
        d = copy.deepcopy(n[1])
        hh, head = n[2], list(n[3])
        c = rng.randrange(9)
        if c == 0:
            d["name"] += "x"
        elif c == 1:
            d["version"] = rng.choice(VERSIONS)          # possibly another spelling of the same version
        elif c == 2:
            d["source"] = rng.choice(SRC)
        elif c == 3:
            d["script"] = d["script"][1:] if d["script"] else [[("src", "n.js")]]
        elif c == 4:
            d["stylesheet"] = [list(reversed(x)) for x in d["stylesheet"]] or [[("href", "n.css"), ("rel", "stylesheet")]]
        elif c == 5:
            d["metas"] = [] if d["metas"] else [[("name", "k"), ("content", "w")]]
        elif c == 6:
            d["all_files"] = not d["all_files"]
        elif c == 7:
            hh, head = (False, []) if hh else (True, [])
        elif c == 8 and hh:
            head.append(("text", "h"))
        return ("dep", d, hh, head)
    return n


def near_copy(rng, n):
    ps = list(_paths(n))
    p = rng.choice(ps)
    return _edit_at(n, p, lambda x: _one_change(rng, x))


def foreign(rng):
    """values of every other kind `==` can meet"""
    return ("foreign", rng.choice([
        "N", "T", "F", "I 0", "I 1", "I 7", "D " + es("1.5"), "L [ ]", "U [ ]", "M [ ]", f"L [ {S('a')} ]", f"U [ {S('a')} ]",
        "O Other [ ]", "O TagifiableObj [ tagify N ]", f"O ReprObj [ _repr_html_ {S('r')} ]",
        pv_version(rng.choice(VERSIONS)), "O TagList [ data L [ ] ]", f"O TagList [ data L [ {S('a')} ] ]",
        f"M [ {es('a')} {S('b')} ]",
    ]))


def partner(rng, n):
    r = rng.random()
    if r < 0.30:
        return copy.deepcopy(n)
    if r < 0.80:
        return near_copy(rng, n)
    if r < 0.90:
        return rand_t(rng, 2)
    return foreign(rng)


def _pair(rng, mk):
    a = mk(rng)
    b = partner(rng, a)
    if rng.random() < 0.08:
        a, b = b, a          # the receiver is then not always of the method's class
    return a, b


def _tag_eq(rng):
    a, b = _pair(rng, lambda r: rand_tag(r, r.randint(1, 3)))
    return f"[ {pv(a)} {pv(b)} ]"


def _dep_eq(rng):
    a, b = _pair(rng, lambda r: rand_dep(r, 2))
    return f"[ {pv(a)} {pv(b)} ]"


def _list_eq(rng):
    ks = [rand_t(rng, rng.randint(0, 2)) for _ in range(rng.randint(0, 4))]
    r = rng.random()
    if r < 0.25:
        ks2 = copy.deepcopy(ks)
    elif r < 0.6 and ks:
        ks2 = list(ks)
        i = rng.randrange(len(ks2))
        ks2[i] = near_copy(rng, ks2[i])
    elif r < 0.75:
        ks2 = list(ks)
        if ks2 and rng.random() < 0.5:
            ks2.pop(rng.randrange(len(ks2)))
        else:
            ks2.insert(rng.randint(0, len(ks2)), rand_t(rng, 1))
    elif r < 0.9:
        # generic `==` on arbitrary pairs of values, through one-element child lists (validates Py/PrimC08.lean `pyEqWith`)
        if rng.random() < 0.6:
            return prim_case(rng)
        return f"[ O TagList [ data L [ {any_value(rng)} ] ] O TagList [ data L [ {any_value(rng)} ] ] ]"
    else:
        b = foreign(rng)
        return f"[ {pv_list(ks)} {pv(b)} ]"
    return f"[ {pv_list(ks)} {pv_list(ks2)} ]"


def _prim_cases():
    """one pair for every row of the `==` table at the head of Py/PrimC08.lean (both orders where the row is about the
    reflected protocol); compared through one-element child lists on every run"""
    tag = pv(("tag", "a", False, [("id", ("p", "x"))], [("text", "t")]))
    tag2 = pv(("tag", "a", False, [("id", ("h", "x"))], [("html", "t")]))
    tl = pv_list([("text", "a")])
    ver, ver2, ver3 = pv_version("1.0"), pv_version("1.0.0"), pv_version("1.2")
    rep, rep2, met, met2 = pv(("robj", "r")), pv(("robj", "q")), pv(("meta", 1)), pv(("meta", 2))
    dep = pv(("dep", dict(name="n", version="1.0", source=None, script=[], stylesheet=[], metas=[], all_files=False), False, []))
    d1 = f"M [ {es('a')} {S('1')} {es('b')} {S('2')} ]"
    d2 = f"M [ {es('b')} {H('2')} {es('a')} {S('1')} ]"
    d3 = f"M [ {es('a')} {S('1')} ]"
    d4 = f"M [ {es('a')} {S('1')} {es('c')} {S('2')} ]"
    la, lb, lc = f"L [ {S('a')} {tag} ]", f"L [ {H('a')} {tag2} ]", f"L [ {S('a')} ]"
    ua = f"U [ {S('a')} ]"
    return [
        ("N", "N"), ("N", "F"), ("F", "N"), ("T", "I 1"), ("I 1", "T"), ("F", "I 0"), ("T", "T"), ("T", "F"), ("I 7", "I 7"),
        ("I 1", S("1")), (S("1"), "I 1"), (S("a"), S("a")), (S("a"), S("b")), (S("a"), H("a")), (H("a"), S("a")), (H("a"), H("a")),
        (H("a"), H("b")), (H("1"), "I 1"), ("I 1", H("1")), (H(""), "N"), ("N", H("")), (S(""), "N"), (H("a"), lc), (lc, H("a")),
        (la, lb), (la, lc), (lc, la), (lc, ua), (ua, lc), (ua, ua), ("L [ ]", "L [ ]"), ("L [ ]", "U [ ]"), ("L [ ]", "M [ ]"),
        (d1, d2), (d2, d1), (d1, d3), (d3, d1), (d1, d4), ("M [ ]", "M [ ]"), ("M [ ]", "N"),
        (tag, tag2), (tag, S("a")), (S("a"), tag), (H("a"), tag), (tag, H("a")), ("N", tag), (tag, "N"), ("T", tag), (tag, "I 0"),
        (lc, tl), (tl, lc), (tl, tl), (tl, tag), (tag, tl), (dep, tag), (tag, dep), (dep, dep), (dep, "N"), ("N", dep), (d3, dep),
        (ver, ver2), (ver2, ver), (ver, ver3), (ver, S("1.0")), (S("1.0"), ver), (ver, tag), (tag, ver), (H("1.0"), ver), (ver, H("1.0")),
        (ver, "N"), ("N", ver), (ver, met), (met, ver), (ver, lc),
        (rep, rep), (rep, rep2), (rep, S("r")), (S("r"), rep), (H("r"), rep), (rep, met), (met, rep), (met, met), (met, met2),
        (met, "I 1"), ("I 1", met), (met, tag), (tag, met), (rep, tl), (tl, rep), (rep, "N"),
        ("D " + es("1.5"), "D " + es("1.5")), ("I 1", "D " + es("1.0")), ("O Other [ ]", "O Other [ ]"), (tag, "O Other [ ]"),
        ("O TagifiableObj [ tagify N ]", S("a")),
    ]


PRIM_CASES = None


def prim_case(rng) -> str:
    global PRIM_CASES
    if PRIM_CASES is None:
        PRIM_CASES = _prim_cases()
    a, b = rng.choice(PRIM_CASES)
    return f"[ O TagList [ data L [ {a} ] ] O TagList [ data L [ {b} ] ] ]"


def any_value(rng) -> str:
    r = rng.random()
    if r < 0.35:
        return scalar(rng)
    if r < 0.6:
        return pv(rand_t(rng, 1))
    if r < 0.7:
        return pv(foreign(rng))
    if r < 0.8:
        return "L [ " + "".join(any_value(rng) + " " for _ in range(rng.randint(0, 2))) + "]"
    if r < 0.88:
        return "U [ " + "".join(any_value(rng) + " " for _ in range(rng.randint(0, 2))) + "]"
    ks = rng.sample(["a", "b", "c"], rng.randint(0, 3))
    return "M [ " + "".join(es(k) + " " + rng.choice([S("1"), H("1"), S("2"), "I 1", "T", "N"]) + " " for k in ks) + "]"


def _impl_eq(rng):
    """`_equals_impl(x, y)` on any pair (x is not always an instance of a library class)"""
    r = rng.random()
    if r < 0.4:
        return _tag_eq(rng)
    if r < 0.6:
        return _dep_eq(rng)
    if r < 0.8:
        return _list_eq(rng)
    return f"[ {any_value(rng)} {any_value(rng)} ]"


def _view(rng):
    """`self` for the views that are `return str(self)`: values whose `str()` the fragment states (scalars, `HTML`,
    instances with a recorded `__str__`); a real Tag / TagList now and then (`str()` of those is `Tag.__str__`, not
    translated: no verdict)"""
    r = rng.random()
    if r < 0.9:
        return f"[ {scalar(rng)} ]"
    if r < 0.95:
        return f"[ {pv(rand_tag(rng, 1))} ]"
    return f"[ {pv_list([rand_t(rng, 1)])} ]"


def register(GENS):
    for f in ("Tag_repr", "Tag_repr_html", "TagList_repr", "TagList_repr_html"):
        GENS[f] = _view
    GENS["equals_impl"] = _impl_eq
    GENS["Tag_eq"] = _tag_eq
    GENS["TagList_eq"] = _list_eq
    GENS["HTMLDependency_eq"] = _dep_eq


# ---- `s.replace(old, new)` with a key of any length (Py/PrimC08.lean `pyReplaceAll`; the neutralisation step of
#      HTMLDependency.serialize_to_script_json is `.replace("</", "<\\/")`)
REPL_ALPHA = ["<", "/", "\\", "s", "c", "a", ">", " ", "é", "😀"]
REPL_KEYS = ["</", "</", "</script>", "<", "/", "aa", "a", "</s", "//", "<<", "<\\/", "", "😀", "ca"]
REPL_NEW = ["<\\/", "<\\/", "", "x", "</", "aa", "a", "<", "//"]


def replace_lines(rng, n: int) -> list[str]:
    out, seen = [], set()
    for _ in range(n):
        r = rng.random()
        if r < 0.25:
            txt = "".join(rng.choice(["</script>", "</", "<", "/", "</SCRIPT >", "a", "<\\/", "//", "<<"]) for _ in range(rng.randint(0, 5)))
        else:
            txt = "".join(rng.choice(REPL_ALPHA) for _ in range(rng.choice([0, 1, 2, 3, 5, 8, 13])))
        old = rng.choice(REPL_KEYS) if rng.random() < 0.85 else "".join(rng.choice(REPL_ALPHA) for _ in range(rng.randint(1, 3)))
        new = rng.choice(REPL_NEW)
        q = rng.random()
        wrap = (S, S, S) if q < 0.7 else (H, rng.choice([S, H]), rng.choice([S, H])) if q < 0.9 else (S, rng.choice([S, H]), rng.choice([S, H]))
        a = [wrap[0](txt), wrap[1](old), wrap[2](new)]
        if rng.random() < 0.04:
            a[rng.randrange(1, 3)] = scalar(rng)        # a non-string argument
        l = "srcc08 replace [ " + " ".join(a) + " ]"
        if l not in seen:
            seen.add(l)
            out.append(l)
    return out
