/-
Helper lemmas for C12: `copyTo` as a whole, in its two modes.
-/
import HtmlVerif.Lemmas.Copy

namespace HtmlVerif
open FS

theorem resolve_posixJoin (a f : Str) (hf : f.head? ≠ some '/') :
    pathResolve (posixJoin a f) = pathResolve a ++ segs (utf8 f) := segs_utf8_posixJoin a f hf

theorem sourcePathMap_subdir {d : DepInfo} {pkg : Option Str} {dir abs : Str}
    (hsrc : d.source = .subdir pkg dir abs) (lp : Option Str) (iv : Bool) :
    sourcePathMap d lp iv = { source := abs, href := withPrefix lp (dirName d iv) } := by
  simp [sourcePathMap, hsrc]

theorem exists_of_isFile {fs : FS} {p : Path} (h : (fs.read p).isSome = true) : fs.exists p = true := by
  simp [FS.exists, isFile, h]

/-- `copy_to` of a directory-sourced dependency that lists its files, all of them present as regular files -/
theorem copyTo_listed (d : DepInfo) (pkg : Option Str) (dir abs : Str)
    (hsrc : d.source = .subdir pkg dir abs) (habs : abs ≠ []) (haf : d.allFiles = false)
    (fl : List Str) (hfl : listedFiles d = .ok fl) (path : Str) (iv : Bool) (fs : FS)
    (hrel : ∀ f ∈ fl, f.head? ≠ some '/')
    (hfiles : ∀ f ∈ fl, (fs.read (pathResolve abs ++ segs (utf8 f))).isSome = true)
    (hST : Apart (pathResolve abs) (tgtDir d path iv)) (hpath : fs.fileOnPath (tgtDir d path iv) = false) :
    ∃ fs', copyTo d path iv fs = (fs', .ok ()) ∧
      (∀ q, ¬ tgtDir d path iv <+: q → fs'.read q = fs.read q) ∧
      (∀ r, fs'.read (tgtDir d path iv ++ r)
        = if r ∈ fl.map (fun f => segs (utf8 f)) then fs.read (pathResolve abs ++ r) else none) := by
  have hitems : copyItems d abs (posixJoin path (dirName d iv)) fs
      = .ok ((fl.map fun f => segs (utf8 f)).map fun r => (pathResolve abs ++ r, tgtDir d path iv ++ r)) := by
    simp only [copyItems, haf, hfl, List.map_map, Bool.false_eq_true, ↓reduceIte]
    congr 1
    apply List.map_congr_left
    intro f hf
    simp [resolve_posixJoin _ f (hrel f hf), tgtDir]
  have hall : (((fl.map fun f => segs (utf8 f)).map fun r => (pathResolve abs ++ r, tgtDir d path iv ++ r)).all
      fun it => fs.exists it.1) = true := by
    simp only [List.all_eq_true, List.mem_map]
    rintro it ⟨r, ⟨f, hf, rfl⟩, rfl⟩
    exact exists_of_isFile (hfiles f hf)
  have hcur : ∀ q, ¬ tgtDir d path iv <+: q → (fs.removeTree (tgtDir d path iv)).read q = fs.read q := by
    intro q hq; rw [read_removeTree]; simp [hq]
  obtain ⟨fs', hl, hF, hS⟩ := copyLoop_files (pathResolve abs) (tgtDir d path iv) hST fs
    (fl.map fun f => segs (utf8 f)) (fs.removeTree (tgtDir d path iv))
    (by intro r hr; obtain ⟨f, hf, rfl⟩ := List.mem_map.mp hr; exact hfiles f hf) hcur
  refine ⟨fs', ?_, hF, ?_⟩
  · have hne : abs.isEmpty = false := by cases abs <;> simp_all
    have hpath' : fs.fileOnPath (pathResolve (posixJoin path (dirName d iv))) = false := hpath
    simp only [copyTo, sourcePathMap_subdir hsrc, withPrefix, hne, hitems, hall]
    simpa [tgtDir, hpath'] using hl
  · intro r
    rw [hS r, read_removeTree]
    simp

theorem mem_topLevel {fs : FS} {S : Path} {n : Bytes} :
    n ∈ fs.topLevel S ↔ ∃ r, (fs.read (S ++ n :: r)).isSome = true := by
  unfold topLevel
  rw [mem_dedupB, List.mem_filterMap]
  constructor
  · rintro ⟨q, hq, hh⟩
    match q, hh with
    | m :: r, hh =>
      simp at hh; subst hh
      exact ⟨r, (mem_keysUnder fs S _).mp hq⟩
  · rintro ⟨r, hr⟩
    exact ⟨n :: r, (mem_keysUnder fs S _).mpr hr, rfl⟩

theorem exists_of_topLevel {fs : FS} {S : Path} {n : Bytes} (h : n ∈ fs.topLevel S) :
    fs.exists (S ++ [n]) = true := by
  obtain ⟨r, hr⟩ := mem_topLevel.mp h
  by_cases hr0 : r = []
  · subst hr0; exact exists_of_isFile hr
  · have : fs.isDir (S ++ [n]) = true := by
      rw [isDir_iff]
      exact .inr ⟨r, hr0, by simpa using hr⟩
    simp [FS.exists, this]

/-- `copy_to` with `all_files`: the whole source directory -/
theorem copyTo_all (d : DepInfo) (pkg : Option Str) (dir abs : Str)
    (hsrc : d.source = .subdir pkg dir abs) (habs : abs ≠ []) (haf : d.allFiles = true)
    (path : Str) (iv : Bool) (fs : FS) (hwf : SrcWF fs (pathResolve abs))
    (hST : Apart (pathResolve abs) (tgtDir d path iv)) (hpath : fs.fileOnPath (tgtDir d path iv) = false) :
    ∃ fs', copyTo d path iv fs = (fs', .ok ()) ∧
      (∀ q, ¬ tgtDir d path iv <+: q → fs'.read q = fs.read q) ∧
      (∀ r, fs'.read (tgtDir d path iv ++ r) = if r = [] then none else fs.read (pathResolve abs ++ r)) := by
  have hitems : copyItems d abs (posixJoin path (dirName d iv)) fs
      = .ok ((fs.topLevel (pathResolve abs)).map fun n => (pathResolve abs ++ [n], tgtDir d path iv ++ [n])) := by
    simp [copyItems, haf, tgtDir]
  have hall : (((fs.topLevel (pathResolve abs)).map fun n => (pathResolve abs ++ [n], tgtDir d path iv ++ [n])).all
      fun it => fs.exists it.1) = true := by
    simp only [List.all_eq_true, List.mem_map]
    rintro it ⟨n, hn, rfl⟩
    exact exists_of_topLevel hn
  have hcur : ∀ q, ¬ tgtDir d path iv <+: q → (fs.removeTree (tgtDir d path iv)).read q = fs.read q := by
    intro q hq; rw [read_removeTree]; simp [hq]
  have hclr : ∀ q, (fs.removeTree (tgtDir d path iv)).read (tgtDir d path iv ++ q) = none := by
    intro q; rw [read_removeTree]; simp
  obtain ⟨fs', hl, hF, h1, h2⟩ := copyLoop_all (pathResolve abs) (tgtDir d path iv) hST fs hwf
    (fs.topLevel (pathResolve abs)) (fs.removeTree (tgtDir d path iv)) (nodup_dedupB _) hcur
    (fun n _ r => hclr (n :: r))
  refine ⟨fs', ?_, hF, ?_⟩
  · have hne : abs.isEmpty = false := by cases abs <;> simp_all
    have hpath' : fs.fileOnPath (pathResolve (posixJoin path (dirName d iv))) = false := hpath
    simp only [copyTo, sourcePathMap_subdir hsrc, withPrefix, hne, hitems, hall]
    simpa [tgtDir, hpath'] using hl
  · intro r
    match r with
    | [] =>
      have h0 := h2 [] (by simp)
      have h3 := hclr []
      simp only [List.append_nil] at h0 h3
      simp [h0, h3]
    | n :: r =>
      by_cases hn : n ∈ fs.topLevel (pathResolve abs)
      · simp [h1 n r hn]
      · have := h2 (n :: r) (by intro k hk; simp; intro e; exact hn (e ▸ hk))
        rw [this, hclr]
        have hnone : fs.read (pathResolve abs ++ n :: r) = none := by
          cases hx : fs.read (pathResolve abs ++ n :: r) with
          | none => rfl
          | some v => exact absurd (mem_topLevel.mpr ⟨r, by simp [hx]⟩) hn
        simp [hnone]

end HtmlVerif
