/-
Driver ops for the path algebra, dependency → tags, and the abstract file system (C12; reused by C11/C13).

Wire conventions added here:
  bytes        a string token whose characters are the bytes (latin-1)
  fs           [ <path:str> <content:bytes> … ]        (input: path strings; output: sorted, canonical `/a/b` form)
  optstr       N | S <str>                               (as elsewhere)
  depnode      <depinfo> <hasHead:bool> <head:nodes>
-/
import HtmlVerif.Ops.Base
import HtmlVerif.Model.FS
import HtmlVerif.Model.SaveDoc
import HtmlVerif.Holds.C12

namespace HtmlVerif.Ops
open HtmlVerif HtmlVerif.Wire

def bytesOfLatin1 (s : Str) : Bytes := s.map fun c => c.toNat.toUInt8
def latin1OfBytes (b : Bytes) : Str := b.map fun x => Char.ofNat x.toNat

def encBytes (b : Bytes) : String := encStr (latin1OfBytes b)

/-- `/seg/seg…` with the bytes as latin-1 characters -/
def pathStr (p : Path) : Str := p.flatMap fun s => '/' :: latin1OfBytes s

def encPath (p : Path) : String := encStr (pathStr p)

def fsP : P FS := do
  let es ← listOf (do let p ← str; let c ← str; pure (pathResolve p, bytesOfLatin1 c))
  pure ⟨es⟩

def sortStrings (xs : List String) : List String := (xs.toArray.qsort (· < ·)).toList

def encFS (fs : FS) : String :=
  encList (sortStrings (fs.files.map fun e => encPath e.1 ++ " " ++ encBytes e.2))

def encKvsList (l : List KVs) : String := encList (l.map encKvs)

def encUnit : Except Err Unit → String
  | .ok _ => "ok"
  | .error e => "err " ++ encErr e

def depList : P (List DepInfo) := listOf depInfo

/-- the URLs `as_html_tags` writes for a dependency, in document order: link hrefs, then script srcs -/
def depUrls (d : DepInfo) (lp : Option Str) (iv : Bool) : List Str :=
  let base := (sourcePathMap d lp iv).href
  let get (k : Str) (l : List KVs) : List Str := l.filterMap (alookup k)
  (match asDictSheets base d.stylesheet with | .ok s => get dtKHref s | .error _ => [])
    ++ (match asDictScripts base d.script with | .ok s => get dtKSrc s | .error _ => [])

/-- the model's answer to `copy_atomic`: returned, or raised with the file system the same / changed -/
def copyAtomic (d : DepInfo) (path : Str) (iv : Bool) (fs : FS) : String :=
  match copyTo d path iv fs with
  | (_, .ok _) => "ok"
  | (fs', .error e) => "err " ++ encErr e ++ " " ++ (if Holds.fsEq fs fs' then "same" else "changed")

def pathsOps : OpTable
  | "quote" => some do
    let s ← str
    pure (encStr (quote s))
  | "unquote" => some do
    let s ← str
    pure (encBytes (unquoteB s))
  | "utf8" => some do
    let s ← str
    pure (encBytes (utf8 s))
  | "posix_join" => some do
    let a ← str; let b ← str
    pure (encStr (posixJoin a b))
  | "dirname" => some do
    let a ← str
    pure (encStr (dirname a))
  | "source_path_map" => some do
    let d ← depInfo; let lp ← optStr; let iv ← bool
    let pm := sourcePathMap d lp iv
    pure (encStr pm.source ++ " " ++ encStr pm.href)
  | "as_dict" => some do
    let d ← depInfo; let hh ← bool; let hd ← nodes; let lp ← optStr; let iv ← bool
    pure (encExcept (fun dd => encKvsList dd.script ++ " " ++ encKvsList dd.stylesheet ++ " "
      ++ encKvsList dd.metas ++ " " ++ encOptStr dd.head) (asDict cfg d hh hd lp iv))
  | "as_html_tags" => some do
    let d ← depInfo; let hh ← bool; let hd ← nodes; let lp ← optStr; let iv ← bool
    pure (encExcept encNodes (asHtmlTags cfg d hh hd lp iv))
  | "copy_to" => some do
    let d ← depInfo; let path ← str; let iv ← bool; let _cwd ← str; let fs ← fsP
    let (fs', r) := copyTo d path iv fs
    pure (encUnit r ++ " " ++ encFS fs')
  | "copy_atomic" => some do
    let d ← depInfo; let path ← str; let iv ← bool; let _cwd ← str; let fs ← fsP
    pure (copyAtomic d path iv fs)
  | "save_html" => some do
    let _recv ← next; let _content ← nodes; let file ← str; let fileAbs ← str; let libdir ← optStr
    let iv ← bool; let _cwd ← str; let html ← str; let deps ← depList; let fs ← fsP
    -- the model renders the document itself (Model/SaveDoc.lean): the markup written and the dependencies copied
    -- come from `Doc.docRender` of the receiver's content with `lib_prefix = libdir`; the implementation's own
    -- rendering (`html`, `deps`, passed on the line) is what the executable statement is evaluated on
    let _ := html
    let recv : Receiver :=
      if _recv == "doc" then .document _content []
      else if _recv == "tag" then (match _content with | .cons t .nil => .tag t | c => .tagList c)
      else .tagList _content
    let (fs', r) := saveOn cfg recv file fileAbs libdir iv fs
    let deps := match Doc.docRender cfg recv.doc.1 recv.doc.2 libdir iv with
      | .ok rr => depInfos rr.deps
      | .error _ => deps
    let urls := match r with
      | .ok _ => deps.flatMap fun d => depUrls d libdir iv
      | .error _ => []
    pure (encExcept encStr r ++ " " ++ encList (urls.map encStr) ++ " " ++ encFS fs')
  | "c12_class" => some do
    -- which clause of C12's executable statement the given op line exercises (coverage accounting only)
    let op ← next
    match op with
    | "copy_to" => do
      let d ← depInfo; let path ← str; let iv ← bool; let _cwd ← str; let fs ← fsP
      pure (Holds.classCopy d path iv fs)
    | "save_html" => do
      let _recv ← next; let _content ← nodes; let _file ← str; let fileAbs ← str; let libdir ← optStr
      let iv ← bool; let _cwd ← str; let _html ← str; let deps ← depList; let fs ← fsP
      pure (Holds.classSave deps fileAbs libdir iv fs)
    | "as_dict" => do
      let d ← depInfo; let _hh ← bool; let _hd ← nodes; let lp ← optStr; let iv ← bool
      pure (Holds.classUrl d lp iv)
    | _ => do set ([] : List String); pure "-"
  | _ => none

end HtmlVerif.Ops
