/-
Helper lemmas for C12 about the abstract file system of Model/FS.lean: everything is characterised through `read`.
-/
import HtmlVerif.Model.FS
import HtmlVerif.Spec.Paths

namespace HtmlVerif

theorem isPrefixOf_iff {a b : Path} : a.isPrefixOf b = true ↔ a <+: b := List.isPrefixOf_iff_prefix

theorem prefix_append_drop {s k : Path} (h : s <+: k) : s ++ k.drop s.length = k := by
  obtain ⟨t, rfl⟩ := h
  simp

/-- if `T` is a prefix of something below `S` then one of `S`, `T` contains the other -/
theorem not_prefix_of_apart {S T : Path} (h : Apart S T) (r : Path) : ¬ T <+: S ++ r := by
  intro hp
  rcases List.prefix_or_prefix_of_prefix hp (List.prefix_append S r) with h1 | h1
  · exact h.2 h1
  · exact h.1 h1

namespace FS

theorem lookupP_filter_key (g : Path → Bool) (q : Path) (l : List (Path × Bytes)) :
    lookupP q (l.filter fun e => g e.1) = if g q then lookupP q l else none := by
  induction l with
  | nil => simp [lookupP]
  | cons e l ih =>
    obtain ⟨k, v⟩ := e
    by_cases hk : g k
    · by_cases hq : k = q
      · subst hq; simp [lookupP, hk]
      · simp [List.filter, lookupP, hk, hq, ih]
    · by_cases hq : k = q
      · subst hq; simp [List.filter, hk, ih]
      · simp [List.filter, lookupP, hk, hq, ih]

theorem read_write (fs : FS) (p : Path) (c : Bytes) (q : Path) :
    (fs.write p c).read q = if q = p then some c else fs.read q := by
  unfold write read
  by_cases h : q = p
  · subst h; simp [lookupP]
  · have h' : ¬ p = q := fun e => h e.symm
    have := lookupP_filter_key (fun k => decide (k ≠ p)) q fs.files
    simp only [lookupP, h', if_false, h]
    simpa [h] using this

theorem read_removeTree (fs : FS) (t q : Path) :
    (fs.removeTree t).read q = if t <+: q then none else fs.read q := by
  unfold removeTree read
  have := lookupP_filter_key (fun k => !t.isPrefixOf k) q fs.files
  simp only [this]
  by_cases h : t <+: q
  · simp [h, isPrefixOf_iff.mpr h]
  · have : t.isPrefixOf q = false := by
      cases hb : t.isPrefixOf q with
      | true => exact absurd (isPrefixOf_iff.mp hb) h
      | false => rfl
    simp [h, this]

theorem lookupP_isSome_iff (p : Path) (l : List (Path × Bytes)) :
    (lookupP p l).isSome = true ↔ ∃ e ∈ l, e.1 = p := by
  induction l with
  | nil => simp [lookupP]
  | cons e l ih =>
    obtain ⟨k, v⟩ := e
    by_cases hk : k = p
    · subst hk; simp [lookupP]
    · simp [lookupP, hk, ih]

theorem mem_keysUnder (fs : FS) (s r : Path) :
    r ∈ fs.keysUnder s ↔ (fs.read (s ++ r)).isSome = true := by
  unfold keysUnder read
  rw [lookupP_isSome_iff]
  simp only [List.mem_map, List.mem_filter]
  constructor
  · rintro ⟨e, ⟨he, hp⟩, hd⟩
    refine ⟨e, he, ?_⟩
    rw [← hd]; exact (prefix_append_drop (isPrefixOf_iff.mp hp)).symm
  · rintro ⟨e, he, hk⟩
    refine ⟨e, ⟨he, ?_⟩, ?_⟩
    · rw [hk]; exact isPrefixOf_iff.mpr (List.prefix_append s r)
    · rw [hk]; simp

theorem isDir_iff (fs : FS) (p : Path) :
    fs.isDir p = true ↔ p = [] ∨ ∃ r, r ≠ [] ∧ (fs.read (p ++ r)).isSome = true := by
  unfold isDir
  simp only [Bool.or_eq_true, List.isEmpty_iff, List.any_eq_true, Bool.not_eq_true', List.isEmpty_eq_false_iff]
  constructor
  · rintro (h | ⟨r, hr, hne⟩)
    · exact .inl h
    · exact .inr ⟨r, hne, (mem_keysUnder fs p r).mp hr⟩
  · rintro (h | ⟨r, hne, hr⟩)
    · exact .inl h
    · exact .inr ⟨r, (mem_keysUnder fs p r).mpr hr, hne⟩

/-! ### copying a tree -/

/-- the content the list `es` (paths relative to `t`) assigns to the absolute path `q`, first entry first -/
def lookupUnder (t : Path) (es : List (Path × Bytes)) (q : Path) : Option Bytes :=
  es.findSome? fun e => if t ++ e.1 = q then some e.2 else none

theorem read_writeAll (t : Path) (es : List (Path × Bytes)) (fs : FS) (q : Path) :
    (writeAll t es fs).read q = (lookupUnder t es q).or (fs.read q) := by
  induction es with
  | nil => simp [writeAll, lookupUnder]
  | cons e es ih =>
    simp only [writeAll, read_write, lookupUnder, List.findSome?_cons]
    by_cases h : q = t ++ e.1
    · subst h; simp
    · have h' : ¬ t ++ e.1 = q := fun x => h x.symm
      simp only [h, h', if_false]
      exact ih

theorem lookupUnder_under (files : List (Path × Bytes)) (s t r : Path) :
    lookupUnder t ((files.filter fun e => s.isPrefixOf e.1).map fun e => (e.1.drop s.length, e.2)) (t ++ r)
      = lookupP (s ++ r) files := by
  induction files with
  | nil => simp [lookupUnder, lookupP]
  | cons e l ih =>
    obtain ⟨k, v⟩ := e
    unfold lookupUnder at ih ⊢
    by_cases hp : s.isPrefixOf k = true
    · have hk := prefix_append_drop (isPrefixOf_iff.mp hp)
      by_cases hq : k = s ++ r
      · subst hq; simp [List.filter, hp, lookupP]
      · have : ¬ k.drop s.length = r := by
          intro hd; apply hq; rw [← hk, hd]
        simpa [List.filter, hp, lookupP, hq, this] using ih
    · have hq : ¬ k = s ++ r := by
        intro hq; apply hp; rw [hq]; exact isPrefixOf_iff.mpr (List.prefix_append s r)
      simpa [List.filter, hp, lookupP, hq] using ih

theorem lookupUnder_outside (t : Path) (es : List (Path × Bytes)) (q : Path) (h : ¬ t <+: q) :
    lookupUnder t es q = none := by
  unfold lookupUnder
  rw [List.findSome?_eq_none_iff]
  intro e _
  have : ¬ t ++ e.1 = q := by
    intro he; apply h; rw [← he]; exact List.prefix_append t e.1
  simp [this]

theorem read_copyTree_under (fs : FS) (s t r : Path) :
    (fs.copyTree s t).read (t ++ r) = (fs.read (s ++ r)).or (fs.read (t ++ r)) := by
  unfold copyTree
  rw [read_writeAll]
  unfold under
  rw [lookupUnder_under]
  rfl

theorem read_copyTree_outside (fs : FS) (s t q : Path) (h : ¬ t <+: q) :
    (fs.copyTree s t).read q = fs.read q := by
  unfold copyTree
  rw [read_writeAll, lookupUnder_outside t _ q h]
  simp

theorem fileOnPath_false_iff (fs : FS) (p : Path) :
    fs.fileOnPath p = false ↔ ∀ k, k ≤ p.length → fs.read (p.take k) = none := by
  unfold fileOnPath isFile
  rw [Bool.eq_false_iff]
  simp only [ne_eq, List.any_eq_true, List.mem_range, not_exists, not_and, Bool.not_eq_true,
    Option.isSome_eq_false_iff, Option.isNone_iff_eq_none]
  constructor
  · intro h k hk; exact h k (by omega)
  · intro h k hk; exact h k (by omega)

end FS

/-! ### dedupB -/

theorem mem_dedupB (x : Bytes) (l : List Bytes) : x ∈ dedupB l ↔ x ∈ l := by
  induction l with
  | nil => simp [dedupB]
  | cons a l ih =>
    by_cases h : x = a
    · subst h; simp [dedupB]
    · simp [dedupB, h, ih]

theorem nodup_dedupB (l : List Bytes) : (dedupB l).Nodup := by
  induction l with
  | nil => simp [dedupB]
  | cons a l ih =>
    simp only [dedupB, List.nodup_cons]
    refine ⟨by simp, ?_⟩
    exact List.Pairwise.filter _ ih

end HtmlVerif
