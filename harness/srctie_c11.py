"""Value generators for the `src` / `srcc11` lines of the C11 translations (harness/pytr_c11.py).

Trees are pval terms in the shape of the embedding `embT` (Lemmas/SrcC10.lean), built with the generators of
srctie_c10.py (Tag / TagList instances, strings, HTML, self-rendering objects, bare metadata nodes, dependencies with a
ranked Version and a marker in `meta`, foreign tagifiable objects).  `HTMLDependency.as_html_tags` is not translated: the
`srcc11` lines carry, for every dependency of the line, what the call returns (a TagList of tags / strings / further
dependencies; now and then something odd) or raises — both sides read it from the line.

Invalid shapes are mixed in: roots that are not `<html>`, receivers of the wrong class, several `<head>` children,
keyword names that collide with parameters (`self`, `_name`, `_add_ws`), attribute values of unsupported types, children
that are not tag children, empty `append()`.
"""
from __future__ import annotations

from wire import es

import srctie
from srctie import S, H
from srctie_c10 import Ctx, node, tag, taglist, items, tagified

LPS = ["N", S("lib"), S(""), S("a/b")]
IVS = ["T", "F"]
NAMES = ["div", "span", "head", "body", "html", "p", "script"]


def mtag(name: str, kids: list[str], attrs: str = "M [ ]", ws: str = "T") -> str:
    return (f"O Tag [ name {S(name)} attrs {attrs} children O TagList [ data L [ " + "".join(k + " " for k in kids)
            + f"] ] add_ws {ws} ]")


def rattrs(rng) -> str:
    return rng.choice(["M [ ]", "M [ ]", f"M [ {es('class')} {S('x')} ]", f"M [ {es('lang')} {S('en')} {es('id')} H {es('<i>')} ]"])


def kw_dict(rng) -> str:
    r = rng.random()
    if r < 0.35:
        return "M [ ]"
    if r < 0.80:
        return srctie.attr_dict(rng)
    if r < 0.90:
        k = rng.choice(["self", "_name", "_add_ws", "lang"])
        return f"M [ {es(k)} {rng.choice([S('x'), 'T', 'F'])} {es('id')} {S('i')} ]"
    return rng.choice(["N", "L [ ]", S("ab"), "O Other [ ]", "I 1"])


def dep_tags(cx: Ctx) -> str:
    """what `as_html_tags` answers for one dependency"""
    rng = cx.rng
    r = rng.random()
    if r < 0.06:
        return "err " + rng.choice(["RuntimeError", "KeyError", "TypeError", "ValueError"])
    if r < 0.10:
        return "ok " + rng.choice(["N", S("x"), "L [ ]", "I 3", "O Other [ ]", mtag("link", [])])
    ks = []
    for _ in range(rng.choice([0, 1, 1, 2, 3])):
        q = rng.random()
        if q < 0.6:
            nm = rng.choice(["meta", "link", "script"])
            ks.append(mtag(nm, [], rng.choice([f"M [ {es('href')} {S('a.css')} {es('rel')} {S('stylesheet')} ]",
                                               f"M [ {es('src')} {S('lib/x-1.0/x.js')} ]", "M [ ]"])))
        elif q < 0.8:
            ks.append(rng.choice([S("t"), H("<b>"), f"O ReprObj [ _repr_html_ {S('<r>')} ]"]))
        elif q < 0.9:
            ks.append(cx.dep())              # a dependency in a dependency's head (F-C11)
        else:
            ks.append(node(cx, 2, tobj=rng.random() < 0.3))
    return "ok O TagList [ data L [ " + "".join(k + " " for k in ks) + "] ]"


def table_of(cx: Ctx, line: str) -> str:
    """one entry per dependency marker that occurs in the line (markers are the decimal numbers Ctx hands out)"""
    out = []
    k = 0
    # dependencies created while building the answers get entries too
    while True:
        n = _count(cx)
        if k >= n:
            break
        out.append(f"{es(str(k))} {dep_tags(cx)} ")
        k += 1
    return "[ " + "".join(out) + "]"


def _count(cx: Ctx) -> int:
    """how many markers the context has handed out so far (peek without consuming)"""
    import itertools
    n = next(cx.ctr)
    cx.ctr = itertools.count(n)
    return n


def html_tree(cx: Ctx, root: str | None = None) -> str:
    rng = cx.rng
    kids = []
    r = rng.random()
    nheads = 0 if r < 0.3 else 1 if r < 0.9 else 2
    n = rng.choice([0, 1, 2, 3, 4])
    slots = [None] * n
    for _ in range(nheads):
        slots.insert(rng.randint(0, len(slots)), "head")
    for s in slots:
        if s == "head":
            hk = [node(cx, 1, tobj=False) for _ in range(rng.choice([0, 0, 1, 2]))]
            kids.append(mtag("head", hk, rattrs(rng), rng.choice(["T", "T", "F"])))
        else:
            q = rng.random()
            if q < 0.35:
                kids.append(cx.dep())
            elif q < 0.6:
                inner = [node(cx, 2, tobj=False) for _ in range(rng.choice([0, 1, 2, 3]))]
                kids.append(mtag(rng.choice(["body", "div", "head2", "span"]), inner, rattrs(rng)))
            elif q < 0.7:
                # a <head> that is not a direct child
                kids.append(mtag("div", [mtag("head", [cx.dep()])]))
            else:
                kids.append(node(cx, 2, tobj=rng.random() < 0.2))
    name = root if root is not None else ("html" if rng.random() < 0.93 else rng.choice(["body", "div", "HTML", ""]))
    return mtag(name, kids, rattrs(rng), rng.choice(["T", "T", "F"]))


def _hoist(rng):
    cx = Ctx(rng)
    r = rng.random()
    if r < 0.05:
        x = rng.choice([taglist(cx, 2), S("html"), "N", "O Other [ ]", f"O Tag [ name {S('html')} ]",
                        f"O Tag [ name {S('html')} attrs M [ ] children {S('x')} add_ws T ]",
                        f"O Tag [ name I 3 attrs M [ ] children O TagList [ data L [ ] ] add_ws T ]",
                        f"O Tag [ name H {es('html')} attrs M [ ] children O TagList [ data L [ ] ] add_ws T ]"])
    else:
        x = html_tree(cx)
    args = f"[ {x} {rng.choice(LPS)} {rng.choice(IVS)} ]"
    return cx, args


def content_items(cx: Ctx) -> list[str]:
    rng = cx.rng
    r = rng.random()
    if r < 0.30:
        return [html_tree(cx, "html")]
    if r < 0.45:
        return [mtag("body", [node(cx, 2) for _ in range(rng.choice([0, 1, 2, 3]))], rattrs(rng), rng.choice(["T", "F"]))]
    if r < 0.50:
        return [rng.choice([cx.dep(), S("html"), f"O MetadataNode [ id I {next(cx.ctr)} ]", f"O TagifyObj [ tagify {tagified(cx, 1)} ]"])]
    ks = [node(cx, 2) for _ in range(rng.choice([0, 1, 2, 2, 3, 4]))]
    if rng.random() < 0.3:
        ks.insert(rng.randint(0, len(ks)), rng.choice([html_tree(cx, "html"), mtag("body", [S("b")]), mtag("head", [cx.dep()])]))
    return ks


def doc(cx: Ctx) -> str:
    rng = cx.rng
    r = rng.random()
    if r < 0.04:
        return rng.choice(["O HTMLDocument [ ]", "N", f"O HTMLDocument [ _content L [ ] _html_attr_args M [ ] ]",
                           f"O HTMLDocument [ _content O TagList [ data L [ ] ] ]", "O Other [ ]"])
    return ("O HTMLDocument [ _content O TagList [ data L [ " + "".join(k + " " for k in content_items(cx))
            + f"] ] _html_attr_args {kw_dict(rng)} ]")


def _gen_tree(rng):
    cx = Ctx(rng)
    return cx, f"[ {doc(cx)} {rng.choice(LPS)} {rng.choice(IVS)} ]"


def _doc_render(rng):
    cx = Ctx(rng)
    return cx, f"[ {doc(cx)} {rng.choice(LPS + [S('lib')])} {rng.choice(IVS)} ]"


def _tag_render(rng):
    cx = Ctx(rng)
    r = rng.random()
    if r < 0.05:
        recv = rng.choice([taglist(cx, 1), S("x"), "N", "O Other [ ]"])
    else:
        recv = tag(cx, rng.randint(1, 3))
    return cx, f"[ {recv} ]"


C11_GENS = {
    "HTMLDocument_hoist_head_contentC11": _hoist,
    "HTMLDocument_gen_html_tag_treeC11": _gen_tree,
    "HTMLDocument_renderC11": _doc_render,
    "Tag_renderC11": _tag_render,
}


def lines_c11(rng, funcs: list[str], n: int) -> list[str]:
    out = []
    for f in funcs:
        seen = set()
        for _ in range(n):
            cx, args = C11_GENS[f](rng)
            tbl = table_of(cx, args)
            l = cx.finish(f"srcc11 {tbl} {f} {args}")
            if l not in seen:
                seen.add(l)
                out.append(l)
    return out


def add_src_c11(ck, funcs: list[str], quick: int = 300, thorough: int = 3000):
    """`Check.add_src` for the functions that reach `as_html_tags` (op `srcc11`)"""
    import core
    ls = lines_c11(ck.rng, funcs, thorough if ck.tier == "thorough" else quick)
    ck.src_lines += list(zip(ls, core.impl_many(ls)))


# ------------------------------------------------------------------ table-free functions: the plain `src` op
def child_arg(cx: Ctx) -> str:
    """anything a caller may hand over as a child"""
    rng = cx.rng
    r = rng.random()
    if r < 0.55:
        return node(cx, 2)
    if r < 0.65:
        return taglist(cx, 1)
    if r < 0.72:
        return "N"
    if r < 0.80:
        return rng.choice(["I 3", "I -1", "D " + es("1.5"), "T"])
    if r < 0.88:
        return "L [ " + node(cx, 1) + " " + rng.choice(["N", S("s"), "U [ " + node(cx, 1) + " ]"]) + " ]"
    if r < 0.94:
        return rng.choice(["M [ ]", f"M [ {es('k')} {S('v')} ]", "O Other [ ]"])
    return rng.choice([S(""), S("ab"), H("<i>")])


def _recv_tag(cx: Ctx) -> str:
    rng = cx.rng
    if rng.random() < 0.06:
        return rng.choice([taglist(cx, 1), S("x"), "N", "O Other [ ]", f"O Tag [ name {S('div')} ]",
                           f"O Tag [ name {S('div')} attrs M [ ] children L [ ] add_ws T ]",
                           f"O Tag [ name {S('div')} attrs M [ ] children {S('x')} add_ws T ]"])
    return tag(cx, rng.randint(1, 2))


def _tag_insert(rng):
    cx = Ctx(rng)
    idx = rng.choice(["I 0", "I 0", "I 1", "I -1", "I 5", "I -7", "T", "F", "N", S("0"), "D " + es("1.0")])
    return cx.finish(f"[ {_recv_tag(cx)} {idx} {child_arg(cx)} ]")


def _tag_extend(rng):
    cx = Ctx(rng)
    r = rng.random()
    if r < 0.75:
        it = rng.choice(["L", "U"]) + " [ " + "".join(child_arg(cx) + " " for _ in range(rng.choice([0, 1, 2, 3]))) + "]"
    elif r < 0.85:
        it = taglist(cx, 1)
    else:
        it = rng.choice(["N", "I 3", S("ab"), H("a<"), "M [ ]", f"M [ {es('k')} {S('v')} ]", "O Other [ ]"])
    return cx.finish(f"[ {_recv_tag(cx)} {it} ]")


def _tag_append(rng):
    cx = Ctx(rng)
    r = rng.random()
    # `args` as the callee sees it: always a tuple
    a = "U [ " + "".join(child_arg(cx) + " " for _ in range(rng.choice([0, 1, 1, 2, 3]))) + "]"
    return cx.finish(f"[ {_recv_tag(cx)} {a} ]")


def _tad_init(rng):
    r = rng.random()
    args = "U [ " + "".join(srctie.attr_dict(rng) + " " for _ in range(rng.choice([0, 0, 1, 2]))) + "]"
    if r > 0.93:       # (`args` is always a tuple; its items may be anything)
        args = rng.choice(["U [ N ]", "U [ " + S("ab") + " ]", "U [ L [ ] ]", "U [ " + srctie.attr_dict(rng) + " I 1 ]"])
    return f"[ {srctie.stored_dict(rng) if rng.random() < 0.3 else 'M [ ]'} {args} {kw_dict(rng)} ]"


def _doc_init(rng):
    cx = Ctx(rng)
    r = rng.random()
    a = "U [ " + "".join(child_arg(cx) + " " for _ in range(rng.choice([0, 1, 2, 3]))) + "]"
    # `kwargs` as the callee sees it: a dict, and `self` cannot be among its keys
    kw = srctie.attr_dict(rng) if rng.random() < 0.7 else f"M [ {es(rng.choice(['_name', '_add_ws', 'lang']))} {S('x')} ]"
    return cx.finish(f"[ O HTMLDocument [ ] {a} {kw} ]")


def _doc_append(rng):
    cx = Ctx(rng)
    r = rng.random()
    a = "U [ " + "".join(child_arg(cx) + " " for _ in range(rng.choice([0, 1, 1, 2, 3]))) + "]"
    return cx.finish(f"[ {doc(cx)} {a} ]")


def register(GENS):
    GENS["TagAttrDict_initC11"] = _tad_init
    GENS["Tag_insertC11"] = _tag_insert
    GENS["Tag_extendC11"] = _tag_extend
    GENS["Tag_appendC11"] = _tag_append
    GENS["HTMLDocument_initC11"] = _doc_init
    GENS["HTMLDocument_appendC11"] = _doc_append
