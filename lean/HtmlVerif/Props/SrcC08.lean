/-
Source tie (DESIGN §14) for C08: the Lean functions that `harness/pytranslate.py` (plug-in harness/pytr_c08.py) regenerates
from the *text* of `_equals_impl`, `Tag.__eq__`, `TagList.__eq__`, `HTMLDependency.__eq__` (a `mutual` group, recursion
through `==` on field values bounded by fuel) and of the views `Tag.__repr__`, `Tag._repr_html_`, `TagList.__repr__`,
`TagList._repr_html_` compute what the model computes (`Node.eqv` / `Nodes.eqvKids`, Model/Equality.lean; `reprView` /
`reprHtmlView`, Model/ReadOps.lean).

`==` on field values is the stated semantics of Py/PrimC08.lean (`pyEqWith`), which calls back into the translated
`__eq__` methods through `eqDispatch`.  Layers:
* `src_equals_impl`: the regenerated `_equals_impl` on ANY instance `x` (class, `__dict__`) and ANY `y` is `equalsSpec` —
  isinstance test, then the `__dict__` entries in order, stopping at the first unequal one.  The loop body is obtained by
  unification (`forIn_all_k`, the rule for a loop that returns on the first failing test); only one pass is examined.
* `src_Tag_eq_def` / `src_TagList_eq_def` / `src_HTMLDependency_eq_def`: each `__eq__` is `_equals_impl(self, other)`.
* `src_eq_node` (mutual structural induction `eq_node` / `eq_kids` over the left operand): for every pair of covered trees
  (`eqCov`: no un-expanded tagifiable object — those compare by identity, which the fragment does not have) and any fuel
  ≥ 4·nesting + 2, Python's `a == b` on the embedded objects (`embE`: every library object with its whole `__dict__`) is
  `Node.eqv a b`; corollaries `src_Tag_eq`, `src_TagList_eq`, `src_HTMLDependency_eq`, `src_eq_not_instance`,
  `src_Tag_vs_TagList`.
* views: `src_Tag_repr` … `src_TagList_repr_html` (`= str(self)` for any `self`), `src_views_tag` / `src_views_list`.
`Tag.__str__`, `TagList.__str__`, `_render_tag_or_taglist` are not translated (see harness/pytr_c08.py).

Every theorem about a regenerated function takes `<fn>_available = true` and has its whole proof inside the second
alternative of `first | exact absurd h (by decide) | (…)`, so that it is vacuous (and still compiles) when the function has
left the translatable fragment.
-/
import HtmlVerif.Generated.Src
import HtmlVerif.Lemmas.SrcC08
import HtmlVerif.Model.ReadOps

namespace HtmlVerif.SrcTie
open HtmlVerif HtmlVerif.Py HtmlVerif.Generated.Src

/-- `_equals_impl(x, y)` as the source has it, for any instance `x` (class `c`, `__dict__` `fs`) and any `y`: False unless
    `y` is an instance of `x`'s class; otherwise the conjunction, in `__dict__` order and stopping at the first False, of
    `getattr(x, key, None) == getattr(y, key, None)` — with `==` the stated semantics of Py/PrimC08.lean over the
    translated `__eq__` methods one level of fuel down -/
theorem src_equals_impl (h : equals_impl_available = true) (G : Globals) (fuel : Nat) (c : String)
    (fs : List (String × PVal)) (y : PVal) :
    equals_impl G (fuel + 1) (.obj c fs) y = equalsSpec (eqD G fuel) c fs y := by
  first
  | exact absurd h (by decide)
  | (rw [equals_impl]
     simp only [ok_bind, pure_eq_ok, truthy_bool, equalsSpec]
     by_cases hi : isInstanceTypeOf y (.obj c fs) = true
     · simp only [hi, Bool.not_true, Bool.false_eq_true, if_false, if_true, pyObjDict]
       by_cases hp : (fs.any fun f => pseudoField f.1) = true
       · simp only [hp, if_true, throw_eq_error, error_bind]
       · simp only [hp, Bool.false_eq_true, if_false, pure_eq_ok, ok_bind, pyKeys, pyIter_list, List.map_map]
         refine (forIn_all_k (fun kv : String × PVal => PVal.str kv.1.toList) fs _ (fieldTest (eqD G fuel) (.obj c fs) y)
           (PVal.bool false) _ ?h0 ?step _ (fun o => match o with | some r => .ok r | none => .ok (.bool true)) ?hk).trans ?fin
         case h0 => rfl
         case hk => intro s; obtain ⟨s1, s2⟩ := s; cases s1 <;> rfl
         case step =>
           intro kv _ s hs
           obtain ⟨s1, s2⟩ := s
           simp only at hs; subst hs
           simp only [fieldTest]
           cases pyGetAttrD (.obj c fs) (.str kv.1.toList) .none with
           | error e => rfl
           | ok a =>
             cases pyGetAttrD y (.str kv.1.toList) .none with
             | error e => rfl
             | ok b =>
               simp only [ok_bind, pyEqDeep]
               cases pyEqWith (eqD G fuel) a b with
               | error e => rfl
               | ok r => cases r <;> simp
         case fin =>
           cases allOk (fieldTest (eqD G fuel) (.obj c fs) y) fs with
           | error e => rfl
           | ok b => cases b <;> rfl
     · simp only [hi, Bool.false_eq_true, if_false, Bool.not_false, if_true])

/-- `Tag.__eq__` as the source has it is `_equals_impl(self, other)` -/
theorem src_Tag_eq_def (h : Tag_eq_available = true) (G : Globals) (fuel : Nat) (x y : PVal) :
    Tag_eq G (fuel + 1) x y = equals_impl G fuel x y := by
  first
  | exact absurd h (by decide)
  | (rw [Tag_eq]
     all_goals (simp only [pure_eq_ok]; cases equals_impl G fuel x y <;> rfl))

/-- `TagList.__eq__` as the source has it is `_equals_impl(self, other)` -/
theorem src_TagList_eq_def (h : TagList_eq_available = true) (G : Globals) (fuel : Nat) (x y : PVal) :
    TagList_eq G (fuel + 1) x y = equals_impl G fuel x y := by
  first
  | exact absurd h (by decide)
  | (rw [TagList_eq]
     all_goals (simp only [pure_eq_ok]; cases equals_impl G fuel x y <;> rfl))

/-- `HTMLDependency.__eq__` as the source has it is `_equals_impl(self, other)` -/
theorem src_HTMLDependency_eq_def (h : HTMLDependency_eq_available = true) (G : Globals) (fuel : Nat) (x y : PVal) :
    HTMLDependency_eq G (fuel + 1) x y = equals_impl G fuel x y := by
  first
  | exact absurd h (by decide)
  | (rw [HTMLDependency_eq]
     all_goals (simp only [pure_eq_ok]; cases equals_impl G fuel x y <;> rfl))

/-- availability of the whole group -/
structure EqAvail : Prop where
  impl : equals_impl_available = true
  tag : Tag_eq_available = true
  list : TagList_eq_available = true
  dep : HTMLDependency_eq_available = true

/-- `x.__eq__(y)` for an instance of one of the three classes, two levels of fuel up -/
theorem src_eq_dispatch (av : EqAvail) (G : Globals) (fuel : Nat) (c : String) (fs : List (String × PVal)) (y : PVal)
    (hc : eqLibClass c = true) :
    eqD G (fuel + 2) (.obj c fs) y = equalsSpec (eqD G fuel) c fs y := by
  simp only [eqLibClass, Bool.or_eq_true, beq_iff_eq] at hc
  rcases hc with (rfl | rfl) | rfl
  · simp only [eqD, eqDispatch, pyClassOf]
    rw [src_Tag_eq_def av.tag, src_equals_impl av.impl]
  · simp only [eqD, eqDispatch, pyClassOf]
    rw [src_TagList_eq_def av.list, src_equals_impl av.impl]
  · simp only [eqD, eqDispatch, pyClassOf]
    rw [src_HTMLDependency_eq_def av.dep, src_equals_impl av.impl]

/-- a built-in value against an instance of a library class, either way round: False -/
theorem eq_builtin_lib (av : EqAvail) (G : Globals) (f : Nat) (a : PVal) (c : String) (fs)
    (ha : eqKind a = .builtin) (hc : eqLibClass c = true) :
    pyEqWith (eqD G (f + 2)) a (.obj c fs) = .ok false ∧ pyEqWith (eqD G (f + 2)) (.obj c fs) a = .ok false := by
  constructor
  · rw [pyEqWith_builtin_lib _ _ _ _ ha hc, src_eq_dispatch av _ _ _ _ _ hc,
      equalsSpec_not_inst _ _ _ _ (not_inst_builtin _ _ _ (unwrapHtml_builtin a ha) hc)]
    rfl
  · rw [pyEqWith_lib _ _ _ _ hc (by rw [ha]; simp), src_eq_dispatch av _ _ _ _ _ hc,
      equalsSpec_not_inst _ _ _ _ (not_inst_builtin _ _ _ ha hc)]
    rfl

/-- a leaf on the left -/
theorem eq_leaf_step (av : EqAvail) (G : Globals) (f : Nat) (a b : Node) (ha : eqFuel a = 0) (hca : eqCov a = true)
    (hb : eqCov b = true) :
    pyEqWith (eqD G (f + 2)) (embE a) (embE b) = .ok (a.eqv b) := by
  cases a with
  | tag => simp [eqFuel] at ha
  | dep => simp [eqFuel] at ha
  | tobjL => simp [eqCov] at hca
  | tobj1 => simp [eqCov] at hca
  | text s =>
    cases b with
    | tobjL => simp [eqCov] at hb
    | tobj1 => simp [eqCov] at hb
    | tag n w a k => exact (eq_builtin_lib av G f (.str s) "Tag" _ rfl rfl).1
    | dep d hh k => exact (eq_builtin_lib av G f (.str s) "HTMLDependency" _ rfl rfl).1
    | _ => rfl
  | html s =>
    cases b with
    | tobjL => simp [eqCov] at hb
    | tobj1 => simp [eqCov] at hb
    | tag n w a k => exact (eq_builtin_lib av G f (.html s) "Tag" _ rfl rfl).1
    | dep d hh k => exact (eq_builtin_lib av G f (.html s) "HTMLDependency" _ rfl rfl).1
    | _ => rfl
  | robj s =>
    cases b with
    | tobjL => simp [eqCov] at hb
    | tobj1 => simp [eqCov] at hb
    | _ => rfl
  | mnode n =>
    cases b with
    | tobjL => simp [eqCov] at hb
    | tobj1 => simp [eqCov] at hb
    | mnode n' =>
      rw [embE, embE, pyEqWith_flat_obj]
      simp [pyEqFlat, eqKind, eqLibClass, eqHelperField, eqHelper, fieldGet?, eqScalar, eq_natCast_beq, Node.eqv]
    | _ => rfl
theorem eq_taglist_step (av : EqAvail) (G : Globals) (k k' : Nodes) (f : Nat)
    (HK : pyEqListWith (eqD G f) (embEs k) (embEs k') = .ok (k.eqvKids k')) :
    pyEqWith (eqD G (f + 2)) (eqTagList (embEs k)) (eqTagList (embEs k')) = .ok (k.eqvKids k') := by
  unfold eqTagList
  rw [pyEqWith_lib _ _ _ _ rfl (by simp [eqKind, eqLibClass]), src_eq_dispatch av _ _ _ _ _ rfl]
  simp [equalsSpec, isInstanceTypeOf, isInstance, pyClassOf, pseudoField, allOk, fieldTest, pyGetAttrD, fieldGet?,
    pyEqWith_list_list, embEs_length, HK]
  by_cases hl : k.length = k'.length
  · simp [hl]
    cases k.eqvKids k' <;> rfl
  · have : k.eqvKids k' = false := by
      cases hq : k.eqvKids k' with
      | false => rfl
      | true => exact absurd (eqvKids_length k k' hq) hl
    simp [hl, this]
    rfl

theorem eq_tag_step (av : EqAvail) (G : Globals) (n : Str) (w : Bool) (a : Attrs) (k : Nodes) (b : Node) (f : Nat)
    (hb : eqCov b = true)
    (HK : ∀ k', eqCovKids k' = true → pyEqListWith (eqD G f) (embEs k) (embEs k') = .ok (k.eqvKids k')) :
    pyEqWith (eqD G (f + 4)) (embE (.tag n w a k)) (embE b) = .ok ((Node.tag n w a k).eqv b) := by
  rw [embE, pyEqWith_lib _ _ _ _ rfl (eqKind_embE b hb), src_eq_dispatch av _ _ _ _ _ rfl]
  cases b with
  | tag n' w' a' k' =>
    have hk := eq_taglist_step av G k k' f (HK k' (by simpa [eqCov] using hb))
    simp [equalsSpec, embE, isInstanceTypeOf, isInstance, pyClassOf, pseudoField, allOk, fieldTest, pyGetAttrD, fieldGet?,
      pyEqWith_str_str, pyEqWith_bool_bool, pyEqWith_attrs, pyEqWith_none_none, hk]
    rw [Node.eqv]
    cases (n == n') <;> cases (w == w') <;> cases attrsEqv a a' <;> cases k.eqvKids k' <;> rfl
  | tobjL r c => simp [eqCov] at hb
  | tobj1 r c => simp [eqCov] at hb
  | _ =>
    rw [equalsSpec_not_inst _ _ _ _ (by simp [embE, isInstanceTypeOf, isInstance, classBases, builtinClasses, pyClassOf])]
    rfl

theorem eq_dep_step (av : EqAvail) (G : Globals) (d : DepInfo) (hh : Bool) (k : Nodes) (b : Node) (f : Nat)
    (ha : eqCov (.dep d hh k) = true) (hb : eqCov b = true)
    (HK : ∀ k', eqCovKids k' = true → pyEqListWith (eqD G f) (embEs k) (embEs k') = .ok (k.eqvKids k')) :
    pyEqWith (eqD G (f + 4)) (embE (.dep d hh k)) (embE b) = .ok ((Node.dep d hh k).eqv b) := by
  rw [embE, pyEqWith_lib _ _ _ _ rfl (eqKind_embE b hb), src_eq_dispatch av _ _ _ _ _ rfl]
  cases b with
  | dep d' hh' k' =>
    have hcb : eqCovKids k' = true ∧ (hh' = true ∨ Nodes.isNil k' = true) := by simpa [eqCov] using hb
    have hca : eqCovKids k = true ∧ (hh = true ∨ Nodes.isNil k = true) := by simpa [eqCov] using ha
    have hk := eq_taglist_step av G k k' f (HK k' hcb.1)
    have hhead : pyEqWith (eqD G (f + 2)) (if hh then eqTagList (embEs k) else .none) (if hh' then eqTagList (embEs k') else .none)
        = .ok (hh == hh' && k.eqvKids k') := by
      cases hh <;> cases hh'
      · have h1 : k = .nil := by cases k <;> simp_all [Nodes.isNil]
        have h2 : k' = .nil := by cases k' <;> simp_all [Nodes.isNil]
        subst h1 h2; rfl
      · exact (eq_builtin_lib av G f .none "TagList" _ rfl rfl).1
      · exact (eq_builtin_lib av G f .none "TagList" _ rfl rfl).2
      · simpa using hk
    simp [equalsSpec, embE, isInstanceTypeOf, isInstance, pyClassOf, pseudoField, allOk, fieldTest, pyGetAttrD, fieldGet?,
      pyEqWith_str_str, pyEqWith_bool_bool, pyEqWith_version, pyEqWith_source, pyEqWith_ekvs, hhead]
    rw [Node.eqv, depInfoEqv]
    cases (d.name == d'.name)
    · rfl
    cases (d.vrank == d'.vrank)
    · rfl
    cases (sourceEqv d.source d'.source)
    · rfl
    cases (kvDictsEqv d.script d'.script)
    · rfl
    cases (kvDictsEqv d.stylesheet d'.stylesheet)
    · rfl
    cases (kvDictsEqv d.metas d'.metas)
    · rfl
    cases (d.allFiles == d'.allFiles)
    · rfl
    cases (hh == hh')
    · rfl
    cases (k.eqvKids k') <;> rfl
  | tobjL r c => simp [eqCov] at hb
  | tobj1 r c => simp [eqCov] at hb
  | _ =>
    rw [equalsSpec_not_inst _ _ _ _ (by simp [embE, isInstanceTypeOf, isInstance, classBases, builtinClasses, pyClassOf])]
    rfl


theorem eq_kids_cons (o : PVal → PVal → PyM PVal) (h : Node) (t : Nodes) (k' : Nodes)
    (Hh : ∀ b, eqCov b = true → pyEqWith o (embE h) (embE b) = .ok (h.eqv b))
    (Ht : ∀ k'', eqCovKids k'' = true → pyEqListWith o (embEs t) (embEs k'') = .ok (t.eqvKids k''))
    (hk' : eqCovKids k' = true) :
    pyEqListWith o (embEs (.cons h t)) (embEs k') = .ok ((Nodes.cons h t).eqvKids k') := by
  cases k' with
  | nil => rfl
  | cons y u =>
    have hc : eqCov y = true ∧ eqCovKids u = true := by simpa [eqCovKids] using hk'
    simp only [embEs, pyEqListWith, Hh y hc.1, ok_bind, Nodes.eqvKids]
    cases h.eqv y
    · rfl
    · simpa using Ht u hc.2

mutual
  theorem eq_node (av : EqAvail) (G : Globals) : (a : Node) → ∀ (b : Node) (fuel : Nat), eqCov a = true → eqCov b = true →
      eqFuel a + 2 ≤ fuel → pyEqWith (eqD G fuel) (embE a) (embE b) = .ok (a.eqv b)
    | .tag n w at' k, b, fuel, ha, hb, hf => by
      have hf' : eqFuelKids k + 6 ≤ fuel := by simpa [eqFuel] using hf
      obtain ⟨f, rfl⟩ : ∃ f, fuel = f + 4 := ⟨fuel - 4, by omega⟩
      exact eq_tag_step av G n w at' k b f hb
        (fun k' hk' => eq_kids av G k k' f (by simpa [eqCov] using ha) hk' (by omega))
    | .dep d hh k, b, fuel, ha, hb, hf => by
      have hf' : eqFuelKids k + 6 ≤ fuel := by simpa [eqFuel] using hf
      obtain ⟨f, rfl⟩ : ∃ f, fuel = f + 4 := ⟨fuel - 4, by omega⟩
      have hck : eqCovKids k = true := by
        have : eqCovKids k = true ∧ (hh = true ∨ Nodes.isNil k = true) := by simpa [eqCov] using ha
        exact this.1
      exact eq_dep_step av G d hh k b f ha hb (fun k' hk' => eq_kids av G k k' f hck hk' (by omega))
    | .text s, b, fuel, ha, hb, hf => by
      obtain ⟨f, rfl⟩ : ∃ f, fuel = f + 2 := ⟨fuel - 2, by omega⟩
      exact eq_leaf_step av G f _ b rfl ha hb
    | .html s, b, fuel, ha, hb, hf => by
      obtain ⟨f, rfl⟩ : ∃ f, fuel = f + 2 := ⟨fuel - 2, by omega⟩
      exact eq_leaf_step av G f _ b rfl ha hb
    | .robj s, b, fuel, ha, hb, hf => by
      obtain ⟨f, rfl⟩ : ∃ f, fuel = f + 2 := ⟨fuel - 2, by omega⟩
      exact eq_leaf_step av G f _ b rfl ha hb
    | .mnode s, b, fuel, ha, hb, hf => by
      obtain ⟨f, rfl⟩ : ∃ f, fuel = f + 2 := ⟨fuel - 2, by omega⟩
      exact eq_leaf_step av G f _ b rfl ha hb
    | .tobjL _ _, _, _, ha, _, _ => by simp [eqCov] at ha
    | .tobj1 _ _, _, _, ha, _, _ => by simp [eqCov] at ha
  theorem eq_kids (av : EqAvail) (G : Globals) : (k : Nodes) → ∀ (k' : Nodes) (fuel : Nat), eqCovKids k = true →
      eqCovKids k' = true → eqFuelKids k + 2 ≤ fuel →
      pyEqListWith (eqD G fuel) (embEs k) (embEs k') = .ok (k.eqvKids k')
    | .nil, k', _, _, _, _ => by cases k' <;> rfl
    | .cons h t, k', fuel, hk, hk', hf => by
      have hc : eqCov h = true ∧ eqCovKids t = true := by simpa [eqCovKids] using hk
      have hf' : eqFuel h + 2 ≤ fuel ∧ eqFuelKids t + 2 ≤ fuel := by simp [eqFuelKids] at hf; omega
      exact eq_kids_cons _ h t k' (fun b hb => eq_node av G h b fuel hc.1 hb hf'.1)
        (fun k'' hk'' => eq_kids av G t k'' fuel hc.2 hk'' hf'.2) hk'
end


/-! ### the tie: `==` as the source has it is the model's `Node.eqv` / `Nodes.eqvKids` -/

theorem asBool_bind_ok {x : PyM PVal} {r : Bool} (h : (x >>= asBool) = .ok r) : x = .ok (.bool r) := by
  cases x with
  | error e => cases h
  | ok v =>
    cases v with
    | bool b =>
      have hb : b = r := by simpa [asBool] using h
      rw [hb]
    | _ => simp [asBool] at h

/-- Python's `a == b` (Py/PrimC08.lean over the translated `__eq__` methods) between any two objects of covered trees:
    the model's `Node.eqv` -/
theorem src_eq_node (av : EqAvail) (G : Globals) (a b : Node) (fuel : Nat) (ha : eqCov a = true) (hb : eqCov b = true)
    (hf : eqFuel a + 2 ≤ fuel) :
    pyEqWith (eqD G fuel) (embE a) (embE b) = .ok (a.eqv b) :=
  eq_node av G a b fuel ha hb hf

/-- `Tag.__eq__(self, other)` as the source has it (through `_equals_impl` and, for the children and the attributes, the
    `==` of the contained values) = `Node.eqv`, for every covered tag and every covered `other` (tag or not) -/
theorem src_Tag_eq (av : EqAvail) (G : Globals) (n : Str) (w : Bool) (at' : Attrs) (k : Nodes) (b : Node) (fuel : Nat)
    (ha : eqCov (.tag n w at' k) = true) (hb : eqCov b = true) (hf : eqFuel (.tag n w at' k) + 2 ≤ fuel) :
    Tag_eq G fuel (embE (.tag n w at' k)) (embE b) = .ok (.bool ((Node.tag n w at' k).eqv b)) := by
  have h := eq_node av G (.tag n w at' k) b fuel ha hb hf
  rw [embE, pyEqWith_lib _ _ _ _ rfl (eqKind_embE b hb)] at h
  simpa only [embE, eqD, eqDispatch, pyClassOf] using asBool_bind_ok h

/-- `HTMLDependency.__eq__(self, other)` as the source has it = `Node.eqv` (name, version by rank, source, script,
    stylesheet, meta, all_files, head) -/
theorem src_HTMLDependency_eq (av : EqAvail) (G : Globals) (d : DepInfo) (hh : Bool) (k : Nodes) (b : Node) (fuel : Nat)
    (ha : eqCov (.dep d hh k) = true) (hb : eqCov b = true) (hf : eqFuel (.dep d hh k) + 2 ≤ fuel) :
    HTMLDependency_eq G fuel (embE (.dep d hh k)) (embE b) = .ok (.bool ((Node.dep d hh k).eqv b)) := by
  have h := eq_node av G (.dep d hh k) b fuel ha hb hf
  rw [embE, pyEqWith_lib _ _ _ _ rfl (eqKind_embE b hb)] at h
  simpa only [embE, eqD, eqDispatch, pyClassOf] using asBool_bind_ok h

/-- `TagList.__eq__(self, other)` as the source has it, between two child lists = `Nodes.eqvKids` (same length, equal
    position by position) -/
theorem src_TagList_eq (av : EqAvail) (G : Globals) (k k' : Nodes) (fuel : Nat)
    (hk : eqCovKids k = true) (hk' : eqCovKids k' = true) (hf : eqFuelKids k + 4 ≤ fuel) :
    TagList_eq G fuel (eqTagList (embEs k)) (eqTagList (embEs k')) = .ok (.bool (k.eqvKids k')) := by
  obtain ⟨f, rfl⟩ : ∃ f, fuel = f + 2 := ⟨fuel - 2, by omega⟩
  have h := eq_taglist_step av G k k' f (eq_kids av G k k' f hk hk' (by omega))
  rw [eqTagList, pyEqWith_lib _ _ _ _ rfl (by simp [eqTagList, eqKind, eqLibClass])] at h
  exact asBool_bind_ok h

/-- an instance of one of the three classes against anything that is not an instance of its class (a `Tag` against a
    `TagList`, a string, `None`, …): False -/
theorem src_eq_not_instance (av : EqAvail) (G : Globals) (fuel : Nat) (c : String) (fs : List (String × PVal)) (y : PVal)
    (hc : eqLibClass c = true) (hy : isInstanceTypeOf y (.obj c fs) = false) :
    eqD G (fuel + 2) (.obj c fs) y = .ok (.bool false) := by
  rw [src_eq_dispatch av _ _ _ _ _ hc, equalsSpec_not_inst _ _ _ _ hy]

/-- `tag == taglist` and `taglist == tag` are False whatever they contain -/
theorem src_Tag_vs_TagList (av : EqAvail) (G : Globals) (fuel : Nat) (n : Str) (w : Bool) (at' : Attrs) (k : Nodes)
    (l : List PVal) :
    Tag_eq G (fuel + 2) (embE (.tag n w at' k)) (eqTagList l) = .ok (.bool false)
    ∧ TagList_eq G (fuel + 2) (eqTagList l) (embE (.tag n w at' k)) = .ok (.bool false) := by
  constructor
  · have := src_eq_not_instance av G fuel "Tag" _ (eqTagList l) rfl
      (by simp [embE, eqTagList, isInstanceTypeOf, isInstance, classBases, pyClassOf] :
        isInstanceTypeOf (eqTagList l) (embE (.tag n w at' k)) = false)
    simpa only [eqD, eqDispatch, pyClassOf, embE] using this
  · have := src_eq_not_instance av G fuel "TagList" [("data", .list l)] (embE (.tag n w at' k)) rfl
      (by simp [embE, isInstanceTypeOf, isInstance, classBases, pyClassOf])
    simpa only [eqD, eqDispatch, pyClassOf, eqTagList] using this

/-! ### the string views: `repr(x)` and `x._repr_html_()` are `str(x)` -/

section Views
open HtmlVerif.Ident

/-- `Tag.__repr__` as the source has it is `str(self)`, whatever `self` is -/
theorem src_Tag_repr (h : Tag_repr_available = true) (G : Globals) (x : PVal) : Tag_repr G x = pyStr x := by
  first
  | exact absurd h (by decide)
  | (unfold Tag_repr
     cases hx : pyStr x <;> simp [hx])

/-- `Tag._repr_html_` as the source has it is `str(self)` -/
theorem src_Tag_repr_html (h : Tag_repr_html_available = true) (G : Globals) (x : PVal) : Tag_repr_html G x = pyStr x := by
  first
  | exact absurd h (by decide)
  | (unfold Tag_repr_html
     cases hx : pyStr x <;> simp [hx])

/-- `TagList.__repr__` as the source has it is `str(self)` -/
theorem src_TagList_repr (h : TagList_repr_available = true) (G : Globals) (x : PVal) : TagList_repr G x = pyStr x := by
  first
  | exact absurd h (by decide)
  | (unfold TagList_repr
     cases hx : pyStr x <;> simp [hx])

/-- `TagList._repr_html_` as the source has it is `str(self)` -/
theorem src_TagList_repr_html (h : TagList_repr_html_available = true) (G : Globals) (x : PVal) :
    TagList_repr_html G x = pyStr x := by
  first
  | exact absurd h (by decide)
  | (unfold TagList_repr_html
     cases hx : pyStr x <;> simp [hx])

/-- the views of the model (Model/ReadOps.lean): for any object `x` standing for the tag `n` whose `str(x)` is the model's
    `strView` (in whatever dependency render mode), `repr(x)` and `x._repr_html_()` as the source has them are the model's
    `reprView` and `reprHtmlView` — errors included -/
theorem src_views_tag (h1 : Tag_repr_available = true) (h2 : Tag_repr_html_available = true) (G : Globals) (x : PVal)
    (cfg : Cfg) (m : RenderMode) (n : Node) (hs : pyStr x = embRes PVal.str (strView cfg m n)) :
    Tag_repr G x = embRes PVal.str (reprView cfg m n) ∧ Tag_repr_html G x = embRes PVal.str (reprHtmlView cfg m n) :=
  ⟨(src_Tag_repr h1 G x).trans hs, (src_Tag_repr_html h2 G x).trans hs⟩

/-- the same for a child list -/
theorem src_views_list (h1 : TagList_repr_available = true) (h2 : TagList_repr_html_available = true) (G : Globals) (x : PVal)
    (cfg : Cfg) (m : RenderMode) (ks : Nodes) (hs : pyStr x = embRes PVal.str (strViewList cfg m ks)) :
    TagList_repr G x = embRes PVal.str (reprViewList cfg m ks)
    ∧ TagList_repr_html G x = embRes PVal.str (reprHtmlViewList cfg m ks) :=
  ⟨(src_TagList_repr h1 G x).trans hs, (src_TagList_repr_html h2 G x).trans hs⟩

end Views

end HtmlVerif.SrcTie
