"""Translator plug-in for the rest of htmltools/_jsx.py (C20; DESIGN §14): `JSXTagAttrDict.__setitem__ / _update / update /
__init__`, `JSXTag.__init__ / extend / append / __copy__`.  Loaded after pytr_c20.py (file-name order): the translations of
`JSXTagAttrDict._normalize_attr_name`, `_render_react_js`, `_serialize_attr`, `_serialize_style_attr` are callees, and the
hooks of pytr_c20.py — which apply to every function of `_jsx.py` (`…J` primitives for operands that may be `jsx` strings,
no truth test of a value that is not a bool by construction) — apply to the functions of this area as well.  The hooks below
are first in line for this area's functions only (`MINE`) and handle what pytr_c20.py refuses:

  * `self.<m>(…)` in expression position, `<m>` a translated method of the class that returns a value
    (`self._normalize_attr_name(key)`): the base translator's statically resolved call;
  * `x.upper()`: `pyUpperC20b G (asStr x)` — `str.upper` is what the running interpreter contributes (`Globals.upperC20b`);
  * `super().update(**d)` as a statement in a `dict` subclass: `pyDictUpdateKwC20b` (the keys of `d` become items; a `d` that
    is not a mapping raises TypeError);
  * `super().__init__()`, `self.<m>(*a, **k)`, `self.<field>.<m>(*a)` statements and the constructor call
    `JSXTagAttrDict(**kwargs)`: the star-argument binding of harness/pytr_c15b.py (`_call_star`), under the same syntactic
    conditions on the class (`_class_ok`);
  * `TagList(*args)` with `TagList` imported from `._core`: the translated `TagList.__init__` on a new, empty instance, under
    the conditions pytr_c14.py checks for the class in its own module (only base `UserList`, no `__new__` / metaclass).  The
    translations of `_core.py` use the base primitives, which treat a `jsx` string as an instance without special methods (so
    `isinstance(x, str)` is false there); the argument therefore first goes through `pyNoJsxArgsC20b`, which answers
    `unsupported` when a `jsx` string would reach them (directly or inside a list / tuple / TagList argument) — no claim is
    made about such a call;
  * `self.__class__.__new__(self.__class__)`: a new instance of the class of `self` with an empty `__dict__`
    (`pyNewLikeC20b`), when the class defines no `__new__` / `__slots__` and has no bases; the name bound to it — exactly once,
    at the top level of the body, never aliased — is a *fresh object*: `cp.__dict__.update(self.__dict__)`
    (`pyDictAttrUpdateC20b`) and `cp.a = e` are functional updates of the name;
  * `copy.copy(e)` with `copy` the module imported at top level: `pyCopyC20b` (a value has no identity, so the copy is the
    value — except that `copy.copy` rebuilds an instance of a `dict` subclass through the subclass's `__setitem__`, which for
    a JSXTagAttrDict normalises the names again: a dict with a key that contains `_` is `unsupported`).

The walk (`_walk_attrs_and_children(x, fn)`) and its visitor (the function defined inside `JSXTag.tagify`, which appends to
the list `metadata_nodes` of the enclosing call) use function values and a mutable captured variable.  Both are made
first-order explicitly, under syntactic conditions checked here (anything else is `Untranslatable`):

  * **the visitor** (spec `JSXTag.tagify.<inner>`: the one function defined directly in the body of `tagify`, whatever its
    name) is translated as a function of its captured variable followed by its own parameter; it returns the pair
    `(result, captured list afterwards)`.  Conditions (`visitor_info`): plain positional parameters, no decorator, no nested
    scope, no `global` / `nonlocal` / `del` / `yield` / `with` / `try` / `import` in either function; its only free
    variable bound by `tagify` is a local that `tagify` binds exactly once, at the top level of its body and before the
    `def`, to `[]`; inside the visitor that name occurs only as the receiver of `name.append(e)` statements (`e` does not
    mention it): `name := pyListAppend name e`; `return e` becomes `return (e, name)`.
  * **the walk**: its parameter `fn` is the visitor *state* (the captured list).  Closed world, checked on the module: the
    name `_walk_attrs_and_children` occurs only as the callee of calls with two plain positional arguments whose second is
    either the walk's own (never rebound) parameter `fn` (the recursive calls) or the name of the visitor inside `tagify` —
    so `fn(e)` in the walk *is* the visitor applied to `e` with the current state.  `fn` may occur in the walk only as the
    callee of `fn(e)` and as that second argument, and both kinds of call only as the whole right-hand side of an
    assignment statement:
        t = fn(e)                      ->  (r, fn) := visitor G fuel fn e;  t := r
        t = _walk_attrs_and_children(e, fn)  ->  (r, fn) := walk G fuel e fn;  t := r
    (`pyUnpack2` of the returned pair; the state is updated before the target is assigned, the order in which Python
    performs the call and the store); `return e` becomes `return (e, fn)`.
  * targets `t`: a local name, or `x.<field>[k]` with `x` a local that the enclosing `if` / `elif` tests with
    `isinstance(x, C)` (and that the branch does not rebind): a functional update of `x` —
    `x := setattr x field (setitem (getattr x field) k r)` — where `setitem` is decided by the class `FIELD_CLASS[(C, field)]`
    of the field: a TagList (`UserList.__setitem__`: `pySetItemU`), or a JSXTagAttrDict (the translated
    `JSXTagAttrDict.__setitem__`, followed by `pySameKeysC20b`: `unsupported` if that changed the keys of the dict — it is
    being iterated over).  A `PVal` has no identity: that the object `x` names is the visitor's *copy* and not the caller's
    object is not part of the translation (it is C20's purity correspondence).
  * `enumerate(e)`: `pyEnumerate (← pyNotJsxC20b e)` (`unsupported` for a `jsx` string, which the base `pyIter` does not know);
    iterating `enumerate(x.children)` / `x.attrs.items()` over a snapshot is what Python does here: the loop body assigns
    only to the position / key just yielded.
  * `x.tagify()` in the visitor: by the class of `x` at run time — `Tag` / `TagList`: the translated methods (pytr_c10.py);
    `JSXTag`: `unsupported` (the visitor calls it only for other classes); any other instance: `pyTagifyObj` (the value its
    `tagify()` returns is recorded in the instance).
  * `copy.copy(x)` in the visitor: a `JSXTag` goes to the translated `JSXTag.__copy__`, everything else to `pyCopyObjC20b`.

`JSXTag.tagify` and `_lib_dependency`:

  * in `tagify` the `def` of the visitor emits nothing (the walk applies it by name, see above); the statement
    `cp = _walk_attrs_and_children(e, <visitor>)` becomes `(r, metadata_nodes) := walk G fuel e metadata_nodes; cp := r` — the
    list the visitor appended to *is* `metadata_nodes` (conditions of `visitor_info`: bound once to `[]` before the `def`, not
    read before this statement);
  * `versions` (`from ._versions import versions`, not rebound): the table regenerated from the text of `_versions.py`
    (`Generated.reactVersions`, harness/translate.py) as a dict of strings;
  * the constructor calls `HTMLDependency(k=v, …)` and `Tag(a, …, *b)` with the classes imported from `._core`: the translated
    `HTMLDependency.__init__` (pytr_c10b.py) / `Tag.__init__` (pytr_c15b.py, star binding `_call_star`) on a new, empty
    instance, under the conditions on the class that those plug-ins check in `_core.py` itself (`_core_plain_class`);
  * `HTML(e)`: `mkHTMLC20b` (`mkHTML`; `str()` of a `jsx` string is the plain `str` with its text).

`jsx.__new__`, `jsx.__add__`, `jsx_tag_create`:

  * `jsx.__new__(cls, *args)` is translated for `cls = jsx` (the parameter is dropped): `super().__new__(cls, e)` in a class whose
    only base is `str` is `str.__new__(jsx, e)`: `pyJsxNewC20b e` (a new `jsx` string with the text of the `str` `e`);
  * `str.__add__(a, b)`: `pyStrAddC20b` (the plain-`str` concatenation of the texts when `b` is a `str`, also of a subclass;
    TypeError otherwise — the slot wrapper raises it itself);
  * `jsx(e)`: the translated `jsx.__new__` on the one positional argument, for the class `jsx` of this module (it defines
    `__new__` and no `__init__`, so the call is `jsx.__new__(jsx, e)` followed by `str.__init__`, which does nothing);
  * `jsx_tag_create`: the `def` of the function it returns binds a first-order closure value (`mkClosureC17`, the convention of
    harness/pytr_c17.py: the name of the translated body and the captured values in the order of their first occurrence in the
    body) — capture by value is what Python does because the captured variables are parameters `jsx_tag_create` never assigns —,
    `create_tag.__name__ = name` is a functional update of that (fresh, never aliased before the `return`) value
    (`pySetFuncNameC20b`: TypeError unless the name is a `str`); the body of the
    closure (spec `jsx_tag_create.<inner>`) is translated as a function of the captured variables followed by its own `*args` and
    `**kwargs`; `JSXTag(name, *args, allowedProps=allowedProps, **kwargs)` in it is the translated `JSXTag.__init__` on a new
    instance (star binding of harness/pytr_c15b.py: a keyword called like a parameter of `__init__` raises TypeError).
"""
from __future__ import annotations

import ast
import os

_T = None
FILE = "htmltools/_jsx.py"
CORE = "htmltools/_core.py"

#: Lean names of this area's translations
MINE = ("JSXTagAttrDict_setitemC20b", "JSXTagAttrDict_updateMapC20b", "JSXTagAttrDict_updateC20b", "JSXTagAttrDict_initC20b",
        "JSXTag_initC20b", "JSXTag_extendC20b", "JSXTag_appendC20b", "JSXTag_copyC20b",
        "JSXTag_tagify_visitorC20b", "walk_attrs_and_childrenC20b", "lib_dependencyC20b", "JSXTag_tagifyC20b",
        "jsx_newC20b", "jsx_addC20b", "jsx_tag_createC20b", "jsx_create_tagC20b")
VISITOR, WALK = "JSXTag_tagify_visitorC20b", "walk_attrs_and_childrenC20b"
LIBDEP, TAGIFY = "lib_dependencyC20b", "JSXTag_tagifyC20b"
JSX_NEW, JSX_ADD, CREATE, CREATE_INNER = "jsx_newC20b", "jsx_addC20b", "jsx_tag_createC20b", "jsx_create_tagC20b"
CREATE_INNER_QUAL = "jsx_tag_create.<inner>"
VISITOR_QUAL = "JSXTag.tagify.<inner>"
WALK_PY = "_walk_attrs_and_children"

_mods: dict = {}


def _mod(path_in_repo: str) -> ast.Module:
    path = os.path.join(_T.repo(), path_in_repo)
    key = (path, os.path.getmtime(path))
    if key not in _mods:
        with open(path, encoding="utf-8") as f:
            _mods[key] = ast.parse(f.read())
    return _mods[key]


def _shadowed(fn, name: str) -> bool:
    return name in fn.all_params or name in fn.locals


def _bindings(mod: ast.Module, name: str) -> list[ast.stmt]:
    """the module-level statements that bind `name`"""
    out = []
    for n in mod.body:
        if isinstance(n, (ast.Import, ast.ImportFrom)):
            if any((a.asname or a.name.split(".")[0]) == name for a in n.names):
                out.append(n)
        elif isinstance(n, (ast.FunctionDef, ast.AsyncFunctionDef, ast.ClassDef)) and n.name == name:
            out.append(n)
        elif isinstance(n, (ast.Assign, ast.AnnAssign, ast.AugAssign)):
            tg = n.targets if isinstance(n, ast.Assign) else [n.target]
            if any(isinstance(x, ast.Name) and x.id == name for t in tg for x in ast.walk(t)):
                out.append(n)
        elif isinstance(n, (ast.For, ast.While, ast.If, ast.With, ast.Try)):
            if any(isinstance(x, ast.Name) and x.id == name and isinstance(x.ctx, ast.Store) for x in ast.walk(n)):
                out.append(n)
    return out


def _from_core(fn, name: str) -> bool:
    """`name` is bound in this module exactly once, by `from ._core import name`, and not shadowed in the function"""
    if _shadowed(fn, name):
        return False
    bs = _bindings(_mod(fn.spec.file), name)
    return (len(bs) == 1 and isinstance(bs[0], ast.ImportFrom) and bs[0].level == 1 and bs[0].module == "_core"
            and any(a.name == name and a.asname is None for a in bs[0].names))


def _is_module(fn, name: str) -> bool:
    """`name` is the module of that name: bound at top level by `import name` only"""
    if _shadowed(fn, name):
        return False
    bs = _bindings(_mod(fn.spec.file), name)
    return len(bs) == 1 and isinstance(bs[0], ast.Import) and any(a.name == name and a.asname is None for a in bs[0].names)


def _core_userlist_class(name: str) -> bool:
    """in `_core.py`: `class name(UserList[…])` with `UserList` from `collections`, no metaclass / decorator / `__new__`"""
    import pytr_c14
    mod = _mod(CORE)
    cs = _bindings(mod, name)
    if len(cs) != 1 or not isinstance(cs[0], ast.ClassDef):
        return False
    c = cs[0]
    if len(c.bases) != 1 or c.keywords or c.decorator_list or pytr_c14.defines(c, "__new__") or pytr_c14.defines(c, "__init_subclass__"):
        return False
    b = c.bases[0]
    n = b.value if isinstance(b, ast.Subscript) else b
    if not (isinstance(n, ast.Name) and n.id == "UserList"):
        return False
    ub = _bindings(mod, "UserList")
    return (len(ub) == 1 and isinstance(ub[0], ast.ImportFrom) and ub[0].module == "collections" and ub[0].level == 0
            and any(a.name == "UserList" and a.asname is None for a in ub[0].names))


def _is_self(fn, e) -> bool:
    return (isinstance(e, ast.Name) and e.id == "self" and fn.cls is not None and bool(fn.params) and fn.params[0] == "self"
            and not fn.spec.drop_self and "self" not in fn.assigned_names(fn.node))


def _is_new_like(fn, e) -> bool:
    """`self.__class__.__new__(self.__class__)`"""
    def self_class(x):
        return isinstance(x, ast.Attribute) and x.attr == "__class__" and _is_self(fn, x.value)
    return (isinstance(e, ast.Call) and isinstance(e.func, ast.Attribute) and e.func.attr == "__new__" and self_class(e.func.value)
            and len(e.args) == 1 and not e.keywords and self_class(e.args[0]))


def _plain_object_class(cls: ast.ClassDef) -> str | None:
    import pytr_c14
    if cls.bases or cls.keywords or cls.decorator_list:
        return f"class {cls.name} has bases / a metaclass / a decorator"
    for nm in ("__new__", "__slots__", "__init_subclass__", "__setattr__", "__getattribute__", "__getattr__"):
        if pytr_c14.defines(cls, nm):
            return f"class {cls.name} defines {nm}"
    return None


def new_bound(fn) -> set[str]:
    """names bound exactly once, by `name = self.__class__.__new__(self.__class__)` at the top level of the body, and never
    aliased: not the whole right-hand side of an assignment, not inside a display, not an argument of a call, not captured"""
    if hasattr(fn, "_c20b_new_bound"):
        return fn._c20b_new_bound
    cand = set()
    for s in fn.node.body:
        if isinstance(s, ast.Assign) and len(s.targets) == 1 and isinstance(s.targets[0], ast.Name) and _is_new_like(fn, s.value):
            cand.add(s.targets[0].id)
    count: dict[str, int] = {}
    bad: set[str] = set()
    for n in ast.walk(fn.node):
        tg = []
        if isinstance(n, ast.Assign):
            tg = [(t, n.value) for t in n.targets]
        elif isinstance(n, (ast.AnnAssign, ast.AugAssign)):
            tg = [(n.target, n.value)]
        elif isinstance(n, ast.For):
            tg = [(n.target, None)]
        elif isinstance(n, ast.NamedExpr):
            tg = [(n.target, n.value)]
        for t, v in tg:
            for nm in ast.walk(t):
                if isinstance(nm, ast.Name) and isinstance(nm.ctx, ast.Store):
                    count[nm.id] = count.get(nm.id, 0) + 1
            if v is not None:
                if isinstance(v, ast.Name):
                    bad.add(v.id)
                if isinstance(v, (ast.List, ast.Tuple, ast.Dict, ast.Set)):
                    bad |= {x.id for x in ast.walk(v) if isinstance(x, ast.Name)}
        if isinstance(n, (ast.Lambda, ast.FunctionDef, ast.AsyncFunctionDef)) and n is not fn.node:
            bad |= {x.id for x in ast.walk(n) if isinstance(x, ast.Name)}
        if isinstance(n, ast.Call):
            for a in list(n.args) + [k.value for k in n.keywords]:
                if isinstance(a, ast.Name):
                    bad.add(a.id)
                if isinstance(a, ast.Starred) and isinstance(a.value, ast.Name):
                    bad.add(a.value.id)
    ok = {c for c in cand if count.get(c, 0) == 1 and c not in bad and c not in fn.all_params}
    fn._c20b_new_bound = ok
    return ok


# ------------------------------------------------------------------ expressions
def expr_hook(fn, e):
    T = _T
    if fn.spec.lean not in MINE:
        return None
    if fn.spec.lean in (VISITOR, WALK):
        r = _walk_expr_hook(fn, e)
        if r is not None:
            return r
    if fn.spec.lean in (LIBDEP, TAGIFY):
        r = _tagify_expr_hook(fn, e)
        if r is not None:
            return r
    if fn.spec.lean in (JSX_NEW, JSX_ADD, CREATE, CREATE_INNER):
        r = _jsx_expr_hook(fn, e)
        if r is not None:
            return r
    if not isinstance(e, ast.Call):
        return None
    f = e.func
    import pytr_c14
    import pytr_c15b
    if isinstance(f, ast.Attribute):
        # self.<m>(…), <m> a translated method of this class that returns a value
        if _is_self(fn, f.value):
            q = f"{fn.cls.name}.{f.attr}"
            info = next((i for i in fn.known.values() if i.spec.qual == q and i.spec.file == fn.spec.file), None)
            if info is not None:
                if info.spec.returns_self:
                    raise T.Untranslatable("self-mutating method used as an expression")
                if pytr_c15b._has_star(e):
                    raise T.Untranslatable("star arguments in a call of a translated method in expression position")
                return fn.call_known(info, e.args, e.keywords, recv=None if info.spec.drop_self else fn.name("self"))
        # x.upper()
        if f.attr == "upper" and not e.args and not e.keywords:
            return f"(← pyUpperC20b G (asStr {fn.V(f.value)}))"
        # copy.copy(e)
        if (isinstance(f.value, ast.Name) and f.value.id == "copy" and f.attr == "copy" and len(e.args) == 1 and not e.keywords
                and not isinstance(e.args[0], ast.Starred)):
            if not _is_module(fn, "copy"):
                raise T.Untranslatable("`copy` is not the module copy here")
            return f"(← pyCopyC20b {fn.V(e.args[0])})"
        # self.__class__.__new__(self.__class__)
        if _is_new_like(fn, e):
            bad = _plain_object_class(fn.cls)
            if bad:
                raise T.Untranslatable(f"self.__class__.__new__(…): {bad}")
            return f"(← pyNewLikeC20b {fn.name('self')})"
        return None
    if isinstance(f, ast.Name) and not _shadowed(fn, f.id):
        # JSXTagAttrDict(**kwargs)
        if f.id == "JSXTagAttrDict":
            info = fn.known.get("JSXTagAttrDict_initC20b")
            if info is None or not info.available:
                raise T.Untranslatable("JSXTagAttrDict.__init__ is not translated")
            if not pytr_c15b._class_ok(fn, f.id, info, "dict") or not info.spec.returns_self:
                raise T.Untranslatable("constructor call of JSXTagAttrDict: not the plain dict subclass of this module")
            return pytr_c15b._call_star(fn, info, e.args, e.keywords, recv="(PVal.dict [])")
        # TagList(*args), the class of _core.py
        if f.id == "TagList":
            info = fn.known.get("TagList_init")
            if info is None or not info.available:
                raise T.Untranslatable("TagList.__init__ is not translated")
            if not _from_core(fn, "TagList") or info.spec.file != CORE or info.spec.qual != "TagList.__init__" \
                    or not _core_userlist_class("TagList"):
                raise T.Untranslatable("constructor call of TagList: not the plain UserList subclass of ._core")
            if e.keywords or info.vararg is None or len(info.params) != 1 or info.kwonly or info.kwarg:
                raise T.Untranslatable("constructor call of TagList outside the fragment")
            if info.spec.recursive and not (fn.spec.recursive or fn.spec.group):
                raise T.Untranslatable("TagList.__init__ takes fuel, the caller has none")
            fuel = " fuel" if info.spec.recursive else ""
            return (f'(← {info.spec.lean} G{fuel} (PVal.obj "TagList" []) '
                    f"(← pyNoJsxArgsC20b (PVal.tuple {pytr_c14.seq_elts(fn, e.args)})))")
    return None


# ------------------------------------------------------------------ statements
def _dict_subclass(fn) -> bool:
    import pytr_c14
    c = fn.cls
    if c is None or len(c.bases) != 1 or c.keywords:
        return False
    b = c.bases[0]
    n = b.value if isinstance(b, ast.Subscript) else b
    if not isinstance(n, ast.Name):
        return False
    return n.id == "dict" or (n.id == "Dict" and pytr_c14._imported_from(fn, "Dict", ("typing",)))


def stmt_hook(fn, ind, s):
    T = _T
    if fn.spec.lean not in MINE:
        return False
    if fn.spec.lean in (VISITOR, WALK) and _walk_stmt_hook(fn, ind, s):
        return True
    if _tagify_stmt_hook(fn, ind, s):
        return True
    if _jsx_stmt_hook(fn, ind, s):
        return True
    import pytr_c14
    import pytr_c15b
    # cp = self.__class__.__new__(self.__class__): cp becomes a fresh object
    if isinstance(s, ast.Assign) and len(s.targets) == 1 and isinstance(s.targets[0], ast.Name) and _is_new_like(fn, s.value):
        if s.targets[0].id not in new_bound(fn):
            raise T.Untranslatable(f"{s.targets[0].id} = self.__class__.__new__(…): the name is rebound or aliased")
        fn.fresh_objects.add(s.targets[0].id)
        return False
    if not (isinstance(s, ast.Expr) and isinstance(s.value, ast.Call)):
        return False
    c = s.value
    f = c.func
    if not isinstance(f, ast.Attribute):
        return False
    # cp.__dict__.update(self.__dict__)
    if (f.attr == "update" and isinstance(f.value, ast.Attribute) and f.value.attr == "__dict__" and isinstance(f.value.value, ast.Name)
            and f.value.value.id in fn.fresh_objects and len(c.args) == 1 and not c.keywords
            and isinstance(c.args[0], ast.Attribute) and c.args[0].attr == "__dict__" and _is_self(fn, c.args[0].value)):
        nm = fn.name(f.value.value.id)
        fn.emit(ind, f"{nm} := (← pyDictAttrUpdateC20b {nm} {fn.name('self')})")
        return True
    if pytr_c14.is_super_call(c, "__init__") or pytr_c14.is_super_call(c, "update"):
        if not (_dict_subclass(fn) and "self" in fn.all_params):
            return False
        me = fn.name("self")
        # super().__init__()
        if f.attr == "__init__":
            if c.args or c.keywords:
                raise T.Untranslatable("super().__init__(…) with arguments in a dict subclass")
            fn.mutates_self = True
            fn.emit(ind, f"{me} := (← pyDictInit0C15b {me})")
            return True
        # super().update(**d)
        if (not c.args and len(c.keywords) == 1 and c.keywords[0].arg is None and isinstance(c.keywords[0].value, ast.Name)):
            fn.mutates_self = True
            fn.emit(ind, f"{me} := (← pyDictUpdateKwC20b {me} {fn.V(c.keywords[0].value)})")
            return True
        return False
    # self.<field>.<m>(…): the field holds an instance of a class of `_core.py` whose translated method mutates it
    if (isinstance(f.value, ast.Attribute) and _is_self(fn, f.value.value) and (fn.cls.name, f.value.attr) in T.FIELD_CLASS):
        owner = T.FIELD_CLASS[(fn.cls.name, f.value.attr)]
        info = next((i for i in fn.known.values() if i.spec.qual == f"{owner}.{f.attr}" and i.spec.returns_self), None)
        if info is None:
            return False
        if not info.available:
            raise T.Untranslatable(f"calls {info.spec.qual}, which is not translated")
        if info.spec.file != CORE or c.keywords:
            return False
        me = fn.name("self")
        fld = f.value.attr
        fn.mutates_self = True
        recv = fn.fresh("recv")
        fn.emit(ind, f'let {recv} ← pyGetAttr {me} "{fld}"')          # Python evaluates the receiver first
        for a in c.args:                                              # no `jsx` string may reach the translations of `_core.py`
            x = a.value if isinstance(a, ast.Starred) else a
            if not isinstance(x, ast.Name):
                raise T.Untranslatable("argument of a TagList method that is not a plain name")
            fn.emit(ind, f"let _ ← pyNoJsxArgsC20b {fn.V(x)}")
        new = pytr_c15b._call_star(fn, info, c.args, c.keywords, recv=recv, ind=ind)
        fn.emit(ind, f'{me} := (← pySetAttr {me} "{fld}" {new})')
        return True
    if not pytr_c15b._has_star(c):
        return False
    # self.<m>(*a, **k): the method's effect is on self
    if _is_self(fn, f.value):
        q = f"{fn.cls.name}.{f.attr}"
        info = next((i for i in fn.known.values() if i.spec.qual == q and i.spec.file == fn.spec.file and i.spec.returns_self), None)
        if info is None:
            return False
        me = fn.name("self")
        fn.mutates_self = True
        fn.emit(ind, f"{me} := " + pytr_c15b._call_star(fn, info, c.args, c.keywords, recv=me, ind=ind))
        return True
    return False


# ================================================================== the walk and its visitor
def _in_source_order(node: ast.AST):
    return sorted((n for n in ast.walk(node) if hasattr(n, "lineno")), key=lambda n: (n.lineno, n.col_offset))


def _params_of(f: ast.FunctionDef) -> list[str]:
    a = f.args
    return [x.arg for x in a.posonlyargs + a.args + a.kwonlyargs] + ([a.vararg.arg] if a.vararg else []) + ([a.kwarg.arg] if a.kwarg else [])


def _tagify_node():
    mod = _mod(FILE)
    for n in mod.body:
        if isinstance(n, ast.ClassDef) and n.name == "JSXTag":
            for m in n.body:
                if isinstance(m, ast.FunctionDef) and m.name == "tagify":
                    return m, n
    return None, None


def visitor_info():
    """(outer, inner, captured name) for the function defined inside `JSXTag.tagify`; raises Untranslatable unless the
    first-order reading of the module docstring is what Python does"""
    T = _T
    outer, cls = _tagify_node()
    if outer is None:
        raise T.Untranslatable("JSXTag.tagify not found")
    inner = [m for m in outer.body if isinstance(m, ast.FunctionDef)]
    if len(inner) != 1 or any(isinstance(n, (ast.FunctionDef, ast.AsyncFunctionDef, ast.Lambda, ast.ClassDef)) and n is not inner[0]
                              and n is not outer for n in ast.walk(outer)):
        raise T.Untranslatable("JSXTag.tagify: not exactly one nested function, directly in its body")
    g = inner[0]
    why = f"nested function {g.name}: "
    a = g.args
    if g.decorator_list or a.posonlyargs or a.vararg or a.kwarg or a.kwonlyargs or a.defaults or a.kw_defaults or len(a.args) != 1:
        raise T.Untranslatable(why + "decorated, or parameters other than one plain positional one")
    for f in (outer, g):
        for n in ast.walk(f):
            if isinstance(n, (ast.Global, ast.Nonlocal, ast.Delete, ast.NamedExpr, ast.Yield, ast.YieldFrom, ast.Await, ast.With,
                              ast.Try, ast.Import, ast.ImportFrom, ast.ListComp, ast.SetComp, ast.DictComp, ast.GeneratorExp)) \
                    and (f is g or n not in ast.walk(g)):
                if f is g or isinstance(n, (ast.Global, ast.Nonlocal, ast.Delete, ast.NamedExpr, ast.Yield, ast.YieldFrom, ast.Await)):
                    raise T.Untranslatable(why + f"{type(n).__name__} in the function or the one around it")
    outer_bound = set(_params_of(outer)) | set(T.Fn.assigned_names(outer)) | {g.name}
    mine = set(_params_of(g)) | set(T.Fn.assigned_names(g))
    caps: list[str] = []
    for n in _in_source_order(g):
        if isinstance(n, ast.Name) and n.id not in mine and n.id in outer_bound and n.id not in caps:
            caps.append(n.id)
    if len(caps) != 1:
        raise T.Untranslatable(why + f"closes over {caps or 'nothing'}: exactly one captured variable is supported")
    cap = caps[0]
    # `cap` in tagify: bound exactly once, at the top level of the body, before the def, to `[]`
    binds = [s for s in outer.body if isinstance(s, (ast.Assign, ast.AnnAssign))
             and any(isinstance(t, ast.Name) and t.id == cap for t in (s.targets if isinstance(s, ast.Assign) else [s.target]))]
    stores = [n for n in ast.walk(outer) if isinstance(n, ast.Name) and n.id == cap and isinstance(n.ctx, ast.Store)]
    if (len(binds) != 1 or len(stores) != 1 or not isinstance(binds[0].value, ast.List) or binds[0].value.elts
            or outer.body.index(binds[0]) > outer.body.index(g) or cap in _params_of(outer)):
        raise T.Untranslatable(why + f"`{cap}` is not a local bound once, to [], before the def")
    # `cap` inside the visitor: only the receiver of `cap.append(e)` statements
    appends = set()
    for n in ast.walk(g):
        if (isinstance(n, ast.Expr) and isinstance(n.value, ast.Call) and isinstance(n.value.func, ast.Attribute)
                and n.value.func.attr == "append" and isinstance(n.value.func.value, ast.Name) and n.value.func.value.id == cap
                and len(n.value.args) == 1 and not n.value.keywords and not isinstance(n.value.args[0], ast.Starred)
                and not any(isinstance(x, ast.Name) and x.id == cap for x in ast.walk(n.value.args[0]))):
            appends.add(id(n.value.func.value))
    for n in ast.walk(g):
        if isinstance(n, ast.Name) and n.id == cap and id(n) not in appends:
            raise T.Untranslatable(why + f"`{cap}` is used other than as the receiver of {cap}.append(e) statements")
    # the visitor's name in tagify: exactly one use, as the second argument of a call of the walk that is the whole
    # right-hand side of a top-level assignment to a local name; `cap` is not read before that statement
    uses = [n for n in ast.walk(outer) if isinstance(n, ast.Name) and n.id == g.name and n not in ast.walk(g)]
    call_stmt = None
    for st in outer.body:
        if (isinstance(st, ast.Assign) and len(st.targets) == 1 and isinstance(st.targets[0], ast.Name) and _is_walk_call(st.value)
                and isinstance(st.value.args[1], ast.Name) and st.value.args[1].id == g.name):
            call_stmt = st
    if call_stmt is None or len(uses) != 1 or uses[0] is not call_stmt.value.args[1]:
        raise T.Untranslatable(why + "its name is used other than once, as the visitor argument of the walk")
    k = outer.body.index(call_stmt)
    if k < outer.body.index(g):
        raise T.Untranslatable(why + "used before its definition")
    for st in outer.body[:k + 1]:
        if st is binds[0] or st is g:
            continue
        if any(isinstance(n, ast.Name) and n.id == cap for n in ast.walk(st)):
            raise T.Untranslatable(why + f"`{cap}` is read before / in the call of the walk")
    if any(isinstance(n, ast.Name) and n.id in (cap, g.name) for n in ast.walk(call_stmt.value.args[0])):
        raise T.Untranslatable(why + "the walked value mentions the visitor or its captured variable")
    return outer, g, cap, call_stmt


def _is_walk_call(e) -> bool:
    return (isinstance(e, ast.Call) and isinstance(e.func, ast.Name) and e.func.id == WALK_PY and len(e.args) == 2
            and not e.keywords and not any(isinstance(a, ast.Starred) for a in e.args))


def walk_closed_world(walk_node: ast.FunctionDef) -> str:
    """the name of the visitor parameter of the walk, after checking the closed-world conditions of the module docstring"""
    T = _T
    mod = _mod(FILE)
    # (the same function in this plug-in's own parse of the module: node identities are compared below)
    walk_node = next((n for n in mod.body if isinstance(n, ast.FunctionDef) and n.name == walk_node.name), None)
    if walk_node is None or walk_node.name != WALK_PY:
        raise T.Untranslatable("the walk is not a module-level function of that name")
    a = walk_node.args
    if a.posonlyargs or a.vararg or a.kwarg or a.kwonlyargs or a.defaults or len(a.args) != 2 or walk_node.decorator_list:
        raise T.Untranslatable("the walk does not take exactly two plain positional parameters")
    vp = a.args[1].arg
    if vp in T.Fn.assigned_names(walk_node):
        raise T.Untranslatable(f"the walk rebinds its visitor parameter {vp}")
    if len([n for n in _bindings(mod, WALK_PY)]) != 1:
        raise T.Untranslatable(f"{WALK_PY} is bound more than once in the module")
    for n in ast.walk(walk_node):
        if n is not walk_node and isinstance(n, (ast.FunctionDef, ast.AsyncFunctionDef, ast.Lambda, ast.ClassDef, ast.Global, ast.Nonlocal,
                                                 ast.ListComp, ast.SetComp, ast.DictComp, ast.GeneratorExp, ast.Try, ast.With, ast.Delete)):
            raise T.Untranslatable(f"the walk contains a {type(n).__name__}")
    _, g, _, _ = visitor_info()
    # every occurrence of the walk's name in the module is the callee of a call (e, fn) / (e, <visitor>)
    ok_names = set()
    for fdef, second in [(walk_node, vp), (_tagify_node()[0], g.name)]:
        for n in ast.walk(fdef):
            if _is_walk_call(n) and isinstance(n.args[1], ast.Name) and n.args[1].id == second:
                ok_names.add(id(n.func))
    for n in ast.walk(mod):
        if isinstance(n, ast.Name) and n.id == WALK_PY and id(n) not in ok_names:
            raise T.Untranslatable(f"{WALK_PY} is used other than in calls with the visitor of JSXTag.tagify / its own parameter")
        if isinstance(n, ast.Attribute) and n.attr == WALK_PY:
            raise T.Untranslatable(f"{WALK_PY} is reached through an attribute")
    # in the walk: `vp` only as the callee of vp(e) or the second argument of a recursive call, each the whole right-hand side
    # of an assignment statement
    fine = set()
    for n in ast.walk(walk_node):
        if isinstance(n, ast.Assign) and len(n.targets) == 1 and isinstance(n.value, ast.Call):
            c = n.value
            if _is_walk_call(c) and isinstance(c.args[1], ast.Name) and c.args[1].id == vp \
                    and not any(isinstance(x, ast.Name) and x.id == vp for x in ast.walk(c.args[0])):
                fine.add(id(c.args[1]))
            if (isinstance(c.func, ast.Name) and c.func.id == vp and len(c.args) == 1 and not c.keywords
                    and not isinstance(c.args[0], ast.Starred)
                    and not any(isinstance(x, ast.Name) and x.id == vp for x in ast.walk(c.args[0]))):
                fine.add(id(c.func))
    for n in ast.walk(walk_node):
        if isinstance(n, ast.Name) and n.id == vp and id(n) not in fine:
            raise T.Untranslatable(f"the walk uses its visitor parameter {vp} other than as `t = {vp}(e)` / `t = {WALK_PY}(e, {vp})`")
    return vp


def make_fn_classes():
    T = _T

    class StateFn(T.Fn):
        """a translation that threads a state parameter (`state`) and returns the pair (result, state)"""
        state: str | None = None

        def assigned_names(self, fn_node):          # (the base calls it as a static method)
            out = T.Fn.assigned_names(fn_node)
            st = getattr(self, "state", None)
            return out + ([st] if st and st not in out else [])

    class VisitorFn(StateFn):
        def __init__(self, spec, node, cls, known):
            outer, g, cap, _ = visitor_info()
            super().__init__(spec, g, None, known)
            self.state = cap
            self.params = [cap] + self.params
            self.all_params = [cap] + self.all_params
            for p in self.all_params + self.locals:
                if T.lname(p) in ("G", "fuel"):
                    raise T.Untranslatable(f"the name {p} is reserved by the translation")

    class WalkFn(StateFn):
        def __init__(self, spec, node, cls, known):
            super().__init__(spec, node, cls, known)
            self.state = walk_closed_world(node)

    return VisitorFn, WalkFn


def _guard_class(fn, target_stmt, name: str):
    """the class `C` of the innermost enclosing `if isinstance(name, C)` whose *body* contains the statement, provided the
    branch does not rebind `name`"""
    def find(stmts, chain):
        for st in stmts:
            if st is target_stmt:
                return chain
            if isinstance(st, ast.If):
                r = find(st.body, chain + [st])
                if r is not None:
                    return r
                r = find(st.orelse, chain)
                if r is not None:
                    return r
            elif isinstance(st, ast.For):
                r = find(st.body, chain)
                if r is not None:
                    return r
        return None
    chain = find(fn.node.body, [])
    for st in reversed(chain or []):
        t = st.test
        if (isinstance(t, ast.Call) and isinstance(t.func, ast.Name) and t.func.id == "isinstance" and len(t.args) == 2
                and isinstance(t.args[0], ast.Name) and t.args[0].id == name and isinstance(t.args[1], ast.Name)):
            if any(isinstance(n, ast.Name) and n.id == name and isinstance(n.ctx, ast.Store) for b in st.body for n in ast.walk(b)):
                return None
            return t.args[1].id
    return None


def _state_assign(fn, ind, s: ast.Assign, call_text: str):
    """`t = <call returning (result, state)>`"""
    T = _T
    st = fn.name(fn.state)
    pair = fn.fresh("pair")
    fn.emit(ind, f"let {pair} ← pyUnpack2 {call_text}")
    fn.emit(ind, f"{st} := {pair}.2")
    t = s.targets[0]
    if isinstance(t, ast.Name):
        fn.emit(ind, f"{fn.name(t.id)} := {pair}.1")
        return
    if (isinstance(t, ast.Subscript) and not isinstance(t.slice, ast.Slice) and isinstance(t.value, ast.Attribute)
            and isinstance(t.value.value, ast.Name) and t.value.value.id in fn.all_params + fn.locals
            and isinstance(t.slice, ast.Name)):
        x, fld = t.value.value.id, t.value.attr
        cls = _guard_class(fn, s, x)
        owner = T.FIELD_CLASS.get((cls, fld)) if cls else None
        if owner is None:
            raise T.Untranslatable(f"{x}.{fld}[…] = …: the class of {x}.{fld} is not known from an enclosing isinstance test")
        xn, k = fn.name(x), fn.name(t.slice.id)
        if owner == "TagList":
            fn.emit(ind, f'{xn} := (← pySetAttr {xn} "{fld}" (← pySetItemU (← pyGetAttr {xn} "{fld}") {k} {pair}.1))')
            return
        if owner == "JSXTagAttrDict":
            info = fn.known.get("JSXTagAttrDict_setitemC20b")
            if info is None or not info.available:
                raise T.Untranslatable("JSXTagAttrDict.__setitem__ is not translated")
            old = fn.fresh("old")
            fn.emit(ind, f'let {old} ← pyGetAttr {xn} "{fld}"')
            fn.emit(ind, f'{xn} := (← pySetAttr {xn} "{fld}" (← pySameKeysC20b {old} (← JSXTagAttrDict_setitemC20b G {old} {k} {pair}.1)))')
            return
        raise T.Untranslatable(f"item assignment into a {owner}")
    raise T.Untranslatable("target of a visitor / walk call other than a name or x.<field>[k]")


def _walk_stmt_hook(fn, ind, s):
    T = _T
    st = fn.state
    if isinstance(s, ast.FunctionDef):
        raise T.Untranslatable("nested function")
    if isinstance(s, ast.Return):
        v = fn.V(s.value) if s.value is not None else "PVal.none"
        fn.emit(ind, f"return (PVal.tuple [{v}, {fn.name(st)}])")
        return True
    if fn.spec.lean == VISITOR and isinstance(s, ast.Expr) and isinstance(s.value, ast.Call):
        c = s.value
        if (isinstance(c.func, ast.Attribute) and c.func.attr == "append" and isinstance(c.func.value, ast.Name)
                and c.func.value.id == st):
            fn.emit(ind, f"{fn.name(st)} := (← pyListAppend {fn.name(st)} {fn.V(c.args[0])})")
            return True
    if fn.spec.lean == WALK and isinstance(s, ast.Assign) and len(s.targets) == 1 and isinstance(s.value, ast.Call):
        c = s.value
        if isinstance(c.func, ast.Name) and c.func.id == st:
            vis = fn.known.get(VISITOR)
            if vis is None or not vis.available:
                raise T.Untranslatable("the visitor of JSXTag.tagify is not translated")
            _state_assign(fn, ind, s, f"(← {VISITOR} G fuel {fn.name(st)} {fn.V(c.args[0])})")
            return True
        if _is_walk_call(c):
            _state_assign(fn, ind, s, f"(← {WALK} G fuel {fn.V(c.args[0])} {fn.name(st)})")
            return True
    return False


def _walk_expr_hook(fn, e):
    T = _T
    if isinstance(e, ast.Name) and e.id == fn.state and fn.spec.lean == WALK:
        raise T.Untranslatable("the visitor parameter in a position the translation does not cover")
    if not isinstance(e, ast.Call):
        return None
    f = e.func
    if isinstance(f, ast.Name) and f.id == "enumerate" and len(e.args) == 1 and not e.keywords and not _shadowed(fn, "enumerate") \
            and not isinstance(e.args[0], ast.Starred):
        return f"(← pyEnumerate (← pyNotJsxC20b {fn.V(e.args[0])}))"
    if isinstance(f, ast.Name) and (f.id == WALK_PY or f.id == fn.state):
        raise T.Untranslatable("call of the walk / the visitor other than as the right-hand side of an assignment")
    if isinstance(f, ast.Attribute):
        if f.attr == "tagify":
            if e.args or e.keywords:
                raise T.Untranslatable("tagify() with arguments")
            recv = fn.V(f.value)
            arms = []
            for cls in ("Tag", "TagList"):
                info = next((i for i in fn.known.values() if i.spec.qual == f"{cls}.tagify" and i.spec.file == CORE), None)
                if info is None or not info.available:
                    raise T.Untranslatable(f"method {cls}.tagify is not translated")
                arms.append(f'| "{cls}" => (do pure {fn.call_known(info, [], [], recv=recv)})')
            arms.append('| "JSXTag" => throw PyErr.unsupported')
            return f"(← match pyClassOf {recv} with " + " ".join(arms) + f" | _ => pyTagifyObj {recv})"
        if (isinstance(f.value, ast.Name) and f.value.id == "copy" and f.attr == "copy" and len(e.args) == 1 and not e.keywords
                and not isinstance(e.args[0], ast.Starred)):
            if not _is_module(fn, "copy"):
                raise T.Untranslatable("`copy` is not the module copy here")
            info = fn.known.get("JSXTag_copyC20b")
            if info is None or not info.available:
                raise T.Untranslatable("JSXTag.__copy__ is not translated")
            x = fn.V(e.args[0])
            return f'(← match pyClassOf {x} with | "JSXTag" => JSXTag_copyC20b G {x} | _ => pyCopyObjC20b {x})'
    return None


# ================================================================== tagify, _lib_dependency
def _core_plain_class(name: str, base_ok) -> bool:
    """in `_core.py`: `class name(<bases accepted by base_ok>)`, bound once, no metaclass / decorator / `__new__` /
    `__init_subclass__`, and the same for its (single, plain) base if any"""
    import pytr_c14
    mod = _mod(CORE)
    cs = _bindings(mod, name)
    if len(cs) != 1 or not isinstance(cs[0], ast.ClassDef):
        return False
    c = cs[0]
    if c.keywords or c.decorator_list or pytr_c14.defines(c, "__new__") or pytr_c14.defines(c, "__init_subclass__"):
        return False
    return base_ok(mod, c)


def _no_bases(mod, c) -> bool:
    return not c.bases


def _one_plain_base(mod, c) -> bool:
    import pytr_c14
    if len(c.bases) != 1 or not isinstance(c.bases[0], ast.Name):
        return False
    bs = _bindings(mod, c.bases[0].id)
    if len(bs) != 1 or not isinstance(bs[0], ast.ClassDef):
        return False
    b = bs[0]
    return not (b.bases or b.keywords or b.decorator_list or pytr_c14.defines(b, "__new__") or pytr_c14.defines(b, "__init__")
                or pytr_c14.defines(b, "__init_subclass__"))


def _versions_table(fn) -> bool:
    """`versions` is bound in this module exactly once, by `from ._versions import versions`"""
    if _shadowed(fn, "versions"):
        return False
    bs = _bindings(_mod(fn.spec.file), "versions")
    return (len(bs) == 1 and isinstance(bs[0], ast.ImportFrom) and bs[0].level == 1 and bs[0].module == "_versions"
            and any(a.name == "versions" and a.asname is None for a in bs[0].names))


def _tagify_expr_hook(fn, e):
    T = _T
    import pytr_c15b
    if isinstance(e, ast.Name) and e.id == "versions" and isinstance(e.ctx, ast.Load) and not _shadowed(fn, "versions"):
        if not _versions_table(fn):
            raise T.Untranslatable("`versions` is not the table of ._versions")
        return "(PVal.dict (HtmlVerif.Generated.reactVersions.map fun kv => (kv.1, PVal.str kv.2)))"
    if not (isinstance(e, ast.Call) and isinstance(e.func, ast.Name)) or _shadowed(fn, e.func.id):
        return None
    f = e.func
    if f.id == "HTML" and len(e.args) == 1 and not e.keywords and not isinstance(e.args[0], ast.Starred):
        if not _from_core(fn, "HTML"):
            raise T.Untranslatable("`HTML` is not the class of ._core")
        return f"(← mkHTMLC20b {fn.V(e.args[0])})"
    if f.id == "HTMLDependency":
        info = fn.known.get("HTMLDependency_init")
        if info is None or not info.available:
            raise T.Untranslatable("HTMLDependency.__init__ is not translated")
        if (not _from_core(fn, f.id) or info.spec.file != CORE or info.spec.qual != "HTMLDependency.__init__"
                or not info.spec.returns_self or not _core_plain_class(f.id, _one_plain_base)):
            raise T.Untranslatable("constructor call of HTMLDependency: not the plain class of ._core")
        if pytr_c15b._has_star(e):
            raise T.Untranslatable("star arguments in a constructor call of HTMLDependency")
        return fn.call_known(info, e.args, e.keywords, recv='(PVal.obj "HTMLDependency" [])')
    if f.id == "Tag":
        info = fn.known.get("Tag_initC15b")
        if info is None or not info.available:
            raise T.Untranslatable("Tag.__init__ is not translated")
        if (not _from_core(fn, f.id) or info.spec.file != CORE or info.spec.qual != "Tag.__init__"
                or not info.spec.returns_self or not _core_plain_class(f.id, _no_bases)):
            raise T.Untranslatable("constructor call of Tag: not the plain class of ._core")
        return pytr_c15b._call_star(fn, info, e.args, e.keywords, recv='(PVal.obj "Tag" [])')
    return None


def _tagify_stmt_hook(fn, ind, s):
    T = _T
    if fn.spec.lean != TAGIFY:
        return False
    outer, g, cap, call_stmt = visitor_info()
    if isinstance(s, ast.FunctionDef):
        vis = fn.known.get(VISITOR)
        if vis is None or not vis.available:
            raise T.Untranslatable("the visitor of JSXTag.tagify is not translated")
        if s.name != g.name:
            raise T.Untranslatable("nested function other than the visitor")
        return True                      # nothing to emit: the walk applies the visitor by name
    if isinstance(s, ast.Assign) and len(s.targets) == 1 and _is_walk_call(s.value):
        c = s.value
        if not (isinstance(s.targets[0], ast.Name) and isinstance(c.args[1], ast.Name) and c.args[1].id == g.name
                and s.lineno == call_stmt.lineno):
            raise T.Untranslatable("call of the walk other than `t = walk(e, <visitor>)`")
        w = fn.known.get(WALK)
        if w is None or not w.available:
            raise T.Untranslatable("_walk_attrs_and_children is not translated")
        pair = fn.fresh("pair")
        fn.emit(ind, f"let {pair} ← pyUnpack2 (← {WALK} G fuel {fn.V(c.args[0])} {fn.name(cap)})")
        fn.emit(ind, f"{fn.name(cap)} := {pair}.2")
        fn.emit(ind, f"{fn.name(s.targets[0].id)} := {pair}.1")
        return True
    return False


# ================================================================== jsx.__new__ / __add__, jsx_tag_create
def _str_subclass(cls: ast.ClassDef | None) -> bool:
    return (cls is not None and len(cls.bases) == 1 and isinstance(cls.bases[0], ast.Name) and cls.bases[0].id == "str"
            and not cls.keywords and not cls.decorator_list)


def _create_nodes():
    mod = _mod(FILE)
    outer = next((n for n in mod.body if isinstance(n, ast.FunctionDef) and n.name == "jsx_tag_create"), None)
    if outer is None:
        raise _T.Untranslatable("jsx_tag_create not found")
    inner = [m for m in outer.body if isinstance(m, ast.FunctionDef)]
    if len(inner) != 1:
        raise _T.Untranslatable("jsx_tag_create: not exactly one nested function directly in its body")
    return outer, inner[0]


def create_closure_info() -> list[str]:
    """the parameters of `jsx_tag_create` its nested function closes over, in the order of their first occurrence in its body;
    raises Untranslatable unless capture by value is what Python does"""
    T = _T
    outer, g = _create_nodes()
    why = f"nested function {g.name}: "
    a = g.args
    if g.decorator_list or a.posonlyargs or a.args or a.kwonlyargs or a.defaults or a.kw_defaults or not a.vararg or not a.kwarg:
        raise T.Untranslatable(why + "decorated, or parameters other than (*args, **kwargs)")
    for f in (outer, g):
        for n in ast.walk(f):
            if isinstance(n, (ast.Global, ast.Nonlocal, ast.Delete, ast.NamedExpr, ast.Yield, ast.YieldFrom, ast.Await, ast.With,
                              ast.Try, ast.Import, ast.ImportFrom, ast.Lambda, ast.ClassDef, ast.ListComp, ast.SetComp, ast.DictComp,
                              ast.GeneratorExp)) or (isinstance(n, ast.FunctionDef) and n is not outer and n is not g):
                raise T.Untranslatable(why + f"{type(n).__name__} in the function or the one around it")
    oa = outer.args
    if oa.posonlyargs or oa.vararg or oa.kwarg or oa.kwonlyargs:
        raise T.Untranslatable("jsx_tag_create: parameters other than plain positional ones")
    outer_params = [x.arg for x in oa.args]
    outer_assigned = set(T.Fn.assigned_names(outer))
    mine = {a.vararg.arg, a.kwarg.arg} | set(T.Fn.assigned_names(g))
    caps: list[str] = []
    for n in _in_source_order(g):
        if isinstance(n, ast.Name) and isinstance(n.ctx, ast.Load) and n.id not in mine and n.id not in caps:
            if n.id in outer_assigned or n.id == g.name:
                raise T.Untranslatable(why + f"closes over `{n.id}`, which the enclosing function (re)binds")
            if n.id in outer_params:
                caps.append(n.id)
    if g.name in outer_params or g.name in outer_assigned:
        raise T.Untranslatable(why + "its name is rebound in the enclosing function")
    return caps


def make_create_fn_class():
    T = _T

    class CreateInnerFn(T.Fn):
        def __init__(self, spec, node, cls, known):
            super().__init__(spec, node, cls, known)
            self.captured = create_closure_info()
            self.params = self.captured + self.params
            self.all_params = self.captured + self.all_params
            for p in self.all_params + self.locals:
                if T.lname(p) in ("G", "fuel"):
                    raise T.Untranslatable(f"the name {p} is reserved by the translation")

    class CreateFn(T.Fn):
        def __init__(self, spec, node, cls, known):
            super().__init__(spec, node, cls, known)
            for m in node.body:          # the nested `def` binds a local of this function
                if isinstance(m, ast.FunctionDef) and m.name not in self.locals and m.name not in self.all_params:
                    self.locals.append(m.name)

    return CreateInnerFn, CreateFn


def _jsx_expr_hook(fn, e):
    T = _T
    import pytr_c14
    import pytr_c15b
    if not isinstance(e, ast.Call):
        return None
    f = e.func
    plain = not e.keywords and not any(isinstance(a, ast.Starred) for a in e.args)
    # super().__new__(cls, e) in `class jsx(str)`
    if (fn.spec.lean == JSX_NEW and pytr_c14.is_super_call(e, "__new__") and plain and len(e.args) == 2
            and isinstance(e.args[0], ast.Name) and e.args[0].id == "cls" and fn.node.args.args and fn.node.args.args[0].arg == "cls"):
        if not _str_subclass(fn.cls) or fn.cls.name != "jsx" or "cls" in fn.assigned_names(fn.node):
            raise T.Untranslatable("super().__new__(cls, …) outside `class jsx(str)`")
        return f"(← pyJsxNewC20b {fn.V(e.args[1])})"
    # str.__add__(a, b)
    if (isinstance(f, ast.Attribute) and f.attr == "__add__" and isinstance(f.value, ast.Name) and f.value.id == "str"
            and not _shadowed(fn, "str") and plain and len(e.args) == 2 and not _bindings(_mod(fn.spec.file), "str")):
        return f"(← pyStrAddC20b {fn.V(e.args[0])} {fn.V(e.args[1])})"
    # jsx(e)
    if isinstance(f, ast.Name) and f.id == "jsx" and not _shadowed(fn, "jsx") and plain and len(e.args) == 1:
        info = fn.known.get(JSX_NEW)
        if info is None or not info.available:
            raise T.Untranslatable("jsx.__new__ is not translated")
        bs = _bindings(_mod(fn.spec.file), "jsx")
        if (len(bs) != 1 or not isinstance(bs[0], ast.ClassDef) or not _str_subclass(bs[0]) or pytr_c14.defines(bs[0], "__init__")
                or pytr_c14.defines(bs[0], "__init_subclass__") or info.spec.file != fn.spec.file or info.spec.qual != "jsx.__new__"
                or info.vararg is None or info.params or info.kwonly or info.kwarg):
            raise T.Untranslatable("constructor call of jsx: not the plain `class jsx(str)` of this module")
        return f"(← {JSX_NEW} G (PVal.tuple [{fn.V(e.args[0])}]))"
    # JSXTag(name, *args, allowedProps=…, **kwargs) in the closure of jsx_tag_create
    if isinstance(f, ast.Name) and f.id == "JSXTag" and not _shadowed(fn, "JSXTag") and fn.spec.lean == CREATE_INNER:
        info = fn.known.get("JSXTag_initC20b")
        if info is None or not info.available:
            raise T.Untranslatable("JSXTag.__init__ is not translated")
        if not pytr_c15b._class_ok(fn, "JSXTag", info, "object") or not info.spec.returns_self:
            raise T.Untranslatable("constructor call of JSXTag: not the plain class of this module")
        return pytr_c15b._call_star(fn, info, e.args, e.keywords, recv='(PVal.obj "JSXTag" [])')
    return None


def _jsx_stmt_hook(fn, ind, s):
    T = _T
    if fn.spec.lean != CREATE:
        return False
    outer, g = _create_nodes()
    if isinstance(s, ast.FunctionDef):
        if s.name != g.name:
            raise T.Untranslatable("nested function other than the one jsx_tag_create returns")
        inner = fn.known.get(CREATE_INNER)
        if inner is None or not inner.available:
            raise T.Untranslatable("the body of the function jsx_tag_create returns is not translated")
        caps = create_closure_info()
        # the closure value is a fresh object until it is returned: stored / passed nowhere else
        uses = [n for n in ast.walk(outer) if isinstance(n, ast.Name) and n.id == g.name]
        for n in uses:
            ok = False
            for st in outer.body:
                if isinstance(st, ast.Return) and st.value is n:
                    ok = True
                if (isinstance(st, ast.Assign) and len(st.targets) == 1 and isinstance(st.targets[0], ast.Attribute)
                        and st.targets[0].value is n):
                    ok = True
            if not ok:
                raise T.Untranslatable(f"{g.name} is used other than in `{g.name}.a = e` / `return {g.name}`")
        fn.fresh_objects.add(g.name)
        fn.emit(ind, f'{fn.name(g.name)} := (mkClosureC17 "{CREATE_INNER_QUAL}" [{", ".join(fn.name(c) for c in caps)}])')
        return True
    # create_tag.__name__ = e: the name of a function object must be a `str`
    if (isinstance(s, ast.Assign) and len(s.targets) == 1 and isinstance(s.targets[0], ast.Attribute)
            and isinstance(s.targets[0].value, ast.Name) and s.targets[0].value.id == g.name):
        if s.targets[0].attr != "__name__":
            raise T.Untranslatable(f"assignment to {g.name}.{s.targets[0].attr}")
        nm = fn.name(g.name)
        fn.emit(ind, f"{nm} := (← pySetFuncNameC20b {nm} {fn.V(s.value)})")
        return True
    return False


def register(T):
    global _T
    _T = T
    F = T.FnSpec
    T.SPECS += [
        F(FILE, "JSXTagAttrDict.__setitem__", "JSXTagAttrDict_setitemC20b", returns_self=True),
        F(FILE, "JSXTagAttrDict._update", "JSXTagAttrDict_updateMapC20b", returns_self=True),
        F(FILE, "JSXTagAttrDict.update", "JSXTagAttrDict_updateC20b", returns_self=True),
        F(FILE, "JSXTagAttrDict.__init__", "JSXTagAttrDict_initC20b", returns_self=True),
        F(FILE, "JSXTag.__init__", "JSXTag_initC20b", returns_self=True, group="c20b_jsxtag_init"),
        F(FILE, "JSXTag.extend", "JSXTag_extendC20b", returns_self=True, group="c20b_jsxtag_extend"),
        F(FILE, "JSXTag.append", "JSXTag_appendC20b", returns_self=True, group="c20b_jsxtag_append"),
        F(FILE, "JSXTag.__copy__", "JSXTag_copyC20b"),
        F(FILE, VISITOR_QUAL, VISITOR, group="c20b_visitor"),
        F(FILE, WALK_PY, WALK, group="c20b_walk"),
        F(FILE, "_lib_dependency", LIBDEP),
        F(FILE, "JSXTag.tagify", TAGIFY, group="c20b_tagify"),
        F(FILE, "jsx.__new__", JSX_NEW, drop_self=True),
        F(FILE, "jsx.__add__", JSX_ADD),
        F(FILE, CREATE_INNER_QUAL, CREATE_INNER, group="c20b_create_tag"),
        F(FILE, "jsx_tag_create", CREATE),
    ]
    CreateInnerFn, CreateFn = make_create_fn_class()
    T.FN_CLASS[CREATE_INNER] = CreateInnerFn
    T.FN_CLASS[CREATE] = CreateFn
    VisitorFn, WalkFn = make_fn_classes()
    T.FN_CLASS[VISITOR] = VisitorFn
    T.FN_CLASS[WALK] = WalkFn
    T.ARITY.update({"JSXTagAttrDict_setitemC20b": 3, "JSXTagAttrDict_updateMapC20b": 2, "JSXTagAttrDict_updateC20b": 3,
                    "JSXTagAttrDict_initC20b": 2, "JSXTag_initC20b": 5, "JSXTag_extendC20b": 2, "JSXTag_appendC20b": 2,
                    "JSXTag_copyC20b": 1, VISITOR: 2, WALK: 2, LIBDEP: 2, TAGIFY: 1,
                    JSX_NEW: 1, JSX_ADD: 2, CREATE_INNER: 4, CREATE: 2})
    # the children of a JSXTag are a TagList (`self.children = TagList(*args)` in `JSXTag.__init__`)
    T.FIELD_CLASS[("JSXTag", "children")] = "TagList"
    # … and its attrs a JSXTagAttrDict (`self.attrs = JSXTagAttrDict(**kwargs)`)
    T.FIELD_CLASS[("JSXTag", "attrs")] = "JSXTagAttrDict"
    for m in ("HtmlVerif.Py.PrimC10", "HtmlVerif.Py.PrimC15b", "HtmlVerif.Py.PrimC20", "HtmlVerif.Py.PrimC20b",
              "HtmlVerif.Generated.Tables"):
        if m not in T.IMPORTS:
            T.IMPORTS.append(m)
    # first in line for the functions of this area (the hooks decline every other function)
    T.EXPR_HOOKS.insert(0, expr_hook)
    T.STMT_HOOKS.insert(0, stmt_hook)
