/-
Helper lemmas for C11: the index loop / insert / item assignment of `_hoist_head_content` against the
declarative `withHead`; `_gen_html_tag_tree` against `specRoot`; expansion, collection and head count of the
hoisted child list; the shape of `as_html_tags`.
-/
import HtmlVerif.Spec.Document
import HtmlVerif.Props.C09
import HtmlVerif.Props.C10

namespace HtmlVerif.Doc
open HtmlVerif

theorem nBody_ne_nHtml : nBody ≠ nHtml := by decide
theorem nBody_ne_nHead : nBody ≠ nHead := by decide
theorem nHtml_ne_nHead : nHtml ≠ nHead := by decide

/-! ### small facts about `Nodes` -/

theorem collect_cons_tag (n : Str) (w : Bool) (a : Attrs) (k t : Nodes) :
    (Nodes.cons (.tag n w a k) t).collect = k.collect ++ t.collect := by
  simp [Nodes.collect, Node.collect]

@[simp] theorem collect_nil : Nodes.nil.collect = [] := rfl

theorem collect_append (a b : Nodes) : (a ++ b).collect = a.collect ++ b.collect :=
  C10.C10_collect_append a b

theorem expandAll_cons_tag (n : Str) (w : Bool) (a : Attrs) (k t : Nodes) :
    (Nodes.cons (.tag n w a k) t).expandAll = .cons (.tag n w a k.expandAll) t.expandAll := by
  simp [Nodes.expandAll, Node.expand]

theorem tagifiedKids_cons (h : Node) (t : Nodes) :
    (Nodes.cons h t).tagifiedKids = (h.tagified && t.tagifiedKids) := rfl

theorem headCount_append (a b : Nodes) : headCount (a ++ b) = headCount a + headCount b := by
  induction a using Nodes.rec (motive_1 := fun _ => True) with
  | cons h t _ ih => simp [headCount, ih, Nat.add_assoc]
  | nil => simp [headCount]
  | _ => trivial

/-! ### the head search -/

/-- what the index loop finds, in terms of the declarative split -/
theorem headIndex_spec (ks : Nodes) :
    (headIndex ks = none ∧ splitHead ks = none ∧ headCount ks = 0) ∨
    (∃ i pre n w a hk post, headIndex ks = some i ∧ splitHead ks = some (pre, .tag n w a hk, post) ∧
        n = nHead ∧ ks = pre ++ Nodes.cons (.tag n w a hk) post ∧ headCount pre = 0 ∧
        ∀ f, modifyAt f ks i = pre ++ Nodes.cons (f (.tag n w a hk)) post) := by
  induction ks using Nodes.rec (motive_1 := fun _ => True) with
  | nil => left; simp [headIndex, splitHead, headCount]
  | cons h t _ ih =>
    by_cases hh : isTagNamed nHead h = true
    · right
      cases h with
      | tag n w a hk =>
        have hn : n = nHead := by simpa [isTagNamed] using hh
        exact ⟨0, .nil, n, w, a, hk, t, by simp [headIndex, hh], by simp [splitHead, hh], hn, rfl,
          by simp [headCount], fun f => by simp [modifyAt]⟩
      | _ => simp [isTagNamed] at hh
    · rcases ih with ⟨h1, h2, h3⟩ | ⟨i, pre, n, w, a, hk, post, h1, h2, hn, hks, hpre, hmod⟩
      · left
        simp [headIndex, splitHead, headCount, hh, h1, h2, h3]
      · right
        refine ⟨i + 1, .cons h pre, n, w, a, hk, post, by simp [headIndex, hh, h1], by simp [splitHead, hh, h2],
          hn, by simp [hks], by simp [headCount, hh, hpre], fun f => ?_⟩
        simp [modifyAt, hmod f]
  | _ => trivial

/-- **find-or-insert, copy, insert at 0, append, extend = `withHead`**: no `<head>` child found -/
theorem hoistKids_none (e ks : Nodes) (h : headIndex ks = none) :
    modifyAt (hoistHead e) (Nodes.cons emptyHead ks) 0 = withHead e ks := by
  rcases headIndex_spec ks with ⟨_, h2, _⟩ | ⟨i, pre, n, w, a, hk, post, h1, _, _, _, _, _⟩
  · simp [h2, withHead, modifyAt, hoistHead, emptyHead, specHead]
  · simp [h1] at h

/-- … a `<head>` child found at index `i` -/
theorem hoistKids_some (e ks : Nodes) (i : Nat) (h : headIndex ks = some i) :
    modifyAt (hoistHead e) ks i = withHead e ks := by
  rcases headIndex_spec ks with ⟨h1, _, _⟩ | ⟨j, pre, n, w, a, hk, post, h1, h2, _, _, _, hmod⟩
  · simp [h1] at h
  · have : j = i := by simpa [h1] using h
    subst this
    simp [h2, withHead, hmod, hoistHead, specHead]

theorem headCount_withHead (e ks : Nodes) : headCount (withHead e ks) = max 1 (headCount ks) := by
  rcases headIndex_spec ks with ⟨_, h2, h3⟩ | ⟨i, pre, n, w, a, hk, post, _, h2, hn, hks, hpre, _⟩
  · simp [withHead, h2, headCount, specHead, isTagNamed, h3]
  · subst hn
    simp only [withHead, h2]
    rw [hks]
    simp [headCount_append, headCount, specHead, isTagNamed, hpre]

/-- collection over the hoisted child list when what was added carries no dependency -/
theorem collect_withHead (e ks : Nodes) (he : e.collect = []) : (withHead e ks).collect = ks.collect := by
  have hm : metaCharset.collect = [] := by simp [metaCharset, Node.collect, Nodes.collect]
  rcases headIndex_spec ks with ⟨_, h2, _⟩ | ⟨i, pre, n, w, a, hk, post, _, h2, _, hks, _, _⟩
  · simp [withHead, h2, specHead, collect_cons_tag, metaCharset, he]
  · simp only [withHead, h2]
    rw [hks]
    simp [collect_append, specHead, collect_cons_tag, metaCharset, he]

/-- collection over the hoisted child list in general: what was added is collected inside the head -/
theorem collect_withHead_mem (e ks : Nodes) (d : Node) :
    d ∈ (withHead e ks).collect ↔ d ∈ ks.collect ∨ d ∈ e.collect := by
  rcases headIndex_spec ks with ⟨_, h2, _⟩ | ⟨i, pre, n, w, a, hk, post, _, h2, _, hks, _, _⟩
  · simp [withHead, h2, specHead, collect_cons_tag, metaCharset, or_comm]
  · simp only [withHead, h2]
    rw [hks]
    simp [collect_append, specHead, collect_cons_tag, metaCharset]
    constructor
    · intro h; rcases h with h | h | h | h <;> simp [h]
    · intro h; rcases h with (h | h | h) | h <;> simp [h]

/-- expansion of the hoisted child list of an already tagified list -/
theorem expandAll_withHead (e ks : Nodes) (hk : ks.tagifiedKids = true) :
    (withHead e ks).expandAll = withHead e.expandAll ks := by
  have hfix := C09.C09_tagified_fixed ks hk
  have hm : metaCharset.expand = .cons metaCharset .nil := by simp [metaCharset, Node.expand, Nodes.expandAll]
  rcases headIndex_spec ks with ⟨_, h2, _⟩ | ⟨i, pre, n, w, a, hks', post, _, h2, _, hks, _, _⟩
  · simp [withHead, h2, specHead, expandAll_cons_tag, Nodes.expandAll, hm, hfix]
  · simp only [withHead, h2]
    rw [hks, Nodes.tagifiedKids_append, tagifiedKids_cons] at hk
    simp only [Bool.and_eq_true, Node.tagified] at hk
    have h1 := C09.C09_tagified_fixed pre hk.1
    have h3 := C09.C09_tagified_fixed post hk.2.2
    have h4 := C09.C09_tagified_fixed hks' hk.2.1
    simp [Nodes.expandAll_append, specHead, Nodes.expandAll, Node.expand, hm, h1, h3, h4]

/-! ### the children other than the head; metadata-free skeletons -/

theorem splitHead_append (pre post : Nodes) (w : Bool) (a : Attrs) (hk : Nodes)
    (hp : headCount pre = 0) :
    splitHead (pre ++ Nodes.cons (.tag nHead w a hk) post) = some (pre, .tag nHead w a hk, post) ∧
    dropFirstHead (pre ++ Nodes.cons (.tag nHead w a hk) post) = pre ++ post := by
  induction pre using Nodes.rec (motive_1 := fun _ => True) with
  | nil => simp [splitHead, dropFirstHead, isTagNamed]
  | cons h t _ ih =>
    have hh : isTagNamed nHead h = false := by
      by_cases hx : isTagNamed nHead h = true
      · simp [headCount, hx] at hp
      · simpa using hx
    have ht : headCount t = 0 := by simpa [headCount, hh] using hp
    obtain ⟨i1, i2⟩ := ih ht
    simp [splitHead, dropFirstHead, hh, i1, i2]
  | _ => trivial

theorem dropFirstHead_of_no_head (ks : Nodes) (h : headCount ks = 0) : dropFirstHead ks = ks := by
  induction ks using Nodes.rec (motive_1 := fun _ => True) with
  | nil => rfl
  | cons x t _ ih =>
    have hh : isTagNamed nHead x = false := by
      by_cases hx : isTagNamed nHead x = true
      · simp [headCount, hx] at h
      · simpa using hx
    have ht : headCount t = 0 := by simpa [headCount, hh] using h
    simp [dropFirstHead, hh, ih ht]
  | _ => trivial

/-- hoisting changes nothing outside the one head -/
theorem dropFirstHead_withHead (e ks : Nodes) : dropFirstHead (withHead e ks) = dropFirstHead ks := by
  rcases headIndex_spec ks with ⟨_, h2, h3⟩ | ⟨i, pre, n, w, a, hk, post, _, h2, hn, hks, hpre, _⟩
  · simp [withHead, h2, specHead, dropFirstHead, isTagNamed, dropFirstHead_of_no_head _ h3]
  · subst hn
    simp only [withHead, h2, specHead]
    rw [hks, (splitHead_append pre post w a _ hpre).2, (splitHead_append pre post w a _ hpre).2]

theorem stripMeta_append (a b : Nodes) : (a ++ b).stripMeta = a.stripMeta ++ b.stripMeta := by
  induction a using Nodes.rec (motive_1 := fun _ => True) with
  | nil => rfl
  | cons h t _ ih =>
    by_cases hm : h.isMeta = true <;> simp [Nodes.stripMeta, hm, ih]
  | _ => trivial

mutual
  theorem stripMeta_idem_node (n : Node) : n.stripMeta.stripMeta = n.stripMeta := by
    cases n with
    | tag nm w a k => simp [Node.stripMeta, stripMeta_idem k]
    | _ => simp [Node.stripMeta]
  theorem stripMeta_idem (ks : Nodes) : ks.stripMeta.stripMeta = ks.stripMeta := by
    cases ks with
    | nil => rfl
    | cons h t =>
      by_cases hm : h.isMeta = true
      · simp [Nodes.stripMeta, hm, stripMeta_idem t]
      · have hm' : h.stripMeta.isMeta = false := by cases h <;> simp_all [Node.stripMeta, Node.isMeta]
        simp [Nodes.stripMeta, hm, hm', stripMeta_idem_node h, stripMeta_idem t]
end

theorem headCount_stripMeta (ks : Nodes) : headCount ks.stripMeta = headCount ks := by
  induction ks using Nodes.rec (motive_1 := fun _ => True) with
  | nil => rfl
  | cons h t _ ih =>
    cases h <;> simp [Nodes.stripMeta, Node.isMeta, headCount, isTagNamed, Node.stripMeta, ih]
  | _ => trivial

/-- removing all metadata commutes with completing the head -/
theorem stripMeta_withHead (e ks : Nodes) : (withHead e ks).stripMeta = withHead e.stripMeta ks.stripMeta := by
  rcases headIndex_spec ks with ⟨_, h2, h3⟩ | ⟨i, pre, n, w, a, hk, post, _, h2, hn, hks, hpre, _⟩
  · have h3' : headCount ks.stripMeta = 0 := by rw [headCount_stripMeta, h3]
    have h2' : splitHead ks.stripMeta = none := by
      rcases headIndex_spec ks.stripMeta with ⟨_, q, _⟩ | ⟨_, pre, n, w, a, hk, post, _, _, hn, hq, _, _⟩
      · exact q
      · rw [hq, headCount_append] at h3'
        simp [headCount, isTagNamed, hn] at h3'
    simp [withHead, h2, h2', specHead, Nodes.stripMeta, Node.isMeta, Node.stripMeta, metaCharset]
  · subst hn
    have hpre' : headCount pre.stripMeta = 0 := by rw [headCount_stripMeta, hpre]
    have hs : ks.stripMeta = pre.stripMeta ++ Nodes.cons (.tag nHead w a hk.stripMeta) post.stripMeta := by
      rw [hks, stripMeta_append]; simp [Nodes.stripMeta, Node.isMeta, Node.stripMeta]
    simp only [withHead, h2]
    rw [hs, (splitHead_append _ _ w a _ hpre').1]
    simp [stripMeta_append, specHead, Nodes.stripMeta, Node.isMeta, Node.stripMeta, metaCharset]

/-! ### the three cases -/

theorem docShape_soleHtml {c : Nodes} {w : Bool} {a : Attrs} {k : Nodes} (h : docShape c = .soleHtml w a k) :
    c = .cons (.tag nHtml w a k) .nil := by
  unfold docShape at h
  split at h
  · split at h
    · rename_i hn; cases h; rw [hn]
    · split at h <;> cases h
  · cases h

theorem docShape_soleBody {c : Nodes} {w : Bool} {a : Attrs} {k : Nodes} (h : docShape c = .soleBody w a k) :
    c = .cons (.tag nBody w a k) .nil := by
  unfold docShape at h
  split at h
  · split at h
    · cases h
    · split at h
      · rename_i hn; cases h; rw [hn]
      · cases h
  · cases h

theorem emptyHead_tagified : emptyHead.tagified = true := by decide

/-- what `specRoot` returns: an `<html>` root over an already expanded child list that carries exactly the
    dependencies of the expanded content, in the same order -/
theorem specRoot_ok {cfg : Cfg} {content : Nodes} {kw : List (Str × AttrArg)} {n : Str} {w : Bool} {a : Attrs}
    {ks : Nodes} (h : specRoot cfg content kw = .ok (n, w, a, ks)) :
    n = nHtml ∧ ks.tagifiedKids = true ∧ ks.collect = content.expandAll.collect := by
  unfold specRoot at h
  split at h
  · rename_i w0 a0 kids hs
    have hc := docShape_soleHtml hs
    split at h
    · cases h
    · cases h
      subst hc
      exact ⟨rfl, C09.C09_expandAll_tagified _, by simp [collect_cons_tag, Nodes.expandAll, Node.expand]⟩
  · rename_i w0 a0 kids hs
    have hc := docShape_soleBody hs
    split at h
    · cases h
    · cases h
      subst hc
      refine ⟨rfl, ?_, ?_⟩
      · simp [emptyHead_tagified, Node.tagified, C09.C09_expandAll_tagified, Nodes.tagifiedKids]
      · simp [emptyHead, collect_cons_tag, Nodes.expandAll, Node.expand]
  · split at h
    · cases h
    · cases h
      refine ⟨rfl, ?_, ?_⟩
      · simp [emptyHead_tagified, Node.tagified, C09.C09_expandAll_tagified, Nodes.tagifiedKids]
      · simp [emptyHead, collect_cons_tag]

/-- **`_gen_html_tag_tree` up to hoisting = the root the property describes**; the stored content is returned as is -/
theorem genTree_eq (cfg : Cfg) (content : Nodes) (kw : List (Str × AttrArg)) :
    genTree cfg content kw =
      match specRoot cfg content kw with
      | .error e => .error e
      | .ok (n, w, a, ks) => .ok (.tag n w a ks, content) := by
  have frag : ∀ c : Nodes, docShape c = .fragment →
      (match wrapHtml cfg (tagifyTag (.tag nBody true [] c)) kw with
        | .error e => .error e
        | .ok h => .ok (h, c)) =
      (match specRoot cfg c kw with
        | .error e => (.error e : Except Err (Node × Nodes))
        | .ok (n, w, a, ks) => .ok (.tag n w a ks, c)) := by
    intro c hc
    simp only [specRoot, hc, wrapHtml, C09.C09_tagify_tag]
    cases tagInitAttrs cfg [] kw <;> rfl
  cases content with
  | nil => exact frag .nil rfl
  | cons h t =>
    cases t with
    | cons h2 t2 =>
      have hs : docShape (.cons h (.cons h2 t2)) = .fragment := by cases h <;> rfl
      cases h <;> exact frag _ hs
    | nil =>
      cases h with
      | tag n w a kids =>
        by_cases hn : n = nHtml
        · subst hn
          simp only [genTree, specRoot, docShape, if_true, C09.C09_tagify_tag]
          cases updateKw cfg a kw <;> rfl
        · by_cases hb : n = nBody
          · subst hb
            simp only [genTree, specRoot, docShape, hn, if_false, if_true, wrapHtml, C09.C09_tagify_tag]
            cases tagInitAttrs cfg [] kw <;> rfl
          · have hs : docShape (.cons (.tag n w a kids) .nil) = .fragment := by simp [docShape, hn, hb]
            simp only [genTree, hn, hb, if_false]
            exact frag _ hs
      | text s => exact frag _ rfl
      | html s => exact frag _ rfl
      | robj s => exact frag _ rfl
      | mnode k => exact frag _ rfl
      | dep d hh hd => exact frag _ rfl
      | tobjL rh c => exact frag _ rfl
      | tobj1 rh c => exact frag _ rfl

/-! ### `as_html_tags` -/

/-- `Tag(name, **kw)` has no children -/
theorem mkTag_shape {cfg : Cfg} {name : Str} {kw : KVs} {t : Node} (h : mkTag cfg name kw = .ok t) :
    ∃ a, t = .tag name true a .nil := by
  unfold mkTag at h
  split at h
  · cases h
  · split at h
    · cases h
    · cases h; exact ⟨_, rfl⟩

theorem mkTags_shape {cfg : Cfg} {name : Str} : ∀ {l : List KVs} {ts : List Node}, mkTags cfg name l = .ok ts →
    ts.length = l.length ∧ ∀ t ∈ ts, ∃ a, t = .tag name true a .nil := by
  intro l
  induction l with
  | nil => intro ts h; cases h; simp
  | cons m r ih =>
    intro ts h
    unfold mkTags at h
    split at h
    · cases h
    · rename_i t ht
      split at h
      · cases h
      · rename_i ts' hts
        cases h
        obtain ⟨hl, hall⟩ := ih hts
        obtain ⟨a, ha⟩ := mkTag_shape ht
        refine ⟨by simp [hl], ?_⟩
        intro x hx
        rcases List.mem_cons.mp hx with hx | hx
        · exact ⟨a, hx ▸ ha⟩
        · exact hall x hx

/-- a list of childless tags: nothing to expand, nothing to collect, no `<head>`-unrelated content -/
def ChildlessTags (ts : List Node) : Prop := ∀ t ∈ ts, ∃ n a, t = Node.tag n true a .nil

theorem childless_expand : ∀ {ts : List Node}, ChildlessTags ts →
    (Nodes.ofList ts).expandAll = Nodes.ofList ts ∧ (Nodes.ofList ts).collect = [] := by
  intro ts
  induction ts with
  | nil => intro _; exact ⟨rfl, rfl⟩
  | cons t r ih =>
    intro h
    obtain ⟨n, a, rfl⟩ := h t (by simp)
    obtain ⟨h1, h2⟩ := ih (fun x hx => h x (by simp [hx]))
    simp [Nodes.ofList, expandAll_cons_tag, collect_cons_tag, h1, h2, Nodes.expandAll]

theorem asDictSheets_length {base : Str} : ∀ {l r : List KVs}, asDictSheets base l = .ok r → r.length = l.length := by
  intro l
  induction l with
  | nil => intro r h; cases h; rfl
  | cons s t ih =>
    intro r h
    unfold asDictSheets at h
    split at h
    · cases h
    · split at h
      · cases h
      · rename_i r' hr; cases h; simp [ih hr]

theorem asDictScripts_length {base : Str} : ∀ {l r : List KVs}, asDictScripts base l = .ok r → r.length = l.length := by
  intro l
  induction l with
  | nil => intro r h; cases h; rfl
  | cons s t ih =>
    intro r h
    unfold asDictScripts at h
    split at h
    · cases h
    · split at h
      · cases h
      · rename_i r' hr; cases h; simp [ih hr]

theorem asDict_lengths {cfg : Cfg} {d : DepInfo} {hh : Bool} {head : Nodes} {lp : Option Str} {iv : Bool} {dd : DepDict}
    (h : asDict cfg d hh head lp iv = .ok dd) :
    dd.metas = d.metas ∧ dd.stylesheet.length = d.stylesheet.length ∧ dd.script.length = d.script.length := by
  unfold asDict at h
  simp only at h
  split at h
  · cases h
  · rename_i sheets hs
    split at h
    · cases h
    · rename_i scripts hc
      split at h
      · split at h
        · cases h
        · cases h; exact ⟨rfl, asDictSheets_length hs, asDictScripts_length hc⟩
      · cases h; exact ⟨rfl, asDictSheets_length hs, asDictScripts_length hc⟩

/-- **the shape of `as_html_tags`**: one childless `<meta>` per meta entry, one `<link>` per stylesheet, one
    `<script>` per script, in this order, followed by the dependency's own head nodes -/
theorem asHtmlTags_shape {cfg : Cfg} {d : DepInfo} {hh : Bool} {head : Nodes} {lp : Option Str} {iv : Bool} {ts : Nodes}
    (h : asHtmlTags cfg d hh head lp iv = .ok ts) :
    ∃ metas links scripts : List Node,
      ts = Nodes.ofList (metas ++ links ++ scripts) ++ (if hh then head else .nil) ∧
      metas.length = d.metas.length ∧ links.length = d.stylesheet.length ∧ scripts.length = d.script.length ∧
      (∀ t ∈ metas, ∃ a, t = .tag nMeta true a .nil) ∧ (∀ t ∈ links, ∃ a, t = .tag nLink true a .nil) ∧
      (∀ t ∈ scripts, ∃ a, t = .tag nScript true a .nil) := by
  unfold asHtmlTags at h
  split at h
  · cases h
  · rename_i dd hdd
    obtain ⟨e1, e2, e3⟩ := asDict_lengths hdd
    split at h
    · cases h
    · rename_i metas hm
      split at h
      · cases h
      · rename_i links hl
        split at h
        · cases h
        · rename_i scripts hs
          cases h
          obtain ⟨l1, s1⟩ := mkTags_shape hm
          obtain ⟨l2, s2⟩ := mkTags_shape hl
          obtain ⟨l3, s3⟩ := mkTags_shape hs
          exact ⟨metas, links, scripts, rfl, by rw [l1, e1], by rw [l2, e2], by rw [l3, e3], s1, s2, s3⟩

/-- expansion and collection of one dependency's hoisted nodes: only its own head matters -/
theorem depTags_expand_collect {cfg : Cfg} {lp : Option Str} {iv : Bool} {d : Node} {ts : Nodes}
    (h : depTags cfg lp iv d = .ok ts) : ts.expandAll.collect = depHeadDeps d := by
  cases d with
  | dep i hh head =>
    obtain ⟨metas, links, scripts, rfl, _, _, _, s1, s2, s3⟩ := asHtmlTags_shape h
    have hc : ChildlessTags (metas ++ links ++ scripts) := by
      intro t ht
      simp only [List.mem_append] at ht
      rcases ht with (ht | ht) | ht
      · obtain ⟨a, ha⟩ := s1 t ht; exact ⟨_, a, ha⟩
      · obtain ⟨a, ha⟩ := s2 t ht; exact ⟨_, a, ha⟩
      · obtain ⟨a, ha⟩ := s3 t ht; exact ⟨_, a, ha⟩
    obtain ⟨h1, h2⟩ := childless_expand hc
    rw [Nodes.expandAll_append, collect_append, h1, h2]
    cases hh <;> simp [depHeadDeps, Nodes.expandAll]
  | _ => simp [depTags] at h; subst h; simp [depHeadDeps, Nodes.expandAll]

/-! ### the appended nodes -/

theorem listing_expand (ds : List Node) : (listing ds).expandAll = listing ds := by
  unfold listing
  split <;> simp [Nodes.expandAll, Node.expand, listingNode]

theorem listing_collect (ds : List Node) : (listing ds).collect = [] := by
  unfold listing
  split <;> simp [listingNode, Nodes.collect, Node.collect]

theorem depMarkupAll_eq (cfg : Cfg) (lp : Option Str) (iv : Bool) (ds : List Node) :
    depMarkupAll cfg lp iv ds =
      match depTagsAll cfg lp iv ds with
      | .error e => .error e
      | .ok ts => .ok ts.expandAll := by
  induction ds with
  | nil => rfl
  | cons d r ih =>
    simp only [depMarkupAll, depMarkup, depTagsAll, ih]
    cases depTags cfg lp iv d with
    | error e => rfl
    | ok ts =>
      cases depTagsAll cfg lp iv r with
      | error e => rfl
      | ok rs => simp [Nodes.expandAll_append]

/-- what a second collection pass finds in the nodes appended to the head -/
theorem depMarkupAll_collect {cfg : Cfg} {lp : Option Str} {iv : Bool} : ∀ {ds : List Node} {ms : Nodes},
    depMarkupAll cfg lp iv ds = .ok ms → ms.collect = ds.flatMap depHeadDeps := by
  intro ds
  induction ds with
  | nil => intro ms h; cases h; rfl
  | cons d r ih =>
    intro ms h
    simp only [depMarkupAll, depMarkup] at h
    cases hd : depTags cfg lp iv d with
    | error e => simp [hd] at h
    | ok ts =>
      simp only [hd] at h
      cases hr : depMarkupAll cfg lp iv r with
      | error e => simp [hr] at h
      | ok rs =>
        simp only [hr] at h
        cases h
        simp [collect_append, depTags_expand_collect hd, ih hr]

/-- `_hoist_head_content` on an `<html>` tag -/
theorem hoist_eq (cfg : Cfg) (w : Bool) (a : Attrs) (ks : Nodes) (lp : Option Str) (iv : Bool) :
    hoist cfg (.tag nHtml w a ks) lp iv =
      match depTagsAll cfg lp iv (resolve ks.collect) with
      | .error e => .error e
      | .ok tags => .ok (.tag nHtml w a (withHead (listing (resolve ks.collect) ++ tags) ks)) := by
  cases hi : headIndex ks with
  | none =>
    simp [hoist, Node.getDeps, Nodes.getDeps, hi, hoistKids_none _ _ hi]
    cases depTagsAll cfg lp iv (resolve ks.collect) <;> rfl
  | some i =>
    simp [hoist, Node.getDeps, Nodes.getDeps, hi, hoistKids_some _ _ _ hi]
    cases depTagsAll cfg lp iv (resolve ks.collect) <;> rfl

/-- **the tree that is rendered = the tree the property describes** -/
theorem docTree_eq_spec (cfg : Cfg) (content : Nodes) (kw : List (Str × AttrArg)) (lp : Option Str) (iv : Bool) :
    docTree cfg content kw lp iv = specTree cfg content kw lp iv := by
  unfold docTree genHtmlTagTree specTree specExtra
  rw [genTree_eq, depMarkupAll_eq]
  cases hr : specRoot cfg content kw with
  | error e => rfl
  | ok r =>
    obtain ⟨n, w, a, ks⟩ := r
    obtain ⟨hn, hk, hc⟩ := specRoot_ok hr
    subst hn
    simp only [hoist_eq, docDeps, hc]
    cases depTagsAll cfg lp iv (resolve content.expandAll.collect) with
    | error e => rfl
    | ok tags =>
      simp [C09.C09_tagify_tag, expandAll_withHead _ _ hk, Nodes.expandAll_append, listing_expand]

/-- the tree handed to `Tag.render()` needs no further care: rendering it cannot fail -/
theorem docRender_eq (cfg : Cfg) (content : Nodes) (kw : List (Str × AttrArg)) (lp : Option Str) (iv : Bool) :
    docRender cfg content kw lp iv =
      match docTree cfg content kw lp iv with
      | .error e => .error e
      | .ok t => .ok { html := doctype ++ t.render cfg 0 ['\n'], deps := t.getDeps true, after := content } := by
  unfold docRender docTree genHtmlTagTree
  rw [genTree_eq]
  cases hr : specRoot cfg content kw with
  | error e => rfl
  | ok r =>
    obtain ⟨n, w, a, ks⟩ := r
    simp only
    cases hoist cfg (.tag n w a ks) lp iv with
    | error e => rfl
    | ok t =>
      have ht : (tagifyTag t).hasTobj = false := by
        cases t with
        | tag n' w' a' k' =>
          rw [C09.C09_tagify_tag]
          exact C09.C09_tagified_no_tobj_tag _ (by simpa [Node.tagified] using C09.C09_expandAll_tagified k')
        | _ => simp [tagifyTag, Node.hasTobj]
      simp [renderTagChecked, ht]

end HtmlVerif.Doc
