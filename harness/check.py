#!/usr/bin/env python3
"""Entry point:  check <Cnn> [--tier quick|thorough]  |  check setup  |  check replay <file>"""
from __future__ import annotations

import argparse
import importlib
import json
import os
import sys

HERE = os.path.dirname(os.path.abspath(__file__))
sys.path.insert(0, HERE)

import core  # noqa: E402


def setup() -> int:
    import translate
    info = translate.generate()
    import genreg
    genreg.main()
    with core.Lock():
        rc, log = core.run(["lake", "build", "HtmlVerif", "htdriver"], cwd=core.LEAN, timeout=7200)
    print(log[-3000:])
    if rc != 0:
        print("setup: lake build failed", file=sys.stderr)
        return 1
    print("setup ok; translator problems:", info["problems"])
    return 0


def replay(path: str) -> int:
    with open(path) as f:
        body = json.load(f)
    pid = body["property"]
    mod = importlib.import_module(f"props.{pid.lower()}")
    if hasattr(mod, "replay"):
        return mod.replay(body)
    import ops
    line = body.get("line")
    if not line:
        print(json.dumps(body, indent=1))
        print("no concrete input in this replay file (no-failing-input-found)")
        return 1
    impl = ops.run_line(line)
    drv = core.Driver()
    model = drv.run([line])[0]
    print("line :", line)
    print("impl :", impl)
    print("model:", model)
    return 1 if impl != model else 0


def main() -> int:
    ap = argparse.ArgumentParser()
    ap.add_argument("what")
    ap.add_argument("path", nargs="?")
    ap.add_argument("--tier", default=os.environ.get("VERIF_TIER", "quick"))
    a = ap.parse_args()
    if a.what == "setup":
        return setup()
    if a.what == "replay":
        return replay(a.path)
    pid = a.what.upper()
    mod = importlib.import_module(f"props.{pid.lower()}")
    return core.main_run(pid, a.tier, mod.run)


if __name__ == "__main__":
    sys.exit(main())
