/-
Driver op that *runs* the regenerated C17 functions (the inner function of `wrap_displayhook_handler`, `Tag.__enter__`,
`Tag.__exit__`, `wrap_displayhook_handler`, and the generated `applyCallableC17`) on an explicit interpreter state
(DESIGN §14, translator validation; Py/PrimC17.lean):

  srcc17 <function> <displayhook : pval> L [ <heap object : pval>… ] L [ <log entry : pval>… ] [ <argument : pval>… ]
      → ok <pval> ;; <displayhook> L [ <heap object>… ] L [ <log entry>… ]
      | err <kind> ;; <displayhook> L [ … ] L [ … ]              (the state after the exception is part of the answer)
      | unsupported

Function values are applied by `applyCallableC17` with ample fuel.  The pval syntax is that of `Ops/Src.lean`; a
reference to heap object `n` is `O Tag [ __id__ I n ]`.  The harness calls the real functions on real objects in a state
realised from the same line (harness/ops_src_c17.py).
-/
import HtmlVerif.Ops.Base
import HtmlVerif.Generated.Src

namespace HtmlVerif.Ops
open HtmlVerif HtmlVerif.Wire HtmlVerif.Py

private def c17G : Globals :=
  { HTML_ESCAPE_TABLE := embTbl cfg.textTbl, HTML_ATTRS_ESCAPE_TABLE := embTbl cfg.attrTbl,
    VOID_TAG_NAMES := cfg.void, NO_ESCAPE_TAG_NAMES := cfg.noesc, isSpace := fun _ => false, lower := id }

private partial def c17PVal : P PVal := do
  let t ← next
  match t with
  | "N" => pure .none
  | "T" => pure (.bool true)
  | "F" => pure (.bool false)
  | "I" => do
    let s ← next
    match s.toInt? with
    | some n => pure (.int n)
    | none => throw s!"bad int {s}"
  | "D" => .float <$> str
  | "S" => .str <$> str
  | "H" => .html <$> str
  | "L" => .list <$> listOf c17PVal
  | "U" => .tuple <$> listOf c17PVal
  | "M" => .dict <$> listOf (do let k ← str; let v ← c17PVal; pure (k, v))
  | "O" => do
    let c ← next
    let fs ← listOf (do let k ← next; let v ← c17PVal; pure (k, v))
    pure (.obj c fs)
  | _ => throw s!"bad pval {t}"

private partial def c17Enc : PVal → String
  | .none => "N"
  | .bool true => "T"
  | .bool false => "F"
  | .int n => s!"I {n}"
  | .float t => "D " ++ encStr t
  | .str s => "S " ++ encStr s
  | .html s => "H " ++ encStr s
  | .list xs => "L " ++ encList (xs.map c17Enc)
  | .tuple xs => "U " ++ encList (xs.map c17Enc)
  | .dict kvs => "M " ++ encList (kvs.map fun kv => encStr kv.1 ++ " " ++ c17Enc kv.2)
  | .obj c fs => "O " ++ c ++ " " ++ encList (fs.map fun kv => kv.1 ++ " " ++ c17Enc kv.2)

private def c17Err : PyErr → String
  | .typeError => "err TypeError"
  | .valueError => "err ValueError"
  | .keyError => "err KeyError"
  | .indexError => "err IndexError"
  | .attributeError => "err AttributeError"
  | .runtimeError => "err RuntimeError"
  | .notImplemented => "err NotImplementedError"
  | .exception => "err Exception"
  | .fuel => "unsupported fuel"
  | .unsupported => "unsupported"

def srcC17Ops : OpTable
  | "srcc17" => some do
    let f ← next
    let dh ← c17PVal
    let heap ← c17PVal
    let log ← c17PVal
    let a ← listOf c17PVal
    match heap, log with
    | .list objs, .list lg =>
      let S : SysC17 := { displayhook := dh, heap := fun n => objs.getD n (.obj "dangling" []), log := lg }
      match Generated.Src.runByNameC17 c17G (Generated.Src.applyCallableC17 c17G 1000) f a with
      | none => pure "unsupported"      -- not translated (left the fragment) or unknown: no verdict
      | some m =>
        let r := m S
        let st := " ;; " ++ c17Enc r.2.displayhook ++ " " ++ c17Enc (.list ((List.range objs.length).map r.2.heap))
          ++ " " ++ c17Enc (.list r.2.log)
        match r.1 with
        | .ok v => pure ("ok " ++ c17Enc v ++ st)
        | .error .unsupported => pure "unsupported"
        | .error .fuel => pure "unsupported fuel"
        | .error e => pure (c17Err e ++ st)
    | _, _ => throw "srcc17: heap and log must be lists"
  | _ => none

end HtmlVerif.Ops
