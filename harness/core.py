"""Check runner shared by all properties (DESIGN §5)."""
from __future__ import annotations

import fcntl
import hashlib
import json
import os
import random
import re
import subprocess
import sys
import time
import traceback
from dataclasses import dataclass, field

HERE = os.path.dirname(os.path.abspath(__file__))
VERIF = os.path.dirname(HERE)
LEAN = os.path.join(VERIF, "lean")
REPO = os.environ.get("VERIF_REPO", "/repo")
DRIVER = os.path.join(LEAN, ".lake", "build", "bin", "htdriver")
ALLOWED_AXIOMS = {"propext", "Classical.choice", "Quot.sound"}
FORBIDDEN = re.compile(
    r"\b(sorry|admit|native_decide|bv_decide|implemented_by|unsafe)\b|^\s*axiom\s|maxHeartbeats\s+0\b", re.M
)

sys.path.insert(0, HERE)
if REPO not in sys.path[:2]:
    sys.path.insert(0, REPO)   # the library under test is imported from VERIF_REPO's working tree, never from site-packages
import translate  # noqa: E402
import genreg  # noqa: E402


class Infra(Exception):
    """infrastructure failure: exit 2, never a VIOLATION"""


# ------------------------------------------------------------------ Lean side
class Lock:
    def __enter__(self):
        self.f = open(os.path.join(LEAN, ".build.lock"), "w")
        fcntl.flock(self.f, fcntl.LOCK_EX)
        return self

    def __exit__(self, *a):
        fcntl.flock(self.f, fcntl.LOCK_UN)
        self.f.close()


def run(cmd, cwd=None, timeout=3600, input=None):
    """-> (rc, output).  A command that does not finish in `timeout` seconds is killed with everything it started (lake
    starts one lean per module) and reported as rc 124: for a build that means "this module no longer checks in time" —
    a proof about regenerated code can diverge when the code has changed — never an infrastructure error."""
    import signal
    p = subprocess.Popen(cmd, cwd=cwd, stdout=subprocess.PIPE, stderr=subprocess.STDOUT, stdin=subprocess.PIPE if input is not None else None,
                         text=True, start_new_session=True)
    try:
        out, _ = p.communicate(input, timeout=timeout)
        return p.returncode, out or ""
    except subprocess.TimeoutExpired:
        try:
            os.killpg(p.pid, signal.SIGKILL)
        except OSError:
            pass
        try:
            out, _ = p.communicate(timeout=30)
        except Exception:  # noqa: BLE001
            out = ""
        return 124, (out or "")[-3000:] + f"\nerror: {' '.join(cmd)[:200]} did not finish within {timeout} s (killed)"


def strip_comments(src: str) -> str:
    # remove nested /- -/ block comments and -- line comments (string literals are rare in this code base)
    out, i, depth = [], 0, 0
    while i < len(src):
        if src.startswith("/-", i):
            depth += 1
            i += 2
        elif depth and src.startswith("-/", i):
            depth -= 1
            i += 2
        elif depth:
            i += 1
        elif src.startswith("--", i):
            j = src.find("\n", i)
            i = len(src) if j < 0 else j
        else:
            out.append(src[i])
            i += 1
    return "".join(out)


THEOREM_RE = re.compile(r"^\s*(?:@\[[^\]]*\]\s*)?(?:private\s+|protected\s+)?theorem\s+([A-Za-z_][\w.'?!]*)", re.M)
NAMESPACE_RE = re.compile(r"^\s*namespace\s+([\w.]+)", re.M)


def theorems_of(relpath: str) -> list[str]:
    with open(os.path.join(LEAN, relpath), encoding="utf-8") as f:
        src = strip_comments(f.read())
    ns = NAMESPACE_RE.findall(src)
    prefix = (ns[0] + ".") if ns else ""
    return [prefix + m for m in THEOREM_RE.findall(src)]


def forbidden_tokens() -> list[str]:
    hits = []
    for root, _, files in os.walk(os.path.join(LEAN, "HtmlVerif")):
        for fn in files:
            if fn.endswith(".lean"):
                p = os.path.join(root, fn)
                with open(p, encoding="utf-8") as f:
                    src = strip_comments(f.read())
                for m in FORBIDDEN.finditer(src):
                    hits.append(f"{os.path.relpath(p, LEAN)}: {m.group(0).strip()}")
    return hits


@dataclass
class ProofStatus:
    obligations: list[str] = field(default_factory=list)
    discharged: list[str] = field(default_factory=list)
    failed: dict[str, str] = field(default_factory=dict)  # theorem/module -> message
    build_log: str = ""
    driver_ok: bool = False
    translate_info: dict = field(default_factory=dict)
    axioms: dict[str, list[str]] = field(default_factory=dict)

    @property
    def ok(self) -> bool:
        return not self.failed and self.obligations and len(self.discharged) == len(self.obligations)


def module_of(relpath: str) -> str:
    return relpath[:-5].replace("/", ".")


def build_and_audit(prop_files: list[str], leanchecker: bool = False) -> ProofStatus:
    """translate -> lake build (driver + the property's theorem modules) -> #print axioms audit."""
    st = ProofStatus()
    with Lock():
        try:
            st.translate_info = translate.generate()
        except Exception as e:  # source no longer parses: nothing can be regenerated
            st.failed["translator"] = f"{type(e).__name__}: {e}"
            st.translate_info = {"problems": [str(e)], "fingerprints": {}}
        genreg.main()
        rc, log = run(["lake", "build", "htdriver"], cwd=LEAN)
        st.build_log += log[-4000:]
        st.driver_ok = rc == 0 and os.path.exists(DRIVER)
        if st.driver_ok:
            snapshot_driver()
        if not st.driver_ok:
            st.failed["htdriver"] = log[-3000:]
        for rel in prop_files:
            names = theorems_of(rel)
            st.obligations += names
            mod = module_of(rel)
            rc, log = run(["lake", "build", mod], cwd=LEAN, timeout=int(os.environ.get("VERIF_BUILD_TIMEOUT", "1200")))
            if rc != 0:
                st.build_log += log[-6000:]
                # which theorems fail?  Lean reports `error: file:line:col` — map lines to theorems
                bad = failing_theorems(rel, log)
                if not bad:
                    errs = re.findall(r"error: [^\n]*(?:\n(?!\S*(?:error|warning|info):)[^\n]*){0,8}", log)
                    msg = "module failed to build (a lemma it depends on no longer checks): " + (errs[0][:1200] if errs else log[-800:])
                    bad = {n: msg for n in names}
                for n, msg in bad.items():
                    st.failed[n] = msg
                continue
            # axioms audit
            audit_src = f"import {mod}\n" + "".join(f"#print axioms {n}\n" for n in names)
            ap = os.path.join(LEAN, f".audit_{mod.split('.')[-1]}_{os.getpid()}.lean")
            with open(ap, "w") as f:
                f.write(audit_src)
            try:
                rc, out = run(["lake", "env", "lean", ap], cwd=LEAN)
            finally:
                os.unlink(ap)
            ax = parse_axioms(out)
            for n in names:
                short = n
                got = ax.get(short)
                if got is None:
                    st.failed[n] = "no #print axioms output: " + out[-500:]
                    continue
                st.axioms[n] = sorted(got)
                extra = set(got) - ALLOWED_AXIOMS
                if extra:
                    st.failed[n] = "depends on non-standard axioms: " + ", ".join(sorted(extra))
                else:
                    st.discharged.append(n)
            if leanchecker:
                rc, out = run(["lake", "env", "leanchecker", mod], cwd=LEAN, timeout=3600)
                if rc != 0:
                    st.failed[mod + " (leanchecker)"] = out[-2000:]
        hits = forbidden_tokens()
        if hits:
            st.failed["forbidden-tokens"] = "; ".join(hits[:20])
    return st


def parse_axioms(out: str) -> dict[str, set[str]]:
    res: dict[str, set[str]] = {}
    # "'Name' depends on axioms: [a, b]"  (possibly wrapped over lines) / "'Name' does not depend on any axioms"
    for m in re.finditer(r"'([^']+)' depends on axioms:\s*\[([^\]]*)\]", out, re.S):
        res[m.group(1)] = {a.strip() for a in m.group(2).replace("\n", " ").split(",") if a.strip()}
    for m in re.finditer(r"'([^']+)' does not depend on any axioms", out):
        res[m.group(1)] = set()
    return res


def failing_theorems(rel: str, log: str) -> dict[str, str]:
    """map `error: path:line:col: msg` to the theorem whose source range contains the line"""
    path = os.path.join(LEAN, rel)
    with open(path, encoding="utf-8") as f:
        lines = f.read().split("\n")
    ns = None
    starts = []  # (line_no, name)
    for i, l in enumerate(lines, 1):
        m = re.match(r"\s*namespace\s+([\w.]+)", l)
        if m and ns is None:
            ns = m.group(1)
        m = THEOREM_RE.match(l)
        if m:
            starts.append((i, ((ns + ".") if ns else "") + m.group(1)))
    out: dict[str, str] = {}
    for m in re.finditer(r"error: [^\n]*?" + re.escape(os.path.basename(rel)) + r":(\d+):(\d+): ([^\n]*(?:\n(?!\S*(?:error|warning|info):)[^\n]*){0,12})", log):
        ln = int(m.group(1))
        owner = None
        for s, n in starts:
            if s <= ln:
                owner = n
        if owner:
            out.setdefault(owner, m.group(3)[:1500])
    return out


_DRIVER_SNAPSHOT = None


def snapshot_driver():
    """Private copy of the driver just built (taken under the build lock): a concurrent run against another tree
    (VERIF_REPO) regenerates the tables and relinks the shared binary."""
    global _DRIVER_SNAPSHOT
    import atexit
    import shutil
    import tempfile
    if _DRIVER_SNAPSHOT is None:
        d = tempfile.mkdtemp(prefix="htdriver-", dir=os.path.join(LEAN, ".lake"))
        owner = os.getpid()
        atexit.register(lambda: os.getpid() == owner and shutil.rmtree(d, True))
        _DRIVER_SNAPSHOT = os.path.join(d, "htdriver")
        os.environ["VERIF_DRIVER_SNAPSHOT"] = _DRIVER_SNAPSHOT
    shutil.copy2(DRIVER, _DRIVER_SNAPSHOT)


def driver_path() -> str:
    snap = _DRIVER_SNAPSHOT or os.environ.get("VERIF_DRIVER_SNAPSHOT")
    return snap if snap and os.path.exists(snap) else DRIVER


class Driver:
    def __init__(self):
        if not os.path.exists(driver_path()):
            raise Infra("driver executable missing")

    def run(self, lines: list[str]) -> list[str]:
        """lines without ids -> answers (ids added/stripped here); large batches are split over several driver processes"""
        if not lines:
            return []
        n = len(lines)
        if n < 20000:
            return self._run1(lines)
        from concurrent.futures import ThreadPoolExecutor
        procs = min(16, os.cpu_count() or 1)
        size = (n + procs - 1) // procs
        chunks = [lines[i:i + size] for i in range(0, n, size)]
        with ThreadPoolExecutor(len(chunks)) as ex:
            res = list(ex.map(self._run1, chunks))
        return [x for c in res for x in c]

    def _run1(self, lines: list[str]) -> list[str]:
        inp = "".join(f"c{i} {l}\n" for i, l in enumerate(lines))
        p = subprocess.run([driver_path()], input=inp, capture_output=True, text=True, timeout=3600)
        if p.returncode != 0:
            raise Infra(f"driver crashed rc={p.returncode}: {p.stderr[-2000:]}")
        outs = p.stdout.split("\n")
        res = []
        for i in range(len(lines)):
            pre = f"c{i} "
            if i >= len(outs) or not outs[i].startswith(pre):
                raise Infra(f"driver output desynchronised at case {i}: {outs[i] if i < len(outs) else None!r}")
            res.append(outs[i][len(pre):])
        d = os.environ.get("VERIF_INTERP_DIR")
        if d and os.path.isdir(d):
            import random
            import uuid
            pick = random.sample(range(len(lines)), min(40, len(lines)))
            with open(os.path.join(d, uuid.uuid4().hex), "w", encoding="utf-8") as f:
                f.write("\n".join(f"{lines[i]}\t{res[i]}" for i in pick if "\t" not in lines[i] and len(lines[i]) < 20000))
        return res


# ------------------------------------------------------------------ known findings
def load_known():
    p = os.path.join(VERIF, "known_findings.json")
    if not os.path.exists(p):
        return {"findings": [], "fixed": []}
    with open(p) as f:
        return json.load(f)


# ------------------------------------------------------------------ check context
@dataclass
class Failure:
    kind: str          # 'property' (concrete failing input) | 'correspondence' | 'obligation'
    line: str = ""
    impl: str = ""
    model: str = ""
    detail: str = ""
    py: str = ""


class Check:
    def __init__(self, pid: str, tier: str, prop_files: list[str], level_note: str = ""):
        self.pid = pid
        self.tier = tier
        self.seed = int(os.environ.get("VERIF_SEED", "0") or 0)
        self.rng = random.Random(f"{pid}:{self.seed}")
        self.prop_files = prop_files
        self.t0 = time.time()
        self.lines: list[str] = []            # op lines
        self.impl: list[str] = []             # impl answers
        self.nontrivial: list[bool] = []
        self.tags: dict[str, int] = {}
        self.failures: list[Failure] = []
        self.known_seen: list[str] = []
        self.extra_cov: dict = {}
        self.assumptions: list[str] = []
        self.samples: list = []
        self.exhaustive_scopes: list = []
        self.holds_checked = 0
        self.proof: ProofStatus | None = None
        self.driver: Driver | None = None
        self._seen: set[str] = set()
        self.distinct_nontrivial = 0
        self.rule = ""
        self.py_fail: list[Failure] = []
        self.src_lines: list[tuple[str, str]] = []   # translator validation (`src` op): line, real answer
        self.src_stats: dict = {}

    # -- source tie: translator validation
    def add_src(self, funcs: list[str], quick: int = 300, thorough: int = 3000):
        """the regenerated Lean translation of each function and the real function, on the same values"""
        import srctie
        ls = srctie.lines(self.rng, funcs, thorough if self.tier == "thorough" else quick)
        self.src_lines += list(zip(ls, impl_many(ls)))

    def _src_validate(self):
        if not self.src_lines or self.driver is None:
            return
        outs = self.driver.run([l for l, _ in self.src_lines])
        agree = unsupported = 0
        for (l, im), m in zip(self.src_lines, outs):
            if m.startswith("bad-op"):
                raise Infra(f"driver rejected line: {l[:300]} -> {m}")
            if m.startswith("unsupported") or im.startswith("unsupported") or im == "route-unavailable":
                unsupported += 1      # outside the translated fragment / function not reachable: no verdict
            elif m == im:
                agree += 1
            else:
                self.failures.append(Failure("correspondence", line=l, impl=im, model=m,
                                             detail="the Lean translation of the source text and the real function differ"))
        self.src_stats = {"lines": len(self.src_lines), "agree": agree, "no_verdict": unsupported}

    # -- budgets
    def budget(self, quick: int, thorough: int) -> int:
        n = thorough if self.tier == "thorough" else quick
        changed = self.changed_functions()
        return n * (3 if changed else 1)

    def changed_functions(self) -> list[str]:
        if self.proof is None:
            return []
        fp = self.proof.translate_info.get("fingerprints", {})
        p = os.path.join(HERE, "source_map.json")
        if not os.path.exists(p):
            return []
        with open(p) as f:
            ref = json.load(f)
        return sorted(k for k, v in ref.items() if fp.get(k) != v)

    # -- case collection
    def add(self, line: str, impl_out: str, nontrivial: bool = True, tag: str | None = None):
        if impl_out == "route-unavailable":
            # the harness could not reach the code this line exercises (ops.UNAVAILABLE): skipped, counted
            self.routes_unavailable = getattr(self, "routes_unavailable", 0) + 1
            return
        self.lines.append(line)
        self.impl.append(impl_out)
        self.nontrivial.append(nontrivial)
        if tag:
            self.tags[tag] = self.tags.get(tag, 0) + 1
        if nontrivial:
            h = hashlib.blake2b(line.encode(), digest_size=8).hexdigest()
            if h not in self._seen:
                self._seen.add(h)
                self.distinct_nontrivial += 1

    def tagc(self, tag: str, n: int = 1):
        self.tags[tag] = self.tags.get(tag, 0) + n

    def py_violation(self, line: str, impl: str, detail: str, py: str = ""):
        """a concrete failing input found by a Python-side evaluation of the statement"""
        self.py_fail.append(Failure("property", line=line, impl=impl, detail=detail, py=py))

    # -- phases
    def prepare(self):
        self.proof = build_and_audit(self.prop_files, leanchecker=(self.tier == "thorough" and os.environ.get("VERIF_LEANCHECKER", "1") == "1"))
        # change-directed search: literals the source has gained since the model was aligned go into every generator
        try:
            import gen
            import literals
            self.new_literals = literals.new()
            self.new_literals += [w for w in literals.new_regex_samples() if w not in self.new_literals]
            gen.inject(self.new_literals)
            self.new_ints = literals.new_ints()
            gen.inject_ints(self.new_ints)
        except Exception as e:  # noqa: BLE001
            self.new_literals = [f"(unavailable: {e})"]
        if self.proof.driver_ok:
            self.driver = Driver()
            if self.tier == "thorough" and os.environ.get("VERIF_INTERP", "1") == "1":
                import tempfile
                os.environ["VERIF_INTERP_DIR"] = tempfile.mkdtemp(prefix="interp-", dir=os.path.join(LEAN, ".lake"))

    def correspond(self, holds: bool = True, batch: int = 200000):
        """run the model on every collected line; compare with the implementation;
        evaluate the executable statement `holds <pid> <op-line> <impl-out>` on the implementation's output."""
        if self.driver is None:
            return
        self._src_validate()
        if not getattr(self, "_history_done", False):
            # process-history stream (every property): a sample of this run's own lines, each after its twin
            self._history_done = True
            try:
                import gen
                hl = gen.history_lines(self.rng, self.lines, 400 if self.tier == "quick" else 4000)
            except Exception:  # noqa: BLE001
                hl = []
            if hl:
                for l, im in zip(hl, impl_many(hl)):
                    self.add(l, im, nontrivial=False, tag="after-history")
        n = len(self.lines)
        for lo in range(0, n, batch):
            ls = self.lines[lo:lo + batch]
            outs = self.driver.run(ls)
            for k, (l, m) in enumerate(zip(ls, outs)):
                im = self.impl[lo + k]
                if m.startswith("bad-op"):
                    raise Infra(f"driver rejected line: {l[:300]} -> {m}")
                if m != im:
                    self.failures.append(Failure("correspondence", line=l, impl=im, model=m))
            if holds:
                hl = [f"holds {self.pid} {l} | {im}" for l, im in zip(ls, self.impl[lo:lo + batch])]
                houts = self.driver.run(hl)
                for l, im, h in zip(ls, self.impl[lo:lo + batch], houts):
                    self.holds_checked += 1
                    if h == "T":
                        continue
                    if h.startswith("bad-op"):
                        # the op line itself was accepted by the model (checked above), so what cannot be read is the
                        # implementation's answer: an answer of unexpected shape is a failure of the implementation
                        self.failures.append(Failure("property", line=l, impl=im,
                                                     detail=f"the implementation's answer has an unexpected shape ({h[:200]})"))
                        continue
                    self.failures.append(Failure("property", line=l, impl=im, detail=h))
        if len(self.samples) < 5 and self.lines:
            for idx in self.rng.sample(range(n), min(5, n)):
                self.samples.append({"line": self.lines[idx][:600], "impl": self.impl[idx][:300]})

    def interpreter_crosscheck(self, k: int = 600):
        """trusted base, item 3: the correspondence runs *compiled* model definitions.  Every driver call of this run
        (in this process or a worker) left a random sample of its lines and answers in VERIF_INTERP_DIR; a sample of
        those is re-evaluated by Lean's interpreter and must give the same answers."""
        d = os.environ.get("VERIF_INTERP_DIR")
        if not d or not os.path.isdir(d):
            return
        pairs = []
        for fn in sorted(os.listdir(d)):
            with open(os.path.join(d, fn), encoding="utf-8") as f:
                rows = f.read().split("\n")
            pairs += [tuple(r.split("\t", 1)) for r in rows if "\t" in r]
        import shutil
        shutil.rmtree(d, True)
        os.environ.pop("VERIF_INTERP_DIR", None)
        if not pairs:
            return
        pairs = self.rng.sample(pairs, min(k, len(pairs)))
        inp = "".join(f"c{i} {l}\n" for i, (l, _) in enumerate(pairs))
        p = subprocess.run(["lake", "env", "lean", "--run", "Driver.lean"], cwd=LEAN, input=inp, capture_output=True,
                           text=True, timeout=3600)
        if p.returncode != 0:
            raise Infra(f"interpreter run of the driver failed rc={p.returncode}: {p.stderr[-1500:]}")
        interp = [o.split(" ", 1)[1] if " " in o else "" for o in p.stdout.split("\n")[:len(pairs)]]
        diff = [(l, c, i) for (l, c), i in zip(pairs, interp) if c != i]
        self.interp_checked = len(pairs)
        if diff or len(interp) != len(pairs):
            l, c, i = diff[0] if diff else ("", "", "")
            raise Infra(f"compiled driver and interpreter disagree on {len(diff)} of {len(pairs)} lines, e.g. {l[:300]} -> compiled {c[:200]} / interpreted {i[:200]}")

    # -- verdict
    def finish(self, level: str = "proof", matchers=None, shrink=None) -> int:
        assert self.proof is not None
        skipped = getattr(self, "routes_unavailable", 0)
        if skipped and skipped >= max(1, len(self.lines)):
            import ops
            raise Infra(f"{skipped} of {skipped + len(self.lines)} lines could not be run: {ops.UNAVAILABLE}")
        self.interpreter_crosscheck()
        # a known-finding matcher judges the input of a line; a line that carries process history (`after … ;; L`) is
        # judged on L
        import dataclasses

        def _on_last(m):
            def g(f):
                if f.line.startswith("after "):
                    f = dataclasses.replace(f, line=f.line.rsplit(" ;; ", 1)[-1])
                return m(f)
            return g
        matchers = {k: _on_last(m) for k, m in (matchers or {}).items()}
        known = load_known()
        prop_fail = [f for f in self.failures if f.kind == "property"] + self.py_fail
        corr_fail = [f for f in self.failures if f.kind == "correspondence"]
        # known findings
        unknown_prop = []
        for f in prop_fail:
            hit = None
            for k in known.get("findings", []):
                if k["property"] == self.pid and k["matcher"] in matchers and matchers[k["matcher"]](f):
                    hit = k
                    break
            if hit:
                msg = f"KNOWN-FINDING: property={self.pid} {hit['description']}"
                if msg not in self.known_seen:
                    self.known_seen.append(msg)
            else:
                unknown_prop.append(f)
        # a correspondence difference on an input that matches a known finding is the finding, too
        unknown_corr = []
        for f in corr_fail:
            if any(k["property"] == self.pid and k["matcher"] in matchers and matchers[k["matcher"]](f)
                   for k in known.get("findings", [])):
                continue
            unknown_corr.append(f)
        for m in self.known_seen:
            print(m)
        proof_broken = dict(self.proof.failed)
        violations = 0
        replay = None
        os.makedirs(os.path.join(VERIF, "replays"), exist_ok=True)
        if unknown_prop:
            # a failing line that carries its own history replays in a fresh process: report such a line first
            unknown_prop.sort(key=lambda f: not f.line.startswith("after "))
            f = unknown_prop[0]
            if shrink:
                try:
                    f = shrink(f) or f
                except Exception:
                    pass
            body = {
                "property": self.pid, "kind": "failing-input", "line": f.line, "impl_output": f.impl,
                "model_output": f.model, "detail": f.detail, "python": f.py,
                "n_failing_inputs": len(unknown_prop),
                "broken_obligations": proof_broken,
                "n_correspondence_differences": len(unknown_corr),
            }
            replay = self._write_replay(body)
            print(f"VIOLATION property={self.pid} replay={replay}")
            violations = len(unknown_prop)
        elif proof_broken or unknown_corr:
            body = {
                "property": self.pid, "kind": "no-failing-input-found",
                "broken_obligations": proof_broken,
                "correspondence_differences": [
                    {"line": f.line, "impl_output": f.impl, "model_output": f.model} for f in unknown_corr[:5]
                ],
                "n_correspondence_differences": len(unknown_corr),
                "holds_evaluated_on_impl": self.holds_checked,
                "note": "the executable statement of the property held on every explored input; "
                        "the property is no longer shown to hold because the theorem/correspondence named here no longer checks",
            }
            replay = self._write_replay(body)
            print(f"VIOLATION property={self.pid} replay={replay} no-failing-input-found")
            violations = 1
        self._write_evidence(level, violations)
        return 1 if violations else 0

    def _write_replay(self, body: dict) -> str:
        try:
            import pretty
            if body.get("line") and not body.get("python"):
                body["python"] = pretty.describe(body["line"])
            for k in ("impl_output", "model_output"):
                if body.get(k):
                    body[k + "_decoded"] = pretty.decode_answer(body[k])
            for d in body.get("correspondence_differences", []) or []:
                d["python"] = pretty.describe(d.get("line", ""))
                d["impl_decoded"] = pretty.decode_answer(d.get("impl_output", ""))
                d["model_decoded"] = pretty.decode_answer(d.get("model_output", ""))
        except Exception:
            pass
        h = hashlib.sha1(json.dumps(body, sort_keys=True).encode()).hexdigest()[:10]
        rel = f"replays/{self.pid}-{h}.json"
        with open(os.path.join(VERIF, rel), "w") as f:
            json.dump(body, f, indent=1)
        return rel

    def _write_evidence(self, level: str, violations: int):
        pr = self.proof
        cov = {
            "obligations": len(pr.obligations),
            "discharged": len(pr.discharged),
            "checker_cmd": "lake build <Props module> && lake env lean <#print axioms audit>"
                           + (" && lake env leanchecker <module>" if self.tier == "thorough" else ""),
            "trusted_base": [
                "Lean 4.33.0 kernel", "axioms ⊆ {propext, Classical.choice, Quot.sound} (audited per theorem)",
                "harness/translate.py (ast → Lean tables)",
                "harness/pytranslate.py (source text of selected functions → Lean functions) and Py/Prim.lean (stated semantics of the Python fragment), validated against the running interpreter by the `src` op",
                "correspondence harness (differential testing of model vs /repo)",
                "Lean compiler (driver runs compiled model definitions)",
            ],
            "theorems": pr.obligations,
            "axioms": pr.axioms,
            "failed_obligations": pr.failed,
            "evaluations": len(self.lines) + self.extra_cov.get("extra_evaluations", 0),
            "distinct_nontrivial": self.distinct_nontrivial,
            "rule": self.rule,
            "samples": self.samples[:8] or [{"note": "no correspondence cases"}],
            "traces_validated_against_impl": len(self.lines),
            "holds_evaluated_on_impl": self.holds_checked,
            "correspondence_differences": len([f for f in self.failures if f.kind == "correspondence"]),
            "lines_reevaluated_by_interpreter": getattr(self, "interp_checked", 0),
            "lines_skipped_route_unavailable": getattr(self, "routes_unavailable", 0),
            "distribution": self.tags,
            "exhaustive_scopes": self.exhaustive_scopes,
            "changed_functions": self.changed_functions(),
            "new_source_literals": getattr(self, "new_literals", []),
            "new_source_ints": getattr(self, "new_ints", []),
            "known_findings_seen": self.known_seen,
            "translator_problems": pr.translate_info.get("problems", []),
            "translator_notes": pr.translate_info.get("notes", []),
            "source_tie": {"translated": pr.translate_info.get("src_available", {}), "validation": self.src_stats},
        }
        cov.update({k: v for k, v in self.extra_cov.items() if k != "extra_evaluations"})
        ev = {
            "property_id": self.pid, "tier": self.tier, "seed": self.seed, "level": level,
            "coverage": cov, "assumptions": self.assumptions,
            "wall_s": round(time.time() - self.t0, 2), "violations": violations,
        }
        # evidence/<id>.json is rewritten on every run; experiments (seed matrix) may redirect it
        evdir = os.environ.get("VERIF_EVIDENCE_DIR") or os.path.join(VERIF, "evidence")
        os.makedirs(evdir, exist_ok=True)
        with open(os.path.join(evdir, f"{self.pid}.json"), "w") as f:
            json.dump(ev, f, indent=1, ensure_ascii=False)


def main_run(pid: str, tier: str, fn) -> int:
    try:
        return fn(tier)
    except Infra as e:
        print(f"INFRA-ERROR property={pid}: {e}", file=sys.stderr)
        return 2
    except subprocess.TimeoutExpired as e:
        print(f"TIMEOUT property={pid}: {e}", file=sys.stderr)
        return 2
    except Exception:
        traceback.print_exc()
        print(f"INFRA-ERROR property={pid}: harness exception", file=sys.stderr)
        return 2


# ------------------------------------------------------------------ parallel evaluation of the implementation
def _impl_chunk(lines):
    import ops
    return [ops.run_line(l) for l in lines]


def impl_many(lines: list[str], procs: int | None = None) -> list[str]:
    """run the real code on every line (pure per line), in parallel when it pays off.
    A worker that crashes or hangs (a broken implementation can recurse for ever or loop) must not hang or abort the
    check: the chunk is bisected in fresh single-worker pools until the offending line is isolated; that line is
    answered `err crashed-or-hung`, which no model answer ever equals."""
    import ops
    if len(lines) < 4000:
        return _guarded(lines)
    from concurrent.futures import ProcessPoolExecutor
    from concurrent.futures.process import BrokenProcessPool
    import multiprocessing as mp
    procs = procs or min(16, os.cpu_count() or 1)
    size = max(500, len(lines) // (procs * 4))
    chunks = [lines[i:i + size] for i in range(0, len(lines), size)]
    results: list = [None] * len(chunks)
    try:
        with ProcessPoolExecutor(procs, mp_context=mp.get_context("fork")) as ex:
            futs = [ex.submit(_impl_chunk, c) for c in chunks]
            for k, f in enumerate(futs):
                try:
                    results[k] = f.result(timeout=CHUNK_TIMEOUT)
                except Exception:  # noqa: BLE001  (BrokenProcessPool, TimeoutError)
                    results[k] = None
                    if isinstance(f.exception(timeout=0) if f.done() else None, BrokenProcessPool):
                        break
    except Exception:  # noqa: BLE001
        pass
    for k, r in enumerate(results):
        if r is None:
            results[k] = _bisect(chunks[k])
    return [x for c in results for x in c]


CHUNK_TIMEOUT = 900


def _guarded(lines: list[str]) -> list[str]:
    """small batches run in-process; a hang here would hang the check, so give them a wall-clock alarm"""
    import ops
    import signal

    class _TO(BaseException):
        pass

    def _h(signum, frame):
        raise _TO()
    out = []
    old = signal.signal(signal.SIGALRM, _h)
    try:
        for l in lines:
            signal.alarm(120)
            try:
                out.append(ops.run_line(l))
            except _TO:
                out.append("err crashed-or-hung")
            except RecursionError:
                out.append("err crashed-or-hung")
            finally:
                signal.alarm(0)
    finally:
        signal.signal(signal.SIGALRM, old)
    return out


def _bisect(lines: list[str], timeout: int = 300) -> list[str]:
    from concurrent.futures import ProcessPoolExecutor
    import multiprocessing as mp
    ex = ProcessPoolExecutor(1, mp_context=mp.get_context("fork"))
    try:
        r = ex.submit(_impl_chunk, lines).result(timeout=timeout)
        ex.shutdown(wait=False)
        return r
    except Exception:  # noqa: BLE001
        for p in list(getattr(ex, "_processes", {}).values()):
            try:
                p.kill()
            except Exception:  # noqa: BLE001
                pass
        ex.shutdown(wait=False, cancel_futures=True)
    if len(lines) == 1:
        return ["err crashed-or-hung"]
    mid = len(lines) // 2
    return _bisect(lines[:mid], max(30, timeout // 2)) + _bisect(lines[mid:], max(30, timeout // 2))
