/-
Spec-side definitions for C15 / C16 / the merge part of C03: the closed forms the statements talk about.
Executable (the driver evaluates them on the implementation's answers), Mathlib-free.
-/
import HtmlVerif.Model.Attrs
import HtmlVerif.Model.ClassStyle

namespace HtmlVerif

/-! ### names -/

/-- remove one trailing `c`, if there is one -/
def dropOneTrailing (c : Char) : Str → Str
  | [] => []
  | [a] => if a = c then [] else [a]
  | a :: b :: r => a :: dropOneTrailing c (b :: r)

/-- the name normalisation as the statement words it -/
def normNameSpec (x : Str) : Str :=
  (dropOneTrailing '_' x).map fun c => if c = '_' then '-' else c

/-! ### values -/

/-- None/False dropped, True ↦ "", number ↦ its text, str/HTML as they are (`bad` has no image) -/
def normValSpec : AttrArg → Option AttrVal
  | .none => none
  | .boolF => none
  | .boolT => some (.plain [])
  | .str s => some (.plain s)
  | .html s => some (.html s)
  | .num t => some (.plain t)
  | .bad => none

def AttrArg.isBad : AttrArg → Bool
  | .bad => true
  | _ => false

/-- all `(normalised name, normalised value)` pairs of one call, in argument order, dropped values removed -/
def normPairs (pairs : List (Str × AttrArg)) : List (Str × AttrVal) :=
  pairs.filterMap fun kv => (normValSpec kv.2).map fun v => (normNameSpec kv.1, v)

/-- the values supplied for name `k`, in argument order -/
def groupVals (k : Str) (np : List (Str × AttrVal)) : List AttrVal :=
  np.filterMap fun kv => if kv.1 = k then some kv.2 else none

/-- `v₁ + " " + v₂ + " " + …` left to right -/
def joinVals (cfg : Cfg) (v : AttrVal) (vs : List AttrVal) : AttrVal := vs.foldl (mergeVal cfg) v

/-- the pairs whose name is not `k` -/
def withoutKey (k : Str) (np : List (Str × AttrVal)) : List (Str × AttrVal) :=
  np.filter fun kv => kv.1 != k

theorem length_withoutKey_le (k : Str) (np : List (Str × AttrVal)) : (withoutKey k np).length ≤ np.length :=
  List.length_filter_le _ _

/-- grouped by name in order of first appearance; each name carries all its values joined in argument order -/
def mergeSpecN (cfg : Cfg) : List (Str × AttrVal) → Attrs
  | [] => []
  | (k, v) :: r => (k, joinVals cfg v (groupVals k r)) :: mergeSpecN cfg (withoutKey k r)
termination_by l => l.length
decreasing_by
  simp only [List.length_cons]
  exact Nat.lt_succ_of_le (length_withoutKey_le _ _)

/-- the attributes one call (`Tag(...)`, `update(...)`) computes from its dict arguments, flattened in
    argument order (positional dicts left to right, then the keyword dict) -/
def mergeSpec (cfg : Cfg) (pairs : List (Str × AttrArg)) : Attrs := mergeSpecN cfg (normPairs pairs)

def keysOf (a : Attrs) : List Str := a.map Prod.fst

/-- `dict.update`: entries of `cur` keep their position and take the new value when there is one;
    names new to `cur` are appended in the order of `new` -/
def overrideKeepOrder (cur new : Attrs) : Attrs :=
  cur.map (fun kv => (kv.1, (alookup kv.1 new).getD kv.2))
    ++ new.filter (fun kv => !(keysOf cur).contains kv.1)

/-- what one merge operand contributes to the emitted attribute text -/
def emitOperand (cfg : Cfg) : AttrVal → Str
  | .plain s => htmlEscapeT cfg.attrTbl s
  | .html s => s

/-! ### class tokens -/

/-- a whitespace-free, non-empty class token -/
def isToken (sp : Char → Bool) (t : Str) : Bool := !t.isEmpty && t.all fun c => !sp c

/-- the class text of a tag (`""` when absent) -/
def classOf (a : Attrs) : Str := textOf classKey a

def styleOf (a : Attrs) : Str := textOf styleKey a

/-- guard of F-C16: the class value is a plain string (or absent), or it is HTML()-marked and the token
    contains no character that the merge escapes -/
def plainOrSafe (cfg : Cfg) (a : Attrs) (t : Str) : Bool :=
  match alookup classKey a with
  | some (.html _) => !needsEscape cfg.attrTbl t
  | _ => true

/-- the value `add_class` / `add_style` stores: the new value alone, or merged after (before, with `prepend`)
    the old one by the attribute merge (`mergeVal`: one space; a plain side meeting an HTML() side is escaped) -/
def addedVal (cfg : Cfg) (old : Option AttrVal) (nv : AttrVal) (prepend : Bool) : AttrVal :=
  match old with
  | none => nv
  | some o => if prepend then mergeVal cfg nv o else mergeVal cfg o nv

/-- the attributes other than `k`, in order -/
def othersOf (k : Str) (a : Attrs) : Attrs := a.filter fun kv => kv.1 != k

/-! ### css -/

/-- the declaration one keyword contributes (`none` for a `None` value) -/
def cssDecl (lower : Str → Str) (collapse : Str) (kv : Str × CssVal) : Option Str :=
  match kv.2 with
  | .none => none
  | .text s => some (cssKey lower kv.1 ++ ':' :: s ++ ';' :: collapse)
  | .list xs => some (cssKey lower kv.1 ++ ':' :: joinStr [' '] xs ++ ';' :: collapse)
  | .badList => none

def CssVal.isBad : CssVal → Bool
  | .badList => true
  | _ => false

end HtmlVerif
