/-
consolidate_attrs (_core.py:1882-1917) and the argument split of Tag.__init__ (_core.py:675-679).

The children are opaque here (type parameter `α`): `consolidate_attrs` hands them to `TagList(*kids)`
only to throw the result away, so all that matters is whether that normalisation raises; this is
`checkKids`, a parameter (it is the child model of C14).
-/
import HtmlVerif.Model.Attrs

namespace HtmlVerif

/-- one positional argument of `Tag(...)` / `consolidate_attrs(...)`:
    `isinstance(x, dict)` or anything else -/
inductive TagArg (α : Type)
  | dict (d : List (Str × AttrArg))
  | child (c : α)
  deriving Repr

/-- `[x for x in args if isinstance(x, dict)]` -/
def dictsOf {α} : List (TagArg α) → List (List (Str × AttrArg))
  | [] => []
  | .dict d :: r => d :: dictsOf r
  | .child _ :: r => dictsOf r

/-- `[x for x in args if not isinstance(x, dict)]` -/
def kidsOf {α} : List (TagArg α) → List α
  | [] => []
  | .dict _ :: r => kidsOf r
  | .child c :: r => c :: kidsOf r

/-- `Tag.__init__`, as far as attributes and the raw child arguments go:
    attributes first (TagAttrDict), then `TagList(*kids)` -/
def tagInitSplit {α} (cfg : Cfg) (checkKids : List α → Except Err Unit)
    (args : List (TagArg α)) (kw : List (Str × AttrArg)) : Except Err (Attrs × List α) :=
  match tagInitAttrs cfg (dictsOf args) kw with
  | .error e => .error e
  | .ok a =>
    match checkKids (kidsOf args) with
    | .error e => .error e
    | .ok _ => .ok (a, kidsOf args)

/-- `consolidate_attrs(*args, **kwargs)`: builds a throw-away Tag, returns `dict(tag.attrs)` and the
    non-dict arguments as they were given -/
def consolidate {α} (cfg : Cfg) (checkKids : List α → Except Err Unit)
    (args : List (TagArg α)) (kw : List (Str × AttrArg)) : Except Err (Attrs × List α) :=
  match tagInitSplit cfg checkKids args kw with
  | .error e => .error e
  | .ok (a, _) => .ok (a, kidsOf args)

/-- a stored attribute dict handed back as a positional dict argument -/
def asDictArg (a : Attrs) : List (Str × AttrArg) :=
  a.map fun kv => (kv.1, match kv.2 with | .plain s => .str s | .html s => .html s)

end HtmlVerif
