"""Implementation side of the HTMLDocument ops (lean/HtmlVerif/Ops/Document.lean): build the real document from the
realised content (constructor arguments, then `append` calls), call the real `render()`, and report the markup, the
returned dependency objects (canonical form, which carries the unique marker of each object) and the user's own
objects as they are *after* the call."""
from __future__ import annotations

import htmltools
from adapters import HTMLDependency, canon, canon_dep, realize, TagList
from ops import op
from ops_attrs import HarnessBug, guarded, realize_dict
from ops_tagify import ranks_for
from wire import Toks, enode, enodes, es, p_attrpair, p_bool, p_list, p_node, p_opt

RESERVED_KW = {"self", "_name", "_add_ws", "args", "kwargs"}


def is_headcontent_term(n) -> bool:
    return (n[0] == "dep" and n[2] and n[1]["name"].startswith("headcontent_") and n[1]["version"] == "0.0"
            and n[1]["source"] is None and not n[1]["script"] and not n[1]["stylesheet"] and not n[1]["metas"])


def dep_marker(n):
    m = n[1]["metas"]
    return dict(m[0]).get("content") if m and m[0][0] == ("name", "id") else None


def realize_doc_node(n, shared=None):
    """as adapters.realize, except that (1) a term that is a `head_content(...)` dependency is made by the real
    `head_content()` (and must come out as the term says: the name is the real digest of the real rendering), and
    (2) dependency terms of one document that carry the same marker are one and the same object (a dependency object
    placed at several positions)"""
    k = n[0]
    if k == "tag":
        t = realize(("tag", n[1], n[2], n[3], []))
        t.children = TagList(*[realize_doc_node(c, shared) for c in n[4]])
        return t
    if is_headcontent_term(n):
        d = htmltools.head_content(*[realize_doc_node(c, shared) for c in n[3]])
        if d.name != n[1]["name"]:
            raise HarnessBug("head_content term whose name is not the digest of its content")
        return d
    if k == "dep" and shared is not None and dep_marker(n) is not None:
        mk = dep_marker(n)
        if mk in shared:
            if shared[mk][0] != n:
                raise HarnessBug("two different dependency terms carry the same marker")
            return shared[mk][1]
        obj = realize(n)
        shared[mk] = (n, obj)
        return obj
    return realize(n)


def p_doc_args(t: Toks):
    init = p_list(t, p_node)
    later = p_list(t, lambda t: p_list(t, p_node))
    kw = p_list(t, p_attrpair)
    lp = p_opt(t)
    iv = p_bool(t)
    return init, later, kw, lp, iv


def build_doc(init, later, kw):
    if any(k in RESERVED_KW for k, _ in kw):
        raise HarnessBug("keyword name collides with a parameter name")
    shared: dict = {}
    objs = [realize_doc_node(n, shared) for n in init]
    doc = htmltools.HTMLDocument(*objs, **realize_dict(kw))
    for batch in later:
        more = [realize_doc_node(n, shared) for n in batch]
        doc.append(*more)
        objs += more
    return doc, objs


@op("document_render")
@guarded
def _document_render(t: Toks) -> str:
    init, later, kw, lp, iv = p_doc_args(t)
    ranks = ranks_for(init + [n for b in later for n in b])
    doc, objs = build_doc(init, later, kw)
    r = doc.render(lib_prefix=lp, include_version=iv)
    deps = r["dependencies"]
    if not isinstance(deps, list) or not all(isinstance(d, HTMLDependency) for d in deps):
        return "bad-deps"
    # the user's own objects after the call (a read-only operation must leave them as they were)
    after = [canon(o, ranks) for o in objs]
    return "ok " + es(r["html"]) + " " + enodes([canon_dep(d, ranks) for d in deps]) + " " + enodes(after)


@op("document_tree")
@guarded
def _document_tree(t: Toks) -> str:
    init, later, kw, lp, iv = p_doc_args(t)
    ranks = ranks_for(init + [n for b in later for n in b])
    doc, _ = build_doc(init, later, kw)
    tree = doc._gen_html_tag_tree(lp, include_version=iv).tagify()
    return "ok " + enode(canon(tree, ranks))
