"""C18 — Output is deterministic across processes and independent of history (partial: runtime half by the tie)."""
from __future__ import annotations

import hashlib
import json
import os
import subprocess
import sys

import core
import gen
from wire import enode, enodes, es, eb

PID = "C18"
MANIFEST = dict(
    text="PARTIAL by nature. Lean: in the model every observable is a function of the construction (no state, no hash order), so history "
         "independence of the model is by construction; theorems with content: head_content name = 'headcontent_' + H(rendered content), version "
         "0.0 (C18_headContent_name); equal name iff equal rendered content for any injective digest (C18_name_iff_content); every reported "
         "dependency order is positional — first occurrence, never a sort or hash order — and every name is represented exactly once after "
         "resolution (C18_order_is_positional, C18_once_per_document, from C10). What only the runtime can show — no dependence on the hash seed or "
         "on earlier calls — is decided by the tie: a battery of constructions (trees, lists, head_content payloads, dependency lists, tagified "
         "trees, JSON-mode strings) is evaluated in fresh subprocesses under different PYTHONHASHSEED values, in forward / reverse / shuffled "
         "order with unrelated renderings interleaved, and every digest from every process must equal the digest of the MODEL's single answer "
         "(SHA-1 itself is implemented in Lean and compared with hashlib).",
    design="DESIGN.md §6 C18",
    note="Runtime behaviour a Lean model cannot exhibit (hash seed, module-level caches, set iteration) is observed, not proved. SHA-1 collision "
         "resistance is assumed (injective H).",
    technique="Lean 4 proof for naming/ordering + cross-process differential check against the model's answers",
)
PROP_FILES = ["HtmlVerif/Props/C18.lean", "HtmlVerif/Props/ConstsHead.lean"]
WORKER = os.path.join(os.path.dirname(os.path.dirname(os.path.abspath(__file__))), "c18_worker.py")


NOISE_STRINGS = ["sm", "lg", "card", "btn-primary", "x"]


def battery(rng, n: int):
    from props import c10
    lines = []

    def with_deps(t):
        """sprinkle dependencies (several names / versions) into a tag term"""
        if t[0] != "tag":
            return t
        kids = []
        for c in t[4]:
            if rng.random() < 0.25:
                kids.append(c10.mk_dep(rng.choice(["a", "b", "jq", "héllo"]), rng.choice(["1.9", "1.10", "1.10.0", "2", "0.0.1"]),
                                       script=[[("src", rng.choice(["x.js", "y z.js"]))]] if rng.random() < 0.5 else None))
            kids.append(with_deps(c))
        return ("tag", t[1], t[2], t[3], kids)
    for k in range(n):
        r = k % 8
        if r == 0:
            lines.append(f"render_tag {enode(gen.rand_tag(rng, rng.randint(1, 6)))} {rng.choice([0, 1])} {es(chr(10))}")
        elif r == 1:
            ks = [gen.rand_node(rng, 3) for _ in range(rng.randint(0, 4))]
            lines.append(f"render_list {enodes(ks)} 0 {es(chr(10))} T T")
        elif r == 2:
            if k % 16 == 2:
                ks = [gen.rand_node(rng, 2, leaves=("text", "html", "robj")) for _ in range(rng.randint(0, 3))]
                lines.append(f"head_content {enodes(ks)} 0")
            else:
                # payloads that compare/hash equal as Python values but render differently (str vs HTML vs a tag with that markup)
                s = rng.choice(["<style>b{}</style>", "<title>T</title>", "a&b", gen.alias_string(rng, rng.choice([8, 48, 100]))])
                for role in rng.sample(["text", "html", "robj"], 3):
                    lines.append(f"head_content {enodes([(role, s)])} 0")
                lines.append(f"head_content {enodes([('tag', 'style', True, [], [('text', 'b{}')])])} 0")
        elif r in (3, 4, 5, 6):
            t = with_deps(gen.rand_tag(rng, rng.randint(1, 5), leaves=("text", "html", "meta")))
            terms = c10.finish_terms([t])
            t = terms[0]
            if r == 3:
                lines.append(f"deps_tag {enode(t)} T")
            elif r == 4:
                lines.append(f"deps_list {enodes(t[4])} {eb(rng.random() < 0.7)}")
            elif r == 5:
                lines.append(f"render_full_tag {enode(t)}")
            else:
                lines.append(f"tagify_tag {enode(t)}")
        elif k % 16 == 7:
            lines.append("escape " + eb(rng.random() < 0.5) + " " + es(gen.rand_text(rng, 30)))
        else:
            # one and the same long string as HTML() in one construction and as plain text in another
            # (cross-construction history: caches keyed on content show up under some evaluation orders only)
            s = gen.alias_string(rng, rng.choice(gen.ALIAS_LENGTHS))
            role = rng.choice(["text", "html", "robj"])
            lines.append(f"render_tag {enode(('tag', 'div', True, [('title', ('p', s))] if rng.random() < 0.3 else [], [(role, s)]))} 0 {es(chr(10))}")
            other = {"text": "html", "html": "text", "robj": "text"}[role]
            lines.append(f"render_tag {enode(('tag', 'p', True, [], [(other, s), ('text', 'x')]))} 0 {es(chr(10))}")
    # plain strings that the worker's interleaved noise also uses as values of a str SUBCLASS with a different str()
    for sx in NOISE_STRINGS:
        lines.append(f"render_tag {enode(('tag', 'div', True, [('class', ('p', sx)), ('title', ('p', sx))], [('text', sx)]))} 0 {es(chr(10))}")
        lines.append("escape T " + es(sx))
    # head_content payloads holding an invisible dependency, named while the global render mode is "json" and while it is not
    try:
        from props import c10 as _c10
        for _ in range(max(4, n // 40)):
            inner = _c10.mk_dep(rng.choice(["a", "b"]), rng.choice(["1.0", "2"]))
            inner = _c10.finish_terms([("tag", "div", True, [], [inner])])[0][4][0]
            payload = [("tag", "title", True, [], [("text", rng.choice(["T", "U"]))]), inner]
            rng.shuffle(payload)
            lines.append(f"head_content {enodes(payload)} 0")
            lines.append(f"head_content_json {enodes(payload)} 0")
    except Exception:  # noqa: BLE001
        pass
    # values with several whitespace-separated tokens / declarations handed to the class and style helpers in one call
    # (an implementation that goes through a set shows hash-order dependence exactly here)
    try:
        from ops_attrs import chist_line
        toks = ["btn", "btn-primary", "btn-lg", "a", "b", "c", "é", "x-1", "x-2", "w3", "zz", "q"]
        for _ in range(max(8, n // 12)):
            many = " ".join(rng.sample(toks, rng.randint(2, 6)))
            init = [("class", ("p", " ".join(rng.sample(toks, rng.randint(0, 3)))))] if rng.random() < 0.6 else []
            steps = [("ac", many, rng.random() < 0.3), ("hc", many.split()[0])]
            if rng.random() < 0.5:
                steps.insert(1, ("rc", many.split()[-1]))
            lines.append(chist_line(init, steps))
    except Exception:  # noqa: BLE001  (op family not present in this tree)
        pass
    return lines


def run(tier: str) -> int:
    ck = core.Check(PID, tier, PROP_FILES)
    ck.prepare()
    rng = ck.rng
    ck.rule = ("one case per construction of the battery; it is evaluated in every subprocess (hash seed x order); non-trivial = all of them "
               "(each digest of each process is compared with the model's); distinct by wire line")
    n = 240 if tier == "quick" else 600
    lines = battery(rng, n)
    # corpus first: a sample of every op kind the other properties' generators produce (harness/mkbattery.py), so the
    # whole public surface — attribute / class / css histories, child-list operations, display hook programs, JSX,
    # JSON serialisation and extraction, dependency resolution — is evaluated across processes, not only rendering
    cpath = os.path.join(core.VERIF, "corpus", "c18_battery.txt")
    corpus = [l.rstrip("\n") for l in open(cpath, encoding="utf-8")] if os.path.exists(cpath) else []
    if corpus and ck.driver is not None:
        ans = ck.driver.run(corpus)
        stale = sum(1 for a in ans if a.startswith("bad-op"))
        corpus = [l for l, a in zip(corpus, ans) if not a.startswith("bad-op")]
        ck.extra_cov["corpus_lines"] = len(corpus)
        ck.extra_cov["corpus_stale_lines_skipped"] = stale
        lines = corpus + lines
    # the in-process answer (also history dependent: this process has rendered many things before) and the model's
    impl = core.impl_many(lines)
    for l, im in zip(lines, impl):
        ck.add(l, im, nontrivial=True, tag=l.split(" ", 1)[0])
    ck.correspond(holds=False)
    if ck.driver is None:
        return ck.finish()
    model = ck.driver.run(lines)
    want = {str(i): hashlib.sha1(m.encode()).hexdigest() for i, m in enumerate(model)}
    seeds = ["0", "1", "2", "random"] if tier == "quick" else ["0", "1", "2", "3", "7", "42", "123456", "4294967295"] + ["random"] * 8
    orders = ["forward", "reverse", "shuffle"] if tier == "quick" else ["forward", "reverse", "shuffle", "shuffle2", "evens-first", "noise-heavy"]
    noise = [l for l in battery(rng, 40)] + ["noise_strsub " + es(sx) for sx in NOISE_STRINGS] * 2
    rng.shuffle(noise)
    jobs = []
    for sd in seeds:
        for od in orders:
            idx = list(range(len(lines)))
            if od == "reverse":
                idx.reverse()
            elif od.startswith("shuffle") or od == "noise-heavy":
                rng.shuffle(idx)
            elif od == "evens-first":
                idx = idx[::2] + idx[1::2]
            jobs.append((sd, od, idx))
    env0 = dict(os.environ)
    env0["VERIF_REPO"] = core.REPO
    procs = []
    for sd, od, idx in jobs:
        env = dict(env0)
        env["PYTHONHASHSEED"] = sd
        p = subprocess.Popen([sys.executable, WORKER], stdin=subprocess.PIPE, stdout=subprocess.PIPE, stderr=subprocess.PIPE, env=env, text=True)
        procs.append((sd, od, p, json.dumps({"lines": lines, "order": idx, "noise": noise if od != "forward" else []})))
    n_digests = 0
    hashes_seen = set()
    for sd, od, p, payload in procs:
        out, err = p.communicate(payload, timeout=1800)
        if p.returncode != 0:
            raise core.Infra(f"C18 worker failed (seed {sd}, order {od}): {err[-800:]}")
        res = json.loads(out)
        hashes_seen.add(res["hash_of_a"])
        for k, dg in res["digests"].items():
            n_digests += 1
            ck.holds_checked += 1
            if dg != want[k]:
                ck.py_violation(lines[int(k)], f"digest {dg} in a process with PYTHONHASHSEED={sd}, evaluation order {od}",
                                f"the same construction gives a different result in another process / after a different history "
                                f"(model and reference digest {want[k]})",
                                py=f"PYTHONHASHSEED={sd}; order={od}")
    ck.extra_cov.update(processes=len(jobs), hash_seeds=seeds, orders=orders, digests_compared=n_digests,
                        distinct_str_hash_values_observed=len(hashes_seen), extra_evaluations=n_digests)
    ck.exhaustive_scopes.append({"scope": f"{len(lines)} constructions x {len(seeds)} hash seeds x {len(orders)} evaluation orders, every digest compared with the model's answer",
                                 "exhaustive": False})
    return ck.finish()
