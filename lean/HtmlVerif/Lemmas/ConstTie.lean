/-
Helpers for the constants tie (DESIGN §13.7).  A constant the translator could not locate (`none`: the code was
restructured) does not fail a theorem — only a constant that was located and differs from the model's does.
-/
import HtmlVerif.Generated.Consts
import HtmlVerif.Model.Tree

namespace HtmlVerif.ConstTie
open HtmlVerif

/-- located ⇒ equal to the model's literal -/
def strIs (lit : Option Str) (model : Str) : Bool :=
  match lit with
  | none => true
  | some s => s == model

abbrev Dflt := Option (Option Str × Option Bool × Option Nat)

def dfltStr (d : Dflt) (model : Option Str) : Bool :=
  match d with
  | none => true
  | some (s, b, n) => s == model && b == none && n == none

def dfltBool (d : Dflt) (model : Bool) : Bool :=
  match d with
  | none => true
  | some (s, b, n) => s == none && b == some model && n == none

def dfltNat (d : Dflt) (model : Nat) : Bool :=
  match d with
  | none => true
  | some (s, b, n) => s == none && b == none && n == some model

def attrsOf : Node → Attrs
  | .tag _ _ a _ => a
  | _ => []

def plainAttr (k : Str) (n : Node) : Str :=
  match alookup k (attrsOf n) with
  | some v => v.str
  | none => []

end HtmlVerif.ConstTie
