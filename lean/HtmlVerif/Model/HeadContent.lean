/-
head_content(*args) (_core.py:1825-1862): a dependency named by the digest of the rendered content.
-/
import HtmlVerif.Model.Render

namespace HtmlVerif

def headcontentPrefix : Str := ['h', 'e', 'a', 'd', 'c', 'o', 'n', 't', 'e', 'n', 't', '_']

/-- `head = TagList(*args); head_str = head.get_html_string(); name = "headcontent_" + hash_deterministic(head_str);
    HTMLDependency(name=name, version="0.0", head=head)`.
    `H` is the digest function (SHA-1 hex of the UTF-8 bytes); `vrank0` the rank of version 0.0 among versions in play. -/
def headContent (cfg : Cfg) (H : Str → Str) (vrank0 : Nat) (args : Nodes) : Except Err Node :=
  match renderListChecked cfg args 0 ['\n'] true true with
  | .error e => .error e
  | .ok s =>
    .ok (.dep { name := headcontentPrefix ++ H s, version := ['0', '.', '0'], vrank := vrank0, source := .none,
                script := [], stylesheet := [], metas := [], allFiles := false } true args)

end HtmlVerif
