/-
Escape-table lemmas for C01 (the only bridge from escaping to tokenizing):
  htmlEscapeT_eq_flatMap : sequential replacement = per-character map   (under `seqOk`)
  esc_inert              : the stop character never occurs in escaped output
  esc_decodes            : decodeRefs (escaped ++ r) = original ++ decodeRefs r
-/
import HtmlVerif.Spec.HtmlTbl
import HtmlVerif.Lemmas.HtmlChars

namespace HtmlVerif

theorem escCharT_nokey (tbl : List (Char × Str)) (c : Char) (h : tblHasKey tbl c = false) :
    escCharT tbl c = [c] := by
  unfold escCharT
  have : tbl.find? (fun kv => kv.1 == c) = none := by
    simp only [tblHasKey, List.any_eq_false] at h
    simpa using h
  simp [this]

theorem escCharT_cons_ne (k : Char) (v : Str) (t : List (Char × Str)) (c : Char) (h : c ≠ k) :
    escCharT ((k, v) :: t) c = escCharT t c := by
  have : (k == c) = false := by simp; exact fun e => h e.symm
  simp [escCharT, List.find?, this]

theorem escCharT_cons_eq (k : Char) (v : Str) (t : List (Char × Str)) :
    escCharT ((k, v) :: t) k = v := by
  simp [escCharT, List.find?]

theorem flatMap_escCharT_nokeys (tbl : List (Char × Str)) (v : Str)
    (h : ∀ c ∈ v, tblHasKey tbl c = false) : v.flatMap (escCharT tbl) = v := by
  induction v with
  | nil => rfl
  | cons x xs ih =>
    simp [List.flatMap_cons, escCharT_nokey tbl x (h x (by simp)), ih (fun c hc => h c (by simp [hc]))]

theorem seqReplace_eq_flatMap (tbl : List (Char × Str)) (h : seqOk tbl = true) (s : Str) :
    seqReplace tbl s = s.flatMap (escCharT tbl) := by
  induction tbl generalizing s with
  | nil =>
    have : escCharT [] = fun c => [c] := by funext c; simp [escCharT]
    simp [seqReplace, this]
  | cons kv t ih =>
    obtain ⟨k, v⟩ := kv
    simp only [seqOk, Bool.and_eq_true, List.all_eq_true] at h
    obtain ⟨hv, ht⟩ := h
    have hv' : ∀ c ∈ v, tblHasKey t c = false := by
      intro c hc; simpa using hv c hc
    simp only [seqReplace, ih ht, replaceChar, List.flatMap_assoc]
    congr 1
    funext c
    by_cases hc : c = k
    · subst hc; simp [escCharT_cons_eq, flatMap_escCharT_nokeys t v hv']
    · simp [hc, escCharT_cons_ne k v t c hc]

/-- sequential replacement equals the per-character map (also through the `re.search` fast path) -/
theorem htmlEscapeT_eq_flatMap (tbl : List (Char × Str)) (h : seqOk tbl = true) (s : Str) :
    htmlEscapeT tbl s = s.flatMap (escCharT tbl) := by
  unfold htmlEscapeT
  by_cases hn : needsEscape tbl s = true
  · simp [hn, seqReplace_eq_flatMap tbl h]
  · simp only [hn]
    have : ∀ c ∈ s, tblHasKey tbl c = false := by
      simp only [needsEscape, Bool.not_eq_true, List.any_eq_false] at hn
      intro c hc
      simp only [tblHasKey, List.any_eq_false]
      intro kv hkv
      simpa using hn c hc kv hkv
    simp [flatMap_escCharT_nokeys tbl s this]

/-! ### what `tblOk` gives -/

theorem tblOk_seq {stop : Char} {tbl : List (Char × Str)} (h : tblOk stop tbl = true) : seqOk tbl = true := by
  simp only [tblOk, Bool.and_eq_true] at h; exact h.1.1.1.1

theorem find_key_mem (tbl : List (Char × Str)) (c : Char) :
    (∃ kv, kv ∈ tbl ∧ kv.1 = c ∧ escCharT tbl c = kv.2) ∨ (tblHasKey tbl c = false ∧ escCharT tbl c = [c]) := by
  cases hf : tbl.find? (fun kv => kv.1 == c) with
  | some kv =>
    left
    refine ⟨kv, List.mem_of_find?_eq_some hf, ?_, ?_⟩
    · have := List.find?_some hf; simpa using this
    · simp [escCharT, hf]
  | none =>
    right
    have hk : tblHasKey tbl c = false := by
      simp only [tblHasKey, List.any_eq_false]
      simpa using hf
    exact ⟨hk, escCharT_nokey tbl c hk⟩

/-- the stop character never occurs in escaped output -/
theorem esc_inert {stop : Char} {tbl : List (Char × Str)} (h : tblOk stop tbl = true) (s : Str) :
    stop ∉ s.flatMap (escCharT tbl) := by
  simp only [tblOk, Bool.and_eq_true, List.all_eq_true] at h
  obtain ⟨⟨⟨_, _⟩, hstop⟩, hno⟩ := h
  simp only [List.mem_flatMap, not_exists, not_and]
  intro c _ hmem
  rcases find_key_mem tbl c with ⟨kv, hkv, _, he⟩ | ⟨hk, he⟩
  · rw [he] at hmem
    have := hno kv hkv
    simp at this
    exact this hmem
  · rw [he] at hmem
    simp at hmem
    subst hmem
    simp [hstop] at hk

theorem decodeGo_skip (a r : Str) : decodeGo a.length (a ++ r) = decodeGo 0 r := by
  induction a with
  | nil => rfl
  | cons x xs ih => simpa [decodeGo] using ih

theorem refAt_body (body r : Str) (hb : body.all isRefChar = true) :
    refAt (body ++ ';' :: r) = (refBody body).map (fun ch => (ch, body.length + 1)) := by
  have hs := spanP_append_cons isRefChar body ';' r (by simpa using hb) (by decide)
  simp [refAt, hs]

theorem decode_ref (k : Char) (v : Str) (h : refOk (k, v) = true) (r : Str) :
    decodeGo 0 (v ++ r) = k :: decodeGo 0 r := by
  simp only [refOk, Bool.and_eq_true, beq_iff_eq] at h
  obtain ⟨⟨hv, hb⟩, hr⟩ := h
  generalize v.tail.dropLast = body at hv hb hr
  subst hv
  have h1 := refAt_body body r hb
  rw [hr] at h1
  have h2 := decodeGo_skip (body ++ [';']) r
  simp only [List.length_append, List.length_cons, List.length_nil, List.append_assoc,
    List.cons_append, List.nil_append] at h2
  simp [decodeGo, h1, h2]

theorem decode_escChar {stop : Char} {tbl : List (Char × Str)} (h : tblOk stop tbl = true) (c : Char) (r : Str) :
    decodeGo 0 (escCharT tbl c ++ r) = c :: decodeGo 0 r := by
  simp only [tblOk, Bool.and_eq_true, List.all_eq_true] at h
  obtain ⟨⟨⟨⟨_, href⟩, hamp⟩, _⟩, _⟩ := h
  rcases find_key_mem tbl c with ⟨kv, hkv, hk, he⟩ | ⟨hk, he⟩
  · rw [he]
    obtain ⟨k, v⟩ := kv
    simp only at hk; subst hk
    exact decode_ref k v (href _ hkv) r
  · rw [he]
    have hne : c ≠ '&' := by
      intro e; subst e; simp [hamp] at hk
    simp [decodeGo, hne]

/-- escaped text decodes back to the original, whatever follows -/
theorem esc_decodes {stop : Char} {tbl : List (Char × Str)} (h : tblOk stop tbl = true) (s r : Str) :
    decodeRefs (s.flatMap (escCharT tbl) ++ r) = s ++ decodeRefs r := by
  unfold decodeRefs
  induction s with
  | nil => rfl
  | cons x xs ih =>
    simp only [List.flatMap_cons, List.append_assoc, List.cons_append]
    rw [decode_escChar h, ih]

/-- layout whitespace decodes to itself, whatever follows -/
theorem ws_decodes (w r : Str) (hw : wsOnly w = true) : decodeRefs (w ++ r) = w ++ decodeRefs r := by
  unfold decodeRefs
  induction w with
  | nil => rfl
  | cons x xs ih =>
    simp only [wsOnly, List.all_cons, Bool.and_eq_true] at hw
    have hx : x ≠ '&' := by
      intro e; subst e; have := hw.1; revert this; decide
    simp only [List.cons_append, decodeGo, hx, if_false]
    rw [ih (by simpa [wsOnly] using hw.2)]

end HtmlVerif
