/-
`holds C05 <op> <args…> | <impl answer>` — the executable statement of C05, evaluated on the
implementation's output for the same input the op line describes.
-/
import HtmlVerif.Ops.Base
import HtmlVerif.Holds.C05

namespace HtmlVerif.Ops
open HtmlVerif HtmlVerif.Wire HtmlVerif.Holds

def holdsC05 : OpTable
  | "render_tag" => some do
    let n ← node; let i ← nat; let e ← str
    match (← implStr) with
    | some out => pure (encBool (holdsC05Tag cfg n i e out))
    | none => pure (encBool n.hasTobj)
  | "render_list" => some do
    let ks ← nodes; let _i ← nat; let _e ← str; let aw ← bool; let esc ← bool
    match (← implStr) with
    | some out => pure (encBool (holdsC05List cfg ks aw esc out))
    | none => pure (encBool ks.hasTobjKids)
  | _ => none

end HtmlVerif.Ops
