/-
Source tie for the neutralisation step of `HTMLDependency.serialize_to_script_json` (obligation of C13):

    json.dumps(res, indent=indent).replace("</", "<\\/")

The function as a whole is outside the translatable fragment (`json.dumps`, the `Tag(...)` constructor), so it is not
regenerated.  What is tied here is the step itself: the two operands are taken from the source text on every run
(Generated/Consts.lean `neutraliseFrom` / `neutraliseTo`, extracted by harness/translate.py), `str.replace` is the stated
semantics of Py/PrimC08.lean (`pyReplaceAll`: leftmost, non-overlapping; checked against the interpreter by the
`srcc08 replace` lines of every run), and the theorem says that this replacement with these operands computes the model's
one-pass `neutralise` (Model/Json.lean) for every text.  A change of either operand in the source breaks
`src_neutralise_now`; if the extractor no longer finds the call the statement is vacuous (and Props/ConstsJson.lean
reports the missing literal).
-/
import HtmlVerif.Lemmas.SrcC08
import HtmlVerif.Generated.Consts

namespace HtmlVerif.SrcTie
open HtmlVerif HtmlVerif.Py

/-- Python's `text.replace("</", "<\\/")` = `neutralise text`, for every text -/
theorem src_neutralise (s : Str) :
    pyReplaceAll (.str s) (.str ['<', '/']) (.str ['<', '\\', '/']) = .ok (.str (neutralise s)) := by
  simp only [pyReplaceAll, List.isEmpty_cons, Bool.false_eq_true, if_false, pure_eq_ok, neutralise]
  rw [replaceGo_neut_len s.length s (Nat.le_refl _)]

/-- … with the operands as they are in the source right now -/
theorem src_neutralise_now :
    match Generated.neutraliseFrom, Generated.neutraliseTo with
    | some f, some t => ∀ s : Str, pyReplaceAll (.str s) (.str f) (.str t) = .ok (.str (neutralise s))
    | _, _ => True := by
  first
  | (simp only [Generated.neutraliseFrom, Generated.neutraliseTo]
     exact src_neutralise)
  | (simp only [Generated.neutraliseFrom, Generated.neutraliseTo])

end HtmlVerif.SrcTie
