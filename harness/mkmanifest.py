#!/usr/bin/env python3
"""Writes /verif/MANIFEST.json from the table below (single source of truth)."""
import json
import os

VERIF = os.path.dirname(os.path.dirname(os.path.abspath(__file__)))
ALL = [f"C{n:02d}" for n in range(1, 21)]

BASE_NOTE = ("Trusted: Lean 4.33 kernel; axioms limited to propext/Classical.choice/Quot.sound (audited on every run with "
             "#print axioms; no sorry/native_decide/bv_decide/axiom); the ast translator for tables; the differential "
             "correspondence harness (model vs /repo on generated inputs) which ties the hand-written model to the code; "
             "the Lean compiler for the driver. ")

HOLD = {}
SRC_PROPS: list = []
SRC_THEOREMS = ("one tie theorem per translated function, e.g. src_html_escape, src_update (TagAttrDict.update), src_render_tag / "
                "src_render_list (Tag/TagList.get_html_string, all trees, by induction on nesting depth); harness/mksrctable.py "
                "prints the full table function -> theorems")


def load_claims():
    """each harness/props/cnn.py may define MANIFEST = dict(text=, design=, note=, technique=[, category=])"""
    import importlib
    import sys
    sys.path.insert(0, os.path.join(VERIF, "harness"))
    claims = {}
    for pid in ALL:
        path = os.path.join(VERIF, "harness", "props", pid.lower() + ".py")
        if not os.path.exists(path):
            continue
        src = open(path).read()
        if "MANIFEST" not in src:
            continue
        mod = importlib.import_module("props." + pid.lower())
        if getattr(mod, "CLAIM", True) is not True:
            HOLD[pid] = str(getattr(mod, "CLAIM"))
            continue
        m = dict(mod.MANIFEST)
        m["note"] = BASE_NOTE + m.get("note", "")
        src = sorted(os.path.basename(f)[:-5] for f in getattr(mod, "PROP_FILES", []) if os.path.basename(f).startswith("Src"))
        if src:
            # properties with a source tie (DESIGN §14): say so in the claim
            m["text"] += (" SOURCE TIE: the functions this property's model mirrors are, in addition, regenerated from the source text "
                          "of /repo on every run by harness/pytranslate.py (statement by statement, into Lean functions over a universe "
                          "of Python values) and proved equal to the model for all inputs (Props/" + ", ".join(src) + ".lean: "
                          + SRC_THEOREMS + "); the regenerated functions are also run against the real ones on generated values "
                          "(`src` op). A function that leaves the translatable fragment makes its tie theorems vacuous (recorded in the "
                          "evidence under translator_notes); the correspondence check then ties it alone.")
            m["technique"] += " + source-text translation of the mirrored functions with Lean tie theorems (model = translated source, all inputs)"
            m["note"] += (" Additionally trusted for the source tie: harness/pytranslate.py (Python source text -> Lean do-notation) and "
                          "lean/HtmlVerif/Py/{Val,Prim}.lean (stated semantics of the Python fragment: isinstance, str methods, dict/list "
                          "operations, the binary-operator protocol for HTML), validated against the running interpreter on every run.")
            SRC_PROPS.append(pid)
        claims[pid] = m
    return claims


NOT_YET = "not claimed yet: model/theorems for this property are still being built in this round (see DESIGN.md §11 build order)"


def main():
    CLAIMS = load_claims()
    checks = []
    for pid in ALL:
        if pid not in CLAIMS:
            continue
        c = CLAIMS[pid]
        checks.append({
            "property_id": pid,
            "quick_cmd": f"./check {pid} --tier quick",
            "thorough_cmd": f"./check {pid} --tier thorough",
            "evidence_file": f"evidence/{pid}.json",
            "replay_cmd_template": "./check replay {path}",
            "engine": "lean-model+correspondence",
            "level_claimed": {"category": c.get("category", "proof"), "text": c["text"], "design_ref": c["design"]},
            "level_note": c["note"],
            "technique": c["technique"],
        })
    man = {
        "version": 1,
        "setup_cmd": "./check setup",
        "hooks": {
            "guard": "POSIT_DEV_PY_HTMLTOOLS_VERIF",
            "enable": "no source hooks are needed: all observations go through the public API; checks import htmltools from /repo's working tree",
            "baseline_off_cmd": "cd /repo && /venv/bin/python -m pytest -ra -q -p no:cacheprovider --timeout=900 --continue-on-collection-errors",
            "source_commits": [],
            "add_only": True,
        },
        "engines": [
            {"name": "lean-model", "path": "lean/", "serves_properties": sorted(CLAIMS), "kind_free_text": "Lean 4 model + theorems (lake project HtmlVerif), compiled line-protocol driver htdriver"},
            {"name": "translator", "path": "harness/translate.py", "serves_properties": sorted(CLAIMS), "kind_free_text": "ast-based regeneration of tables (void names, escape tables, tag wrappers) on every run"},
            {"name": "source-translator", "path": "harness/pytranslate.py", "serves_properties": sorted(SRC_PROPS),
             "kind_free_text": "statement-by-statement regeneration of selected Python functions as Lean functions (Generated/Src.lean) on every run; tie theorems Props/Src*.lean"},
            {"name": "correspondence", "path": "harness/", "serves_properties": sorted(CLAIMS), "kind_free_text": "differential check model vs implementation over a wire protocol; failing-input search"},
        ],
        "checks": checks,
        "not_applicable": [{"property_id": p, "reason": HOLD.get(p, NOT_YET)} for p in ALL if p not in CLAIMS],
        "notes": "See DESIGN.md. Evidence files are written by ./check on every run.",
    }
    with open(os.path.join(VERIF, "MANIFEST.json"), "w") as f:
        json.dump(man, f, indent=1)
        f.write("\n")


if __name__ == "__main__":
    main()
