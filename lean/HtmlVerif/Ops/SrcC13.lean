/-
Driver op that *runs* the regenerated C13 functions (harness/pytr_c13.py: the extraction of serialised dependencies,
`HTMLTextDocument.__init__` / `render`, `HTMLDependency.serialize_to_script_json`) with what
`packaging.version.Version` answers taken from the line (DESIGN §14, translator validation):

  srcc13 [ (<raw> <T|F> <rank> <str(Version)>)… ] <function> [ <pval>… ]      → ok <pval> | err <kind> | unsupported

The extraction rebuilds every dependency with `HTMLDependency(**json.loads(text))`, whose translated `__init__` parses the
version with `packaging` (`G.mkVersion`, Py/PrimC10b.lean).  The table says, for each version string the harness put into
the line, whether `packaging` accepts it and, if so, the rank the harness gives the resulting Version and its `str()`.  A
string that is parsed but is not in the table yields a marked object and the answer is `unsupported` — no verdict, never
a guess.  The pval syntax is that of `Ops/Src.lean`.
-/
import HtmlVerif.Ops.Base
import HtmlVerif.Generated.Src

namespace HtmlVerif.Ops
open HtmlVerif HtmlVerif.Wire HtmlVerif.Py

private def c13Unknown : PVal := .obj "VersionNotInTable" []

private def c13G (tbl : List (Str × Bool × Nat × Str)) : Globals :=
  { HTML_ESCAPE_TABLE := embTbl cfg.textTbl, HTML_ATTRS_ESCAPE_TABLE := embTbl cfg.attrTbl,
    VOID_TAG_NAMES := cfg.void, NO_ESCAPE_TAG_NAMES := cfg.noesc, isSpace := fun _ => false, lower := id,
    mkVersion := fun s => match tbl.find? (fun e => e.1 == s) with
      | some (_, true, r, t) => some (versionObjC10b r t)
      | some (_, false, _, _) => none
      | none => some c13Unknown }

private partial def c13PVal : P PVal := do
  let t ← next
  match t with
  | "N" => pure .none
  | "T" => pure (.bool true)
  | "F" => pure (.bool false)
  | "I" => do
    let s ← next
    match s.toInt? with
    | some n => pure (.int n)
    | none => throw s!"bad int {s}"
  | "D" => .float <$> str
  | "S" => .str <$> str
  | "H" => .html <$> str
  | "L" => .list <$> listOf c13PVal
  | "U" => .tuple <$> listOf c13PVal
  | "M" => .dict <$> listOf (do let k ← str; let v ← c13PVal; pure (k, v))
  | "O" => do
    let c ← next
    let fs ← listOf (do let k ← next; let v ← c13PVal; pure (k, v))
    pure (.obj c fs)
  | _ => throw s!"bad pval {t}"

private partial def c13Enc : PVal → String
  | .none => "N"
  | .bool true => "T"
  | .bool false => "F"
  | .int n => s!"I {n}"
  | .float t => "D " ++ encStr t
  | .str s => "S " ++ encStr s
  | .html s => "H " ++ encStr s
  | .list xs => "L " ++ encList (xs.map c13Enc)
  | .tuple xs => "U " ++ encList (xs.map c13Enc)
  | .dict kvs => "M " ++ encList (kvs.map fun kv => encStr kv.1 ++ " " ++ c13Enc kv.2)
  | .obj c fs => "O " ++ c ++ " " ++ encList (fs.map fun kv => kv.1 ++ " " ++ c13Enc kv.2)

/-- the value holds a Version the table says nothing about -/
private partial def c13Tainted : PVal → Bool
  | .list xs => xs.any c13Tainted
  | .tuple xs => xs.any c13Tainted
  | .dict kvs => kvs.any fun kv => c13Tainted kv.2
  | .obj c fs => c == "VersionNotInTable" || fs.any fun kv => c13Tainted kv.2
  | _ => false

private def c13Err : PyErr → String
  | .typeError => "err TypeError"
  | .valueError => "err ValueError"
  | .keyError => "err KeyError"
  | .indexError => "err IndexError"
  | .attributeError => "err AttributeError"
  | .runtimeError => "err RuntimeError"
  | .notImplemented => "err NotImplementedError"
  | .exception => "err Exception"
  | .fuel => "unsupported fuel"
  | .unsupported => "unsupported"

/-- the primitives of Py/PrimC13.lean by themselves (`srcc13 [ ] prim_… [ args ]`): compared with the interpreter's own
    operation on every value kind (harness/srctie_c13.py `prim_lines`) -/
private def c13Prim (f : String) (a : List PVal) : Option (PyM PVal) :=
  match f, a with
  | "prim_replace_first", [s, o, n] => some (pyReplaceFirstC13 s o n)
  | "prim_findall", [s] => some (reFindallC13 (.str extractPatternC13) s)
  | "prim_sub", [s] => some (reSubC13 (.str extractPatternC13) (.str []) s)
  | "prim_json_loads", [x] => some (pyJsonLoadsC13 x)
  | "prim_json_dumps", [x, i] => some (pyJsonDumpsC13 x i)
  | "prim_str", [x] => some (pyStrC13 x)
  | "prim_mk_tag", [n, c, k] => some (pyMkTagC13 n c k)
  | "prim_call_kw", [k] => some (pyCallKwC13 (fun l => pure (.list l)) [['a'], ['b']] [(['c'], .none), (['d'], .bool false)] k)
  | _, _ => none

def srcC13Ops : OpTable
  | "srcc13" => some do
    let tbl ← listOf (do
      let raw ← str
      let ok ← bool
      let r ← nat
      let t ← str
      pure (raw, ok, r, t))
    let f ← next
    let a ← listOf c13PVal
    match (match c13Prim f a with | some r => some r | none => Generated.Src.runByName (c13G tbl) f a) with
    | none => pure "unsupported"      -- not translated (left the fragment) or unknown: no verdict
    | some r =>
      match r with
      | .ok v => pure (if c13Tainted v then "unsupported version" else "ok " ++ c13Enc v)
      | .error e => pure (c13Err e)
  | _ => none

end HtmlVerif.Ops
