/-
C09 — Tagifiable objects render as their expansion, spliced in place.

Model: `Model/Tagify.lean`.  (a) `Node.expand` / `Nodes.expandAll` is the forward specification
(a returned TagList is spliced into the sibling list in order, possibly empty; any other result takes
the object's place; tags recurse; metadata is kept).  (b) `tagifyLoop` is `TagList.tagify` as written:
a working copy, the index counting down, slice assignment `cp[i:i+1] = …` or item assignment.

`HTMLDocument.render()` (third observation point of the property) builds its tree from
`content.tagify()` and is the subject of C11; its corollary for tagifiable content is stated there
over `expandAll` (see the report).  Everything here is about `TagList.tagify/render` and
`Tag.tagify/render`.
-/
import HtmlVerif.Lemmas.Tagify

namespace HtmlVerif.C09
open HtmlVerif HtmlVerif.Tagify

/-! ### the algorithm computes the specification -/

/-- **Loop invariant of `TagList.tagify`**, for *any* behaviour `r` of the children's `tagify()`
    (compliant with the protocol or not).  With `orig` the copied list: once the iterations with
    indices `≥ i` are done the working copy is `take i orig ++ (expansion of drop i orig)`; i.e. running
    the whole loop from `orig` is the same as running the remaining `i` iterations from that state.
    The elements at indices `< i` are still the original ones although the list has changed length. -/
theorem C09_loop_invariant (r : Node → TagifyResult) (orig : List Node) (i : Nat) (hi : i ≤ orig.length) :
    tagifyLoop r orig orig.length
      = tagifyLoop r (orig.take i ++ (orig.drop i).flatMap (stepSpec r)) i := by
  rw [tagifyLoop_all]
  rw [tagifyLoop_spec r i (orig.take i) _ (by simp [List.length_take, Nat.min_eq_left hi])]
  rw [← List.flatMap_append, List.take_append_drop]

/-- backwards iteration with slice assignment = one forward pass: whatever the children return,
    the result is the left-to-right concatenation of what each child contributes -/
theorem C09_loop_is_forward (r : Node → TagifyResult) (orig : List Node) :
    tagifyLoop r orig orig.length = orig.flatMap (stepSpec r) :=
  tagifyLoop_all r orig

/-- with enough fuel for the nested `tagify()` calls, what a child contributes is its expansion -/
theorem C09_child_is_spec : ∀ (f : Nat) (n : Node), n.tdepth ≤ f →
    stepSpec (tagifyFuel f) n = n.expand.toList := by
  intro f
  induction f with
  | zero =>
    intro n h
    cases n <;> simp [Node.tdepth] at h <;> simp [stepSpec, Node.isTagifiable, Node.expand]
  | succ f ih =>
    intro n h
    have hkids : ∀ ks : Nodes, ks.tdepthKids ≤ f →
        tagifyLoop (tagifyFuel f) ks.toList ks.length = ks.expandAll.toList := by
      intro ks hk
      rw [Nodes.length_eq, tagifyLoop_all, Nodes.toList_expandAll]
      exact flatMap_congr_mem (fun c hc => ih c (Nat.le_trans (Nodes.tdepth_le_of_mem hc) hk))
    cases n with
    | tag nm w a kids =>
      simp only [Node.tdepth, Nat.add_le_add_iff_right] at h
      simp [stepSpec, Node.isTagifiable, tagifyFuel, hkids kids h, Node.expand, TagifyResult.splice]
    | tobjL rh c =>
      simp only [Node.tdepth, Nat.add_le_add_iff_right] at h
      simp [stepSpec, Node.isTagifiable, tagifyFuel, hkids c h, Node.expand, TagifyResult.splice]
    | tobj1 rh c =>
      simp only [Node.tdepth, Nat.add_le_add_iff_right] at h
      have hc := ih c h
      by_cases ht : c.isTagifiable
      · simpa [stepSpec, tagifyFuel, Node.expand, ht] using hc
      · have hx : (Node.tobj1 rh c).expand = .cons c .nil := by
          clear ih hc hkids
          cases c <;> simp_all [Node.expand]
        simp [stepSpec, tagifyFuel, ht, TagifyResult.splice, hx]
    | _ => simp [stepSpec, Node.isTagifiable, Node.expand]

/-- the loop over a child list, with any sufficient fuel, yields the forward specification -/
theorem C09_tagify_fuel (ks : Nodes) (f : Nat) (hf : ks.tdepthKids ≤ f) :
    Nodes.ofList (tagifyLoop (tagifyFuel f) ks.toList ks.length) = ks.expandAll := by
  apply Nodes.toList_inj
  rw [Nodes.toList_ofList, Nodes.length_eq, tagifyLoop_all, Nodes.toList_expandAll]
  exact flatMap_congr_mem (fun c hc => C09_child_is_spec f c (Nat.le_trans (Nodes.tdepth_le_of_mem hc) hf))

/-- **`TagList.tagify` ≡ forward splice.** -/
theorem C09_tagify_is_spec (ks : Nodes) : tagifyNodes ks = ks.expandAll :=
  C09_tagify_fuel ks _ (Nat.le_refl _)

/-- `Tag.tagify`: same tag, children replaced by their expansion -/
theorem C09_tagify_tag (n : Str) (w : Bool) (a : Attrs) (kids : Nodes) :
    tagifyTag (.tag n w a kids) = .tag n w a kids.expandAll := by
  simp [tagifyTag, C09_tagify_is_spec]

/-! ### "spliced in place", spelled out on the specification -/

/-- a list-kind object anywhere in a sibling list is replaced by its expanded content, in order,
    between the expansions of what precedes and what follows it (content may be empty) -/
theorem C09_splice_in_place (pre post c : Nodes) (rh : Option Str) :
    (pre ++ Nodes.cons (.tobjL rh c) post).expandAll = pre.expandAll ++ (c.expandAll ++ post.expandAll) := by
  simp [Nodes.expandAll_append, Nodes.expandAll, Node.expand]

/-- an object whose result is a single node (here: a tag) has that node, expanded, in its place -/
theorem C09_single_in_place (pre post : Nodes) (rh : Option Str) (n : Str) (w : Bool) (a : Attrs) (k : Nodes) :
    (pre ++ Nodes.cons (.tobj1 rh (.tag n w a k)) post).expandAll
      = pre.expandAll ++ Nodes.cons (.tag n w a k.expandAll) post.expandAll := by
  simp [Nodes.expandAll_append, Nodes.expandAll, Node.expand]

/-- … a str / HTML / dependency result likewise -/
theorem C09_leaf_in_place (pre post : Nodes) (rh : Option Str) (x : Node) (hx : x.isTagifiable = false) :
    (pre ++ Nodes.cons (.tobj1 rh x) post).expandAll = pre.expandAll ++ Nodes.cons x post.expandAll := by
  cases x <;> simp_all [Nodes.expandAll_append, Nodes.expandAll, Node.expand, Node.isTagifiable]

/-! ### nothing un-expanded is left -/

mutual
  theorem C09_expand_tagified (n : Node) : n.expand.tagifiedKids = true := by
    cases n with
    | tag nm w a kids =>
      have := C09_expandAll_tagified kids
      simp [Node.expand, Nodes.tagifiedKids, Node.tagified, this]
    | tobjL rh c => simpa [Node.expand] using C09_expandAll_tagified c
    | tobj1 rh c => simpa [Node.expand] using C09_expand_tagified c
    | _ => simp [Node.expand, Nodes.tagifiedKids, Node.tagified]
  /-- the expansion is fully tagified: no tagifiable object remains below any tag -/
  theorem C09_expandAll_tagified (ks : Nodes) : ks.expandAll.tagifiedKids = true := by
    cases ks with
    | nil => simp [Nodes.expandAll, Nodes.tagifiedKids]
    | cons h t =>
      have h1 := C09_expand_tagified h
      have h2 := C09_expandAll_tagified t
      simp [Nodes.expandAll, Nodes.tagifiedKids_append, h1, h2]
end

mutual
  theorem C09_tagified_no_tobj_tag (n : Node) (h : n.tagified = true) : n.hasTobj = false := by
    cases n with
    | tag nm w a kids =>
      have hk := C09_tagified_no_tobj kids (by simpa [Node.tagified] using h)
      simp only [Node.hasTobj]
      split
      · rfl
      · split
        · rfl
        · exact hk
    | _ => simp [Node.hasTobj]
  /-- a fully tagified tree has no object the renderer would stumble over -/
  theorem C09_tagified_no_tobj (ks : Nodes) (h : ks.tagifiedKids = true) : ks.hasTobjKids = false := by
    cases ks with
    | nil => simp [Nodes.hasTobjKids]
    | cons a t =>
      simp only [Nodes.tagifiedKids, Bool.and_eq_true] at h
      have ht := C09_tagified_no_tobj t h.2
      have ha := C09_tagified_no_tobj_tag a h.1
      cases a <;> simp_all [Nodes.hasTobjKids, Node.tagified]
end

/-- **after expansion the renderer reaches no un-expanded object.**  The protocol guard ("each
    object's `tagify()` returns a fully tagified value") is satisfied by construction by the objects of
    the tree type — `tobjL` / `tobj1` call `tagify()` on their content, as `adapters.TObjL/TObj1` and
    the suite's `Foo` do; `C09_no_tobj_protocol` below is the statement with the guard explicit. -/
theorem C09_no_tobj (ks : Nodes) : ks.expandAll.hasTobjKids = false :=
  C09_tagified_no_tobj _ (C09_expandAll_tagified ks)

/-- the same for the literal loop and *arbitrary* child behaviour `r`, under the explicit guard that
    every child's `tagify()` returns fully tagified values: the result is fully tagified -/
theorem C09_no_tobj_protocol (r : Node → TagifyResult) (cp : List Node)
    (guard : ∀ c ∈ cp, c.isTagifiable = true → (r c).splice.all Node.tagified = true) :
    (tagifyLoop r cp cp.length).all Node.tagified = true := by
  rw [tagifyLoop_all]
  simp only [List.all_flatMap, List.all_eq_true]
  intro c hc
  by_cases ht : c.isTagifiable
  · simpa [stepSpec, ht] using guard c hc ht
  · cases c <;> simp_all [stepSpec, Node.isTagifiable, Node.tagified]

/-- the guard is met by the objects of the tree type (with enough fuel for the nested calls) -/
theorem C09_protocol_guard_met (f : Nat) (c : Node) (h : c.tdepth ≤ f) (ht : c.isTagifiable = true) :
    (tagifyFuel f c).splice.all Node.tagified = true := by
  have hs := C09_child_is_spec f c h
  simp only [stepSpec, ht, if_true] at hs
  rw [hs, ← Nodes.tagifiedKids_iff_all]
  exact C09_expand_tagified c

/-- negative twin of the guard: an object that breaks the protocol (its `tagify()` returns a list
    that still holds an object) leaves that object in the result — the guard is needed -/
theorem C09_protocol_guard_needed :
    (tagifyLoop (fun _ => .taglist [.tobjL none .nil]) [.tobjL none .nil] 1).all Node.tagified = false := by
  decide

/-! ### tagify is idempotent; a tagified tree is a fixed point -/

mutual
  theorem C09_tagified_fixed_node (n : Node) (h : n.tagified = true) : n.expand = .cons n .nil := by
    cases n with
    | tag nm w a kids =>
      have := C09_tagified_fixed kids (by simpa [Node.tagified] using h)
      simp [Node.expand, this]
    | tobjL rh c => simp [Node.tagified] at h
    | tobj1 rh c => simp [Node.tagified] at h
    | _ => simp [Node.expand]
  /-- expanding a tree without objects changes nothing -/
  theorem C09_tagified_fixed (ks : Nodes) (h : ks.tagifiedKids = true) : ks.expandAll = ks := by
    cases ks with
    | nil => simp [Nodes.expandAll]
    | cons a t =>
      simp only [Nodes.tagifiedKids, Bool.and_eq_true] at h
      simp [Nodes.expandAll, C09_tagified_fixed_node a h.1, C09_tagified_fixed t h.2]
end

theorem C09_idempotent (ks : Nodes) : ks.expandAll.expandAll = ks.expandAll :=
  C09_tagified_fixed _ (C09_expandAll_tagified ks)

theorem C09_idempotent_node (n : Node) : n.expand.expandAll = n.expand :=
  C09_tagified_fixed _ (C09_expand_tagified n)

/-- … and so is the algorithm -/
theorem C09_tagify_idempotent (ks : Nodes) : tagifyNodes (tagifyNodes ks) = tagifyNodes ks := by
  simp [C09_tagify_is_spec, C09_idempotent]

/-! ### render() -/

/-- **`TagList.render()`**: never raises; the markup is that of the expanded tree (default indent,
    eol, add_ws); the reported dependencies are those of the expanded tree, in document order, resolved -/
theorem C09_render (cfg : Cfg) (ks : Nodes) :
    (renderOfList cfg ks).html = .ok (renderList cfg ks.expandAll 0 ['\n'] true true) ∧
    (renderOfList cfg ks).deps = resolveDeps (collectDepsKids ks.expandAll) := by
  simp [renderOfList, C09_tagify_is_spec, renderListChecked, C09_no_tobj]

/-- **`Tag.render()`** -/
theorem C09_render_tag (cfg : Cfg) (n : Str) (w : Bool) (a : Attrs) (kids : Nodes) :
    (renderOfTag cfg (.tag n w a kids)).html = .ok ((Node.tag n w a kids.expandAll).render cfg 0 ['\n']) ∧
    (renderOfTag cfg (.tag n w a kids)).deps = resolveDeps (collectDepsKids kids.expandAll) := by
  have h : (Node.tag n w a kids.expandAll).hasTobj = false :=
    C09_tagified_no_tobj_tag _ (by simpa [Node.tagified] using C09_expandAll_tagified kids)
  simp [renderOfTag, C09_tagify_tag, renderTagChecked, h, collectDeps]

/-- dependency collection distributes over sibling lists … -/
theorem C09_deps_append (a b : Nodes) :
    collectDepsKids (a ++ b) = collectDepsKids a ++ collectDepsKids b := by
  induction a using Nodes.rec (motive_1 := fun _ => True) with
  | cons h t _ ih => simp [collectDepsKids, ih]
  | nil => simp [collectDepsKids]
  | _ => trivial

/-- … so the dependencies carried by an expansion are reported at the object's position -/
theorem C09_deps_of_expansion (pre post c : Nodes) (rh : Option Str) :
    collectDepsKids (pre ++ Nodes.cons (.tobjL rh c) post).expandAll
      = collectDepsKids pre.expandAll ++ (collectDepsKids c.expandAll ++ collectDepsKids post.expandAll) := by
  rw [C09_splice_in_place, C09_deps_append, C09_deps_append]

/-! ### asking for markup without tagify -/

/-- `TagList.get_html_string` raises RuntimeError exactly when the child loop reaches an object that
    has `tagify` but no `_repr_html_` (it emits nothing in that case) -/
theorem C09_error (cfg : Cfg) (ks : Nodes) (i : Nat) (e : Str) (aw esc : Bool) :
    renderListChecked cfg ks i e aw esc = .error .runtimeError ↔ ks.hasTobjKids = true := by
  unfold renderListChecked
  by_cases h : ks.hasTobjKids <;> simp [h]

theorem C09_error_tag (cfg : Cfg) (n : Node) (i : Nat) (e : Str) :
    renderTagChecked cfg n i e = .error .runtimeError ↔ n.hasTobj = true := by
  unfold renderTagChecked
  by_cases h : n.hasTobj <;> simp [h]

/-- otherwise it is the rendering (a self-rendering object contributes its `_repr_html_()`) -/
theorem C09_no_error (cfg : Cfg) (ks : Nodes) (i : Nat) (e : Str) (aw esc : Bool) (h : ks.hasTobjKids = false) :
    renderListChecked cfg ks i e aw esc = .ok (renderList cfg ks i e aw esc) := by
  simp [renderListChecked, h]

/-- an un-expanded object directly in the list, or below any tag that does not take an early exit,
    is an error; the same object with `_repr_html_` is not -/
theorem C09_error_at (pre post c : Nodes) :
    (pre ++ Nodes.cons (.tobjL none c) post).hasTobjKids = true := by
  induction pre using Nodes.rec (motive_1 := fun _ => True) with
  | cons h t _ ih => simp [Nodes.hasTobjKids, ih]
  | nil => simp [Nodes.hasTobjKids]
  | _ => trivial

/-! ### non-vacuity -/

/-- adjacent objects, first and last position, empty next to non-empty, object inside an object,
    object under a tag inside an object, a dependency carried by an expansion -/
def exampleTree : Nodes :=
  .cons (.tobjL none .nil) <|
  .cons (.tobjL none (.cons (.text ['a']) (.cons (.tobjL (some ['r']) (.cons (.text ['b']) .nil)) .nil))) <|
  .cons (.text ['c']) <|
  .cons (.tobj1 none (.tag ['d'] true [] (.cons (.tobj1 none (.mnode 3)) (.cons (.tobjL none .nil) .nil)))) <|
  .cons (.tobj1 none (.tobjL none (.cons (.html ['h']) (.cons (.robj ['o']) .nil)))) .nil

example : (tagifyNodes exampleTree).beq
    (.cons (.text ['a']) <| .cons (.text ['b']) <| .cons (.text ['c']) <|
     .cons (.tag ['d'] true [] (.cons (.mnode 3) .nil)) <| .cons (.html ['h']) <| .cons (.robj ['o']) .nil) = true := by
  decide

example : exampleTree.hasTobjKids = true ∧ exampleTree.expandAll.hasTobjKids = false := by decide

end HtmlVerif.C09
