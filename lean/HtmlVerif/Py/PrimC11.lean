/-
Primitives of the Python fragment used by the C11 translations (harness/pytr_c11.py): `HTMLDocument._gen_html_tag_tree`,
`HTMLDocument._hoist_head_content`, `HTMLDocument.render / __init__ / append`, `Tag.render`, `Tag.insert / extend / append`.
Same contract as Py/Prim.lean: what CPython does on that argument shape, the exception kind CPython raises, or
`unsupported` ("the fragment does not cover this", never a claim about Python).  Each was compared with CPython
(/venv/bin/python, see harness/srctie_c11.py and the `srcc11` op: every line of every run).

Two of them stand for library code that is **not translated in this area** and are therefore *assumed* semantics,
validated by the op only:

* `mkTagC11` — `Tag(name, *children, _add_ws=ws, **attrs)` (`Tag.__init__`), restricted to children that are already
  normalised (plain tag nodes, or a TagList of such); the attribute half goes through the *translated*
  `TagAttrDict.update` (the hook emits that call and hands the resulting dict to the primitive).
* `pyAsHtmlTagsC11` — `d.as_html_tags(lib_prefix=…, include_version=…)`: a parameter (`Globals.asHtmlTagsC11`), like
  `packaging`'s `Version` in Py/PrimC10b.lean.
-/
import HtmlVerif.Py.Prim
import HtmlVerif.Py.PrimC10

namespace HtmlVerif.Py
open HtmlVerif

/-- `str(x)`, also for a `packaging` Version (carried with its `str()` text, Py/PrimC10b.lean) -/
def pyStrC11 (x : PVal) : PyM PVal :=
  match x with
  | .obj "Version" fs =>
    match fieldGet? "text" fs with
    | some (.str s) => pure (.str s)
    | _ => throw .unsupported
  | _ => pyStr x

/-- `f(*a)`: the positional arguments an iterable contributes, as a tuple; a non-iterable raises TypeError -/
def pyStarArgsC11 (a : PVal) : PyM PVal := do pure (.tuple (← pyIter a))

/-- `f(*a)` where `f` has one more named positional parameter before its `*args`: the first item binds the parameter
    (none: TypeError, "missing 1 required positional argument"), the others go to `*args` -/
def pyStarSplit1C11 (a : PVal) : PyM (PVal × PVal) := do
  match ← pyIter a with
  | [] => throw .typeError
  | x :: r => pure (x, .tuple r)

/-- `f(…, **e)`: the keyword arguments a mapping contributes to the callee's `**kwargs`.  `reserved` are the callee's named
    parameters that the call already supplies (positionally or by keyword) — a key equal to one of them is
    "got multiple values for argument" (TypeError); `open_` are its named parameters the call does not supply — a key equal
    to one of them would bind that parameter: outside the fragment.  Anything that is not a `dict` with string keys:
    `None`, numbers, strings, lists are not mappings (TypeError); other mappings are outside the fragment. -/
def pyKwSplatC11 (e : PVal) (reserved open_ : List Str) : PyM PVal :=
  match e with
  | .dict kvs =>
    if kvs.any (fun kv => reserved.contains kv.1) then throw .typeError
    else if kvs.any (fun kv => open_.contains kv.1) then throw .unsupported
    else pure (.dict kvs)
  | .obj _ _ => throw .unsupported
  | _ => throw .typeError

/-- the receiver of a method call that the translator resolved *statically* to the translated method of class `cls`
    (`self.children.insert(…)` → `TagList.insert`): an instance of exactly that class goes on; for any other receiver the
    method Python would find (or the AttributeError) is outside the fragment -/
def pyRecvOfClassC11 (v : PVal) (cls : String) : PyM PVal :=
  if pyClassOf v == cls then pure v else throw .unsupported

/-- `dict.__init__(self)` with no argument (the `super().__init__()` of a dict subclass): the dict is left as it is -/
def pyDictInit0C11 (self : PVal) : PyM PVal :=
  match self with
  | .dict kvs => pure (.dict kvs)
  | _ => throw .unsupported

/-- an item that `_tagchilds_to_tagnodes` keeps as it is: not unnested by `flatten` (not a list / tuple / TagList), not
    dropped (not None), not a number, and a tag node (`is_tag_node`) -/
def plainC11 (v : PVal) : Bool :=
  !isInstance v ["list"] && !isInstance v ["tuple"] && !isInstance v ["TagList"] && !isNone v
    && !isInstance v ["int"] && !isInstance v ["float"]
    && (isInstance v ["Tagifiable"] || isInstance v ["MetadataNode"] || isInstance v ["ReprHtml"]
        || isInstance v ["str"] || isInstance v ["HTML"])

/-- what one positional child argument of `Tag(…)` contributes to `.children`, for the argument shapes of this fragment:
    a plain tag node itself, the items of a `TagList` whose items are all plain; everything else (None, numbers, lists,
    tuples, dicts — which `Tag.__init__` would take as attributes —, a TagList holding something else) is outside -/
def kidItemsC11 (v : PVal) : Option (List PVal) :=
  if plainC11 v then some [v]
  else match v with
    | .obj "TagList" fs =>
      match fieldGet? "data" fs with
      | some (.list xs) => if xs.all plainC11 then some xs else Option.none
      | _ => Option.none
    | _ => Option.none

def kidsItemsC11 : List PVal → Option (List PVal)
  | [] => some []
  | v :: r =>
    match kidItemsC11 v, kidsItemsC11 r with
    | some a, some b => some (a ++ b)
    | _, _ => Option.none

/-- `Tag(name, *kids, _add_ws=ws, **kw)` (`Tag.__init__`, not translated in this area) where `attrs` is the TagAttrDict the
    translated `TagAttrDict.update` made of `kw`: `_add_ws` must be a bool (TypeError otherwise); the children are
    normalised as `kidsItemsC11` says (**restricted** to already-normalised children, `unsupported` elsewhere).  The
    instance has the four fields the other translations read, in the order of the embedding of a tag
    (`embNode` / `embT`: name, attrs, children, add_ws); `prev_displayhook` (always None after construction, read only by the
    context-manager protocol) is not recorded. -/
def mkTagC11 (name : PVal) (kids : List PVal) (ws attrs : PVal) : PyM PVal :=
  match ws with
  | .bool _ =>
    match kidsItemsC11 kids with
    | some ks =>
      pure (.obj "Tag" [("name", name), ("attrs", attrs), ("children", .obj "TagList" [("data", .list ks)]), ("add_ws", ws)])
    | Option.none => throw .unsupported
  | _ => throw .typeError

/-- `d.as_html_tags(lib_prefix=lp, include_version=iv)`: `HTMLDependency.as_html_tags` is not translated; for an
    HTMLDependency instance the answer is what `G.asHtmlTagsC11` says (a parameter of the tie, supplied per call by the
    harness); any other receiver is outside the fragment -/
def pyAsHtmlTagsC11 (G : Globals) (d lp iv : PVal) : PyM PVal :=
  match d with
  | .obj "HTMLDependency" _ => G.asHtmlTagsC11 d lp iv
  | _ => throw .unsupported

end HtmlVerif.Py
