/-
Driver op that *runs* the C08b translations over the heap (`Tag.__copy__`, `HTMLDocument.__copy__`, `_copy_tag_nodes`,
`HTMLDependency.__copy__` in state-passing style; Py/PrimC08b.lean) — DESIGN §14, translator validation:

  srcc08b <function> L [ <heap object : pval>… ] [ <argument : pval>… ]
      → ok <graph of the result> ;; L [ <heap object>… ]   |   err <kind>   |   unsupported

The answer is the object graph reachable from the result, depth first in `__dict__` / item order: an object of the
original heap is written as its reference `O <Class> [ __id__ I n ]`; an object created by the call is written in full at its
first visit, `O new [ k I <k> c S <class> v <object> ]` (k = visit order), and `O new [ k I <k> ]` afterwards.  After `;;` comes the
original part of the heap as it is after the call (a reference from it to a new object is `O escaped [ ]`).  The harness
builds real objects with identity from the same line, calls the real function and writes the same thing
(harness/ops_src_c08b.py): what is compared is which objects are new and which are shared.
-/
import HtmlVerif.Ops.Base
import HtmlVerif.Generated.Src

namespace HtmlVerif.Ops
open HtmlVerif HtmlVerif.Wire HtmlVerif.Py

private def c08bG : Globals :=
  { HTML_ESCAPE_TABLE := embTbl cfg.textTbl, HTML_ATTRS_ESCAPE_TABLE := embTbl cfg.attrTbl,
    VOID_TAG_NAMES := cfg.void, NO_ESCAPE_TAG_NAMES := cfg.noesc, isSpace := fun _ => false, lower := id }

private partial def c08bPVal : P PVal := do
  let t ← next
  match t with
  | "N" => pure .none
  | "T" => pure (.bool true)
  | "F" => pure (.bool false)
  | "I" => do
    let s ← next
    match s.toInt? with
    | some n => pure (.int n)
    | none => throw s!"bad int {s}"
  | "D" => .float <$> str
  | "S" => .str <$> str
  | "H" => .html <$> str
  | "L" => .list <$> listOf c08bPVal
  | "U" => .tuple <$> listOf c08bPVal
  | "M" => .dict <$> listOf (do let k ← str; let v ← c08bPVal; pure (k, v))
  | "O" => do
    let c ← next
    let fs ← listOf (do let k ← next; let v ← c08bPVal; pure (k, v))
    pure (.obj c fs)
  | _ => throw s!"bad pval {t}"

private def c08bErr : PyErr → String
  | .typeError => "err TypeError"
  | .valueError => "err ValueError"
  | .keyError => "err KeyError"
  | .indexError => "err IndexError"
  | .attributeError => "err AttributeError"
  | .runtimeError => "err RuntimeError"
  | .notImplemented => "err NotImplementedError"
  | .exception => "err Exception"
  | .fuel => "unsupported fuel"
  | .unsupported => "unsupported"

/-- a value of the heap level written as a term; `n0` = size of the original heap; `seen` = the new objects visited so
    far (id ↦ visit number).  `full = false`: the original part of the heap (no expansion of new objects). -/
private partial def c08bGraph (H : List PVal) (n0 : Nat) (full : Bool) (v : PVal) (seen : List (Nat × Nat)) :
    String × List (Nat × Nat) :=
  let many (xs : List PVal) (seen : List (Nat × Nat)) : List String × List (Nat × Nat) :=
    xs.foldl (fun (acc : List String × List (Nat × Nat)) x =>
      let r := c08bGraph H n0 full x acc.2
      (acc.1 ++ [r.1], r.2)) ([], seen)
  match v with
  | .none => ("N", seen)
  | .bool true => ("T", seen)
  | .bool false => ("F", seen)
  | .int n => (s!"I {n}", seen)
  | .float t => ("D " ++ encStr t, seen)
  | .str s => ("S " ++ encStr s, seen)
  | .html s => ("H " ++ encStr s, seen)
  | .list xs => let r := many xs seen; ("L " ++ encList r.1, r.2)
  | .tuple xs => let r := many xs seen; ("U " ++ encList r.1, r.2)
  | .dict kvs =>
    let r := many (kvs.map (·.2)) seen
    ("M " ++ encList ((kvs.zip r.1).map fun p => encStr p.1.1 ++ " " ++ p.2), r.2)
  | .obj c fs =>
    match refIdC08b v with
    | some n =>
      if n < n0 then (s!"O {c} [ __id__ I {n} ]", seen)
      else if !full then ("O escaped [ ]", seen)
      else match seen.find? (fun p => p.1 == n) with
        | some p => (s!"O new [ k I {p.2} ]", seen)
        | none =>
          let k := seen.length
          let r := c08bGraph H n0 full (H.getD n (.obj "dangling" [])) ((n, k) :: seen)
          (s!"O new [ k I {k} c S {encStr c.toList} v {r.1} ]", r.2)
    | none =>
      let r := many (fs.map (·.2)) seen
      ("O " ++ c ++ " " ++ encList ((fs.zip r.1).map fun p => p.1.1 ++ " " ++ p.2), r.2)

def srcC08bOps : OpTable
  | "srcc08b" => some do
    let f ← next
    let heap ← c08bPVal
    let a ← listOf c08bPVal
    match heap with
    | .list objs =>
      match Generated.Src.runByNameHC08b c08bG f a with
      | none => pure "unsupported"      -- not translated (left the fragment) or unknown: no verdict
      | some m =>
        match m objs with
        | .ok (v, H) =>
          let g := c08bGraph H objs.length true v []
          let old := (H.take objs.length).map fun o => (c08bGraph H objs.length false o []).1
          pure ("ok " ++ g.1 ++ " ;; L " ++ encList old)
        | .error e => pure (c08bErr e)
    | _ => throw "srcc08b: the heap must be a list"
  | _ => none

end HtmlVerif.Ops
