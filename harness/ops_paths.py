"""Implementation side of lean/HtmlVerif/Ops/Paths.lean: the real urllib / posixpath / HTMLDependency /
save_html code, run in-process; file-system ops run against REAL temporary directories.

Virtual paths.  Wire lines name files under the virtual root ``/V``; for the real run ``/V`` is mapped to a fresh
``tempfile.mkdtemp()`` directory (outside /repo and /verif), which is removed in a ``finally:`` after every case.
Paths outside ``/V`` (package sources such as <repo>/htmltools/libtest/testdep) are used as they are, never created
or written by the harness, and re-read afterwards so that the frame condition covers them as well.
"""
from __future__ import annotations

import hashlib
import html as _html
import os
import posixpath
import re
import shutil
import tempfile
import urllib.parse

from ops import op
from wire import (Toks, p_str, p_bool, p_opt, p_list, p_node, p_depinfo, es, eopt, elist, ekvs, enodes, err_of)
import adapters

VROOT = "/V"
LIT_MAX = 256


# ------------------------------------------------------------------ encodings shared with the generator
def present(content: bytes) -> str:
    """file content as a wire `bytes` token (latin-1); long contents are replaced by their digest"""
    if len(content) <= LIT_MAX:
        return content.decode("latin-1")
    return "sha1:" + hashlib.sha1(content).hexdigest()


def canon_path(p: str) -> str:
    """'/a/b' form with the path's bytes as latin-1 characters (what the driver prints)"""
    segs = [s for s in os.fsencode(p).split(b"/") if s]
    return "".join("/" + s.decode("latin-1") for s in segs)


def efs(entries) -> str:
    """entries: iterable of (path string, presented content) -> wire `fs` term (input form, unsorted)"""
    return elist([es(p) + " " + es(c) for p, c in entries])


def efs_canon(entries) -> str:
    """canonical output form: canon paths, sorted by the encoded row"""
    return elist(sorted(es(canon_path(p)) + " " + es(c) for p, c in entries))


def p_fs(t: Toks):
    return p_list(t, lambda t: (p_str(t), p_str(t)))


def is_virtual(p: str) -> bool:
    return p == VROOT or p.startswith(VROOT + "/")


class HarnessError(Exception):
    """the harness itself failed (not the code under test)"""


def guarded(f):
    """setup problems of the sandbox must never look like an answer of the code under test"""
    def g(t):
        try:
            return f(t)
        except HarnessError as e:
            return "harness-error " + repr(e).replace(" ", "_")
    g.__name__ = f.__name__
    return g


class Sandbox:
    """a real directory standing for /V"""

    def __init__(self):
        self.tmp = None
        self.cwd0 = None

    def __enter__(self):
        self.tmp = os.path.realpath(tempfile.mkdtemp(prefix="c12-"))
        self.cwd0 = os.getcwd()
        return self

    def __exit__(self, *a):
        try:
            os.chdir(self.cwd0)
        finally:
            shutil.rmtree(self.tmp, ignore_errors=True)

    def real(self, p: str) -> str:
        return self.tmp + p[len(VROOT):] if is_virtual(p) else p

    def virt(self, p: str) -> str:
        if p == self.tmp or p.startswith(self.tmp + "/"):
            return VROOT + p[len(self.tmp):]
        return p

    def materialise(self, fs):
        try:
            self._materialise(fs)
        except Exception as e:
            raise HarnessError(f"materialise: {type(e).__name__}: {e}")

    def _materialise(self, fs):
        self.outside = []
        for p, c in fs:
            if is_virtual(p):
                rp = self.real(p)
                os.makedirs(os.path.dirname(rp), exist_ok=True)
                with open(rp, "wb") as f:
                    f.write(c.encode("latin-1"))
                # one fixed modification time for every file: a target left by an earlier build of the same package
                # (same names, same sizes, same timestamps, other bytes) must not pass for a current copy
                os.utime(rp, (1_000_000_000, 1_000_000_000))
            else:
                self.outside.append(p)

    def chdir(self, cwd: str):
        try:
            rc = self.real(cwd)
            os.makedirs(rc, exist_ok=True)
            os.chdir(rc)
        except Exception as e:
            raise HarnessError(f"chdir: {type(e).__name__}: {e}")

    def snapshot(self, literal=()):
        """all files below the sandbox (+ the outside files named in the input); `literal`: real paths never digested"""
        out = []
        for root, dirs, files in os.walk(self.tmp):
            for fn in files:
                rp = os.path.join(root, fn)
                with open(rp, "rb") as f:
                    c = f.read()
                    out.append((self.virt(rp), c.decode("latin-1") if rp in literal else present(c)))
        for p in self.outside:
            if os.path.isfile(p):
                with open(p, "rb") as f:
                    out.append((p, present(f.read())))
        return out

    def map_source(self, src):
        if src is None or src[0] == "href":
            return src
        return ("subdir", src[1], self.real(src[2]) if src[1] is None else src[2], src[3])

    def map_dep(self, info: dict) -> dict:
        d = dict(info)
        d["source"] = self.map_source(info["source"])
        return d

    def map_node(self, n):
        k = n[0]
        if k == "tag":
            return ("tag", n[1], n[2], n[3], [self.map_node(c) for c in n[4]])
        if k == "dep":
            return ("dep", self.map_dep(n[1]), n[2], [self.map_node(c) for c in n[3]])
        if k == "tobjL":
            return ("tobjL", n[1], [self.map_node(c) for c in n[2]])
        if k == "tobj1":
            return ("tobj1", n[1], self.map_node(n[2]))
        return n


# ------------------------------------------------------------------ pure ops
@op("quote")
def _quote(t: Toks) -> str:
    return es(urllib.parse.quote(p_str(t)))


@op("unquote")
def _unquote(t: Toks) -> str:
    return es(urllib.parse.unquote_to_bytes(p_str(t)).decode("latin-1"))


@op("utf8")
def _utf8(t: Toks) -> str:
    return es(p_str(t).encode("utf-8").decode("latin-1"))


@op("posix_join")
def _pjoin(t: Toks) -> str:
    a = p_str(t)
    b = p_str(t)
    r = posixpath.join(a, b)
    assert os.path.join(a, b) == r
    return es(r)


@op("dirname")
def _dirname(t: Toks) -> str:
    return es(posixpath.dirname(p_str(t)))


def _kvs_list(l) -> str:
    return elist([ekvs([(str(k), str(v)) for k, v in d.items()]) for d in l])


@op("source_path_map")
def _spm(t: Toks) -> str:
    info = p_depinfo(t)
    lp = p_opt(t)
    iv = p_bool(t)
    dep = adapters.realize_dep(info, False, [])
    m = dep.source_path_map(lib_prefix=lp, include_version=iv)
    return es(m["source"]) + " " + es(m["href"])


@op("as_dict")
def _as_dict(t: Toks) -> str:
    info = p_depinfo(t)
    hh = p_bool(t)
    hd = p_list(t, p_node)
    lp = p_opt(t)
    iv = p_bool(t)
    dep = adapters.realize_dep(info, hh, hd)
    d = dep.as_dict(lib_prefix=lp, include_version=iv)
    assert d["name"] == info["name"] and d["version"] == str(dep.version)
    return "ok " + _kvs_list(d["script"]) + " " + _kvs_list(d["stylesheet"]) + " " + _kvs_list(d["meta"]) + " " + eopt(d["head"])


@op("as_html_tags")
def _as_html_tags(t: Toks) -> str:
    info = p_depinfo(t)
    hh = p_bool(t)
    hd = p_list(t, p_node)
    lp = p_opt(t)
    iv = p_bool(t)
    dep = adapters.realize_dep(info, hh, hd)
    tl = dep.as_html_tags(lib_prefix=lp, include_version=iv)
    return "ok " + enodes(adapters.canon_list(tl))


# ------------------------------------------------------------------ file-system ops
def _copy_args(t: Toks):
    return p_depinfo(t), p_str(t), p_bool(t), p_str(t), p_fs(t)


@op("copy_to")
@guarded
def _copy_to(t: Toks) -> str:
    info, path, iv, cwd, fs = _copy_args(t)
    with Sandbox() as sb:
        sb.materialise(fs)
        sb.chdir(cwd)
        dep = adapters.realize_dep(sb.map_dep(info), False, [])
        try:
            r = dep.copy_to(sb.real(path), include_version=iv)
            status = "ok" if r is None else "ok?"
        except Exception as e:
            status = err_of(e)
        return status + " " + efs_canon(sb.snapshot())


def full_tree(root: str):
    """every directory and every file below `root` — names (as bytes), kind, and file contents; nothing is digested and
    empty directories count: this is what "untouched" means for the atomicity clause"""
    out = {}
    for r, dirs, files in os.walk(root):
        for dn in dirs:
            p = os.path.join(r, dn)
            out[os.fsencode(p)] = ("link", os.readlink(p)) if os.path.islink(p) else ("dir",)
        for fn in files:
            p = os.path.join(r, fn)
            if os.path.islink(p):
                out[os.fsencode(p)] = ("link", os.readlink(p))
            else:
                with open(p, "rb") as f:
                    out[os.fsencode(p)] = ("file", f.read())
    return out


@op("copy_atomic")
@guarded
def _copy_atomic(t: Toks) -> str:
    """`copy_to` judged on the real directory tree only: `ok`, or `err <kind> same|changed` where same/changed compares
    a complete snapshot (directories, names, contents — stale files included) taken before and after the call.
    Which library functions `copy_to` uses to get there is not observed."""
    info, path, iv, cwd, fs = _copy_args(t)
    with Sandbox() as sb:
        sb.materialise(fs)
        sb.chdir(cwd)
        dep = adapters.realize_dep(sb.map_dep(info), False, [])
        before = full_tree(sb.tmp)
        try:
            dep.copy_to(sb.real(path), include_version=iv)
            return "ok"
        except Exception as e:
            after = full_tree(sb.tmp)
            return err_of(e) + " " + ("same" if after == before else "changed")


URL_ATTR = re.compile(r'\s(?:src|href)="([^"]*)"')


def extract_urls(text: str) -> list[str]:
    """every src / href attribute value of the written file, attribute-decoded"""
    return [_html.unescape(m) for m in URL_ATTR.findall(text)]


def _save_args(t: Toks):
    return dict(recv=t.next(), content=p_list(t, p_node), file=p_str(t), file_abs=p_str(t), libdir=p_opt(t),
                iv=p_bool(t), cwd=p_str(t), html=p_str(t), deps=p_list(t, p_depinfo), fs=p_fs(t))


def build_receiver(recv: str, objs):
    import htmltools
    if recv == "doc":
        return htmltools.HTMLDocument(*objs)
    if recv == "tag":
        assert len(objs) == 1 and isinstance(objs[0], htmltools.Tag)
        return objs[0]
    return htmltools.TagList(*objs)


def call_save(x, recv: str, file: str, libdir, iv: bool):
    if recv == "doc":
        return x.save_html(file, libdir, iv)       # HTMLDocument takes them positionally as well
    return x.save_html(file, libdir=libdir, include_version=iv)


@op("save_html")
@guarded
def _save_html(t: Toks) -> str:
    a = _save_args(t)
    with Sandbox() as sb:
        sb.materialise(a["fs"])
        sb.chdir(a["cwd"])
        objs = [adapters.realize(sb.map_node(n)) for n in a["content"]]
        x = build_receiver(a["recv"], objs)
        file = sb.real(a["file"])
        urls = []
        try:
            ret = call_save(x, a["recv"], file, a["libdir"], a["iv"])
            status = "ok " + es(sb.virt(ret) if isinstance(ret, str) else repr(type(ret)))
            with open(sb.real(a["file_abs"]), "rb") as f:
                urls = extract_urls(f.read().decode("utf-8"))
        except Exception as e:
            status = err_of(e)
        lit = os.path.join(os.path.realpath(os.path.dirname(sb.real(a["file_abs"]))), os.path.basename(a["file_abs"]))
        return status + " " + elist([es(u) for u in urls]) + " " + efs_canon(sb.snapshot(literal=(lit,)))
