#!/usr/bin/env python3
"""Prints the table of DESIGN §14.8: every function the source translator handles, where its tie theorems are, and
whether it is translated on the current tree."""
import os
import re
import sys

HERE = os.path.dirname(os.path.abspath(__file__))
sys.path.insert(0, HERE)
import pytranslate as T  # noqa: E402

r = T.generate(write=False)
lean_dir = os.path.join(os.path.dirname(HERE), "lean", "HtmlVerif", "Props")
thms = {}
for fn in sorted(os.listdir(lean_dir)):
    if fn.startswith("Src") and fn.endswith(".lean"):
        src = open(os.path.join(lean_dir, fn), encoding="utf-8").read()
        thms[fn] = re.findall(r"^theorem\s+([\w.']+)", src, re.M)
print("| Python function | Lean translation | translated now | tie theorems that mention it |")
print("|---|---|---|---|")
n_ok = 0
for s in T.SPECS:
    hits = []
    for fn, names in thms.items():
        src = open(os.path.join(lean_dir, fn), encoding="utf-8").read()
        if re.search(r"\b" + re.escape(s.lean) + r"\b", src):
            # theorems whose statement or proof mentions the translated function
            blocks = re.split(r"^(?=theorem\s)", src, flags=re.M)
            for b in blocks:
                m = re.match(r"theorem\s+([\w.']+)", b)
                if m and re.search(r"\b" + re.escape(s.lean) + r"\b", b.split(":= by")[0] if ":= by" in b else b):
                    hits.append(f"{m.group(1)} ({fn[:-5]})")
    ok = r["available"].get(s.lean, False)
    n_ok += ok
    print(f"| `{s.qual}` ({os.path.basename(s.file)}) | `{s.lean}` | {'yes' if ok else 'NO'} | {', '.join(hits[:4]) + (' …' if len(hits) > 4 else '') or '—'} |")
print(f"\n{n_ok} of {len(T.SPECS)} selected functions are translated on the current tree; {sum(len(v) for v in thms.values())} theorems in {len(thms)} Props/Src*.lean files.")
