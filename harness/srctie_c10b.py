"""Translator validation for the constructor validation of `HTMLDependency` (C10; DESIGN §14): value generators for the
regenerated `HTMLDependency._validate_dict`, `_validate_dicts` and `__init__`.

`_validate_dict` / `_validate_dicts` need nothing from the interpreter: they run under the plain `src` op
(`register(GENS)`, `ck.add_src([...])`).  `__init__` calls `packaging.version.Version`; its lines use the op `srcc10b`,
which carries what `packaging` answers for the version strings of the line (`add_src_c10b(ck, [...])`)."""
from __future__ import annotations

from wire import es

from srctie import S, H

KEYS = ["src", "href", "name", "content", "rel", "integrity", "zz", "subdir", "package", "type", "Src", "src ", ""]
REQS = [["src"], ["href"], ["name", "content"], [], ["content", "name"], ["src", "href"], ["rel"], ["zz"]]
#: version strings `packaging` accepts (some only after normalisation) and refuses
GOOD_VERSIONS = ["1.0", "1.2", "1.10.0", "2", "1.0a1", "1.0.post1", "1!0.5", "1.0+local", " 1.0 ", "v1.0", "1.0-1", "01.02", "1.0RC1"]
BAD_VERSIONS = ["", "x", "1..2", "1.2.", "not a version", "1.0 beta", "1,0"]


def _extra():
    import gen
    return list(gen.EXTRA)


def key(rng) -> str:
    ex = _extra()
    if ex and rng.random() < 0.25:      # change-directed: literals the source has gained (harness/literals.py)
        return rng.choice(ex)
    return rng.choice(KEYS)


def kv_dict(rng, must=()) -> str:
    ks = list(must)
    for _ in range(rng.choice([0, 0, 1, 1, 2, 3])):
        k = key(rng)
        if k not in ks:
            ks.append(k)
    if rng.random() < 0.4:
        rng.shuffle(ks)
    vals = [S("v" + k) if rng.random() < 0.9 else rng.choice(["I 1", "N", H("h"), "L [ ]"]) for k in ks]
    return "M [ " + "".join(es(k) + " " + v + " " for k, v in zip(ks, vals)) + "]"


def non_dict(rng) -> str:
    """a value that is not a dict, of every kind"""
    return rng.choice(["N", "I 5", "I 0", S("src"), S(""), "L [ " + S("src") + " ]", "L [ ]", "U [ " + S("name") + " " + S("content") + " ]",
                       "D " + es("1.5"), "T", "F", "O Other [ ]", H("src"), "L [ M [ " + es("src") + " " + S("x") + " ] ]"])


def item(rng, req) -> str:
    r = rng.random()
    if r < 0.45:
        return kv_dict(rng, must=req)
    if r < 0.6 and req:
        return kv_dict(rng, must=rng.sample(req, len(req) - 1))
    if r < 0.75:
        return kv_dict(rng)
    return non_dict(rng)


def req_list(rng) -> list[str]:
    ex = _extra()
    if ex and rng.random() < 0.2:
        return rng.choice(REQS) + [rng.choice(ex)]
    return rng.choice(REQS)


def req_term(req) -> str:
    return "L [ " + "".join(S(k) + " " for k in req) + "]"


SELF = "O HTMLDependency [ name " + S("lib") + " ]"


def _validate_dict(rng) -> str:
    req = req_list(rng)
    return f"[ {SELF} {item(rng, req)} {req_term(req)} ]"


def items_value(rng, req) -> str:
    """what may reach `_validate_dicts`: a list / tuple of items, a dict (iterates over its keys), a string, a value
    that cannot be iterated"""
    r = rng.random()
    if r < 0.7:
        n = rng.choice([0, 1, 1, 2, 2, 3, 4])
        xs = [item(rng, req) if rng.random() < 0.35 else kv_dict(rng, must=req) for _ in range(n)]
        return ("L" if rng.random() < 0.85 else "U") + " [ " + "".join(x + " " for x in xs) + "]"
    if r < 0.8:
        return kv_dict(rng, must=req)
    if r < 0.86:
        return rng.choice([S(""), S("ab"), H(""), H("x")])
    return rng.choice(["N", "I 5", "D " + es("1.5"), "T", "F", "O Other [ ]"])


def _validate_dicts(rng) -> str:
    req = req_list(rng)
    return f"[ {SELF} {items_value(rng, req)} {req_term(req)} ]"


def items_arg(rng, req) -> str:
    """what a caller may give for script= / stylesheet= / meta="""
    r = rng.random()
    if r < 0.2:
        return "N"
    if r < 0.45:
        return kv_dict(rng, must=req) if rng.random() < 0.75 else kv_dict(rng)
    return items_value(rng, req)


def source_arg(rng) -> str:
    r = rng.random()
    if r < 0.25:
        return "N"
    if r < 0.75:
        return kv_dict(rng, must=rng.choice([["href"], ["subdir"], ["package", "subdir"], ["subdir", "href"], ["package"], []]))
    return non_dict(rng)


def head_arg(rng) -> str:
    tag = ("O Tag [ name " + S("meta") + " attrs M [ " + es("charset") + " " + S("utf-8") + " ] children O TagList [ data L [ ] ] add_ws T ]")
    return rng.choice(["N", "N", S("<script></script>"), S(""), S("a<b"), H("<link>"), "I 5", "D " + es("1.5"), "T", tag,
                       "L [ " + S("a") + " " + H("<b>") + " ]", "L [ ]", "U [ " + tag + " ]", "O TagList [ data L [ " + S("x") + " " + tag + " ] ]",
                       "M [ ]", "O Other [ ]", "O MetadataNode [ ]", "O ReprObj [ _repr_html_ " + S("<r>") + " ]",
                       "L [ " + S("a") + " L [ " + S("b") + " ] ]", "L [ N ]", "L [ I 1 ]"])


def _init(rng) -> tuple[list, str]:
    from packaging.version import Version
    tbl = []
    r = rng.random()
    if r < 0.85:
        raw = rng.choice(GOOD_VERSIONS) if rng.random() < 0.85 else rng.choice(BAD_VERSIONS)
        try:
            tbl.append((raw, True, rng.choice([0, 1, 2, 3, 4]), str(Version(raw))))
        except Exception:  # noqa: BLE001  (InvalidVersion)
            tbl.append((raw, False, 0, ""))
        ver = S(raw)
    elif r < 0.93:
        ver = f"O Version [ rank I {rng.choice([0, 1, 2])} text " + S(rng.choice(["1.0", "2.1", "1.0a1"])) + " ]"
    else:
        ver = rng.choice(["I 1", "N", H("1.0"), "D " + es("1.5")])
    name = S(rng.choice(["lib", "", "a b", "jquery"])) if rng.random() < 0.9 else rng.choice(["N", "I 3"])
    af = rng.choice(["T", "F", "T", "F", "N", "I 1"])
    args = (f"[ O HTMLDependency [ ] {name} {ver} {source_arg(rng)} {items_arg(rng, ['src'])} {items_arg(rng, ['href'])} {af} "
            f"{items_arg(rng, ['name', 'content'])} {head_arg(rng)} ]")
    return tbl, args


C10B_GENS = {"HTMLDependency_init": _init}


def register(GENS):
    GENS["HTMLDependency_validate_dict"] = _validate_dict
    GENS["HTMLDependency_validate_dicts"] = _validate_dicts


def lines_c10b(rng, funcs: list[str], n: int) -> list[str]:
    out = []
    for f in funcs:
        seen = set()
        for _ in range(n):
            tbl, args = C10B_GENS[f](rng)
            l = ("srcc10b [ " + "".join(f"{es(raw)} {'T' if ok else 'F'} {rk} {es(text)} " for raw, ok, rk, text in tbl)
                 + f"] {f} {args}")
            if l not in seen:
                seen.add(l)
                out.append(l)
    return out


def add_src_c10b(ck, funcs: list[str], quick: int = 400, thorough: int = 4000):
    """`Check.add_src` for the functions that need `packaging`'s answers (op `srcc10b`)"""
    import core
    ls = lines_c10b(ck.rng, funcs, thorough if ck.tier == "thorough" else quick)
    ck.src_lines += list(zip(ls, core.impl_many(ls)))
