/-
Layer 2 of C01 (renderer-free): tokenizing the serialisation of a well-formed token list gives the
token list back, with consecutive text tokens merged.
  tokenize_serialize : (∀ t ∈ ts, t.ok) → tokenize (serialize ts) = some (mergeText ts)
-/
import HtmlVerif.Lemmas.HtmlChars

namespace HtmlVerif

/-! ### serialisation of tokens -/

def serAttrs : List (Str × Str) → Str
  | [] => []
  | (k, v) :: r => ' ' :: k ++ '=' :: '"' :: v ++ '"' :: serAttrs r

def tagEnd (sc : Bool) : Str := if sc then ['/', '>'] else ['>']

def Tok.ser : Tok → Str
  | .text s => s
  | .stag n as sc => '<' :: n ++ serAttrs as ++ tagEnd sc
  | .etag n => '<' :: '/' :: n ++ ['>']

def serialize (ts : List Tok) : Str := ts.flatMap Tok.ser

@[simp] theorem serialize_nil : serialize [] = [] := rfl
@[simp] theorem serialize_cons (t : Tok) (ts : List Tok) : serialize (t :: ts) = t.ser ++ serialize ts := by
  simp [serialize]
@[simp] theorem serialize_append (a b : List Tok) : serialize (a ++ b) = serialize a ++ serialize b := by
  simp [serialize]

/-! ### merging of consecutive text tokens (what a tokenizer necessarily does) -/

def flushTok (p : Str) : List Tok := if p = [] then [] else [.text p]

def mergeAcc : Str → List Tok → List Tok
  | p, [] => flushTok p
  | p, .text s :: r => mergeAcc (p ++ s) r
  | p, t :: r => flushTok p ++ t :: mergeAcc [] r

def mergeText (ts : List Tok) : List Tok := mergeAcc [] ts

/-! ### well-formed tokens -/

def attrOk (kv : Str × Str) : Bool := !kv.1.isEmpty && kv.1.all isAttrNameChar && !kv.2.contains '"'

def Tok.ok : Tok → Bool
  | .text s => !s.contains '<'
  | .stag n as _ => validName n && as.all attrOk
  | .etag n => validName n

def startsText : List Tok → Bool
  | .text _ :: _ => true
  | _ => false

/-- no empty and no two consecutive text tokens -/
def merged : List Tok → Bool
  | [] => true
  | .text s :: r => !s.isEmpty && !startsText r && merged r
  | _ :: r => merged r

@[simp] theorem serialize_flushTok (p : Str) : serialize (flushTok p) = p := by
  unfold flushTok; split <;> simp_all [Tok.ser]

theorem serialize_mergeAcc (p : Str) (ts : List Tok) : serialize (mergeAcc p ts) = p ++ serialize ts := by
  induction ts generalizing p with
  | nil => simp [mergeAcc]
  | cons t r ih => cases t <;> simp [mergeAcc, ih, Tok.ser]

theorem merged_mergeAcc (p : Str) (ts : List Tok) : merged (mergeAcc p ts) = true := by
  induction ts generalizing p with
  | nil => unfold mergeAcc flushTok; split <;> simp_all [merged, startsText]
  | cons t r ih =>
    cases t with
    | text s => simpa [mergeAcc] using ih _
    | stag n a sc => unfold mergeAcc flushTok; split <;> simp_all [merged, startsText]
    | etag n => unfold mergeAcc flushTok; split <;> simp_all [merged, startsText]

theorem ok_mergeAcc (p : Str) (ts : List Tok) (hp : '<' ∉ p) (h : ∀ t ∈ ts, t.ok = true) :
    ∀ t ∈ mergeAcc p ts, t.ok = true := by
  induction ts generalizing p with
  | nil => unfold mergeAcc flushTok; split <;> simp_all [Tok.ok]
  | cons t r ih =>
    have hr : ∀ t ∈ r, t.ok = true := fun x hx => h x (by simp [hx])
    cases t with
    | text s =>
      have hs : '<' ∉ s := by simpa [Tok.ok] using h (.text s) (by simp)
      exact ih (p ++ s) (by simp [hp, hs]) hr
    | stag n a sc =>
      have h0 := h (.stag n a sc) (by simp)
      have := ih [] (by simp) hr
      unfold mergeAcc flushTok; split <;> simp_all [Tok.ok]
    | etag n =>
      have h0 := h (.etag n) (by simp)
      have := ih [] (by simp) hr
      unfold mergeAcc flushTok; split <;> simp_all [Tok.ok]

/-! ### attributes -/

theorem attrNameChar_facts {c : Char} (h : isAttrNameChar c = true) :
    isWs c = false ∧ c ≠ '>' ∧ c ≠ '/' ∧ c ≠ '=' := by
  simp only [isAttrNameChar, Bool.not_eq_true', Bool.or_eq_false_iff] at h
  obtain ⟨⟨⟨⟨⟨⟨h1, _⟩, _⟩, h4⟩, h5⟩, h6⟩, _⟩ := h
  refine ⟨h1, ?_, ?_, ?_⟩ <;> (intro e; subst e; simp_all)

theorem length_serAttrs (as : List (Str × Str)) : as.length ≤ (serAttrs as).length := by
  induction as with
  | nil => simp [serAttrs]
  | cons kv r ih => obtain ⟨k, v⟩ := kv; simp [serAttrs]; omega

theorem attrsF_end (f : Nat) (sc : Bool) (rest : Str) :
    attrsF (f + 1) (tagEnd sc ++ rest) = some ([], sc, rest) := by
  have h1 : ∀ Y, spanP isWs ('>' :: Y) = ([], '>' :: Y) := by
    intro Y; have : isWs '>' = false := by decide
    simp [spanP, this]
  have h2 : ∀ Y, spanP isWs ('/' :: Y) = ([], '/' :: Y) := by
    intro Y; have : isWs '/' = false := by decide
    simp [spanP, this]
  show attrsStep (attrsF f) _ = _
  cases sc
  · simp only [attrsStep, tagEnd]; simp [tagEndAt, h1]
  · simp only [attrsStep, tagEnd]; simp [tagEndAt, h2]

theorem attrAt_one (k v X : Str) (hk : k ≠ []) (hkc : ∀ c ∈ k, isAttrNameChar c = true) (hv : '"' ∉ v) :
    attrAt (k ++ '=' :: '"' :: v ++ '"' :: X) = some ((k, v), X) := by
  have hks : spanP isAttrNameChar (k ++ '=' :: ('"' :: (v ++ '"' :: X))) = (k, '=' :: ('"' :: (v ++ '"' :: X))) :=
    spanP_append_cons isAttrNameChar k '=' _ hkc (by decide)
  have hvs : spanP (fun x => x != '"') (v ++ '"' :: X) = (v, '"' :: X) :=
    spanP_append_cons _ v '"' X (by intro x hx; simp; intro e; subst e; exact hv hx) (by simp)
  simp only [attrAt, List.cons_append, List.append_assoc, hks, hk, if_false, hvs]
  simp

theorem attrsF_one (f : Nat) (k v X : Str) (hk : k ≠ []) (hkc : ∀ c ∈ k, isAttrNameChar c = true)
    (hv : '"' ∉ v) :
    attrsF (f + 1) (' ' :: k ++ '=' :: '"' :: v ++ '"' :: X)
      = match attrsF f X with
        | some (as, sc, r) => some ((k, v) :: as, sc, r)
        | none => none := by
  have hat := attrAt_one k v X hk hkc hv
  obtain ⟨c, k', rfl⟩ := List.exists_cons_of_ne_nil hk
  obtain ⟨hc1, hc2, hc3, _⟩ := attrNameChar_facts (hkc c (by simp))
  have hw : ∀ Y, spanP isWs (' ' :: c :: Y) = ([' '], c :: Y) := by
    intro Y
    have hsp : isWs ' ' = true := by decide
    simp [spanP, hsp, hc1]
  have hte : ∀ Y, tagEndAt c Y = none := by intro Y; simp [tagEndAt, hc2, hc3]
  simp only [List.cons_append, List.append_assoc] at hat ⊢
  show attrsStep (attrsF f) _ = _
  simp only [attrsStep, hw, hte, hat]
  cases attrsF f X with
  | none => simp
  | some p => obtain ⟨as, sc, r⟩ := p; simp

theorem attrsF_ser (as : List (Str × Str)) (sc : Bool) (rest : Str) (f : Nat)
    (hok : as.all attrOk = true) (hf : as.length < f) :
    attrsF f (serAttrs as ++ tagEnd sc ++ rest) = some (as, sc, rest) := by
  induction as generalizing f with
  | nil =>
    obtain ⟨f', rfl⟩ : ∃ f', f = f' + 1 := ⟨f - 1, by simp at hf; omega⟩
    simpa [serAttrs] using attrsF_end f' sc rest
  | cons kv r ih =>
    obtain ⟨k, v⟩ := kv
    obtain ⟨f', rfl⟩ : ∃ f', f = f' + 1 := ⟨f - 1, by simp at hf; omega⟩
    simp only [List.all_cons, Bool.and_eq_true, attrOk, Bool.not_eq_true', List.all_eq_true] at hok
    obtain ⟨⟨⟨hk, hkc⟩, hv⟩, hr⟩ := hok
    have hk' : k ≠ [] := by intro e; subst e; simp at hk
    have hv' : '"' ∉ v := by simpa using hv
    have hih := ih f' (by simpa [attrOk] using hr) (by simp at hf; omega)
    have := attrsF_one f' k v (serAttrs r ++ tagEnd sc ++ rest) hk' hkc hv'
    simp only [hih] at this
    simpa [serAttrs] using this

/-! ### one tag -/

theorem nameChar_letter {c : Char} (h : isAsciiLetter c = true) : isNameChar c = true := by
  simp [isNameChar, h]

theorem letter_ne_slash {c : Char} (h : isAsciiLetter c = true) : c ≠ '/' := by
  intro e; subst e; revert h; decide

theorem after_name_stops (as : List (Str × Str)) (sc : Bool) (rest : Str) :
    ∀ c r, serAttrs as ++ tagEnd sc ++ rest = c :: r → isNameChar c = false := by
  intro c r h
  cases as with
  | nil => cases sc <;> simp [serAttrs, tagEnd] at h <;> (obtain ⟨rfl, _⟩ := h; decide)
  | cons kv _ => obtain ⟨k, v⟩ := kv; simp [serAttrs] at h; obtain ⟨rfl, _⟩ := h; decide

theorem tagAt_stag (n : Str) (as : List (Str × Str)) (sc : Bool) (rest : Str)
    (hn : validName n = true) (hok : as.all attrOk = true) :
    tagAt (n ++ serAttrs as ++ tagEnd sc ++ rest) = some (.stag n as sc, rest) := by
  cases n with
  | nil => simp [validName] at hn
  | cons c n' =>
    have hn0 := hn
    simp only [validName, Bool.and_eq_true, List.all_eq_true] at hn
    obtain ⟨hc, hn'⟩ := hn
    have hall : ∀ x ∈ c :: n', isNameChar x = true := by
      intro x hx; simp at hx; rcases hx with rfl | hx
      · exact nameChar_letter hc
      · exact hn' x hx
    have hs := spanP_append isNameChar (c :: n') (serAttrs as ++ tagEnd sc ++ rest) hall
      (after_name_stops as sc rest)
    have hlen : as.length < (serAttrs as ++ tagEnd sc ++ rest).length := by
      have := length_serAttrs as
      cases sc <;> simp [tagEnd] <;> omega
    have ha := attrsF_ser as sc rest _ hok hlen
    simp only [List.cons_append, List.append_assoc] at hs ha ⊢
    simp only [tagAt, letter_ne_slash hc, if_false, hs, hn0, if_true, ha]

theorem tagAt_etag (n : Str) (rest : Str) (hn : validName n = true) :
    tagAt ('/' :: n ++ '>' :: rest) = some (.etag n, rest) := by
  have hall : ∀ x ∈ n, isNameChar x = true := by
    cases n with
    | nil => simp
    | cons c n' =>
      simp only [validName, Bool.and_eq_true, List.all_eq_true] at hn
      intro x hx; simp at hx; rcases hx with rfl | hx
      · exact nameChar_letter hn.1
      · exact hn.2 x hx
  have hs := spanP_append_cons isNameChar n '>' rest hall (by decide)
  simp [tagAt, hs, hn]

/-! ### the token stream -/

theorem ser_after_text (r : List Tok) (h : startsText r = false) :
    ∀ c x, serialize r = c :: x → (c != '<') = false := by
  intro c x hs
  cases r with
  | nil => simp at hs
  | cons t r' =>
    cases t with
    | text s => simp [startsText] at h
    | stag n a sc => simp [Tok.ser] at hs; simp [hs.1.symm]
    | etag n => simp [Tok.ser] at hs; simp [hs.1.symm]

theorem tokF_serialize (ts : List Tok) (hm : merged ts = true) (hok : ∀ t ∈ ts, t.ok = true)
    (f : Nat) (hf : (serialize ts).length ≤ f) : tokF f (serialize ts) = some ts := by
  induction ts generalizing f with
  | nil => cases f <;> simp [tokF]
  | cons t r ih =>
    have hokr : ∀ t ∈ r, t.ok = true := fun x hx => hok x (by simp [hx])
    have hokt := hok t (by simp)
    cases t with
    | text s =>
      simp only [merged, Bool.and_eq_true, Bool.not_eq_true'] at hm
      obtain ⟨⟨hs, hst⟩, hmr⟩ := hm
      cases s with
      | nil => simp at hs
      | cons c s' =>
        have hno : '<' ∉ c :: s' := by simpa [Tok.ok] using hokt
        have hc : c ≠ '<' := by intro e; subst e; simp at hno
        have hsp := spanP_append (fun x => x != '<') s' (serialize r)
          (by intro x hx; simp; intro e; subst e; exact hno (by simp [hx])) (ser_after_text r hst)
        obtain ⟨f', rfl⟩ : ∃ f', f = f' + 1 := ⟨f - 1, by simp [Tok.ser] at hf; omega⟩
        have hih := ih hmr hokr f' (by simp [Tok.ser] at hf; omega)
        simp [Tok.ser, tokF, tokStep, hc, hsp, hih]
    | stag n a sc =>
      simp only [merged] at hm
      simp only [Tok.ok, Bool.and_eq_true] at hokt
      obtain ⟨f', rfl⟩ : ∃ f', f = f' + 1 := ⟨f - 1, by simp [Tok.ser] at hf; omega⟩
      have hih := ih hm hokr f' (by simp [Tok.ser] at hf; omega)
      have ht := tagAt_stag n a sc (serialize r) hokt.1 hokt.2
      simp only [List.append_assoc] at ht
      simp [Tok.ser, tokF, tokStep, ht, hih]
    | etag n =>
      simp only [merged] at hm
      simp only [Tok.ok] at hokt
      obtain ⟨f', rfl⟩ : ∃ f', f = f' + 1 := ⟨f - 1, by simp [Tok.ser] at hf; omega⟩
      have hih := ih hm hokr f' (by simp [Tok.ser] at hf; omega)
      have ht := tagAt_etag n (serialize r) hokt
      simp only [List.cons_append] at ht
      simp [Tok.ser, tokF, tokStep, ht, hih]

/-- Layer 2: the spec tokenizer inverts serialisation up to merging of consecutive text tokens -/
theorem tokenize_serialize (ts : List Tok) (hok : ∀ t ∈ ts, t.ok = true) :
    tokenize (serialize ts) = some (mergeText ts) := by
  have h1 : serialize (mergeText ts) = serialize ts := by simp [mergeText, serialize_mergeAcc]
  unfold tokenize
  rw [← h1]
  exact tokF_serialize _ (merged_mergeAcc [] ts) (ok_mergeAcc [] ts (by simp) hok) _ (Nat.le_refl _)

end HtmlVerif
