import HtmlVerif.Spec.Leaves
import HtmlVerif.Lemmas.Pieces

namespace HtmlVerif

def Node.txtIn (cfg : Cfg) (esc : Bool) (h : Node) : List Str :=
  match h with
  | .text s => if esc then [s] else []
  | .tag .. => h.txtLeaves cfg
  | _ => []

theorem txtLeavesKids_eq_visible (cfg : Cfg) (ks : Nodes) (esc : Bool) :
    ks.txtLeavesKids cfg esc = ks.visible.flatMap (Node.txtIn cfg esc) := by
  induction ks using Nodes.rec (motive_1 := fun _ => True) with
  | nil => simp [Nodes.txtLeavesKids, Nodes.visible]
  | cons h t _ ih => cases h <;> simp_all [Nodes.txtLeavesKids, Nodes.visible, Node.isMeta, Node.txtIn]
  | _ => trivial

def Node.rawIn (cfg : Cfg) (esc : Bool) (h : Node) : List Str :=
  match h with
  | .text s => if esc then [] else [s]
  | .html s => [s]
  | .robj s => [s]
  | .tobjL rh _ => [rh.getD []]
  | .tobj1 rh _ => [rh.getD []]
  | .tag .. => h.rawLeaves cfg
  | .mnode _ => []
  | .dep .. => []

theorem rawLeavesKids_eq_visible (cfg : Cfg) (ks : Nodes) (esc : Bool) :
    ks.rawLeavesKids cfg esc = ks.visible.flatMap (Node.rawIn cfg esc) := by
  induction ks using Nodes.rec (motive_1 := fun _ => True) with
  | nil => simp [Nodes.rawLeavesKids, Nodes.visible]
  | cons h t _ ih => cases h <;> simp_all [Nodes.rawLeavesKids, Nodes.visible, Node.isMeta, Node.rawIn]
  | _ => trivial

theorem visible_mapText (g : Str → Str) (ks : Nodes) :
    (ks.mapTextKids g).visible = ks.visible.map (Node.mapText g) := by
  induction ks using Nodes.rec (motive_1 := fun _ => True) with
  | nil => simp [Nodes.mapTextKids, Nodes.visible]
  | cons h t _ ih => cases h <;> simp_all [Nodes.mapTextKids, Nodes.visible, Node.isMeta, Node.mapText]
  | _ => trivial

theorem inlineChild?_mapText (g : Str → Str) (v : List Node) :
    inlineChild? (v.map (Node.mapText g)) = (inlineChild? v).map (fun c => (if c.2 then c.1 else g c.1, c.2)) := by
  match v with
  | [] => rfl
  | [a] => cases a <;> simp [Node.mapText, inlineChild?]
  | a :: b :: r => simp

@[simp] theorem txt?_opn (n : Str) (w : Bool) (a : Attrs) (sc : Bool) : Piece.txt? (.opn n w a sc) = none := rfl
@[simp] theorem txt?_cls (n : Str) (w : Bool) : Piece.txt? (.cls n w) = none := rfl
@[simp] theorem txt?_ws (s : Str) : Piece.txt? (.ws s) = none := rfl
@[simp] theorem txt?_txt (s : Str) : Piece.txt? (.txt s) = some s := rfl
@[simp] theorem txt?_raw (s : Str) : Piece.txt? (.raw s) = none := rfl
@[simp] theorem raw?_opn (n : Str) (w : Bool) (a : Attrs) (sc : Bool) : Piece.raw? (.opn n w a sc) = none := rfl
@[simp] theorem raw?_cls (n : Str) (w : Bool) : Piece.raw? (.cls n w) = none := rfl
@[simp] theorem raw?_ws (s : Str) : Piece.raw? (.ws s) = none := rfl
@[simp] theorem raw?_txt (s : Str) : Piece.raw? (.txt s) = none := rfl
@[simp] theorem raw?_raw (s : Str) : Piece.raw? (.raw s) = some s := rfl
@[simp] theorem skel_opn (n : Str) (w : Bool) (a : Attrs) (sc : Bool) : Piece.skel (.opn n w a sc) = .opn n w a sc := rfl
@[simp] theorem skel_cls (n : Str) (w : Bool) : Piece.skel (.cls n w) = .cls n w := rfl
@[simp] theorem skel_ws (s : Str) : Piece.skel (.ws s) = .ws s := rfl
@[simp] theorem skel_txt (s : Str) : Piece.skel (.txt s) = .txt [] := rfl
@[simp] theorem skel_raw (s : Str) : Piece.skel (.raw s) = .raw [] := rfl

@[simp] theorem filterMap_txt_wsP (s : Str) : (wsP s).filterMap Piece.txt? = [] := by
  unfold wsP; split <;> simp [Piece.txt?]

@[simp] theorem filterMap_raw_wsP (s : Str) : (wsP s).filterMap Piece.raw? = [] := by
  unfold wsP; split <;> simp [Piece.raw?]

@[simp] theorem map_skel_wsP (s : Str) : (wsP s).map Piece.skel = wsP s := by
  unfold wsP; split <;> simp [Piece.skel]

end HtmlVerif
