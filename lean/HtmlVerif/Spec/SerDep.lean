/-
Specification-side vocabulary of C13 about dependency records.
-/
import HtmlVerif.Model.Json

namespace HtmlVerif

def sdHasKey (k : Str) (d : List (Str × Str)) : Bool := d.any fun kv => kv.1 == k

def kSrc : Str := ['s', 'r', 'c']
def kContent : Str := ['c', 'o', 'n', 't', 'e', 'n', 't']

/-- what `HTMLDependency.__init__` guarantees of every dependency object: each script has `src`, each
    stylesheet has `href` (and `rel`, which the constructor adds), each meta has `name` and `content` -/
def SDep.wellFormed (d : SDep) : Bool :=
  d.info.script.all (sdHasKey kSrc)
    && d.info.stylesheet.all (fun x => sdHasKey kHref x && sdHasKey kRel x)
    && d.info.metas.all (fun x => sdHasKey kName x && sdHasKey kContent x)

end HtmlVerif
