/-
Executable statement of C12, evaluated by the driver on the *implementation's* answers: the conclusions of the
theorems of Props/C12.lean, decided on concrete data (finite file systems make every ∀ a finite check).
Each function returns `true` when a guard of the corresponding theorem fails (the input is then outside the statement;
the model ⇔ code correspondence still covers it).
-/
import HtmlVerif.Spec.Paths

namespace HtmlVerif.Holds
open HtmlVerif

/-! ### decidable forms of the guards -/

def apartB (a b : Path) : Bool := !a.isPrefixOf b && !b.isPrefixOf a

/-- `SrcWF`: no regular file directly inside `S` has anything below it -/
def srcWFB (fs : FS) (S : Path) : Bool :=
  (fs.keysUnder S).all fun r =>
    match r with
    | n :: _ :: _ => !(fs.isFile (S ++ [n]))
    | _ => true

/-- both file systems are the same finite map -/
def fsEq (a b : FS) : Bool := (a.files ++ b.files).all fun e => a.read e.1 == b.read e.1

def isStylesheetKV (s : KVs) : Bool := alookup dtKRel s == some vStylesheet

/-! ### percent-encoding (C12_quote_roundtrip_str, C12_quote_inert) -/

def holdsQuote (s out : Str) : Bool :=
  unquoteB out == utf8 s && out.all fun c => isUnreservedN c.toNat || c == '/' || c == '%'

/-! ### URLs (C12_url_local, C12_url_local_closed, C12_url_remote, C12_dict_*, C12_agree) -/

def holdsPathMap (d : DepInfo) (lp : Option Str) (iv : Bool) (src href : Str) : Bool :=
  match d.source with
  | .none => src == [] && href == []
  | .href h => src == [] && href == h
  | .subdir _ _ abs =>
    src == abs && ((dirName d iv).head? == some '/' || href == hrefBaseSpec lp (dirName d iv))

/-- the closed form the theorems give for the URL of path `p` (none when a guard fails) -/
def closedUrl (d : DepInfo) (lp : Option Str) (iv : Bool) (p : Str) : Option Str :=
  match d.source with
  | .none => none
  | .href h =>
    if !h.isEmpty && CleanRel p then
      some (if h.getLast? = some '/' then h ++ quote p else h ++ '/' :: quote p)
    else none
  | .subdir .. =>
    if SafeSeg (dirName d iv) && CleanRel p then some (hrefBaseSpec lp (dirName d iv) ++ '/' :: quote p)
    else none

/-- one URL produced by the implementation for the listed path `p` -/
def holdsUrl (d : DepInfo) (lp : Option Str) (iv : Bool) (p : Str) (url : Str) : Bool :=
  (match closedUrl d lp iv p with
    | some u => url == u
    | none => true)
  && (if isLocal d && SafeSeg (dirName d iv) && CleanRel p && CleanDirOpt lp then
        relRefOk url && segs (unquoteB url) == segsOpt lp ++ [utf8 (dirName d iv)] ++ segs (utf8 p)
      else true)

def holdsUrlList (d : DepInfo) (lp : Option Str) (iv : Bool) (k : Str) (orig out : List KVs) : Bool :=
  orig.length == out.length &&
  (orig.zip out).all fun (s, s') =>
    match alookup k s, alookup k s' with
    | some p, some u => holdsUrl d lp iv p u
    | _, _ => false

def holdsDict (d : DepInfo) (lp : Option Str) (iv : Bool) (scripts sheets : List KVs) : Bool :=
  holdsUrlList d lp iv dtKSrc d.script scripts && holdsUrlList d lp iv dtKHref d.stylesheet sheets
    && sheets.all isStylesheetKV

/-- the `link` / `script` tags of `as_html_tags` carry the same URLs (as plain, i.e. later escaped, attribute values) -/
def holdsTags (d : DepInfo) (lp : Option Str) (iv : Bool) (tags : Nodes) : Bool :=
  let attrOf (name key : Str) : List (Option AttrVal) :=
    tags.toList.filterMap fun n =>
      match n with
      | .tag nm _ attrs _ => if nm = name then some (alookup key attrs) else none
      | _ => none
  let ok (k : Str) (orig : List KVs) (got : List (Option AttrVal)) : Bool :=
    -- the head may contribute further tags of the same name after ours: compare the first |orig| of them
    orig.length ≤ got.length &&
    (orig.zip got).all fun (s, a) =>
      match alookup k s, a with
      | some p, some (.plain u) =>
        -- a key that normalises to the same attribute name would be merged into it: outside the statement
        if (s.filter fun kv => normAttrName kv.1 == k).length == 1 then holdsUrl d lp iv p u else true
      | some _, _ => (s.filter fun kv => normAttrName kv.1 == k).length != 1
      | none, _ => false
  ok dtKHref d.stylesheet (attrOf nLink dtKHref) && ok dtKSrc d.script (attrOf nScript dtKSrc)

/-! ### copy_to (C12_copy_ok, C12_copy_ok_all, C12_copy_missing, C12_copy_keyerror, C12_no_copy) -/

/-- the target directory holds exactly the wanted files, byte-identical to their sources (`CopySpec`, second half) -/
def targetOk (d : DepInfo) (S T : Path) (fs0 fs' : FS) : Bool :=
  ((fs'.keysUnder T).all fun r => wantedB d r && fs'.read (T ++ r) == fs0.read (S ++ r))
  && ((fs0.keysUnder S).all fun r => !wantedB d r || fs'.read (T ++ r) == fs0.read (S ++ r))

/-- nothing outside the directories `Ts` (and other than the paths `except`) differs -/
def frameOk (Ts : List Path) (except : List Path) (fs0 fs' : FS) : Bool :=
  (fs0.files ++ fs'.files).all fun e =>
    Ts.any (fun T => T.isPrefixOf e.1) || except.contains e.1 || fs'.read e.1 == fs0.read e.1

/-- the subtree at `T` is the same in both -/
def subtreeSame (T : Path) (fs0 fs' : FS) : Bool :=
  (fs0.files ++ fs'.files).all fun e => !T.isPrefixOf e.1 || fs'.read e.1 == fs0.read e.1

inductive Readiness
  | ready          -- `CopyReady`
  | missing        -- a listed file is absent (everything else in order): `C12_copy_missing`
  | keyError (e : Err)
  | outside        -- some other guard fails: outside the statement
  deriving DecidableEq, Repr

/-- decide `CopyReady d path iv fs` for a directory-sourced dependency, telling apart the ways it can fail -/
def readiness (d : DepInfo) (path : Str) (iv : Bool) (fs : FS) : Readiness :=
  match d.source with
  | .subdir _ _ abs =>
    let S := pathResolve abs
    let T := tgtDir d path iv
    if abs.isEmpty || !apartB S T then .outside
    else if d.allFiles then
      if srcWFB fs S && !fs.fileOnPath T then .ready else .outside
    else match listedFiles d with
      | .error e => .keyError e
      | .ok fl =>
        if !fl.all (fun f => CleanRel f) then .outside
        else if fl.any (fun f => !fs.exists (S ++ segs (utf8 f))) then .missing
        else if fl.all (fun f => fs.isFile (S ++ segs (utf8 f))) && !fs.fileOnPath T then .ready
        else .outside
  | _ => .ready

/-- `status`: `none` = returned normally, `some e` = raised -/
def holdsCopy (d : DepInfo) (path : Str) (iv : Bool) (fs0 : FS) (status : Option Err) (fs' : FS) : Bool :=
  if !isLocal d then status == none && fsEq fs0 fs'
  else match readiness d path iv fs0 with
    | .ready =>
      status == none && targetOk d (srcDir d) (tgtDir d path iv) fs0 fs'
        && frameOk [tgtDir d path iv] [] fs0 fs'
    | .missing => status == some .exception && fsEq fs0 fs'
    | .keyError e => status == some e && fsEq fs0 fs'
    | .outside => true

/-! ### save_html (C12_save, C12_save_urls, C12_save_fail, C12_save_receivers) -/

def localDeps (deps : List DepInfo) : List DepInfo := deps.filter isLocal

/-- the guards of `C12_save_urls` that do not concern a single dependency's readiness -/
def saveGuards (deps : List DepInfo) (fileAbs : Str) (libdir : Option Str) (iv : Bool) (fs : FS) : Bool :=
  let dest := destDir fileAbs libdir
  let ls := localDeps deps
  CleanDirOpt libdir
    && ls.all (fun d => SafeSeg (dirName d iv))
    && decide ((deps.map fun d => dirName d iv).Nodup)
    && ls.all (fun a => ls.all fun b => apartB (srcDir a) (tgtDir b dest iv))
    && ls.all (fun d => apartB (pathResolve fileAbs) (tgtDir d dest iv))
    && !fs.isDir (pathResolve fileAbs) && !fs.fileOnPath (pathResolve fileAbs).dropLast

/-- the listed paths of a dependency in document order (stylesheets, then scripts) -/
def listedInOrder (d : DepInfo) : List Str :=
  d.stylesheet.filterMap (alookup dtKHref) ++ d.script.filterMap (alookup dtKSrc)

/-- every URL the theorems predict occurs in the file, and resolves to a byte-identical copy -/
def urlsOk (d : DepInfo) (fileAbs : Str) (libdir : Option Str) (iv : Bool) (urls : List Str) (fs0 fs' : FS) : Bool :=
  (listedInOrder d).all fun p =>
    match closedUrl d libdir iv p with
    | none => true
    | some u =>
      urls.contains u &&
      (if isLocal d then
        relRefOk u &&
        (!wantedB d (segs (utf8 p)) ||
          (fs'.read (resolveRef (pathResolve (dirname fileAbs)) u) == fs0.read (srcDir d ++ segs (utf8 p))
            && (d.allFiles || (fs'.read (resolveRef (pathResolve (dirname fileAbs)) u)).isSome)))
      else true)

def isOk (status : Except Err Str) (v : Str) : Bool :=
  match status with
  | .ok x => x == v
  | .error _ => false

def isErr (status : Except Err Str) (e : Err) : Bool :=
  match status with
  | .ok _ => false
  | .error x => x == e

def holdsSave (deps : List DepInfo) (file fileAbs : Str) (libdir : Option Str) (iv : Bool) (html : Str) (fs0 : FS)
    (status : Except Err Str) (urls : List Str) (fs' : FS) : Bool :=
  if !saveGuards deps fileAbs libdir iv fs0 then true else
  let dest := destDir fileAbs libdir
  let F := pathResolve fileAbs
  let rs := deps.map fun d => (d, readiness d dest iv fs0)
  if rs.any (fun x => x.2 == .outside) then true else
  -- dependencies up to the first one that cannot be copied
  let done := rs.takeWhile (fun x => x.2 == .ready)
  let rest := rs.dropWhile (fun x => x.2 == .ready)
  let doneLocal := localDeps (done.map (·.1))
  let copiedOk := doneLocal.all fun d => targetOk d (srcDir d) (tgtDir d dest iv) fs0 fs'
  match rest with
  | [] =>
    -- C12_save_urls
    isOk status file
      && fs'.read F == some (utf8 html)
      && copiedOk
      && deps.all (fun d => urlsOk d fileAbs libdir iv urls fs0 fs')
      && frameOk (doneLocal.map fun d => tgtDir d dest iv) [F] fs0 fs'
  | (bad, r) :: _ =>
    -- C12_save_fail + C12_copy_missing: same error, earlier copies made, the failing target and the file untouched
    isErr status (match r with | .keyError e => e | _ => .exception)
      && copiedOk
      && subtreeSame (tgtDir bad dest iv) fs0 fs'
      && frameOk (doneLocal.map fun d => tgtDir d dest iv) [] fs0 fs'

/-! ### which clause of the statement an input exercises (reported in the evidence, so that vacuous passes show) -/

def Readiness.name : Readiness → String
  | .ready => "ready"
  | .missing => "missing"
  | .keyError _ => "keyerror"
  | .outside => "outside"

def classCopy (d : DepInfo) (path : Str) (iv : Bool) (fs0 : FS) : String :=
  if !isLocal d then "no-copy"
  else (if d.allFiles then "all:" else "listed:") ++ (readiness d path iv fs0).name

def classSave (deps : List DepInfo) (fileAbs : Str) (libdir : Option Str) (iv : Bool) (fs0 : FS) : String :=
  if !saveGuards deps fileAbs libdir iv fs0 then "guards-fail" else
  let rs := deps.map fun d => readiness d (destDir fileAbs libdir) iv fs0
  if rs.any (· == .outside) then "outside"
  else match rs.dropWhile (· == .ready) with
    | [] => "all-ready"
    | r :: _ => "fails:" ++ r.name

def classUrl (d : DepInfo) (lp : Option Str) (iv : Bool) : String :=
  let ps := d.stylesheet.filterMap (alookup dtKHref) ++ d.script.filterMap (alookup dtKSrc)
  let closed := (ps.filter fun p => (closedUrl d lp iv p).isSome).length
  let agree := (ps.filter fun p => isLocal d && SafeSeg (dirName d iv) && CleanRel p && CleanDirOpt lp).length
  s!"{ps.length} {closed} {agree}"

end HtmlVerif.Holds
