/-
Value level of C13: the printer/parser pair on the dependency-record fragment, for any indent and any
string-body encoder the scanner inverts.
-/
import HtmlVerif.Lemmas.JsonStr

namespace HtmlVerif

/-! ### whitespace -/

def AllWs (s : Str) : Prop := ∀ c ∈ s, jsonIsWs c = true

theorem skipWs_allWs (pre X : Str) (h : AllWs pre) : skipWs (pre ++ X) = skipWs X := by
  induction pre with
  | nil => rfl
  | cons c cs ih =>
    have hc : jsonIsWs c = true := h c (by simp)
    have : AllWs cs := fun d hd => h d (by simp [hd])
    simp [skipWs, hc, ih this]

theorem skipWs_cons (c : Char) (X : Str) (h : jsonIsWs c = false) : skipWs (c :: X) = c :: X := by
  simp [skipWs, h]

theorem nlInd_allWs (ind : Option Nat) (lvl : Nat) : AllWs (nlInd ind lvl) := by
  intro c hc
  cases ind with
  | none => simp [nlInd] at hc
  | some n =>
    simp only [nlInd, List.mem_cons, List.mem_replicate] at hc
    rcases hc with rfl | ⟨_, rfl⟩ <;> decide

/-- the whitespace part of the item separator -/
def sepWs (ind : Option Nat) (lvl : Nat) : Str :=
  match ind with
  | none => [' ']
  | some _ => nlInd ind lvl

theorem itemSep_eq (ind : Option Nat) (lvl : Nat) : itemSep ind lvl = ',' :: sepWs ind lvl := by
  cases ind <;> rfl

theorem sepWs_allWs (ind : Option Nat) (lvl : Nat) : AllWs (sepWs ind lvl) := by
  cases ind with
  | none => intro c hc; simp [sepWs] at hc; subst hc; decide
  | some n => exact nlInd_allWs (some n) lvl

/-! ### first character of a printed value -/

def ValHead (c : Char) : Prop := c = 'n' ∨ c = 't' ∨ c = 'f' ∨ c = '"' ∨ c = '[' ∨ c = '{'

theorem ValHead.notWs {c : Char} (h : ValHead c) : jsonIsWs c = false := by
  rcases h with rfl | rfl | rfl | rfl | rfl | rfl <;> decide

theorem ValHead.ne_rbracket {c : Char} (h : ValHead c) : c ≠ ']' := by
  rcases h with rfl | rfl | rfl | rfl | rfl | rfl <;> decide

theorem ValHead.ne_rbrace {c : Char} (h : ValHead c) : c ≠ '}' := by
  rcases h with rfl | rfl | rfl | rfl | rfl | rfl <;> decide

theorem printVal_head (enc : Str → Str) (ind : Option Nat) (lvl : Nat) (v : Json) :
    ∃ c r, printVal enc ind lvl v = c :: r ∧ ValHead c := by
  cases v with
  | null => exact ⟨'n', ['u', 'l', 'l'], by simp [printVal], by simp [ValHead]⟩
  | bool b => cases b <;> simp [printVal, ValHead]
  | str s => exact ⟨'"', enc s ++ ['"'], by simp [printVal, strLit], by simp [ValHead]⟩
  | arr xs => exact ⟨'[', printElems enc ind lvl true xs ++ [']'], by simp [printVal], by simp [ValHead]⟩
  | obj ms => exact ⟨'{', printMems enc ind lvl true ms ++ ['}'], by simp [printVal], by simp [ValHead]⟩

/-! ### one step of each parser -/

theorem parseVal_ws (f : Nat) (pre X : Str) (h : AllWs pre) : parseVal f (pre ++ X) = parseVal f X := by
  cases f with
  | zero => simp [parseVal]
  | succ f => rw [parseVal, parseVal, skipWs_allWs pre X h]

theorem parseVal_str (f : Nat) (r x r' : Str) (h : parseStrBody r.length r = some (x, r')) :
    parseVal (f + 1) ('"' :: r) = some (.str x, r') := by
  rw [parseVal]; simp [skipWs, jsonIsWs, h]

theorem parseVal_arr_nil (f : Nat) (r : Str) : parseVal (f + 1) ('[' :: ']' :: r) = some (.arr .nil, r) := by
  rw [parseVal]; simp [skipWs, jsonIsWs]

theorem parseVal_obj_nil (f : Nat) (r : Str) : parseVal (f + 1) ('{' :: '}' :: r) = some (.obj .nil, r) := by
  rw [parseVal]; simp [skipWs, jsonIsWs]

theorem parseVal_arr (f : Nat) (r tail : Str) (c : Char) (xs : JList) (r'' : Str)
    (hs : skipWs r = c :: tail) (hc : c ≠ ']') (he : parseElems f r = some (xs, r'')) :
    parseVal (f + 1) ('[' :: r) = some (.arr xs, r'') := by
  rw [parseVal]; simp [skipWs, jsonIsWs, hs, hc, he]

theorem parseVal_obj (f : Nat) (r tail : Str) (c : Char) (ms : JMems) (r'' : Str)
    (hs : skipWs r = c :: tail) (hc : c ≠ '}') (he : parseMems f r = some (ms, r'')) :
    parseVal (f + 1) ('{' :: r) = some (.obj ms, r'') := by
  rw [parseVal]; simp [skipWs, jsonIsWs, hs, hc, he]

theorem parseElems_last (f : Nat) (s r r' : Str) (v : Json) (hv : parseVal f s = some (v, r))
    (hs : skipWs r = ']' :: r') : parseElems (f + 1) s = some (.cons v .nil, r') := by
  rw [parseElems]; simp [hv, hs]

theorem parseElems_more (f : Nat) (s r r' r'' : Str) (v : Json) (xs : JList) (hv : parseVal f s = some (v, r))
    (hs : skipWs r = ',' :: r') (he : parseElems f r' = some (xs, r'')) :
    parseElems (f + 1) s = some (.cons v xs, r'') := by
  rw [parseElems]; simp [hv, hs, he]

theorem parseMems_last (f : Nat) (s r r1 r2 r3 r4 k : Str) (v : Json) (h0 : skipWs s = '"' :: r)
    (hk : parseStrBody r.length r = some (k, r1)) (hc : skipWs r1 = ':' :: r2)
    (hv : parseVal f r2 = some (v, r3)) (he : skipWs r3 = '}' :: r4) :
    parseMems (f + 1) s = some (.cons k v .nil, r4) := by
  rw [parseMems]; simp [h0, hk, hc, hv, he]

theorem parseMems_more (f : Nat) (s r r1 r2 r3 r4 r5 k : Str) (v : Json) (ms : JMems) (h0 : skipWs s = '"' :: r)
    (hk : parseStrBody r.length r = some (k, r1)) (hc : skipWs r1 = ':' :: r2)
    (hv : parseVal f r2 = some (v, r3)) (he : skipWs r3 = ',' :: r4) (hm : parseMems f r4 = some (ms, r5)) :
    parseMems (f + 1) s = some (.cons k v ms, r5) := by
  rw [parseMems]; simp [h0, hk, hc, hv, he, hm]

/-! ### sizes (fuel) -/

mutual
  def Json.size : Json → Nat
    | .arr xs => 1 + xs.size
    | .obj ms => 1 + ms.size
    | _ => 1
  def JList.size : JList → Nat
    | .nil => 0
    | .cons h t => 1 + h.size + t.size
  def JMems.size : JMems → Nat
    | .nil => 0
    | .cons _ v t => 1 + v.size + t.size
end

theorem itemSep_length (ind : Option Nat) (lvl : Nat) : 1 ≤ (itemSep ind lvl).length := by
  cases ind <;> simp [itemSep]

mutual
  theorem size_le_printVal (enc : Str → Str) (ind : Option Nat) :
      ∀ (v : Json) (lvl : Nat), v.size ≤ (printVal enc ind lvl v).length
    | .null, _ => by simp [Json.size, printVal]
    | .bool b, _ => by cases b <;> simp [Json.size, printVal]
    | .str s, _ => by simp [Json.size, printVal, strLit]
    | .arr xs, lvl => by
      have := size_le_printElems enc ind xs lvl true
      simp [Json.size, printVal] at this ⊢; omega
    | .obj ms, lvl => by
      have := size_le_printMems enc ind ms lvl true
      simp [Json.size, printVal] at this ⊢; omega
  theorem size_le_printElems (enc : Str → Str) (ind : Option Nat) :
      ∀ (xs : JList) (lvl : Nat) (first : Bool),
        xs.size ≤ (printElems enc ind lvl first xs).length + (if first then 1 else 0)
    | .nil, _, _ => by simp [JList.size]
    | .cons h t, lvl, first => by
      have h1 := size_le_printVal enc ind h (lvl + 1)
      have h2 := size_le_printElems enc ind t lvl false
      have h3 := itemSep_length ind (lvl + 1)
      cases first <;> simp [JList.size, printElems] at h2 ⊢ <;> omega
  theorem size_le_printMems (enc : Str → Str) (ind : Option Nat) :
      ∀ (ms : JMems) (lvl : Nat) (first : Bool),
        ms.size ≤ (printMems enc ind lvl first ms).length + (if first then 1 else 0)
    | .nil, _, _ => by simp [JMems.size]
    | .cons k v t, lvl, first => by
      have h1 := size_le_printVal enc ind v (lvl + 1)
      have h2 := size_le_printMems enc ind t lvl false
      have h3 := itemSep_length ind (lvl + 1)
      cases first <;> simp [JMems.size, printMems] at h2 ⊢ <;> omega
end

/-! ### the round trip -/

theorem parseStrBody_strLit (enc : Str → Str) (henc : BodyOK enc) (k Y : Str) :
    parseStrBody (enc k ++ '"' :: Y).length (enc k ++ '"' :: Y) = some (k, Y) :=
  henc k Y _ (by simp)

theorem allWs_space : AllWs [' '] := by
  intro c hc; simp at hc; subst hc; decide

mutual
  theorem parseVal_print (enc : Str → Str) (henc : BodyOK enc) (ind : Option Nat) :
      ∀ (v : Json) (lvl f : Nat) (rest : Str), v.size ≤ f →
        parseVal f (printVal enc ind lvl v ++ rest) = some (v, rest)
    | .null, _, f, rest, hf => by
      obtain ⟨f, rfl⟩ : ∃ g, f = g + 1 := ⟨f - 1, by simp [Json.size] at hf; omega⟩
      simp [parseVal, printVal, skipWs, jsonIsWs]
    | .bool b, _, f, rest, hf => by
      obtain ⟨f, rfl⟩ : ∃ g, f = g + 1 := ⟨f - 1, by simp [Json.size] at hf; omega⟩
      cases b <;> simp [parseVal, printVal, skipWs, jsonIsWs]
    | .str s, lvl, f, rest, hf => by
      obtain ⟨f, rfl⟩ : ∃ g, f = g + 1 := ⟨f - 1, by simp [Json.size] at hf; omega⟩
      have e : printVal enc ind lvl (.str s) ++ rest = '"' :: (enc s ++ '"' :: rest) := by
        simp [printVal, strLit]
      rw [e]
      exact parseVal_str f _ s rest (parseStrBody_strLit enc henc s rest)
    | .arr .nil, _, f, rest, hf => by
      obtain ⟨f, rfl⟩ : ∃ g, f = g + 1 := ⟨f - 1, by simp [Json.size] at hf; omega⟩
      simpa [printVal, printElems] using parseVal_arr_nil f rest
    | .arr (.cons h t), lvl, f, rest, hf => by
      simp only [Json.size, JList.size] at hf
      obtain ⟨f, rfl⟩ : ∃ g, f = g + 2 := ⟨f - 2, by omega⟩
      obtain ⟨c, tl, hc, hvh⟩ := printVal_head enc ind (lvl + 1) h
      have e : printVal enc ind lvl (.arr (.cons h t)) ++ rest
          = '[' :: ((nlInd ind (lvl + 1) ++ printVal enc ind (lvl + 1) h)
              ++ (printElems enc ind lvl false t ++ ']' :: rest)) := by
        simp [printVal, printElems]
      rw [e]
      have hs : skipWs ((nlInd ind (lvl + 1) ++ printVal enc ind (lvl + 1) h)
              ++ (printElems enc ind lvl false t ++ ']' :: rest))
            = c :: (tl ++ (printElems enc ind lvl false t ++ ']' :: rest)) := by
        rw [List.append_assoc, skipWs_allWs _ _ (nlInd_allWs ind (lvl + 1)), hc]
        exact skipWs_cons c _ hvh.notWs
      have he : parseElems (f + 1) ((nlInd ind (lvl + 1) ++ printVal enc ind (lvl + 1) h)
              ++ (printElems enc ind lvl false t ++ ']' :: rest)) = some (.cons h t, rest) := by
        refine parseElems_print enc henc ind t lvl f rest _ h (by omega) ?_
        intro s
        rw [List.append_assoc, parseVal_ws _ _ _ (nlInd_allWs ind (lvl + 1))]
        exact parseVal_print enc henc ind h (lvl + 1) f s (by omega)
      exact parseVal_arr (f + 1) _ _ c _ _ hs hvh.ne_rbracket he
    | .obj .nil, _, f, rest, hf => by
      obtain ⟨f, rfl⟩ : ∃ g, f = g + 1 := ⟨f - 1, by simp [Json.size] at hf; omega⟩
      simpa [printVal, printMems] using parseVal_obj_nil f rest
    | .obj (.cons k v t), lvl, f, rest, hf => by
      simp only [Json.size, JMems.size] at hf
      obtain ⟨f, rfl⟩ : ∃ g, f = g + 2 := ⟨f - 2, by omega⟩
      have e : printVal enc ind lvl (.obj (.cons k v t)) ++ rest
          = '{' :: (nlInd ind (lvl + 1) ++ '"' :: (enc k ++ '"' :: ':' :: ' ' :: (printVal enc ind (lvl + 1) v
              ++ (printMems enc ind lvl false t ++ '}' :: rest)))) := by
        simp [printVal, printMems, strLit]
      rw [e]
      have hs : skipWs (nlInd ind (lvl + 1) ++ '"' :: (enc k ++ '"' :: ':' :: ' ' :: (printVal enc ind (lvl + 1) v
              ++ (printMems enc ind lvl false t ++ '}' :: rest))))
            = '"' :: (enc k ++ '"' :: ':' :: ' ' :: (printVal enc ind (lvl + 1) v
              ++ (printMems enc ind lvl false t ++ '}' :: rest))) := by
        rw [skipWs_allWs _ _ (nlInd_allWs ind (lvl + 1))]
        exact skipWs_cons _ _ (by decide)
      have he := parseMems_print enc henc ind t lvl f rest (nlInd ind (lvl + 1)) k v
        (nlInd_allWs ind (lvl + 1)) (by omega)
        (fun s => parseVal_print enc henc ind v (lvl + 1) f s (by omega))
      exact parseVal_obj (f + 1) _ _ '"' _ _ hs (by decide) he
  /-- the rest of a non-empty array after its first element `v` (whose text is `H`) -/
  theorem parseElems_print (enc : Str → Str) (henc : BodyOK enc) (ind : Option Nat) :
      ∀ (t : JList) (lvl f : Nat) (rest H : Str) (v : Json), t.size ≤ f →
        (∀ s, parseVal f (H ++ s) = some (v, s)) →
        parseElems (f + 1) (H ++ (printElems enc ind lvl false t ++ ']' :: rest)) = some (.cons v t, rest)
    | .nil, lvl, f, rest, H, v, _, hv => by
      refine parseElems_last f _ _ rest v (hv _) ?_
      show skipWs (nlInd ind lvl ++ ']' :: rest) = ']' :: rest
      rw [skipWs_allWs _ _ (nlInd_allWs ind lvl)]
      exact skipWs_cons _ _ (by decide)
    | .cons h' t', lvl, f, rest, H, v, hf, hv => by
      simp only [JList.size] at hf
      obtain ⟨f, rfl⟩ : ∃ g, f = g + 1 := ⟨f - 1, by omega⟩
      have e : printElems enc ind lvl false (.cons h' t') ++ ']' :: rest
          = ',' :: ((sepWs ind (lvl + 1) ++ printVal enc ind (lvl + 1) h')
              ++ (printElems enc ind lvl false t' ++ ']' :: rest)) := by
        simp [printElems, itemSep_eq]
      rw [e]
      refine parseElems_more (f + 1) _ _ _ rest v (.cons h' t') (hv _) (skipWs_cons _ _ (by decide)) ?_
      refine parseElems_print enc henc ind t' lvl f rest _ h' (by omega) ?_
      intro s
      rw [List.append_assoc, parseVal_ws _ _ _ (sepWs_allWs ind (lvl + 1))]
      exact parseVal_print enc henc ind h' (lvl + 1) f s (by omega)
  /-- a non-empty object from its first member `k: v` on (preceded by whitespace `pre`) -/
  theorem parseMems_print (enc : Str → Str) (henc : BodyOK enc) (ind : Option Nat) :
      ∀ (t : JMems) (lvl f : Nat) (rest pre k : Str) (v : Json), AllWs pre → t.size ≤ f →
        (∀ s, parseVal f (printVal enc ind (lvl + 1) v ++ s) = some (v, s)) →
        parseMems (f + 1) (pre ++ '"' :: (enc k ++ '"' :: ':' :: ' ' :: (printVal enc ind (lvl + 1) v
          ++ (printMems enc ind lvl false t ++ '}' :: rest)))) = some (.cons k v t, rest)
    | .nil, lvl, f, rest, pre, k, v, hpre, _, hv => by
      have h0 : skipWs (pre ++ '"' :: (enc k ++ '"' :: ':' :: ' ' :: (printVal enc ind (lvl + 1) v
          ++ (printMems enc ind lvl false .nil ++ '}' :: rest))))
          = '"' :: (enc k ++ '"' :: ':' :: ' ' :: (printVal enc ind (lvl + 1) v
          ++ (printMems enc ind lvl false .nil ++ '}' :: rest))) := by
        rw [skipWs_allWs _ _ hpre]; exact skipWs_cons _ _ (by decide)
      have hk := parseStrBody_strLit enc henc k (':' :: ' ' :: (printVal enc ind (lvl + 1) v
          ++ (printMems enc ind lvl false .nil ++ '}' :: rest)))
      have hc : skipWs (':' :: ' ' :: (printVal enc ind (lvl + 1) v
          ++ (printMems enc ind lvl false .nil ++ '}' :: rest)))
          = ':' :: ' ' :: (printVal enc ind (lvl + 1) v
          ++ (printMems enc ind lvl false .nil ++ '}' :: rest)) := skipWs_cons _ _ (by decide)
      have hv' : parseVal f (' ' :: (printVal enc ind (lvl + 1) v
          ++ (printMems enc ind lvl false .nil ++ '}' :: rest)))
          = some (v, printMems enc ind lvl false .nil ++ '}' :: rest) := by
        have := parseVal_ws f [' '] (printVal enc ind (lvl + 1) v
          ++ (printMems enc ind lvl false .nil ++ '}' :: rest)) allWs_space
        simp only [List.cons_append, List.nil_append] at this
        rw [this]; exact hv _
      have he : skipWs (printMems enc ind lvl false .nil ++ '}' :: rest) = '}' :: rest := by
        show skipWs (nlInd ind lvl ++ '}' :: rest) = '}' :: rest
        rw [skipWs_allWs _ _ (nlInd_allWs ind lvl)]
        exact skipWs_cons _ _ (by decide)
      exact parseMems_last f _ _ _ _ _ _ k v h0 hk hc hv' he
    | .cons k' v' t', lvl, f, rest, pre, k, v, hpre, hf, hv => by
      simp only [JMems.size] at hf
      obtain ⟨f, rfl⟩ : ∃ g, f = g + 1 := ⟨f - 1, by omega⟩
      have e : printMems enc ind lvl false (.cons k' v' t') ++ '}' :: rest
          = ',' :: (sepWs ind (lvl + 1) ++ '"' :: (enc k' ++ '"' :: ':' :: ' ' :: (printVal enc ind (lvl + 1) v'
              ++ (printMems enc ind lvl false t' ++ '}' :: rest)))) := by
        simp [printMems, itemSep_eq, strLit]
      rw [e]
      have h0 : skipWs (pre ++ '"' :: (enc k ++ '"' :: ':' :: ' ' :: (printVal enc ind (lvl + 1) v
          ++ ',' :: (sepWs ind (lvl + 1) ++ '"' :: (enc k' ++ '"' :: ':' :: ' ' :: (printVal enc ind (lvl + 1) v'
              ++ (printMems enc ind lvl false t' ++ '}' :: rest)))))))
          = '"' :: (enc k ++ '"' :: ':' :: ' ' :: (printVal enc ind (lvl + 1) v
          ++ ',' :: (sepWs ind (lvl + 1) ++ '"' :: (enc k' ++ '"' :: ':' :: ' ' :: (printVal enc ind (lvl + 1) v'
              ++ (printMems enc ind lvl false t' ++ '}' :: rest)))))) := by
        rw [skipWs_allWs _ _ hpre]; exact skipWs_cons _ _ (by decide)
      have hk := parseStrBody_strLit enc henc k (':' :: ' ' :: (printVal enc ind (lvl + 1) v
          ++ ',' :: (sepWs ind (lvl + 1) ++ '"' :: (enc k' ++ '"' :: ':' :: ' ' :: (printVal enc ind (lvl + 1) v'
              ++ (printMems enc ind lvl false t' ++ '}' :: rest))))))
      have hc : skipWs (':' :: ' ' :: (printVal enc ind (lvl + 1) v
          ++ ',' :: (sepWs ind (lvl + 1) ++ '"' :: (enc k' ++ '"' :: ':' :: ' ' :: (printVal enc ind (lvl + 1) v'
              ++ (printMems enc ind lvl false t' ++ '}' :: rest))))))
          = ':' :: ' ' :: (printVal enc ind (lvl + 1) v
          ++ ',' :: (sepWs ind (lvl + 1) ++ '"' :: (enc k' ++ '"' :: ':' :: ' ' :: (printVal enc ind (lvl + 1) v'
              ++ (printMems enc ind lvl false t' ++ '}' :: rest))))) := skipWs_cons _ _ (by decide)
      have hv' : parseVal (f + 1) (' ' :: (printVal enc ind (lvl + 1) v
          ++ ',' :: (sepWs ind (lvl + 1) ++ '"' :: (enc k' ++ '"' :: ':' :: ' ' :: (printVal enc ind (lvl + 1) v'
              ++ (printMems enc ind lvl false t' ++ '}' :: rest))))))
          = some (v, ',' :: (sepWs ind (lvl + 1) ++ '"' :: (enc k' ++ '"' :: ':' :: ' ' :: (printVal enc ind (lvl + 1) v'
              ++ (printMems enc ind lvl false t' ++ '}' :: rest))))) := by
        have := parseVal_ws (f + 1) [' '] (printVal enc ind (lvl + 1) v
          ++ ',' :: (sepWs ind (lvl + 1) ++ '"' :: (enc k' ++ '"' :: ':' :: ' ' :: (printVal enc ind (lvl + 1) v'
              ++ (printMems enc ind lvl false t' ++ '}' :: rest))))) allWs_space
        simp only [List.cons_append, List.nil_append] at this
        rw [this]; exact hv _
      have he : skipWs (',' :: (sepWs ind (lvl + 1) ++ '"' :: (enc k' ++ '"' :: ':' :: ' ' :: (printVal enc ind (lvl + 1) v'
              ++ (printMems enc ind lvl false t' ++ '}' :: rest)))))
          = ',' :: (sepWs ind (lvl + 1) ++ '"' :: (enc k' ++ '"' :: ':' :: ' ' :: (printVal enc ind (lvl + 1) v'
              ++ (printMems enc ind lvl false t' ++ '}' :: rest)))) := skipWs_cons _ _ (by decide)
      have hm := parseMems_print enc henc ind t' lvl f rest (sepWs ind (lvl + 1)) k' v'
        (sepWs_allWs ind (lvl + 1)) (by omega)
        (fun s => parseVal_print enc henc ind v' (lvl + 1) f s (by omega))
      exact parseMems_more (f + 1) _ _ _ _ _ _ _ k v (.cons k' v' t') h0 hk hc hv' he hm
end

/-- `json.loads(json.dumps(v, indent=ind)) == v`, generic in the string-body encoder -/
theorem jsonParse_printVal (enc : Str → Str) (henc : BodyOK enc) (ind : Option Nat) (v : Json) :
    jsonParse (printVal enc ind 0 v) = some v := by
  have h := parseVal_print enc henc ind v 0 ((printVal enc ind 0 v).length + 1) []
    (by have := size_le_printVal enc ind v 0; omega)
  simp only [List.append_nil] at h
  simp [jsonParse, h, skipWs]

end HtmlVerif
