/-
save_html on the actual document model (htmltools/_core.py):

  HTMLDocument.save_html   1122-1149   `rendered = self.render(lib_prefix=libdir, include_version=…)`; copy every
                                       `rendered["dependencies"]` to `dirname(file)[/libdir]`; write `rendered["html"]`;
                                       `return file`
  Tag.save_html            936-959     `HTMLDocument(self).save_html(file, libdir=…, include_version=…)`
  TagList.save_html        358-381     the same

`Model/FS.lean` has `saveHtml` over an abstract `render`; here `render` *is* `Doc.docRender` of the stored content
(Model/Document.lean), so that the markup written to the file and the dependencies copied come from one rendering.
-/
import HtmlVerif.Model.Document
import HtmlVerif.Model.FS

namespace HtmlVerif

/-- the `HTMLDependency` a node is, if it is one -/
def depInfoOf : Node → Option DepInfo
  | .dep i _ _ => some i
  | _ => none

/-- `rendered["dependencies"]` as the copier sees them -/
def depInfos (ds : List Node) : List DepInfo := ds.filterMap depInfoOf

/-- `self.render(lib_prefix=lp, include_version=iv)` of `HTMLDocument(*content, **kw)` as a `RenderedHTML`
    (only evaluated where `docRender` succeeds) -/
def docFs (cfg : Cfg) (content : Nodes) (kw : List (Str × AttrArg)) (lp : Option Str) (iv : Bool) : FsRendered :=
  match Doc.docRender cfg content kw lp iv with
  | .ok r => { html := r.html, deps := depInfos r.deps }
  | .error _ => { html := [], deps := [] }

/-- `HTMLDocument(*content, **kw).save_html(file, libdir, include_version)`: an exception of `render()`
    propagates before anything is touched -/
def saveDoc (cfg : Cfg) (content : Nodes) (kw : List (Str × AttrArg)) (file fileAbs : Str) (libdir : Option Str)
    (iv : Bool) (fs : FS) : FS × Except Err Str :=
  match Doc.docRender cfg content kw libdir iv with
  | .error e => (fs, .error e)
  | .ok _ => saveHtml (docFs cfg content kw) file fileAbs libdir iv fs

/-- the three classes that offer `save_html`, each with what it holds -/
inductive Receiver
  | document (content : Nodes) (kw : List (Str × AttrArg))   -- `HTMLDocument(*content, **kw)`
  | tag (t : Node)                                            -- a `Tag`
  | tagList (items : Nodes)                                   -- a `TagList`

/-- the stored content and html attributes of the document that does the saving:
    `HTMLDocument(self)` stores `TagList(self)` — the tag itself, resp. the list's items (flattened) — and has
    no html attributes -/
def Receiver.doc : Receiver → Nodes × List (Str × AttrArg)
  | .document c kw => (c, kw)
  | .tag t => (.cons t .nil, [])
  | .tagList items => (items, [])

/-- `x.save_html(file, libdir, include_version)` for any receiver -/
def saveOn (cfg : Cfg) (recv : Receiver) (file fileAbs : Str) (libdir : Option Str) (iv : Bool) (fs : FS) :
    FS × Except Err Str :=
  saveDoc cfg recv.doc.1 recv.doc.2 file fileAbs libdir iv fs

end HtmlVerif
