/-
Helper lemmas for C12 about the byte-level path algebra of Model/Paths.lean.
-/
import HtmlVerif.Model.Paths

namespace HtmlVerif

/-! ### hex digits and single bytes -/

theorem hexDigitVal_hexUp : ∀ n, n < 16 → hexDigitVal (hexUp n) = some n := by decide

theorem safe_byte_facts : ∀ n, n < 256 → isSafeN n = true →
    Char.ofNat n ≠ '%' ∧ utf8Char (Char.ofNat n) = [n.toUInt8] := by decide +kernel

theorem unquoteB_cons_ne {c : Char} (h : c ≠ '%') (r : Str) :
    unquoteB (c :: r) = utf8Char c ++ unquoteB r := by
  match r with
  | [] => simp [unquoteB, h]
  | [a] => simp [unquoteB, h]
  | a :: b :: r' => simp [unquoteB, h]

theorem unquoteB_pct {a b : Char} {x y : Nat} (hx : hexDigitVal a = some x) (hy : hexDigitVal b = some y)
    (r : Str) : unquoteB ('%' :: a :: b :: r) = (x * 16 + y).toUInt8 :: unquoteB r := by
  simp [unquoteB, hx, hy]

theorem unquoteB_quoteByte (b : UInt8) (r : Str) : unquoteB (quoteByte b ++ r) = b :: unquoteB r := by
  have hb : b.toNat < 256 := UInt8.toNat_lt b
  unfold quoteByte
  split
  · next hs =>
    have ⟨h1, h2⟩ := safe_byte_facts b.toNat hb hs
    simp only [List.cons_append, List.nil_append]
    rw [unquoteB_cons_ne h1, h2]
    simp
  · have h1 := hexDigitVal_hexUp (b.toNat / 16) (by omega)
    have h2 := hexDigitVal_hexUp (b.toNat % 16) (by omega)
    simp only [List.cons_append, List.nil_append]
    rw [unquoteB_pct h1 h2]
    have : b.toNat / 16 * 16 + b.toNat % 16 = b.toNat := by omega
    rw [this]
    simp

theorem quoteB_cons (b : UInt8) (bs : Bytes) : quoteB (b :: bs) = quoteByte b ++ quoteB bs := by
  simp [quoteB]

theorem unquoteB_quoteB (bs : Bytes) (r : Str) : unquoteB (quoteB bs ++ r) = bs ++ unquoteB r := by
  induction bs with
  | nil => simp [quoteB]
  | cons b bs ih => rw [quoteB_cons, List.append_assoc, unquoteB_quoteByte, ih]; simp

/-! ### what `quote` can emit -/

def isUnreservedC (c : Char) : Bool := isUnreservedN c.toNat

theorem safe_byte_char : ∀ n, n < 256 → isSafeN n = true →
    isUnreservedN (Char.ofNat n).toNat = true ∨ Char.ofNat n = '/' := by decide +kernel

theorem hexUp_unreserved : ∀ n, n < 16 → isUnreservedN (hexUp n).toNat = true := by decide

theorem quoteByte_inert (b : UInt8) : ∀ c ∈ quoteByte b, isUnreservedC c = true ∨ c = '/' ∨ c = '%' := by
  have hb : b.toNat < 256 := UInt8.toNat_lt b
  intro c hc
  unfold quoteByte at hc
  split at hc
  · next hs =>
    simp at hc; subst hc
    rcases safe_byte_char b.toNat hb hs with h | h
    · exact .inl h
    · exact .inr (.inl h)
  · simp at hc
    rcases hc with h | h | h
    · exact .inr (.inr h)
    · subst h; exact .inl (hexUp_unreserved _ (by omega))
    · subst h; exact .inl (hexUp_unreserved _ (by omega))

theorem quoteByte_head : ∀ n, n < 256 → n ≠ 0x2F → (quoteByte n.toUInt8).head? ≠ some '/' := by
  decide +kernel

theorem quoteB_head {bs : Bytes} (h : bs.head? ≠ some 0x2F) : (quoteB bs).head? ≠ some '/' := by
  match bs with
  | [] => simp [quoteB]
  | b :: r =>
    have hb : b.toNat < 256 := UInt8.toNat_lt b
    have hne : b.toNat ≠ 0x2F := by
      intro he; apply h
      have : b = 0x2F := UInt8.toNat.inj (by simpa using he)
      simp [this]
    have := quoteByte_head b.toNat hb hne
    simp only [Nat.toUInt8_eq, UInt8.ofNat_toNat] at this
    rw [quoteB_cons]
    unfold quoteByte at this ⊢
    split <;> simp_all

/-! ### UTF-8 -/

theorem utf8_append (a b : Str) : utf8 (a ++ b) = utf8 a ++ utf8 b := by simp [utf8]

theorem utf8_cons (c : Char) (s : Str) : utf8 (c :: s) = utf8Char c ++ utf8 s := by simp [utf8]

theorem utf8Char_slash : utf8Char '/' = [0x2F] := by decide

theorem utf8_slash_cons (s : Str) : utf8 ('/' :: s) = 0x2F :: utf8 s := by
  rw [utf8_cons, utf8Char_slash]; rfl

theorem unquoteB_append_noPct (s t : Str) (h : ∀ c ∈ s, c ≠ '%') :
    unquoteB (s ++ t) = utf8 s ++ unquoteB t := by
  induction s with
  | nil => simp [utf8]
  | cons c s ih =>
    have hc : c ≠ '%' := h c (by simp)
    rw [List.cons_append, unquoteB_cons_ne hc, ih (fun x hx => h x (by simp [hx])), utf8_cons]
    simp

theorem unquoteB_nil : unquoteB [] = [] := by simp [unquoteB]

/-! ### splitting on `/` -/

theorem splitSlash_ne_nil (bs : Bytes) : splitSlash bs ≠ [] := by
  induction bs with
  | nil => simp [splitSlash]
  | cons b r ih =>
    unfold splitSlash
    split
    · simp
    · split <;> simp

theorem splitSlash_append_slash (a b : Bytes) :
    splitSlash (a ++ 0x2F :: b) = splitSlash a ++ splitSlash b := by
  induction a with
  | nil => simp [splitSlash]
  | cons x a ih =>
    by_cases hx : x = 0x2F
    · simp [splitSlash, hx, ih]
    · have h1 := splitSlash_ne_nil a
      simp only [List.cons_append, splitSlash, hx, if_false, ih]
      cases hs : splitSlash a with
      | nil => exact absurd hs h1
      | cons h t => simp

theorem segs_append_slash (a b : Bytes) : segs (a ++ 0x2F :: b) = segs a ++ segs b := by
  simp [segs, splitSlash_append_slash]

theorem segs_nil : segs [] = [] := by simp [segs, splitSlash]

theorem segs_append_slash_nil (a : Bytes) : segs (a ++ [0x2F]) = segs a := by
  rw [segs_append_slash, segs_nil]; simp

theorem splitSlash_noSlash (s : Bytes) (h : ∀ x ∈ s, x ≠ 0x2F) : splitSlash s = [s] := by
  induction s with
  | nil => simp [splitSlash]
  | cons x s ih =>
    have hx : x ≠ 0x2F := h x (by simp)
    simp [splitSlash, hx, ih (fun y hy => h y (by simp [hy]))]

theorem segs_single (s : Bytes) (h : ∀ x ∈ s, x ≠ 0x2F) (hne : s ≠ []) : segs s = [s] := by
  simp [segs, splitSlash_noSlash s h, hne]

/-! ### posixpath.join -/

theorem posixJoin_abs {a b : Str} (h : b.head? = some '/') : posixJoin a b = b := by
  simp [posixJoin, h]

theorem posixJoin_empty {b : Str} : posixJoin [] b = b := by
  unfold posixJoin; split <;> simp

theorem posixJoin_slash {a b : Str} (hb : b.head? ≠ some '/') (ha : a.getLast? = some '/') :
    posixJoin a b = a ++ b := by
  simp [posixJoin, hb, ha]

theorem posixJoin_plain {a b : Str} (hb : b.head? ≠ some '/') (ha : a ≠ []) (ha' : a.getLast? ≠ some '/') :
    posixJoin a b = a ++ '/' :: b := by
  simp [posixJoin, hb, ha, ha']

theorem eq_dropLast_of_getLast? {a : Str} {c : Char} (h : a.getLast? = some c) : a = a.dropLast ++ [c] := by
  have hne : a ≠ [] := by intro h0; simp [h0] at h
  have h1 := List.dropLast_concat_getLast hne
  rw [List.getLast?_eq_some_getLast hne] at h
  simp at h
  rw [← h]; exact h1.symm

/-- the components of a joined path are those of the two parts -/
theorem segs_utf8_posixJoin (a b : Str) (hb : b.head? ≠ some '/') :
    segs (utf8 (posixJoin a b)) = segs (utf8 a) ++ segs (utf8 b) := by
  by_cases ha : a = []
  · subst ha; simp [posixJoin_empty, utf8, segs_nil]
  by_cases hl : a.getLast? = some '/'
  · rw [posixJoin_slash hb hl]
    have := eq_dropLast_of_getLast? hl
    generalize a.dropLast = a' at this
    subst this
    have e0 : utf8 ['/'] = [0x2F] := by decide
    have e1 : utf8 ((a' ++ ['/']) ++ b) = utf8 a' ++ 0x2F :: utf8 b := by
      rw [utf8_append, utf8_append, e0]; simp
    have e2 : utf8 (a' ++ ['/']) = utf8 a' ++ [0x2F] := by rw [utf8_append, e0]
    rw [e1, e2, segs_append_slash, segs_append_slash_nil]
  · rw [posixJoin_plain hb ha hl, utf8_append, utf8_slash_cons, segs_append_slash]

/-- percent-decoding a joined URL whose left part has no `%`: the same bytes as the joined *unquoted* path -/
theorem unquoteB_posixJoin_quote (base p : Str) (hbase : ∀ c ∈ base, c ≠ '%')
    (hp : (utf8 p).head? ≠ some 0x2F) :
    unquoteB (posixJoin base (quote p)) = utf8 (posixJoin base p) := by
  have hq : (quote p).head? ≠ some '/' := quoteB_head hp
  have hp' : p.head? ≠ some '/' := by
    intro h
    match p, h with
    | c :: r, h => simp at h; subst h; rw [utf8_slash_cons] at hp; simp at hp
  have hdec : ∀ t : Str, unquoteB (quote p ++ t) = utf8 p ++ unquoteB t := fun t => unquoteB_quoteB _ _
  have hdec0 : unquoteB (quote p) = utf8 p := by simpa [unquoteB_nil] using hdec []
  by_cases ha : base = []
  · subst ha; simp [posixJoin_empty, hdec0]
  by_cases hl : base.getLast? = some '/'
  · rw [posixJoin_slash hq hl, posixJoin_slash hp' hl, unquoteB_append_noPct _ _ hbase, hdec0, utf8_append]
  · rw [posixJoin_plain hq ha hl, posixJoin_plain hp' ha hl, unquoteB_append_noPct _ _ hbase,
      unquoteB_cons_ne (by decide), utf8Char_slash, hdec0, utf8_append, utf8_slash_cons]
    simp

end HtmlVerif
