/-
Tree building, renderer-free:
  buildGo_mergeAcc : building from the merged token list = building from the unmerged one
  buildN           : a machine that builds the *normalised* forest directly
  buildGo_norm     : (buildGo ts …).map normalise = buildN ts …   when every text token decodes compositionally
  buildN_congr     : leading whitespace of the pending text run is irrelevant
-/
import HtmlVerif.Lemmas.HtmlTokenize
import HtmlVerif.Lemmas.HtmlEscape

namespace HtmlVerif

/-! ### merging is invisible to `build` -/

theorem buildGo_flushTok (p : Str) (ts : List Tok) (cur : List PTree) (st : List Frame) :
    buildGo (flushTok p ++ ts) [] cur st = buildGo ts p cur st := by
  unfold flushTok
  by_cases hp : p = []
  · simp [hp]
  · simp [hp, buildGo]

theorem buildGo_mergeAcc (ts : List Tok) (p : Str) (cur : List PTree) (st : List Frame) :
    buildGo (mergeAcc p ts) [] cur st = buildGo ts p cur st := by
  induction ts generalizing p cur st with
  | nil => simpa [mergeAcc] using buildGo_flushTok p [] cur st
  | cons t r ih =>
    cases t with
    | text s => simp [mergeAcc, buildGo, ih]
    | stag n a sc =>
      simp only [mergeAcc, buildGo_flushTok]
      cases sc <;> simp [buildGo, ih]
    | etag n =>
      simp only [mergeAcc, buildGo_flushTok]
      cases st with
      | nil => simp [buildGo]
      | cons fr st' => simp [buildGo, ih]

theorem build_mergeText (ts : List Tok) : build (mergeText ts) = build ts :=
  buildGo_mergeAcc ts [] [] []

/-! ### normalisation is compositional -/

@[simp] theorem normList_nil : PTree.normList [] = [] := by simp [PTree.normList]
@[simp] theorem normList_cons (t : PTree) (ts : List PTree) :
    PTree.normList (t :: ts) = t.norm ++ PTree.normList ts := by simp [PTree.normList]

theorem normList_append (a b : List PTree) :
    PTree.normList (a ++ b) = PTree.normList a ++ PTree.normList b := by
  induction a with
  | nil => simp
  | cons x xs ih => simp [ih]

theorem norm_text (s : Str) : (PTree.text s).norm = textNode (decodeRefs s) := by
  simp [PTree.norm, textNode]

theorem norm_elem (n : Str) (a : List (Str × Str)) (sc : Bool) (ks : List PTree) :
    (PTree.elem n a sc ks).norm = [.elem n (decodeAttrs a) sc (PTree.normList ks)] := by
  simp [PTree.norm]

theorem norm_reverse (t : PTree) : t.norm.reverse = t.norm := by
  cases t with
  | text s => rw [norm_text]; unfold textNode; split <;> simp
  | elem n a sc ks => simp [norm_elem]

theorem normList_reverse (a : List PTree) : PTree.normList a.reverse = (PTree.normList a).reverse := by
  induction a with
  | nil => simp
  | cons x xs ih => simp [normList_append, ih, norm_reverse]

/-! ### the normalising machine -/

def flushN (pd : Str) (cur : List PTree) : List PTree := textNode pd ++ cur

def Frame.normF (fr : Frame) : Frame := ⟨fr.name, decodeAttrs fr.attrs, PTree.normList fr.sibs⟩

/-- like `buildGo`, but the pending run `pd` is already decoded, attributes are decoded on arrival,
    and text runs are trimmed (and dropped when empty) when they are closed -/
def buildN : List Tok → Str → List PTree → List Frame → Option (List PTree)
  | [], pd, cur, [] => some (flushN pd cur).reverse
  | [], _, _, _ :: _ => none
  | .text s :: ts, pd, cur, st => buildN ts (pd ++ decodeRefs s) cur st
  | .stag n as true :: ts, pd, cur, st => buildN ts [] (.elem n (decodeAttrs as) true [] :: flushN pd cur) st
  | .stag n as false :: ts, pd, cur, st => buildN ts [] [] (⟨n, decodeAttrs as, flushN pd cur⟩ :: st)
  | .etag _ :: _, _, _, [] => none
  | .etag n :: ts, pd, cur, fr :: st =>
    if fr.name = n then buildN ts [] (.elem n fr.attrs false (flushN pd cur).reverse :: fr.sibs) st
    else none

/-- a stretch of markup text whose decoding does not depend on what follows -/
def Closed (s : Str) : Prop := ∀ r, decodeRefs (s ++ r) = decodeRefs s ++ decodeRefs r

theorem closed_nil : Closed [] := by intro r; simp [decodeRefs, decodeGo]

theorem closed_append {a b : Str} (ha : Closed a) (hb : Closed b) : Closed (a ++ b) := by
  intro r
  rw [List.append_assoc, ha, hb, ha, List.append_assoc]

theorem closed_of_decodes {x y : Str} (h : ∀ r, decodeRefs (x ++ r) = y ++ decodeRefs r) : Closed x := by
  intro r
  have h0 := h []
  simp only [List.append_nil] at h0
  have hnil : decodeRefs [] = [] := by simp [decodeRefs, decodeGo]
  rw [h r, h0, hnil, List.append_nil]

def Tok.closed : Tok → Prop
  | .text s => Closed s
  | _ => True

theorem normList_flushT (p : Str) (cur : List PTree) :
    PTree.normList (flushT p cur) = flushN (decodeRefs p) (PTree.normList cur) := by
  unfold flushT flushN
  by_cases hp : p = []
  · subst hp
    have : decodeRefs [] = [] := by simp [decodeRefs, decodeGo]
    simp [this, textNode, trimWs]
  · simp [hp, norm_text]

theorem buildGo_norm (ts : List Tok) (p : Str) (cur : List PTree) (st : List Frame)
    (hp : Closed p) (hts : ∀ t ∈ ts, t.closed) :
    (buildGo ts p cur st).map normalise
      = buildN ts (decodeRefs p) (PTree.normList cur) (st.map Frame.normF) := by
  induction ts generalizing p cur st with
  | nil =>
    cases st with
    | nil => simp [buildGo, buildN, normalise, normList_reverse, normList_flushT]
    | cons fr st' => simp [buildGo, buildN]
  | cons t r ih =>
    have hr : ∀ t ∈ r, t.closed := fun x hx => hts x (by simp [hx])
    have ht := hts t (by simp)
    have hnil : decodeRefs [] = [] := by simp [decodeRefs, decodeGo]
    cases t with
    | text s =>
      have hs : Closed s := ht
      have h1 := ih (p ++ s) cur st (closed_append hp hs) hr
      have h2 : decodeRefs (p ++ s) = decodeRefs p ++ decodeRefs s := by
        have := hp s; simpa using this
      simp only [buildGo, buildN, h1, h2]
    | stag n a sc =>
      cases sc
      · have h1 := ih [] [] (⟨n, a, flushT p cur⟩ :: st) closed_nil hr
        simp only [buildGo, buildN, h1, hnil]
        simp [Frame.normF, normList_flushT]
      · have h1 := ih [] (.elem n a true [] :: flushT p cur) st closed_nil hr
        simp only [buildGo, buildN, h1, hnil]
        simp [norm_elem, normList_flushT]
    | etag n =>
      cases st with
      | nil => simp [buildGo, buildN]
      | cons fr st' =>
        by_cases hn : fr.name = n
        · have h1 := ih [] (.elem n fr.attrs false (flushT p cur).reverse :: fr.sibs) st' closed_nil hr
          simp only [buildGo, buildN, hn, if_true, h1, hnil, List.map_cons, Frame.normF]
          simp [norm_elem, normList_flushT, normList_reverse]
        · simp [buildGo, buildN, hn, Frame.normF]

/-! ### leading whitespace of the pending run does not matter -/

theorem flushN_congr {a b : Str} (h : a.dropWhile isWs = b.dropWhile isWs) (cur : List PTree) :
    flushN a cur = flushN b cur := by
  simp [flushN, textNode, trimWs_congr h]

theorem buildN_congr (ts : List Tok) (a b : Str) (h : a.dropWhile isWs = b.dropWhile isWs)
    (cur : List PTree) (st : List Frame) : buildN ts a cur st = buildN ts b cur st := by
  induction ts generalizing a b cur st with
  | nil =>
    cases st with
    | nil => simp [buildN, flushN_congr h]
    | cons fr st' => simp [buildN]
  | cons t r ih =>
    cases t with
    | text s => simp only [buildN]; exact ih _ _ (lstrip_congr_append h _) cur st
    | stag n a' sc => cases sc <;> simp [buildN, flushN_congr h]
    | etag n =>
      cases st with
      | nil => simp [buildN]
      | cons fr st' => simp [buildN, flushN_congr h]

/-- trailing whitespace of a run that is being closed does not matter -/
theorem flushN_append_ws (s w : Str) (hw : wsOnly w = true) (cur : List PTree) :
    flushN (s ++ w) cur = flushN s cur := by
  simp [flushN, textNode, trimWs_append_ws s w hw]

end HtmlVerif
