/-
Source tie (DESIGN §14) for the renderer on the embedding `embT` and the globals of the C11 tie — Props/SrcRender.lean with
`embT tv` in place of `embNode` and `globalsC11 cfg f` in place of `globalsOf cfg` (see Lemmas/SrcRenderC11.lean for why).
Used by `src_Tag_renderC11` / `src_HTMLDocument_renderC11` (Props/SrcC11.lean).  The proofs are those of Props/SrcRender.lean;
no loop body is spelled out.
-/
import HtmlVerif.Generated.Src
import HtmlVerif.Lemmas.SrcRenderC11
import HtmlVerif.Props.SrcEscape

set_option linter.unusedVariables false
set_option linter.unusedSimpArgs false

namespace HtmlVerif.SrcTie
open HtmlVerif HtmlVerif.Py HtmlVerif.Generated.Src

theorem globalsC11_void (cfg : Cfg) (af : PVal → PVal → PVal → PyM PVal) : (globalsC11 cfg af).VOID_TAG_NAMES = cfg.void := rfl
theorem globalsC11_noesc (cfg : Cfg) (af : PVal → PVal → PVal → PyM PVal) : (globalsC11 cfg af).NO_ESCAPE_TAG_NAMES = cfg.noesc := rfl

/-- `html_escape` / `_normalize_text` do not consult `asHtmlTagsC11`: their ties hold for the globals of the C11 tie -/
theorem src_html_escapeC11 (h : html_escape_available = true) (cfg : Cfg) (af : PVal → PVal → PVal → PyM PVal)
    (ht : keysPlain cfg.textTbl = true) (ha : keysPlain cfg.attrTbl = true) (s : Str) (attr : Bool) :
    html_escape (globalsC11 cfg af) (.str s) (.bool attr)
      = .ok (.str (htmlEscapeT (if attr then cfg.attrTbl else cfg.textTbl) s)) :=
  (rfl : html_escape (globalsC11 cfg af) (.str s) (.bool attr) = html_escape (globalsOf cfg) (.str s) (.bool attr)).trans
    (src_html_escape h cfg ht ha s attr)

theorem src_normalize_textC11 (h : normalize_text_available = true) (h1 : html_escape_available = true)
    (h2 : HTML_as_string_available = true) (cfg : Cfg) (af : PVal → PVal → PVal → PyM PVal)
    (ht : keysPlain cfg.textTbl = true) (ha : keysPlain cfg.attrTbl = true) (s : Str) (isHtml : Bool) :
    normalize_text (globalsC11 cfg af) (if isHtml then .html s else .str s)
      = .ok (.str (if isHtml then s else escText cfg s)) :=
  (rfl : normalize_text (globalsC11 cfg af) (if isHtml then .html s else .str s)
      = normalize_text (globalsOf cfg) (if isHtml then .html s else .str s)).trans
    (src_normalize_text h h1 h2 cfg ht ha s isHtml)

/-- the child loop: given the tie for the tag children at this fuel -/
theorem src_taglist_stepC11 (h : TagList_get_html_string_available = true) (hn : normalize_text_available = true)
    (he : html_escape_available = true) (hs : HTML_as_string_available = true) (cfg : Cfg) (af : PVal → PVal → PVal → PyM PVal) (tv : Node → PVal) (ht : keysPlain cfg.textTbl = true) (ha : keysPlain cfg.attrTbl = true)
    (fuel : Nat) (ks : Nodes) (i : Nat) (eol : Str) (aw esc : Bool)
    (HP : ∀ c ∈ ks.toList, c.isTag = true → ∀ (j : Nat) (e : Str),
      Tag_get_html_string (globalsC11 cfg af) fuel (embT tv c) (.int j) (.str e)
        = if c.hasTobj then .error .runtimeError else .ok (.str (c.render cfg j e))) :
    TagList_get_html_string (globalsC11 cfg af) (fuel + 1) (.obj "TagList" [("data", .list (embTs tv ks))]) (.int i) (.str eol) (.bool aw) (.bool esc)
      = if ks.hasTobjKids then .error .runtimeError else .ok (.str (renderList cfg ks i eol aw esc)) := by
  first
  | exact absurd h (by decide)
  | skip
  all_goals (
    rw [TagList_get_html_string]
    simp only [ok_bind, pure_eq_ok, truthy_bool]
    have hiter : pyIter (PVal.obj "TagList" [("data", PVal.list (embTs tv ks))]) = .ok (ks.toList.map (embT tv)) := by
      simp [pyIter, embTs_toList]
    rw [hiter]
    simp only [ok_bind]
    have hnt := fun s => src_normalize_textC11 hn he hs cfg af ht ha s false
    simp only [Bool.false_eq_true, if_false] at hnt
    refine child_loopC11 tv cfg ks i eol aw esc _ _ ?step
    case step =>
      intro c hc s b hR
      obtain ⟨s1, s2, s3, s4⟩ := s
      obtain ⟨acc, first, prev⟩ := b
      obtain ⟨h1, h2, h3⟩ := hR
      simp only at h1 h2 h3
      subst h1 h2 h3
      cases c with
      | mnode n =>
        rw [kidStep_mnode]
        exact Sim.yield_ok _ (by simp [embT, embDepFields, reprField, isInstance, classBases, RKS]; rfl) (by simp [RKS, leafStep])
      | dep d hh hd =>
        rw [kidStep_dep]
        exact Sim.yield_ok _ (by simp [embT, embDepFields, reprField, isInstance, classBases, RKS]; rfl) (by simp [RKS, leafStep])
      | text t =>
        rw [kidStep_text]
        cases first <;> cases prev <;> cases esc <;>
          exact Sim.yield_ok _ (by simp [embT, embDepFields, reprField, isInstance, builtinClasses, pyOr, pyAnd, pyGetAttr, pyMul_indent, pyAdd_str, hnt]; rfl) (by simp [RKS, leafStep])
      | html t =>
        rw [kidStep_html]
        cases first <;> cases prev <;>
          exact Sim.yield_ok _ (by simp [embT, embDepFields, reprField, isInstance, builtinClasses, classBases, pyOr, pyAnd, pyGetAttr, pyMul_indent, pyAdd_str,
            pyReprHtml, fieldGet?]; rfl) (by simp [RKS, leafStep])
      | robj t =>
        rw [kidStep_robj]
        cases first <;> cases prev <;>
          exact Sim.yield_ok _ (by simp [embT, embDepFields, reprField, isInstance, builtinClasses, classBases, pyOr, pyAnd, pyGetAttr, pyMul_indent, pyAdd_str,
            pyReprHtml, fieldGet?]; rfl) (by simp [RKS, leafStep])
      | tobjL rh cc =>
        cases rh with
        | none =>
          rw [kidStep_tobjL_none]
          cases first <;> cases prev <;> simp [embT, embDepFields, reprField, isInstance, builtinClasses, classBases, Sim, pyOr, pyAnd, pyGetAttr, fieldGet?, embErr, pyAdd_str]
        | some t =>
          rw [kidStep_tobjL_some]
          cases first <;> cases prev <;>
            exact Sim.yield_ok _ (by simp [embT, embDepFields, reprField, isInstance, builtinClasses, classBases, pyOr, pyAnd, pyGetAttr, pyMul_indent, pyAdd_str,
              pyReprHtml, fieldGet?]; rfl) (by simp [RKS, leafStep])
      | tobj1 rh cc =>
        cases rh with
        | none =>
          rw [kidStep_tobj1_none]
          cases first <;> cases prev <;> simp [embT, embDepFields, reprField, isInstance, builtinClasses, classBases, Sim, pyOr, pyAnd, pyGetAttr, fieldGet?, embErr, pyAdd_str]
        | some t =>
          rw [kidStep_tobj1_some]
          cases first <;> cases prev <;>
            exact Sim.yield_ok _ (by simp [embT, embDepFields, reprField, isInstance, builtinClasses, classBases, pyOr, pyAnd, pyGetAttr, pyMul_indent, pyAdd_str,
              pyReprHtml, fieldGet?]; rfl) (by simp [RKS, leafStep])
      | tag nm ws at' kk =>
        rw [kidStep_tag]
        have hp := HP _ hc rfl
        have hp0 : Tag_get_html_string (globalsC11 cfg af) fuel (embT tv (Node.tag nm ws at' kk)) (PVal.int 0) (PVal.str [])
            = if (Node.tag nm ws at' kk).hasTobj then .error .runtimeError
              else .ok (.str ((Node.tag nm ws at' kk).render cfg 0 [])) := hp 0 []
        have hcls : pyClassOf (embT tv (Node.tag nm ws at' kk)) = "Tag" := rfl
        have hws : pyGetAttr (embT tv (Node.tag nm ws at' kk)) "add_ws" = .ok (.bool ws) := by
          simp [embT, embDepFields, reprField, pyGetAttr, fieldGet?]
        have hit : isInstance (embT tv (Node.tag nm ws at' kk)) ["Tag"] = true := by simp [embT, embDepFields, reprField, isInstance]
        have him : isInstance (embT tv (Node.tag nm ws at' kk)) ["MetadataNode"] = false := by
          simp [embT, embDepFields, reprField, isInstance, classBases]
        by_cases hto : (Node.tag nm ws at' kk).hasTobj = true
        · simp only [hto, if_true] at hp hp0 ⊢
          cases first <;> cases prev <;> cases ws <;>
            simp [Sim, embErr, hp, hp0, hcls, hws, hit, him, pyOr, pyAnd, pyAdd_str]
        · simp only [hto, Bool.false_eq_true, if_false] at hp hp0 ⊢
          cases first <;> cases prev <;> cases ws <;>
            exact Sim.yield_ok _ (by simp [hp, hp0, hcls, hws, hit, him, pyOr, pyAnd, pyAdd_str]; rfl) (by simp [RKS, leafStep]))

/-- a tag: given the tie for its child list at this fuel -/
theorem src_tag_stepC11 (h : Tag_get_html_string_available = true) (hn : normalize_text_available = true)
    (he : html_escape_available = true) (hs : HTML_as_string_available = true) (cfg : Cfg) (af : PVal → PVal → PVal → PyM PVal) (tv : Node → PVal) (ht : keysPlain cfg.textTbl = true) (ha : keysPlain cfg.attrTbl = true)
    (fuel : Nat) (nm : Str) (ws : Bool) (at' : Attrs) (kk : Nodes) (i : Nat) (eol : Str)
    (HQ : ∀ (j : Nat) (e : Str) (aw esc : Bool),
      TagList_get_html_string (globalsC11 cfg af) fuel (.obj "TagList" [("data", .list (embTs tv kk))]) (.int j) (.str e) (.bool aw) (.bool esc)
        = if kk.hasTobjKids then .error .runtimeError else .ok (.str (renderList cfg kk j e aw esc))) :
    Tag_get_html_string (globalsC11 cfg af) (fuel + 1) (embT tv (.tag nm ws at' kk)) (.int i) (.str eol)
      = if (Node.tag nm ws at' kk).hasTobj then .error .runtimeError
        else .ok (.str ((Node.tag nm ws at' kk).render cfg i eol)) := by
  first
  | exact absurd h (by decide)
  | skip
  all_goals (
    rw [Tag_get_html_string]
    obtain ⟨g1, g2, g3, g4⟩ := getattr_tagC11 tv nm ws at' kk
    have hesc := fun x => src_html_escapeC11 he cfg af ht ha x true
    simp only [if_true] at hesc
    have hntT := fun s => src_normalize_textC11 hn he hs cfg af ht ha s false
    have hntH := fun s => src_normalize_textC11 hn he hs cfg af ht ha s true
    simp only [Bool.false_eq_true, if_false, if_true] at hntT hntH
    simp only [ok_bind, pure_eq_ok, truthy_bool, g1, g2, g3, g4, pyMul_indent, pyAdd_str, embAttrs, pyItems_dict, pyIter_list,
      List.map_map]
    refine attr_loop_k cfg at' (indentStr i ++ ['<'] ++ nm) _ _ (by simp [Function.comp_def]) _ ?hA _ _ ?hk
    case hA =>
      intro kv _ s b hs
      obtain ⟨k, v⟩ := kv
      obtain ⟨s1, s2⟩ := s
      simp only at hs; subst hs
      cases v <;> simp [isInstance, builtinClasses, hesc, pyConcat, attrText, emitAttrVal, pyAdd_str]
    case hk =>
      intro s hs
      obtain ⟨s1, s2⟩ := s
      simp only at hs; subst hs
      simp only [pyIter_taglist, embTs_toList, ok_bind]
      rw [vis_loopC11 tv kk _ (by intro c _ s; rw [isMetaT_embT tv]; cases c.isMeta <;> rfl)]
      simp only [ok_bind, pyLen, pure_eq_ok, List.length_map, pyIn_names, globalsC11_void, globalsC11_noesc, pyAdd_str]
      have hvis : (Node.tag nm ws at' kk).hasTobj = (if kk.visible.isEmpty then false else match inlineChild? kk.visible with
          | some _ => false
          | none => kk.hasTobjKids) := by rw [Node.hasTobj]; rfl
      rw [hvis, Node.render]
      cases hv : kk.visible with
      | nil =>
        by_cases hvoid : nm ∈ cfg.void <;>
          simp [hv, hvoid, pyEq, pyAnd, pyOr, truthy_list, openTag, closeTag, List.append_assoc]
      | cons c rest =>
        have hq := HQ (i + 1) eol ws (!cfg.noesc.contains nm)
        have hi1 : pyAdd (globalsC11 cfg af) (PVal.int ↑i) (PVal.int 1) = .ok (PVal.int ↑(i + 1)) := by
          simp [pyAdd, pyAddBase]
        simp only [embTs_toList] at hq
        cases rest with
        | nil =>
          cases c <;> cases ws <;> by_cases hne : nm ∈ cfg.noesc <;> by_cases hk : kk.hasTobjKids = true <;>
            simp [hne, hk] at hq <;>
            simp [hv, pyEq, pyAnd, pyOr, truthy_list, openTag, closeTag, List.append_assoc, inlineChild?, embT, embDepFields, reprField, isInstance, builtinClasses, classBases,
              pyGetItem, inlineText, hne, hntT, hntH, pyStr, escText, hi1, hq, hk, pyClassOf, renderList, embTs_toList, pyAdd_str]
        | cons c2 r2 =>
          have hlen0 : ¬ ((r2.length : Int) + 1 + 1 = 0) := by omega
          have hlen : ¬ ((r2.length : Int) + 1 + 1 = 1) := by omega
          have hin : inlineChild? (c :: c2 :: r2) = none := by cases c <;> rfl
          cases ws <;> by_cases hne : nm ∈ cfg.noesc <;> by_cases hk : kk.hasTobjKids = true <;>
            simp [hne, hk] at hq <;>
            simp [hv, pyEq, pyAnd, pyOr, truthy_list, openTag, closeTag, List.append_assoc, hin, hlen, hlen0,
              hne, hi1, hq, hk, pyClassOf, renderList, embTs_toList, pyAdd_str])


/-- what `get_html_string` returns according to the model -/
def tagCheckedC11 (cfg : Cfg) (t : Node) (i : Nat) (eol : Str) : PyM PVal :=
  if t.hasTobj then .error .runtimeError else .ok (.str (t.render cfg i eol))

def listCheckedC11 (cfg : Cfg) (ks : Nodes) (i : Nat) (eol : Str) (aw esc : Bool) : PyM PVal :=
  if ks.hasTobjKids then .error .runtimeError else .ok (.str (renderList cfg ks i eol aw esc))

/-- both functions, for all trees of nesting depth ≤ n, with any fuel that covers the depth -/
theorem src_render_depthC11 (h1 : Tag_get_html_string_available = true) (h2 : TagList_get_html_string_available = true)
    (hn : normalize_text_available = true) (he : html_escape_available = true) (hs : HTML_as_string_available = true)
    (cfg : Cfg) (af : PVal → PVal → PVal → PyM PVal) (tv : Node → PVal) (ht : keysPlain cfg.textTbl = true) (ha : keysPlain cfg.attrTbl = true) (n : Nat) :
    (∀ t : Node, t.isTag = true → nodeDepth t ≤ n → ∀ fuel, 2 * n ≤ fuel → ∀ (i : Nat) (eol : Str),
        Tag_get_html_string (globalsC11 cfg af) fuel (embT tv t) (.int i) (.str eol) = tagCheckedC11 cfg t i eol)
    ∧ (∀ ks : Nodes, kidsDepth ks ≤ n → ∀ fuel, 2 * n + 1 ≤ fuel → ∀ (i : Nat) (eol : Str) (aw esc : Bool),
        TagList_get_html_string (globalsC11 cfg af) fuel (.obj "TagList" [("data", .list (embTs tv ks))]) (.int i) (.str eol)
          (.bool aw) (.bool esc) = listCheckedC11 cfg ks i eol aw esc) := by
  -- the child-list half follows from the tag half at the same depth
  have listOf : ∀ m, (∀ t : Node, t.isTag = true → nodeDepth t ≤ m → ∀ fuel, 2 * m ≤ fuel → ∀ (i : Nat) (eol : Str),
        Tag_get_html_string (globalsC11 cfg af) fuel (embT tv t) (.int i) (.str eol) = tagCheckedC11 cfg t i eol) →
      ∀ ks : Nodes, kidsDepth ks ≤ m → ∀ fuel, 2 * m + 1 ≤ fuel → ∀ (i : Nat) (eol : Str) (aw esc : Bool),
        TagList_get_html_string (globalsC11 cfg af) fuel (.obj "TagList" [("data", .list (embTs tv ks))]) (.int i) (.str eol)
          (.bool aw) (.bool esc) = listCheckedC11 cfg ks i eol aw esc := by
    intro m hP ks hd fuel hf i eol aw esc
    obtain ⟨f, rfl⟩ : ∃ f, fuel = f + 1 := ⟨fuel - 1, by omega⟩
    exact src_taglist_stepC11 h2 hn he hs cfg af tv ht ha f ks i eol aw esc
      (fun c hc hct j e => hP c hct (Nat.le_trans (depth_mem ks c hc) hd) f (by omega) j e)
  induction n with
  | zero =>
    have hP : ∀ t : Node, t.isTag = true → nodeDepth t ≤ 0 → ∀ fuel, 2 * 0 ≤ fuel → ∀ (i : Nat) (eol : Str),
        Tag_get_html_string (globalsC11 cfg af) fuel (embT tv t) (.int i) (.str eol) = tagCheckedC11 cfg t i eol := by
      intro t htag hd
      cases t <;> simp [Node.isTag] at htag
      simp [nodeDepth] at hd
    exact ⟨hP, listOf 0 hP⟩
  | succ n ih =>
    have hP : ∀ t : Node, t.isTag = true → nodeDepth t ≤ n + 1 → ∀ fuel, 2 * (n + 1) ≤ fuel → ∀ (i : Nat) (eol : Str),
        Tag_get_html_string (globalsC11 cfg af) fuel (embT tv t) (.int i) (.str eol) = tagCheckedC11 cfg t i eol := by
      intro t htag hd fuel hf i eol
      cases t <;> simp [Node.isTag] at htag
      rename_i nm ws at' kk
      obtain ⟨f, rfl⟩ : ∃ f, fuel = f + 1 := ⟨fuel - 1, by omega⟩
      have hk : kidsDepth kk ≤ n := by simp [nodeDepth] at hd; omega
      exact src_tag_stepC11 h1 hn he hs cfg af tv ht ha f nm ws at' kk i eol
        (fun j e aw esc => ih.2 kk hk f (by omega) j e aw esc)
    exact ⟨hP, listOf (n + 1) hP⟩

/-- `Tag.get_html_string(indent, eol)` as the source has it = `Node.render` (RuntimeError iff an un-expanded tagifiable
    object that is not self-rendering is reached), for every tag tree, every indent and every eol -/
theorem src_render_tagC11 (h1 : Tag_get_html_string_available = true) (h2 : TagList_get_html_string_available = true)
    (hn : normalize_text_available = true) (he : html_escape_available = true) (hs : HTML_as_string_available = true)
    (cfg : Cfg) (af : PVal → PVal → PVal → PyM PVal) (tv : Node → PVal) (ht : keysPlain cfg.textTbl = true) (ha : keysPlain cfg.attrTbl = true)
    (t : Node) (htag : t.isTag = true) (fuel : Nat) (hf : 2 * nodeDepth t ≤ fuel) (i : Nat) (eol : Str) :
    Tag_get_html_string (globalsC11 cfg af) fuel (embT tv t) (.int i) (.str eol)
      = if t.hasTobj then .error .runtimeError else .ok (.str (t.render cfg i eol)) :=
  (src_render_depthC11 h1 h2 hn he hs cfg af tv ht ha (nodeDepth t)).1 t htag (Nat.le_refl _) fuel hf i eol

/-- `TagList.get_html_string(indent, eol, add_ws=, _escape_strings=)` as the source has it = `renderList` -/
theorem src_render_listC11 (h1 : Tag_get_html_string_available = true) (h2 : TagList_get_html_string_available = true)
    (hn : normalize_text_available = true) (he : html_escape_available = true) (hs : HTML_as_string_available = true)
    (cfg : Cfg) (af : PVal → PVal → PVal → PyM PVal) (tv : Node → PVal) (ht : keysPlain cfg.textTbl = true) (ha : keysPlain cfg.attrTbl = true)
    (ks : Nodes) (fuel : Nat) (hf : 2 * kidsDepth ks + 1 ≤ fuel) (i : Nat) (eol : Str) (aw esc : Bool) :
    TagList_get_html_string (globalsC11 cfg af) fuel (.obj "TagList" [("data", .list (embTs tv ks))]) (.int i) (.str eol)
      (.bool aw) (.bool esc)
      = if ks.hasTobjKids then .error .runtimeError else .ok (.str (renderList cfg ks i eol aw esc)) :=
  (src_render_depthC11 h1 h2 hn he hs cfg af tv ht ha (kidsDepth ks)).2 ks (Nat.le_refl _) fuel hf i eol aw esc

end HtmlVerif.SrcTie
