/-
Driver ops for the child-list model (C14).
  c14_hist <L|T> [ op… ]   every step's outcome and the list after it, on a TagList / on a Tag's children
  c14_t2n <arg>            _tagchilds_to_tagnodes(x)
  c14_flatten <arg>        flatten(x)
  c14_pred <arg>           is_tag_child(x) is_tag_node(x)
-/
import HtmlVerif.Ops.Base
import HtmlVerif.Model.Children

namespace HtmlVerif.Ops
open HtmlVerif HtmlVerif.Wire

/-- the empty receiver: `TagList()` or `Tag("div")` -/
def emptyTag : TagM := ⟨['d', 'i', 'v'], true, [], []⟩

def recvIsTag : P Bool := do
  let t ← next
  if t == "T" then pure true else if t == "L" then pure false else throw s!"bad receiver {t}"

def childrenOps : OpTable
  | "c14_hist" => some do
    let isTag ← recvIsTag
    let ops ← listOf childOp
    pure (encTrace (if isTag then tagTrace emptyTag ops else trace [] ops))
  | "c14_t2n" => some do
    let a ← arg
    pure (encExcept encStoredList (chTagchildsToTagnodes a))
  | "c14_flatten" => some do
    let a ← arg
    match a.iter with
    | .error e => pure ("err " ++ encErr e)
    | .ok items => pure ("ok " ++ encList ((flatten items).map encArg))
  | "c14_pred" => some do
    let a ← arg
    pure (encBool a.isTagChild ++ " " ++ encBool a.isTagNode)
  | _ => none

end HtmlVerif.Ops
