/-
Driver ops for dependency collection / resolution / constructor validation / release order.

  deps_list <nodes> <dedup>      TagList(*nodes).get_dependencies(dedup=…)       → ok <nodes>
  deps_tag <node> <dedup>        node.get_dependencies(dedup=…)                  → ok <nodes>
  deps_twice <nodes>             resolve the resolved list once more             → ok <nodes>
  deps_render <node>             node.render()["dependencies"] (tobj-free trees) → ok <nodes>
  dep_init <deparg>              HTMLDependency(…)                               → ok <dep node> | err <kind>
  vcmp <nats> <nats>             Version(a) <= Version(b), Version(a) > Version(b) → <bool> <bool>
  vparse <str>                   release tuple of a dotted numeric version       → S <nats> | N
-/
import HtmlVerif.Ops.Base
import HtmlVerif.Model.Deps

namespace HtmlVerif.Ops
open HtmlVerif HtmlVerif.Wire

def pyItem : P PyItem := do
  let t ← next
  match t with
  | "d" => .dict <$> listOf kv
  | "o" => pure .other
  | _ => throw s!"bad item {t}"

def itemsArg : P ItemsArg := do
  let t ← next
  match t with
  | "in" => pure .none
  | "i1" => .one <$> listOf kv
  | "im" => .many <$> listOf pyItem
  | "is" => pure .scalar
  | _ => throw s!"bad items {t}"

def sourceArg : P SourceArg := do
  let t ← next
  match t with
  | "sn" => pure .none
  | "so" => pure .other
  | "sD" => .dict <$> listOf kv
  | _ => throw s!"bad sourcearg {t}"

def depArg : P DepArg := do
  let name ← str; let version ← str; let verOk ← bool; let vrank ← nat
  let source ← sourceArg
  let script ← itemsArg; let stylesheet ← itemsArg; let metas ← itemsArg
  let allFiles ← bool
  pure { name, version, verOk, vrank, source, script, stylesheet, metas, allFiles }

def encNodeList (l : List Node) : String := encNodes (Nodes.ofList l)

def encNats (l : List Nat) : String := encList (l.map toString)

def depsOps : OpTable
  | "deps_list" => some do
    let ks ← nodes; let dd ← bool
    pure ("ok " ++ encNodeList (ks.getDeps dd))
  | "deps_tag" => some do
    let n ← node; let dd ← bool
    pure ("ok " ++ encNodeList (n.getDeps dd))
  | "deps_twice" => some do
    let ks ← nodes
    pure ("ok " ++ encNodeList (resolve (ks.getDeps true)))
  | "deps_render" => some do
    let n ← node
    pure ("ok " ++ encNodeList (n.getDeps true))
  | "dep_init" => some do
    let a ← depArg
    pure (encExcept (fun d => encNode (.dep d false .nil)) (depInit a))
  | "vcmp" => some do
    let a ← listOf nat; let b ← listOf nat
    pure (encBool (cmpkeyLe a b) ++ " " ++ encBool (cmpkeyGt a b))
  | "vparse" => some do
    let s ← str
    match parseRelease s with
    | some r => pure ("S " ++ encNats r)
    | none => pure "N"
  | _ => none

end HtmlVerif.Ops
