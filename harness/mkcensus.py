#!/usr/bin/env python3
"""Record the census of tag functions of the PINNED tree (VERIF_REPO, default /repo) as the reference C19 compares
against: the *names* of the public wrappers of htmltools/tags.py and htmltools/svg.py and of the shortcuts re-exported
by htmltools/__init__.py (the property's quantifier: "all 113 HTML and 66 SVG tag functions plus the 17 top-level
shortcuts").  C19 demands that every recorded name still has a wrapper / is still re-exported (removing a public tag
function is a failing input: calling it raises AttributeError); names that were ADDED since are fine and are only
listed in the evidence — no count is pinned.

Writes corpus/c19_census.json (read by harness/props/c19.py) and lean/HtmlVerif/Spec/TagCensus.lean (used by the
theorem C19_census); both carry the same digest of the name lists, which the runner compares.  Re-run only when the
pinned commit of the library changes on purpose."""
import ast
import hashlib
import json
import os
import subprocess
import sys

HERE = os.path.dirname(os.path.abspath(__file__))
VERIF = os.path.dirname(HERE)
sys.path.insert(0, HERE)
import translate  # noqa: E402


def digest(c: dict) -> str:
    return hashlib.sha1(json.dumps([c["html"], c["svg"], c["top"]]).encode()).hexdigest()


def main():
    html, _, _ = translate.tag_fn_rows("htmltools/tags.py", "tags")
    svg, _, _ = translate.tag_fn_rows("htmltools/svg.py", "svg")
    init = translate.parse("htmltools/__init__.py")
    top = [al.name for node in init.body if isinstance(node, ast.ImportFrom) and node.module == "tags" and node.level == 1
           for al in node.names]
    try:
        commit = subprocess.run(["git", "rev-parse", "--short", "HEAD"], cwd=translate.REPO, capture_output=True, text=True).stdout.strip()
    except Exception:  # noqa: BLE001
        commit = "?"
    c = dict(commit=commit, html=[r["fn"] for r in html], svg=[r["fn"] for r in svg], top=top)
    c["digest"] = digest(c)
    os.makedirs(os.path.join(VERIF, "corpus"), exist_ok=True)
    with open(os.path.join(VERIF, "corpus", "c19_census.json"), "w") as f:
        json.dump(c, f, indent=1)
        f.write("\n")

    def lst(xs):
        return translate.llist([translate.lstr(x) for x in xs])
    lean = f"""/-
Reference census for C19 (written by harness/mkcensus.py from the pinned tree, commit {commit}; do not edit by hand).
The NAMES of the public tag functions and top-level shortcuts the property quantifies over.  `C19_census` demands
that each of them is still there; additions are allowed, no count is pinned.
names-sha1: {c["digest"]}
-/
import HtmlVerif.Model.Str

namespace HtmlVerif.TagCensus
open HtmlVerif

/-- public functions of htmltools/tags.py ({len(c["html"])} at the pinned commit) -/
def censusHtml : List Str := {lst(c["html"])}

/-- public functions of htmltools/svg.py ({len(c["svg"])} at the pinned commit) -/
def censusSvg : List Str := {lst(c["svg"])}

/-- names re-exported by htmltools/__init__.py from .tags ({len(c["top"])} at the pinned commit) -/
def censusTop : List Str := {lst(c["top"])}

end HtmlVerif.TagCensus
"""
    with open(os.path.join(VERIF, "lean", "HtmlVerif", "Spec", "TagCensus.lean"), "w") as f:
        f.write(lean)
    print(f"census of {commit}: html {len(c['html'])}, svg {len(c['svg'])}, top {len(c['top'])}; digest {c['digest']}")


if __name__ == "__main__":
    main()
