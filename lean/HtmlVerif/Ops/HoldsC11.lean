/-
`holds C11 document_render <args…> | <impl answer>` — the executable statement of C11 evaluated on the
implementation's answer for the same input.
-/
import HtmlVerif.Ops.Base
import HtmlVerif.Ops.Document
import HtmlVerif.Holds.C11

namespace HtmlVerif.Ops
open HtmlVerif HtmlVerif.Wire HtmlVerif.Holds

/-- `| ok <html> <nodes> <nodes>` / `| err <kind>`; anything else is not an answer render() may give -/
private def implDocAnswer : P (Option DocAnswer) := do
  expect "|"
  let t ← next
  if t == "ok" then do
    let html ← str; let deps ← nodes; let after ← nodes
    pure (some (.ok (html, deps.toList, after)))
  else if t == "err" then do
    let k ← next
    pure (some (.error (match k with
      | "typeError" => .typeError | "valueError" => .valueError | "keyError" => .keyError
      | "runtimeError" => .runtimeError | "notImplemented" => .notImplemented | _ => .exception)))
  else do set ([] : List String); pure none

def holdsC11 : OpTable
  | "document_render" => some do
    let a ← docArgs
    match (← implDocAnswer) with
    | some out =>
      let fails := failsC11 cfg a.content a.kw a.lp a.iv out
      pure (if fails.isEmpty then "T" else "F " ++ " ".intercalate fails)
    | none => pure "F render-did-not-return-markup-and-dependency-objects"
  | "document_tree" => some do
    -- the tree is an internal observation point (correspondence only): nothing of the statement is about it
    let _ ← docArgs
    let _ ← implRaw
    pure "T"
  | _ => none

end HtmlVerif.Ops
