/-
C18 — Output is deterministic across processes and independent of history.  (*partial*: see below)

What a theorem can carry: in the model every observable is a *function* of the construction (no state
argument, no hash-order anywhere), so history independence of the model holds by construction and is not
dressed up as a theorem.  The theorems with content are about head_content names.  What only the runtime can
show — that the Python has no dependence on the hash seed or on earlier calls — is decided by the tie: every
digest from every subprocess (different PYTHONHASHSEED, different orders, unrelated renderings interleaved)
must equal the model's single answer.
-/
import HtmlVerif.Model.HeadContent
import HtmlVerif.Props.C10
import HtmlVerif.Props.C11

namespace HtmlVerif.C18
open HtmlVerif

/-- name and version of a head_content dependency: a function of the rendered content only -/
theorem C18_headContent_name (cfg : Cfg) (H : Str → Str) (r : Nat) (args : Nodes) (d : DepInfo) (hh : Bool)
    (hd : Nodes) (h : headContent cfg H r args = .ok (.dep d hh hd)) :
    d.name = headcontentPrefix ++ H (renderList cfg args 0 ['\n'] true true) ∧ d.version = ['0', '.', '0']
      ∧ hh = true ∧ hd = args := by
  unfold headContent renderListChecked at h
  by_cases ht : args.hasTobjKids = true
  · simp [ht] at h
  · simp only [ht] at h
    simp only [Bool.false_eq_true, if_false, Except.ok.injEq, Node.dep.injEq] at h
    obtain ⟨h1, h2, h3⟩ := h
    subst h1 h2 h3
    simp

/-- equal content ⇔ equal name (so equal content is included once per document and different content is never
    merged), for any injective digest; SHA-1's collision resistance is the standing assumption -/
theorem C18_name_iff_content (cfg : Cfg) (H : Str → Str) (hinj : Function.Injective H) (r r' : Nat)
    (a b : Nodes) (da db : DepInfo) (ha hb : Bool) (ka kb : Nodes)
    (h1 : headContent cfg H r a = .ok (.dep da ha ka)) (h2 : headContent cfg H r' b = .ok (.dep db hb kb)) :
    da.name = db.name ↔ renderList cfg a 0 ['\n'] true true = renderList cfg b 0 ['\n'] true true := by
  obtain ⟨na, _⟩ := C18_headContent_name cfg H r a da ha ka h1
  obtain ⟨nb, _⟩ := C18_headContent_name cfg H r' b db hb kb h2
  rw [na, nb]
  constructor
  · intro h; exact hinj (List.append_cancel_left h)
  · intro h; rw [h]

/-- head_content refuses content that still contains an un-expanded object (it renders it at construction) -/
theorem C18_headContent_error (cfg : Cfg) (H : Str → Str) (r : Nat) (args : Nodes) (h : args.hasTobjKids = true) :
    headContent cfg H r args = .error .runtimeError := by
  simp [headContent, renderListChecked, h]

example : (headContent ⟨[], [], [], []⟩ (fun s => s) 0 (.cons (.text ['x']) .nil)).toOption.isSome = true := by
  decide +kernel

end HtmlVerif.C18

namespace HtmlVerif.C18
open HtmlVerif

/-- the order of every dependency list the library reports is a function of positions only: names in order
    of first occurrence (never a sort, never a hash order), each name once -/
theorem C18_order_is_positional (ds : List Node) :
    (resolve ds).map Node.depName = dedupKeepFirst (ds.map Node.depName)
      ∧ ((resolve ds).map Node.depName).Nodup :=
  ⟨C10.C10_deps_names ds, by rw [C10.C10_deps_names]; exact dedupKeepFirst_nodup _⟩

/-- equal head_content payloads are included once per document, different payloads are never merged:
    after resolution every name that occurred is represented exactly once, and (by `C18_name_iff_content`)
    names coincide exactly when the rendered payloads do -/
theorem C18_once_per_document (ds : List Node) (d : Node) (h : d ∈ ds) :
    ((resolve ds).filter fun r => r.depName == d.depName).length = 1 := by
  have hn := (C18_order_is_positional ds).2
  have hc : d.depName ∈ (resolve ds).map Node.depName := by
    rw [(C18_order_is_positional ds).1, mem_dedupKeepFirst]; exact List.mem_map_of_mem h
  generalize resolve ds = rs at hn hc
  induction rs with
  | nil => simp at hc
  | cons r rs ih =>
    simp only [List.map_cons, List.nodup_cons] at hn
    by_cases e : r.depName = d.depName
    · have hne : ∀ x ∈ rs, ¬ x.depName = d.depName := by
        intro x hx e'
        exact hn.1 (by rw [e, ← e']; exact List.mem_map_of_mem hx)
      have hnil : rs.filter (fun r => r.depName == d.depName) = [] := by
        rw [List.filter_eq_nil_iff]; intro x hx; simpa using hne x hx
      simp [List.filter_cons, e, hnil]
    · have hc' : d.depName ∈ rs.map Node.depName := by
        simp only [List.map_cons, List.mem_cons] at hc
        rcases hc with hc | hc
        · exact absurd hc.symm e
        · exact hc
      simp [List.filter_cons, e, ih hn.2 hc']

end HtmlVerif.C18

/-! ### "once per document", in the document model

`C18_once_per_document` speaks about `resolve`.  The statements below carry it to `HTMLDocument` itself
(`Model/Document.lean`, through C11's refinement `docTree = specTree`): what is appended to the one `<head>` is the
listing followed by exactly one block of markup per element of the resolved list R, in R's order; every
dependency that occurs anywhere in the (expanded) content — in particular every `head_content(...)` item — has
exactly one representative in R; the block of a `head_content` item is its payload.  Together with
`C18_name_iff_content`: two items with equal rendered payload share one block, two items with different payloads
get one block each, in order of first occurrence. -/

namespace HtmlVerif.C18
open HtmlVerif HtmlVerif.Doc

/-- the markup appended for a list of dependencies is the concatenation of one block per list element, in list
    order (positional: the i-th block is the markup of the i-th dependency, and there are as many blocks) -/
theorem C18_doc_blocks (cfg : Cfg) (lp : Option Str) (iv : Bool) : ∀ (ds : List Node) (ms : Nodes),
    depMarkupAll cfg lp iv ds = .ok ms →
    ∃ bs : List Nodes, ds.map (depMarkup cfg lp iv) = bs.map Except.ok ∧
      ms = bs.foldr (· ++ ·) .nil := by
  intro ds
  induction ds with
  | nil =>
    intro ms h
    simp only [depMarkupAll, Except.ok.injEq] at h
    exact ⟨[], rfl, by simp [← h]⟩
  | cons d ds ih =>
    intro ms h
    obtain ⟨p, rs, hp, hrs, rfl⟩ := ((C11.C11_dep_markup_order cfg lp iv d ds ms).2).mp h
    obtain ⟨bs, hb, rfl⟩ := ih rs hrs
    exact ⟨p :: bs, by simp [hp, hb], by simp⟩

/-- the block of a `head_content(*args)` item is its payload (expanded), whatever `lib_prefix` / `include_version` -/
theorem C18_doc_head_content_block (cfg : Cfg) (H : Str → Str) (r : Nat) (args : Nodes) (x : Node) (lp : Option Str)
    (iv : Bool) (h : headContent cfg H r args = .ok x) : depMarkup cfg lp iv x = .ok args.expandAll := by
  unfold headContent at h
  split at h
  · cases h
  · rename_i s hs
    cases h
    have hs' : renderListChecked cfg args 0 eolLF true true = .ok s := hs
    simp [depMarkup, depTags, asHtmlTags, asDict, asDictSheets, asDictScripts, mkTags, hs', Nodes.ofList]

/-- **once per document.**  In the tree of `HTMLDocument(*content, **kw)`: the `<head>` receives the listing of R
    and then `ms`, which is one block per element of R in R's order; and every dependency `d` of the expanded
    content (a `head_content` item or any other) is represented by exactly one element of R -/
theorem C18_doc_head_content_once {cfg : Cfg} {content : Nodes} {kw : List (Str × AttrArg)} {lp : Option Str} {iv : Bool}
    {t : Node} (h : docTree cfg content kw lp iv = .ok t) (d : Node) (hd : d ∈ content.expandAll.collect) :
    ∃ (n : Str) (w : Bool) (a : Attrs) (ks ms : Nodes) (bs : List Nodes),
      t = .tag n w a (withHead (listing (docDeps content) ++ ms) ks) ∧
      (docDeps content).map (depMarkup cfg lp iv) = bs.map Except.ok ∧ ms = bs.foldr (· ++ ·) .nil ∧
      ((docDeps content).filter fun r => r.depName == d.depName).length = 1 := by
  obtain ⟨n, w, a, ks, ms, _, hm, rfl⟩ := C11.C11_tree_shape h
  obtain ⟨bs, hb, rfl⟩ := C18_doc_blocks cfg lp iv _ _ hm
  exact ⟨n, w, a, ks, _, bs, rfl, hb, rfl, C18_once_per_document _ d hd⟩

/-- the dependency `head_content(*args)` returns, spelled out -/
theorem C18_headContent_ok {cfg : Cfg} {H : Str → Str} {r : Nat} {args : Nodes} {x : Node}
    (h : headContent cfg H r args = .ok x) :
    x = .dep { name := headcontentPrefix ++ H (renderList cfg args 0 ['\n'] true true), version := ['0', '.', '0'],
               vrank := r, source := .none, script := [], stylesheet := [], metas := [], allFiles := false } true args := by
  unfold headContent renderListChecked at h
  by_cases ht : args.hasTobjKids = true
  · simp [ht] at h
  · simp only [ht] at h
    simp only [Bool.false_eq_true, if_false, Except.ok.injEq] at h
    exact h.symm

/-- two `head_content` items with **equal** rendered payload in one document: one representative (the first
    one given), hence one block and one entry in the listing — `R = [a]` (no assumption on the digest) -/
theorem C18_doc_two_equal (cfg : Cfg) (H : Str → Str) (r : Nat) (pa pb : Nodes) (a b : Node)
    (ha : headContent cfg H r pa = .ok a) (hb : headContent cfg H r pb = .ok b)
    (heq : renderList cfg pa 0 ['\n'] true true = renderList cfg pb 0 ['\n'] true true) :
    docDeps (.cons a (.cons b .nil)) = [a] := by
  rw [C18_headContent_ok ha, C18_headContent_ok hb]
  simp [docDeps, Nodes.expandAll, Node.expand, Nodes.collect, resolve, resolveBy, resolveMap, resolveStep,
    amapGet?, amapSet, depGt, Node.depName, Node.vrank, heq]

/-- two items with **different** rendered payloads are never merged, and keep the order in which they were
    given — `R = [a, b]` (digest injective: SHA-1's collision resistance, the standing assumption) -/
theorem C18_doc_two_distinct (cfg : Cfg) (H : Str → Str) (hinj : Function.Injective H) (r : Nat) (pa pb : Nodes)
    (a b : Node) (ha : headContent cfg H r pa = .ok a) (hb : headContent cfg H r pb = .ok b)
    (hne : renderList cfg pa 0 ['\n'] true true ≠ renderList cfg pb 0 ['\n'] true true) :
    docDeps (.cons a (.cons b .nil)) = [a, b] := by
  rw [C18_headContent_ok ha, C18_headContent_ok hb]
  have hn : ¬ (headcontentPrefix ++ H (renderList cfg pa 0 ['\n'] true true)
      = headcontentPrefix ++ H (renderList cfg pb 0 ['\n'] true true)) :=
    fun e => hne (hinj (List.append_cancel_left e))
  simp [docDeps, Nodes.expandAll, Node.expand, Nodes.collect, resolve, resolveBy, resolveMap, resolveStep,
    amapGet?, amapSet, Node.depName, hn]

/-- a concrete document, end to end through `docRender` (the model of `HTMLDocument(...).render()`): two
    `head_content(title("T"))` items and one `head_content(title("U"))` item below different tags — the markup
    holds `<title>T</title>` once, then `<title>U</title>`, and the listing names two dependencies.
    (`H` here is a toy injective digest; the real one is the run-time parameter.) -/
example :
    let cfg : Cfg := C11.cfg0
    let title (s : Str) : Nodes := .cons (.tag ['t', 'i', 't', 'l', 'e'] true [] (.cons (.text s) .nil)) .nil
    let hc (s : Str) : Node := match headContent cfg (fun x => x) 0 (title s) with | .ok d => d | .error _ => .text []
    (match docRender cfg (.cons (.tag ['d', 'i', 'v'] true [] (.cons (hc ['T']) (.cons (hc ['U']) .nil)))
        (.cons (.tag ['p'] true [] (.cons (hc ['T']) .nil)) .nil)) [] none true with
      | .ok r => some (r.html, r.deps.length)
      | .error _ => none)
      = some ("<!DOCTYPE html>\n<html>\n  <head>\n    <meta charset=\"utf-8\"/>\n    <script type=\"application/html-dependencies\">headcontent_<title>T</title>[0.0];headcontent_<title>U</title>[0.0]</script>\n    <title>T</title>\n    <title>U</title>\n  </head>\n  <body>\n    <div></div>\n    <p></p>\n  </body>\n</html>".toList, 2) := by
  decide +kernel

end HtmlVerif.C18
