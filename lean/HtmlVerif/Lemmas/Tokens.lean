/-
Lemmas about whitespace splitting (`splitAll`, `tokens`, `strip`), generic in the whitespace predicate.
-/
import HtmlVerif.Spec.AttrMerge

namespace HtmlVerif

theorem splitAll_ne_nil (sp : Char → Bool) (s : Str) : splitAll sp s ≠ [] := by
  induction s with
  | nil => simp [splitAll]
  | cons c r ih =>
    rw [splitAll]
    split
    · simp
    · split <;> simp

theorem splitAll_cons_nonspace (sp : Char → Bool) (c : Char) (r : Str) (hc : sp c = false) :
    ∃ h t, splitAll sp r = h :: t ∧ splitAll sp (c :: r) = (c :: h) :: t := by
  cases hs : splitAll sp r with
  | nil => exact absurd hs (splitAll_ne_nil sp r)
  | cons h t => exact ⟨h, t, rfl, by simp [splitAll, hc, hs]⟩

/-- splitting distributes over a separator -/
theorem splitAll_append_sep (sp : Char → Bool) (a t : Str) (c : Char) (hc : sp c = true) :
    splitAll sp (a ++ c :: t) = splitAll sp a ++ splitAll sp t := by
  induction a with
  | nil => simp [splitAll, hc]
  | cons x r ih =>
    by_cases hx : sp x = true
    · simp [splitAll, hx, ih]
    · have hx' : sp x = false := by simpa using hx
      obtain ⟨h1, t1, e1, e1'⟩ := splitAll_cons_nonspace sp x r hx'
      obtain ⟨h2, t2, e2, e2'⟩ := splitAll_cons_nonspace sp x (r ++ c :: t) hx'
      rw [List.cons_append, e2', e1']
      rw [ih, e1] at e2
      simp only [List.cons_append, List.cons.injEq] at e2
      obtain ⟨rfl, rfl⟩ := e2
      rfl

theorem tokens_append_sep (sp : Char → Bool) (a t : Str) (c : Char) (hc : sp c = true) :
    tokens sp (a ++ c :: t) = tokens sp a ++ tokens sp t := by
  simp [tokens, splitAll_append_sep sp a t c hc]

@[simp] theorem tokens_nil (sp : Char → Bool) : tokens sp [] = [] := by simp [tokens, splitAll]

theorem splitAll_of_no_space (sp : Char → Bool) (t : Str) (h : ∀ c ∈ t, sp c = false) : splitAll sp t = [t] := by
  induction t with
  | nil => rfl
  | cons c r ih =>
    have hc : sp c = false := h c (by simp)
    have := ih (fun x hx => h x (by simp [hx]))
    simp [splitAll, hc, this]

theorem isToken_iff (sp : Char → Bool) (t : Str) :
    isToken sp t = true ↔ t ≠ [] ∧ ∀ c ∈ t, sp c = false := by
  simp [isToken, List.all_eq_true]

theorem tokens_of_token (sp : Char → Bool) (t : Str) (h : isToken sp t = true) : tokens sp t = [t] := by
  obtain ⟨hne, hns⟩ := (isToken_iff sp t).mp h
  simp [tokens, splitAll_of_no_space sp t hns, hne]

theorem splitAll_pieces_no_space (sp : Char → Bool) (s : Str) : ∀ p ∈ splitAll sp s, ∀ c ∈ p, sp c = false := by
  induction s with
  | nil => simp [splitAll]
  | cons x r ih =>
    by_cases hx : sp x = true
    · simp only [splitAll, hx, if_true, List.mem_cons]
      rintro p (rfl | hp)
      · simp
      · exact ih p hp
    · have hx' : sp x = false := by simpa using hx
      obtain ⟨h1, t1, e1, e1'⟩ := splitAll_cons_nonspace sp x r hx'
      rw [e1']
      rw [e1] at ih
      intro p hp c hc
      simp only [List.mem_cons] at hp
      rcases hp with rfl | hp
      · simp only [List.mem_cons] at hc
        rcases hc with rfl | hc
        · exact hx'
        · exact ih h1 (by simp) c hc
      · exact ih p (by simp [hp]) c hc

/-- every element of `s.split()` is a whitespace-free, non-empty token -/
theorem tokens_are_tokens (sp : Char → Bool) (s : Str) : ∀ t ∈ tokens sp s, isToken sp t = true := by
  intro t ht
  simp only [tokens, List.mem_filter] at ht
  rw [isToken_iff]
  exact ⟨by simpa using ht.2, splitAll_pieces_no_space sp s t ht.1⟩

theorem nil_not_mem_tokens (sp : Char → Bool) (s : Str) : [] ∉ tokens sp s := by
  intro h
  have := tokens_are_tokens sp s [] h
  simp [isToken] at this

/-- `" ".join(ts).split() == ts` for tokens -/
theorem tokens_joinStr (sp : Char → Bool) (hsp : sp ' ' = true) (ts : List Str)
    (h : ∀ t ∈ ts, isToken sp t = true) : tokens sp (joinStr [' '] ts) = ts := by
  induction ts with
  | nil => simp [joinStr]
  | cons a r ih =>
    cases r with
    | nil => simp [joinStr, tokens_of_token sp a (h a (by simp))]
    | cons b r' =>
      have := ih (fun t ht => h t (by simp_all))
      rw [joinStr]
      rw [List.append_assoc, List.singleton_append, tokens_append_sep sp _ _ ' ' hsp, this,
        tokens_of_token sp a (h a (by simp))]
      rfl

theorem dropWhile_of_head_false {α} (p : α → Bool) (l : List α) (c : α) (r : List α)
    (hl : l = c :: r) (hc : p c = false) : l.dropWhile p = l := by
  subst hl; simp [List.dropWhile, hc]

/-- for a token, `strip` is the identity -/
theorem strip_of_token (sp : Char → Bool) (t : Str) (h : isToken sp t = true) : strip sp t = t := by
  obtain ⟨hne, hns⟩ := (isToken_iff sp t).mp h
  have h1 : t.dropWhile sp = t := by
    cases t with
    | nil => rfl
    | cons c r => exact dropWhile_of_head_false sp _ c r rfl (hns c (by simp))
  have h2 : t.reverse.dropWhile sp = t.reverse := by
    cases hr : t.reverse with
    | nil => rfl
    | cons c r =>
      have hc : c ∈ t := by
        have : c ∈ t.reverse := by rw [hr]; simp
        simpa using this
      exact dropWhile_of_head_false sp _ c r rfl (hns c hc)
  simp [strip, rstrip, h1, h2]

end HtmlVerif
