/-
Layer 3 of C01: the normalising machine `buildN`, run over the tokens of an ordinary tree,
produces `expected`; the layout whitespace is absorbed by trimming.
-/
import HtmlVerif.Lemmas.HtmlTree

namespace HtmlVerif

/-! ### `expKids` as a state transformer (pending text, reversed children) -/

def Nodes.expStep (void : List Str) : Nodes → Str → List PTree → Str × List PTree
  | .nil, acc, cur => (acc, cur)
  | .cons h t, acc, cur =>
    match h with
    | .tag .. => t.expStep void [] (h.expected void :: flushN acc cur)
    | .text s => t.expStep void (acc ++ s) cur
    | .html s => t.expStep void (acc ++ s) cur
    | .robj s => t.expStep void (acc ++ s) cur
    | _ => t.expStep void acc cur

theorem textNode_reverse (s : Str) : (textNode s).reverse = textNode s := by
  unfold textNode; split <;> simp

theorem flushN_expStep (void : List Str) (ks : Nodes) (acc : Str) (cur : List PTree) :
    flushN (ks.expStep void acc cur).1 (ks.expStep void acc cur).2
      = (ks.expKids void acc).reverse ++ cur := by
  induction ks using Nodes.rec (motive_1 := fun _ => True) generalizing acc cur with
  | nil => simp [Nodes.expStep, Nodes.expKids, flushN, textNode_reverse]
  | cons h t _ ih =>
    cases h <;> simp only [Nodes.expStep, Nodes.expKids, ih] <;> simp [flushN, textNode_reverse]
  | _ => trivial

theorem expKids_visible_nil (void : List Str) (ks : Nodes) (acc : Str) (h : ks.visible = []) :
    ks.expKids void acc = textNode acc := by
  induction ks using Nodes.rec (motive_1 := fun _ => True) generalizing acc with
  | nil => simp [Nodes.expKids]
  | cons x t _ ih =>
    cases x <;> simp_all [Nodes.visible, Node.isMeta, Nodes.expKids]
  | _ => trivial

theorem expKids_visible_text (void : List Str) (ks : Nodes) (acc s : Str) (h : ks.visible = [.text s]) :
    ks.expKids void acc = textNode (acc ++ s) := by
  induction ks using Nodes.rec (motive_1 := fun _ => True) generalizing acc with
  | nil => simp [Nodes.visible] at h
  | cons x t _ ih =>
    cases x with
    | text s' =>
      simp only [Nodes.visible, Node.isMeta] at h
      simp at h
      obtain ⟨rfl, h⟩ := h
      simp [Nodes.expKids, expKids_visible_nil void t _ h]
    | mnode m => simp_all [Nodes.visible, Node.isMeta, Nodes.expKids]
    | dep d hd hs => simp_all [Nodes.visible, Node.isMeta, Nodes.expKids]
    | _ => simp [Nodes.visible, Node.isMeta] at h
  | _ => trivial

/-! ### the machine on single pieces -/

section
variable (cfg : Cfg)

theorem decodeRefs_nil : decodeRefs [] = [] := by simp [decodeRefs, decodeGo]

theorem decodeRefs_ws (s : Str) (h : wsOnly s = true) : decodeRefs s = s := by
  have := ws_decodes s [] h
  simpa [decodeRefs_nil] using this

theorem buildN_wsP (s : Str) (hs : wsOnly s = true) (rest : List Tok) (pd : Str) (cur : List PTree)
    (st : List Frame) :
    buildN (toksOf cfg (wsP s) ++ rest) pd cur st = buildN rest (pd ++ s) cur st := by
  unfold wsP
  by_cases h : s = []
  · simp [h]
  · simp [h, Piece.tok, buildN, decodeRefs_ws s hs]

theorem buildN_txt (h1 : TextTblOk cfg.textTbl) (s : Str) (rest : List Tok) (pd : Str) (cur : List PTree)
    (st : List Frame) :
    buildN ((Piece.txt s).tok cfg :: rest) pd cur st = buildN rest (pd ++ s) cur st := by
  have := esc_decodes h1 s []
  simp only [List.append_nil, decodeRefs_nil] at this
  simp [Piece.tok, buildN, escText_eq cfg h1, this]

theorem lstrip_ws (w : Str) (hw : wsOnly w = true) : w.dropWhile isWs = ([] : Str).dropWhile isWs := by
  have := lstrip_ws_append w [] hw
  simpa using this

theorem buildN_opn_true (n : Str) (w : Bool) (a : Attrs) (rest : List Tok) (pd : Str) (cur : List PTree)
    (st : List Frame) :
    buildN ((Piece.opn n w a true).tok cfg :: rest) pd cur st
      = buildN rest [] (.elem n (decodeAttrs (rawAttrs cfg a)) true [] :: flushN pd cur) st := by
  simp [Piece.tok, buildN]

theorem buildN_opn_false (n : Str) (w : Bool) (a : Attrs) (rest : List Tok) (pd : Str) (cur : List PTree)
    (st : List Frame) :
    buildN ((Piece.opn n w a false).tok cfg :: rest) pd cur st
      = buildN rest [] [] (⟨n, decodeAttrs (rawAttrs cfg a), flushN pd cur⟩ :: st) := by
  simp [Piece.tok, buildN]

theorem buildN_cls (n : Str) (w : Bool) (a : List (Str × Str)) (sibs : List PTree) (rest : List Tok) (pd : Str)
    (cur : List PTree) (st : List Frame) :
    buildN ((Piece.cls n w).tok cfg :: rest) pd cur (⟨n, a, sibs⟩ :: st)
      = buildN rest [] (.elem n a false (flushN pd cur).reverse :: sibs) st := by
  simp [Piece.tok, buildN]

end

theorem flushN_nil (cur : List PTree) : flushN [] cur = cur := by simp [flushN, textNode, trimWs]

/-! ### the tree induction -/

mutual
  theorem buildN_tag (cfg : Cfg) (h1 : TextTblOk cfg.textTbl) (h2 : AttrTblOk cfg.attrTbl)
      (t : Node) (ht : t.isTag = true) (ho : t.ordinary cfg.noesc = true)
      (i : Nat) (e : Str) (he : wsOnly e = true)
      (rest : List Tok) (pd : Str) (cur : List PTree) (st : List Frame) :
      buildN (toksOf cfg (t.pieces cfg i e) ++ rest) pd cur st
        = buildN rest [] (t.expected cfg.void :: flushN pd cur) st := by
    cases t with
    | tag name ws attrs kids =>
      simp only [Node.ordinary, Bool.and_eq_true, Bool.not_eq_true'] at ho
      obtain ⟨⟨⟨hn, hne⟩, ha⟩, hk⟩ := ho
      have hne' : name ∉ cfg.noesc := by simpa using hne
      have hda := decode_raw cfg h2 attrs ha
      have hwi := wsOnly_indentStr i
      have hfl : flushN (pd ++ indentStr i) cur = flushN pd cur := flushN_append_ws pd _ hwi cur
      simp only [Node.pieces, Node.expected]
      by_cases h0 : kids.visible.isEmpty = true
      · have hv0 : kids.visible = [] := by simpa using h0
        have hek := expKids_visible_nil cfg.void kids [] hv0
        have htn : textNode [] = [] := by simp [textNode, trimWs]
        by_cases hv : name ∈ cfg.void
        · simp [h0, hv, buildN_wsP cfg _ hwi, buildN_opn_true, hda, hfl, hek, htn]
        · simp [h0, hv, buildN_wsP cfg _ hwi, buildN_opn_false, buildN_cls, hda, hfl, hek, htn, flushN_nil]
      · have hvne : kids.visible.isEmpty = false := by simpa using h0
        simp only [h0]
        cases hic : inlineChild? kids.visible with
        | some c =>
          obtain ⟨hc, hvis⟩ := inline_ordinary cfg.noesc kids hk c hic
          have hek := expKids_visible_text cfg.void kids [] c.1 hvis
          simp only [List.nil_append] at hek
          have htp : textP (!cfg.noesc.contains name && !c.2) c.1 = .txt c.1 := by simp [textP, hne', hc]
          have hfn : flushN c.1 [] = textNode c.1 := by simp [flushN]
          simp only [Bool.false_eq_true, if_false, htp]
          simp [buildN_wsP cfg _ hwi, buildN_opn_false, buildN_txt cfg h1, buildN_cls, hda, hfl, hek,
            hfn, textNode_reverse]
        | none =>
          have hkids := fun rest cur st =>
            buildN_kids cfg h1 h2 kids hk (i + 1) e he true ws rest [] (fun _ => rfl) cur st
          have hfx := flushN_expStep cfg.void kids [] []
          have hwei : wsOnly (e ++ indentStr i) = true := by simp [wsOnly_append, he, hwi]
          simp only [hne, Bool.not_false] at hkids ⊢
          cases ws
          · simp [buildN_wsP cfg _ hwi, buildN_opn_false, buildN_cls, hda, hfl, hkids, hfx]
          · have hcg := fun ts cur st => buildN_congr ts e [] (lstrip_ws e he) cur st
            simp [buildN_wsP cfg _ hwi, buildN_wsP cfg _ he, buildN_wsP cfg _ hwei, buildN_opn_false, buildN_cls,
              hda, hfl, hcg, hkids, flushN_append_ws _ _ hwei, hfx]
    | _ => simp [Node.isTag] at ht
  theorem buildN_kids (cfg : Cfg) (h1 : TextTblOk cfg.textTbl) (h2 : AttrTblOk cfg.attrTbl)
      (ks : Nodes) (ho : ks.ordinaryKids cfg.noesc = true)
      (i : Nat) (e : Str) (he : wsOnly e = true) (first prevWs : Bool)
      (rest : List Tok) (acc : Str) (hacc : prevWs = true → acc = []) (cur : List PTree) (st : List Frame) :
      buildN (toksOf cfg (ks.piecesKids cfg i e first prevWs true) ++ rest) acc cur st
        = buildN rest (ks.expStep cfg.void acc cur).1 (ks.expStep cfg.void acc cur).2 st := by
    cases ks with
    | nil => simp [Nodes.piecesKids, Nodes.expStep]
    | cons h t =>
      simp only [Nodes.ordinaryKids, Bool.and_eq_true] at ho
      obtain ⟨hh, hto⟩ := ho
      have iht := buildN_kids cfg h1 h2 t hto i e he
      have hwi := wsOnly_indentStr i
      cases h with
      | tag n w a k =>
        have hxa := buildN_tag cfg h1 h2 (.tag n w a k) rfl hh i e he
        have hxb := buildN_tag cfg h1 h2 (.tag n w a k) rfl hh 0 [] rfl
        have ihn := fun rest cur st => iht false w rest [] (fun _ => rfl) cur st
        have hfe : flushN (acc ++ e) cur = flushN acc cur := flushN_append_ws acc e he cur
        simp only [Nodes.piecesKids, Nodes.expStep]
        cases first <;> cases prevWs <;> cases w <;>
          simp [hxa, hxb, ihn, buildN_wsP cfg _ he, hfe]
      | text s =>
        simp only [Nodes.piecesKids, Nodes.expStep, textP, if_true]
        cases prevWs
        · have := iht false false rest (acc ++ s) (by simp) cur st
          simpa [buildN_txt cfg h1] using this
        · have ha : acc = [] := hacc rfl
          subst ha
          have hcg1 := fun ts cur st => buildN_congr ts (indentStr i ++ s) s (lstrip_ws_append _ s hwi) cur st
          have hcg2 := fun ts cur st => buildN_congr ts (e ++ (indentStr i ++ s)) s
            (by rw [lstrip_ws_append _ _ he, lstrip_ws_append _ s hwi]) cur st
          have := iht false false rest s (by simp) cur st
          cases first <;>
            simpa [buildN_txt cfg h1, buildN_wsP cfg _ he, buildN_wsP cfg _ hwi, hcg1, hcg2] using this
      | mnode m =>
        simp only [Nodes.piecesKids, Nodes.expStep]
        exact iht first prevWs rest acc hacc cur st
      | dep d hd hs =>
        simp only [Nodes.piecesKids, Nodes.expStep]
        exact iht first prevWs rest acc hacc cur st
      | _ => simp [Node.ordinary] at hh
end

end HtmlVerif
