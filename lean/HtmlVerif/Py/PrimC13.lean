/-
Primitives of the Python fragment used by the C13 translations (harness/pytr_c13.py: the extraction of serialised
dependencies from HTML text, `HTMLTextDocument.__init__` / `render`, `HTMLDependency.serialize_to_script_json`) that
Py/Prim.lean lacks.  Same contract as Py/Prim.lean: what CPython does on that argument shape, the exception kind CPython
raises, or `unsupported`.

The two `re` calls, `json.loads` and `json.dumps` are *defined from the model's own functions* (`scan`, `jsonParse`,
`jsonPrint`; Model/TextDoc.lean, Model/Json.lean): what is tied to the source text by Props/SrcC13.lean is the glue around
them.  That these model functions are what `re` / `json` compute is the business of the differential check (every
`srcc13` line of every run compares the translation, which runs these primitives, with the real function) and of the
scan / JSON theorems of Props/C13.lean.

Each primitive was compared with CPython (/venv/bin/python) on every value kind listed with it (harness/srctie_c13.py
`prim_lines`, run with every check of C13).
-/
import HtmlVerif.Py.Prim
import HtmlVerif.Model.TextDoc
import HtmlVerif.Model.Attrs
import HtmlVerif.Py.PrimC08

namespace HtmlVerif.Py
open HtmlVerif

/-! ### the one regular expression -/

/-- the only pattern text `re.findall` / `re.sub` are given a meaning for:
    `<script type="application/json" data-html-dependency="">((?:.|\r|\n)*?)</script>` -/
def extractPatternC13 : Str :=
  openMarker ++ ['(', '(', '?', ':', '.', '|', '\\', 'r', '|', '\\', 'n', ')', '*', '?', ')'] ++ closeMarker

/-- `re.findall(pattern, s)` for that pattern (one group: the list of the group's texts, leftmost non-overlapping
    matches; `(?:.|\r|\n)*?` is a lazy run of arbitrary characters, so a match is the leftmost OPEN and the first CLOSE
    after it — the model's `scan`).  A subject that is not a `str` (`HTML` is a `UserString`): TypeError. -/
def reFindallC13 (p s : PVal) : PyM PVal :=
  match p, s with
  | .str pat, .str x => if pat = extractPatternC13 then pure (.list ((scan x.length x).2.map .str)) else throw .unsupported
  | .str _, .obj _ _ => throw .unsupported
  | .str pat, _ => if pat = extractPatternC13 then throw .typeError else throw .unsupported
  | _, _ => throw .unsupported

/-- `re.sub(pattern, "", s)` for that pattern and the empty replacement -/
def reSubC13 (p r s : PVal) : PyM PVal :=
  match p, r, s with
  | .str pat, .str [], .str x => if pat = extractPatternC13 then pure (.str (scan x.length x).1) else throw .unsupported
  | .str _, .str [], .obj _ _ => throw .unsupported
  | .str pat, .str [], _ => if pat = extractPatternC13 then throw .typeError else throw .unsupported
  | _, _, _ => throw .unsupported

/-! ### JSON values as Python values -/

mutual
  /-- what `json.loads` builds: `null` ↦ None, objects ↦ dicts (a repeated key keeps its first position and its last
      value, as `d[k] = v` in source order does), arrays ↦ lists -/
  def embJsonC13 : Json → PVal
    | .null => .none
    | .bool b => .bool b
    | .str s => .str s
    | .arr xs => .list (embJListC13 xs)
    | .obj ms => .dict (embJMemsC13 ms [])
  def embJListC13 : JList → List PVal
    | .nil => []
    | .cons h t => embJsonC13 h :: embJListC13 t
  def embJMemsC13 : JMems → List (Str × PVal) → List (Str × PVal)
    | .nil, acc => acc
    | .cons k v t, acc => embJMemsC13 t (dictSet k (embJsonC13 v) acc)
end

/-- the text may be JSON that the model's fragment (objects, arrays, strings, true / false / null) does not cover: a
    number (a digit or `-` somewhere), `NaN`, `Infinity` (`N`, `I`), or a `\u` escape (a lone surrogate is accepted by
    CPython and is outside `Str`).  Only when none of these occurs is a failure of `jsonParse` a claim about CPython. -/
def jsonOutsideC13 (s : Str) : Bool :=
  s.any (fun c => c.isDigit || c == '-' || c == 'N' || c == 'I') || isInfix ['\\', 'u'] s

/-- `json.loads(x)`: a `str` is parsed (`jsonParse`); a text it rejects raises JSONDecodeError (a ValueError) — unless the
    reason may be the fragment (`jsonOutsideC13`: no verdict).  Any other value of the universe: TypeError ("the JSON
    object must be str, bytes or bytearray"). -/
def pyJsonLoadsC13 : PVal → PyM PVal
  | .str s =>
    match jsonParse s with
    | some j => pure (embJsonC13 j)
    | Option.none => if jsonOutsideC13 s then throw .unsupported else throw .valueError
  | .obj _ _ => throw .unsupported
  | _ => throw .typeError

/-! ### sets of strings, lists -/

/-- a `set` as the list of its elements, latest first (iteration order is not observable through the operations below) -/
def setObjC13 (items : List PVal) : PVal := .obj "set" [("items", .list items)]

/-- `set()` -/
def pySetNewC13 : PVal := setObjC13 []

/-- a real `str` -/
def isStrKindC13 : PVal → Bool
  | .str _ => true
  | _ => false

def isStrValC13 (n : Str) : PVal → Bool
  | .str s => s == n
  | _ => false

/-- `x in c`: for a set (of `str`) and a `str` on the left, membership; unhashable left operands raise TypeError; any
    other container goes to `pyIn` -/
def pyInC13 (x c : PVal) : PyM PVal :=
  match c with
  | .obj "set" [("items", .list xs)] =>
    match x with
    | .str n => if xs.all isStrKindC13 then pure (.bool (xs.any (isStrValC13 n))) else throw .unsupported
    | .list _ => throw .typeError
    | .dict _ => throw .typeError
    | _ => throw .unsupported
  | _ => pyIn x c

/-- `s.add(x)` as a statement: the new set -/
def pySetAddC13 (s x : PVal) : PyM PVal :=
  match s with
  | .obj "set" [("items", .list xs)] =>
    match x with
    | .str n =>
      if xs.all isStrKindC13 then
        pure (if xs.any (isStrValC13 n) then s else setObjC13 (x :: xs))
      else throw .unsupported
    | .list _ => throw .typeError
    | .dict _ => throw .typeError
    | _ => throw .unsupported
  | _ => throw .unsupported

/-- `xs.append(v)` as a statement: the new list -/
def pyListAppendC13 (xs v : PVal) : PyM PVal :=
  match xs with
  | .list l => pure (.list (l ++ [v]))
  | .obj _ _ => throw .unsupported
  | _ => throw .attributeError

/-- `xs.extend(it)` as a statement on a `list`: the new list (TypeError when `it` cannot be iterated) -/
def pyListExtendC13 (xs it : PVal) : PyM PVal :=
  match xs with
  | .list l => do pure (.list (l ++ (← pyIter it)))
  | .obj _ _ => throw .unsupported
  | .dict _ => throw .unsupported         -- a `TagAttrDict` / dict: no `extend`, but not a shape of this area
  | _ => throw .attributeError            -- None, numbers, str, UserString, tuple have no `extend`

/-! ### `f(**kw)` -/

/-- `f(**kw)` for a function whose keyword-bindable parameters are `req` (no default) and `opt` (with their defaults):
    `kw` must be a mapping (here: a dict with `str` keys), every key must name a parameter and every required parameter
    must be given — TypeError otherwise; `F` receives the values of `req ++ opt` in that order. -/
def pyCallKwC13 (F : List PVal → PyM PVal) (req : List Str) (opt : List (Str × PVal)) (kw : PVal) : PyM PVal :=
  match kw with
  | .dict kvs =>
    if kvs.any (fun kv => !(req.contains kv.1 || opt.any (fun p => p.1 == kv.1))) then throw .typeError
    else if req.any (fun k => (dictGet? k kvs).isNone) then throw .typeError
    else F (req.map (fun k => (dictGet? k kvs).getD .none) ++ opt.map (fun p => (dictGet? p.1 kvs).getD p.2))
  | .obj _ _ => throw .unsupported
  | _ => throw .typeError                 -- "argument after ** must be a mapping"

/-! ### `str.replace(old, new, 1)` -/

/-- `s.replace(old, new, 1)`: the first (leftmost) occurrence only; an empty `old` matches at position 0; no occurrence:
    `s` itself.  `str.replace` wants `str` operands (an `HTML` operand is a TypeError); `UserString.replace` (an `HTML`
    receiver) unwraps `UserString` operands and returns an instance of the receiver's class. -/
def pyReplaceFirstC13 (s old new : PVal) : PyM PVal :=
  match s, old, new with
  | .str a, .str o, .str n => pure (.str (replaceFirst o n a))
  | .str _, .obj _ _, _ => throw .unsupported
  | .str _, _, .obj _ _ => throw .unsupported
  | .str _, _, _ => throw .typeError
  | .html a, o, n =>
    match textOf o, textOf n with
    | some o', some n' => pure (.html (replaceFirst o' n' a))
    | _, _ => match o, n with
      | .obj _ _, _ => throw .unsupported
      | _, .obj _ _ => throw .unsupported
      | _, _ => throw .typeError
  | .obj _ _, _, _ => throw .unsupported
  | .dict _, _, _ => throw .unsupported
  | _, _, _ => throw .attributeError


/-! ### `str(x)`, `Tag(…)`, `d.as_html_tags(…)` -/

/-- `str(x)`: `pyStr`, and for a `packaging` Version object (Py/PrimC10b.lean `versionObjC10b`) the text recorded in it -/
def pyStrC13 : PVal → PyM PVal
  | .obj "Version" fs =>
    match fieldGet? "text" fs with
    | some (.str t) => pure (.str t)
    | _ => throw .unsupported
  | v => pyStr v

/-- a `str` or an `HTML` -/
def isTextKindC13 : PVal → Bool
  | .str _ => true
  | .html _ => true
  | _ => false

/-- the attributes `TagAttrDict(**kwargs)` holds for keyword arguments whose values are `str` (kept) or `True` (the empty
    string) and whose normalised names (`_normalize_attr_name`: Model/Attrs.lean `normAttrName`) are pairwise distinct;
    anything else (other value kinds, two names that normalise to the same attribute and are merged) is not covered -/
def attrsOfKwC13 : List (Str × PVal) → List (Str × PVal) → Option (List (Str × PVal))
  | [], acc => some acc
  | (k, v) :: r, acc =>
    if (dictGet? (normAttrName k) acc).isSome then Option.none
    else match v with
      | .str s => attrsOfKwC13 r (acc ++ [(normAttrName k, .str s)])
      | .bool true => attrsOfKwC13 r (acc ++ [(normAttrName k, .str [])])
      | _ => Option.none

/-- `Tag(name, *children, **kwargs)` (`Tag.__init__` is not translated): for a `str` name, children that are `str` / `HTML`
    (kept as they are by `TagList(*kids)`) and keyword arguments as in `attrsOfKwC13`, the instance with the four
    attributes the other translated functions read (the layout of `embNode`, Lemmas/SrcRender.lean); `_add_ws` has its
    default.  Every other shape is `unsupported`. -/
def pyMkTagC13 (name children kw : PVal) : PyM PVal :=
  match name, children, kw with
  | .str n, .tuple kids, .dict kvs =>
    if kids.all isTextKindC13 then
      match attrsOfKwC13 kvs [] with
      | some attrs =>
        pure (.obj "Tag" [("name", .str n), ("attrs", .dict attrs), ("children", .obj "TagList" [("data", .list kids)]),
          ("add_ws", .bool true)])
      | Option.none => throw .unsupported
    else throw .unsupported
  | _, _, _ => throw .unsupported

/-- the argument values `as_html_tags` is recorded for: None / a `str` (`lib_prefix`), a `bool` (`include_version`) -/
def sameArgC13 : PVal → PVal → Bool
  | .none, .none => true
  | .str a, .str b => a == b
  | .bool a, .bool b => a == b
  | _, _ => false

def lookupTagsC13 (lp iv : PVal) : List PVal → Option PVal
  | [] => Option.none
  | .tuple [lp', iv', r] :: t => if sameArgC13 lp' lp && sameArgC13 iv' iv then some r else lookupTagsC13 lp iv t
  | _ :: t => lookupTagsC13 lp iv t

/-- `d.as_html_tags(lib_prefix=lp, include_version=iv)`: `HTMLDependency.as_html_tags` is not translated.  What it returns
    is a parameter: the harness records, in the embedded dependency object under `as_html_tags`, the graph of the real
    method on the argument pairs in play (a list of `(lib_prefix, include_version, result)`); an object without a record
    for the pair is outside the fragment.  Values of the built-in kinds have no such method: AttributeError. -/
def pyAsHtmlTagsC13 (d lp iv : PVal) : PyM PVal :=
  match d with
  | .obj _ fs =>
    match fieldGet? "as_html_tags" fs with
    | some (.list tbl) =>
      match lookupTagsC13 lp iv tbl with
      | some r => pure r
      | Option.none => throw .unsupported
    | _ => throw .unsupported
  | _ => throw .attributeError


/-! ### `json.dumps` -/

mutual
  /-- the JSON value `json.dumps` writes for a Python value of the model's fragment: None, `bool`, `str`, list / tuple
      (arrays), dict with `str` keys (objects, in insertion order).  Numbers are valid for CPython but outside the
      fragment (`unsupported`); an `HTML` (a `UserString`, not a `str`) is "not JSON serializable": TypeError; instances of
      other classes are not covered.  The first offending item, in source order, decides. -/
  def jsonOfPValC13 : PVal → PyM Json
    | .none => pure .null
    | .bool b => pure (.bool b)
    | .str s => pure (.str s)
    | .list xs => do pure (.arr (← jsonOfListC13 xs))
    | .tuple xs => do pure (.arr (← jsonOfListC13 xs))
    | .dict kvs => do pure (.obj (← jsonOfKvsC13 kvs))
    | .html _ => throw .typeError
    | .int _ => throw .unsupported
    | .float _ => throw .unsupported
    | .obj _ _ => throw .unsupported
  def jsonOfListC13 : List PVal → PyM JList
    | [] => pure .nil
    | x :: r => do
      let j ← jsonOfPValC13 x
      let t ← jsonOfListC13 r
      pure (.cons j t)
  def jsonOfKvsC13 : List (Str × PVal) → PyM JMems
    | [] => pure .nil
    | (k, v) :: r => do
      let j ← jsonOfPValC13 v
      let t ← jsonOfKvsC13 r
      pure (.cons k j t)
end

/-- the `indent=` argument: None, or a non-negative int (a negative int, a `bool` or a `str` indent is not covered) -/
def jsonIndentC13 : PVal → PyM (Option Nat)
  | .none => pure Option.none
  | .int n => if n ≥ 0 then pure (some n.toNat) else throw .unsupported
  | _ => throw .unsupported

/-- `json.dumps(x, indent=i)` (default separators, `ensure_ascii=True`): the model's `jsonPrint` -/
def pyJsonDumpsC13 (x ind : PVal) : PyM PVal := do
  let j ← jsonOfPValC13 x
  let i ← jsonIndentC13 ind
  pure (.str (jsonPrint i j))

end HtmlVerif.Py
