/-
Specification side of C02/C03: what the escaping must achieve, stated without the tables.
* `escTextChar` / `escAttrChar`: the per-character maps the property describes
* `decodeCharRefs`: an HTML character-reference decoder (the five named references the library can emit and
  decimal `&#N;`), used to state "decodes to exactly the original characters"
* `ampsOk`: every `&` in a string begins one of a given set of complete references ("cannot forge a reference")
-/
import HtmlVerif.Model.Str

namespace HtmlVerif

def escTextChar (c : Char) : Str :=
  if c = '&' then ['&', 'a', 'm', 'p', ';']
  else if c = '<' then ['&', 'l', 't', ';']
  else if c = '>' then ['&', 'g', 't', ';']
  else [c]

def escAttrChar (c : Char) : Str :=
  if c = '&' then ['&', 'a', 'm', 'p', ';']
  else if c = '<' then ['&', 'l', 't', ';']
  else if c = '>' then ['&', 'g', 't', ';']
  else if c = '"' then ['&', 'q', 'u', 'o', 't', ';']
  else if c = '\'' then ['&', 'a', 'p', 'o', 's', ';']
  else if c = '\r' then ['&', '#', '1', '3', ';']
  else if c = '\n' then ['&', '#', '1', '0', ';']
  else [c]

/-- named references known to the decoder (without the leading `&`) -/
def crNamedRefs : List (Str × Char) :=
  [(['a', 'm', 'p', ';'], '&'), (['l', 't', ';'], '<'), (['g', 't', ';'], '>'),
   (['q', 'u', 'o', 't', ';'], '"'), (['a', 'p', 'o', 's', ';'], '\'')]

def crMatchNamed (rest : Str) : Option (Char × Nat) :=
  crNamedRefs.findSome? fun nc => if nc.1.isPrefixOf rest then some (nc.2, nc.1.length) else none

def crDigitsVal (ds : Str) : Nat := ds.foldl (fun a c => 10 * a + (c.toNat - '0'.toNat)) 0

/-- `#` digits `;` -/
def crMatchDecimal : Str → Option (Char × Nat)
  | '#' :: r =>
    let ds := r.takeWhile Char.isDigit
    if ds.isEmpty then none
    else if (r.drop ds.length).head? = some ';' then
      let n := crDigitsVal ds
      if n < 0x110000 then some (Char.ofNat n, ds.length + 2) else none
    else none
  | _ => none

def crMatchRef (rest : Str) : Option (Char × Nat) :=
  match crMatchNamed rest with
  | some r => some r
  | none => crMatchDecimal rest

/-- decode character references; an `&` that starts no known reference is literal -/
def decodeCharRefs : Str → Str
  | [] => []
  | c :: cs =>
    if c = '&' then
      match crMatchRef cs with
      | some (ch, n) => ch :: decodeCharRefs (cs.drop n)
      | none => '&' :: decodeCharRefs cs
    else c :: decodeCharRefs cs
termination_by s => s.length
decreasing_by
  all_goals simp only [List.length_cons, List.length_drop]
  all_goals omega

/-- every `&` is immediately followed by one of `refs` (complete references, without the `&`) -/
def ampsOk (refs : List Str) : Str → Bool
  | [] => true
  | c :: cs => (c != '&' || refs.any (fun r => r.isPrefixOf cs)) && ampsOk refs cs

def textRefs : List Str := [['a', 'm', 'p', ';'], ['l', 't', ';'], ['g', 't', ';']]
def attrRefs : List Str :=
  textRefs ++ [['q', 'u', 'o', 't', ';'], ['a', 'p', 'o', 's', ';'], ['#', '1', '3', ';'], ['#', '1', '0', ';']]

end HtmlVerif

namespace HtmlVerif

/-! ### the property-level notion of a correct escape (independent of *which* reference is chosen)

`validEscape specials orig out`: reading `orig` and `out` in parallel, every character of `orig` that is in
`specials` appears in `out` as *some* character reference (named, decimal or hexadecimal) that decodes to it,
and every other character appears unchanged.  This is what C02/C03 state; the model's particular choice
(`&amp;`, `&#13;`, …) is one instance (`validEscape_spec` in Lemmas/Decode.lean). -/

def hexDigitVal? (c : Char) : Option Nat :=
  if '0' ≤ c ∧ c ≤ '9' then some (c.toNat - '0'.toNat)
  else if 'a' ≤ c ∧ c ≤ 'f' then some (c.toNat - 'a'.toNat + 10)
  else if 'A' ≤ c ∧ c ≤ 'F' then some (c.toNat - 'A'.toNat + 10)
  else none

/-- `#x` hexdigits `;` -/
def crMatchHex : Str → Option (Char × Nat)
  | '#' :: x :: r =>
    if x = 'x' ∨ x = 'X' then
      let ds := r.takeWhile fun c => (hexDigitVal? c).isSome
      if ds.isEmpty then none
      else if (r.drop ds.length).head? = some ';' then
        let n := ds.foldl (fun a c => 16 * a + (hexDigitVal? c).getD 0) 0
        if n < 0x110000 then some (Char.ofNat n, ds.length + 3) else none
      else none
    else none
  | _ => none

def crMatchAny (rest : Str) : Option (Char × Nat) :=
  match crMatchRef rest with
  | some r => some r
  | none => crMatchHex rest

def validEscape (specials : List Char) : Str → Str → Bool
  | [], out => out.isEmpty
  | c :: cs, out =>
    if specials.contains c then
      match out with
      | '&' :: rest =>
        match crMatchAny rest with
        | some (d, n) => d == c && validEscape specials cs (rest.drop n)
        | none => false
      | _ => false
    else
      match out with
      | d :: rest => d == c && validEscape specials cs rest
      | [] => false

def textSpecials : List Char := ['&', '<', '>']
def attrSpecials : List Char := ['&', '<', '>', '"', '\'', '\r', '\n']

end HtmlVerif
