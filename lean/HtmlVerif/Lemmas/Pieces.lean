import HtmlVerif.Spec.Pieces
import HtmlVerif.Lemmas.Render

namespace HtmlVerif

@[simp] theorem realize_opn (cfg : Cfg) (n : Str) (w : Bool) (a : Attrs) (sc : Bool) :
    (Piece.opn n w a sc).realize cfg = openTag cfg n a ++ (if sc then ['/', '>'] else ['>']) := rfl
@[simp] theorem realize_cls (cfg : Cfg) (n : Str) (w : Bool) : (Piece.cls n w).realize cfg = closeTag n := rfl
@[simp] theorem realize_ws (cfg : Cfg) (s : Str) : (Piece.ws s).realize cfg = s := rfl
@[simp] theorem realize_txt (cfg : Cfg) (s : Str) : (Piece.txt s).realize cfg = escText cfg s := rfl
@[simp] theorem realize_raw (cfg : Cfg) (s : Str) : (Piece.raw s).realize cfg = s := rfl

@[simp] theorem realizeAll_nil (cfg : Cfg) : realizeAll cfg [] = [] := rfl

@[simp] theorem realizeAll_append (cfg : Cfg) (a b : List Piece) :
    realizeAll cfg (a ++ b) = realizeAll cfg a ++ realizeAll cfg b := by
  simp [realizeAll]

@[simp] theorem realizeAll_cons (cfg : Cfg) (p : Piece) (ps : List Piece) :
    realizeAll cfg (p :: ps) = p.realize cfg ++ realizeAll cfg ps := by
  simp [realizeAll]

@[simp] theorem realizeAll_wsP (cfg : Cfg) (s : Str) : realizeAll cfg (wsP s) = s := by
  unfold wsP; split <;> simp_all

@[simp] theorem realize_textP (cfg : Cfg) (esc : Bool) (s : Str) :
    (textP esc s).realize cfg = if esc then escText cfg s else s := by
  unfold textP; split <;> simp_all

mutual
  /-- realising the pieces of a tag gives exactly `Tag.get_html_string` -/
  theorem render_eq_pieces (cfg : Cfg) (n : Node) (i : Nat) (e : Str) :
      realizeAll cfg (n.pieces cfg i e) = n.render cfg i e := by
    cases n with
    | tag name ws attrs kids =>
      have hk := renderKids_eq_pieces cfg kids
      simp only [Node.pieces, Node.render]
      by_cases h0 : kids.visible.isEmpty = true
      · by_cases hv : name ∈ cfg.void <;> simp [h0, hv]
      · simp only [h0]
        cases h1 : inlineChild? kids.visible with
        | some c =>
          by_cases hn : name ∈ cfg.noesc <;> cases hc : c.2 <;> simp [inlineText, hn, hc]
        | none => cases ws <;> simp [hk]
    | _ => simp [Node.pieces, Node.render]
  theorem renderKids_eq_pieces (cfg : Cfg) (ks : Nodes) (i : Nat) (e : Str) (first prevWs esc : Bool) :
      realizeAll cfg (ks.piecesKids cfg i e first prevWs esc) = ks.renderKids cfg i e first prevWs esc := by
    cases ks with
    | nil => simp [Nodes.piecesKids, Nodes.renderKids]
    | cons h t =>
      have ht := renderKids_eq_pieces cfg t
      cases h with
      | tag n w a k =>
        have hh := render_eq_pieces cfg (.tag n w a k)
        simp only [Nodes.piecesKids, Nodes.renderKids]
        cases first <;> cases prevWs <;> cases w <;> simp [ht, hh]
      | _ =>
        simp only [Nodes.piecesKids, Nodes.renderKids]
        cases first <;> cases prevWs <;> cases esc <;> simp [ht]
end

end HtmlVerif
