/-
Source tie (DESIGN §14) for the constructor validation of `HTMLDependency` (C10, "dependencies are validated"): the Lean
functions regenerated from the text of `HTMLDependency._validate_dict`, `_validate_dicts` and `__init__`
(Generated/Src.lean) compute, for every input, what the model (`validateDict`, `validateDicts`, `depInit`;
Model/Deps.lean) computes — error kinds and the order of the checks included.

No loop body is spelled out: the three loops are taken from the regenerated definitions by unification
(`keys_loop_kC10b`, `dicts_loop_kC10b`, `rel_loop_kC10b` of Lemmas/SrcC10b.lean); what is proved about each is its
effect on one pass.

Scope of the statements (the model's, made explicit):
  * an item / `source` that is "not a dict" is *any* value `v` with `isInstance v ["dict"] = false`; a dict has `str` keys
    and `str` values (`List (Str × Str)`); an instance of a dict subclass is neither and is not covered;
  * `packaging.version.Version` is a parameter (`G.mkVersion`, hypothesis `VerOkC10b`); the version may also be passed as
    a Version object;
  * `head=`: None, a `str`, or any other value, for which the field is what `pyTagList1` (Py/PrimC10b.lean) gives;
  * the `rel` loop assigns into the dicts the caller passed.  The translation (harness/pytr_c10b.py, `_elem_loop`) makes
    that functional under syntactic no-aliasing conditions it checks, and under the assumption that the items of
    `stylesheet=` are not shared with the other arguments; the effect on the caller's own objects is not stated;
  * the error messages are not evaluated (they read `self.name` / `self.version`, set before the first check).
-/
import HtmlVerif.Generated.Src
import HtmlVerif.Lemmas.SrcC10b

set_option linter.unusedVariables false

namespace HtmlVerif.SrcTie
open HtmlVerif HtmlVerif.Py HtmlVerif.Generated.Src

/-- `_validate_dict(d, req_attr)` as the source has it = `validateDict`: TypeError for any value that is not a dict,
    KeyError for the first required key the dict lacks.  (`self` is read only by the error messages.) -/
theorem src_validate_dict (h : HTMLDependency_validate_dict_available = true) (G : Globals) (self : PVal) (req : List Str)
    (x : ItemV) :
    HTMLDependency_validate_dict G self x.emb (.list (req.map .str))
      = embRes (fun _ => PVal.none) (validateDict req x.toItem) := by
  first
  | exact absurd h (by decide)
  | skip
  all_goals (
    unfold HTMLDependency_validate_dict
    simp only [ok_bind, pure_eq_ok, truthy_bool, pyIter_list]
    cases x with
    | other v hv => simp [ItemV.emb, ItemV.toItem, hv, validateDict, embRes, embErr]
    | dict d =>
      simp only [ItemV.emb, ItemV.toItem, isInstance_embKvsC10b, Bool.not_true, Bool.false_eq_true, if_false, validateDict]
      refine (keys_loop_kC10b d req _ _ _ (Except.ok PVal.none) ?step (fun _ => rfl)).trans ?_
      case step =>
        intro a s
        simp only [pyIn_embKvsC10b, ok_bind, truthy_bool]
        constructor
        · intro ha; exact ⟨_, by simp [ha]; rfl⟩
        · intro ha; simp [ha]
      cases checkKeys d req with
      | error e => rfl
      | ok u => cases u; rfl)

/-- `_validate_dicts(ld, req_attr)` as the source has it = `validateDicts` (in order, the first failing item decides);
    a value that cannot be iterated raises TypeError -/
theorem src_validate_dicts (h : HTMLDependency_validate_dicts_available = true)
    (h1 : HTMLDependency_validate_dict_available = true) (G : Globals) (self : PVal) (req : List Str) (x : LdV) :
    HTMLDependency_validate_dicts G self x.emb (.list (req.map .str))
      = embRes (fun _ => PVal.none) (x.model req) := by
  first
  | exact absurd h (by decide)
  | skip
  all_goals (
    unfold HTMLDependency_validate_dicts
    cases x with
    | scalar v hn hd hi => simp only [LdV.emb, hi, error_bind, LdV.model, embRes, embErr]
    | items l =>
      simp only [LdV.emb, LdV.model, ok_bind, pure_eq_ok, pyIter_list]
      refine (dicts_loop_kC10b req l _ _ _ (Except.ok PVal.none) ?step (fun _ => rfl)).trans ?_
      case step =>
        intro y s
        simp only [src_validate_dict h1]
        cases validateDict req y.toItem with
        | error e => simp [embRes]
        | ok d => exact ⟨_, by simp [embRes]; rfl⟩
      cases validateDicts req (l.map ItemV.toItem) <;> rfl)

/-- the version argument: a string (parsed by `packaging`, whose answer is `G.mkVersion`) or a Version object -/
def VerOkC10b (G : Globals) (vv : PVal) (verOk : Bool) (vrank : Nat) (version : Str) : Prop :=
  (∃ raw, vv = .str raw ∧ G.mkVersion raw = (if verOk then some (versionObjC10b vrank version) else none))
  ∨ (vv = versionObjC10b vrank version ∧ verOk = true)

-- the two tests of the normalisation, in whichever order the source makes them: None, a dict, anything else
set_option hygiene false in
local macro "init_norm_tacC10b" : tactic => `(tactic| (
    unfold HTMLDependency_init normSeqC10b
    by_cases h1 : isNone v = true
    · have h2 : isInstance v ["dict"] = false := isNone_not_dictC10b v h1
      simp only [h1, h2, if_true, isNone_listC10b, isDict_listC10b, truthy_bool, Bool.false_eq_true, if_false]
    · by_cases h2 : isInstance v ["dict"] = true
      · simp only [h1, h2, if_true, isNone_listC10b, isDict_listC10b, truthy_bool, Bool.false_eq_true, if_false]
      · simp only [h1, h2, truthy_bool, Bool.false_eq_true, if_false]))

/-- `if x is None: x = [] elif isinstance(x, dict): x = [x]` as the source has it, for `script`: the constructor does
    with `x` what it does with the normalised `x` (three cases on the two tests; nothing else of the body is looked at) -/
theorem init_norm_scriptC10b (h : HTMLDependency_init_available = true) (G : Globals) (self n ver src v st af me hd : PVal) :
    HTMLDependency_init G self n ver src v st af me hd
      = HTMLDependency_init G self n ver src (normSeqC10b v) st af me hd := by
  first
  | exact absurd h (by decide)
  | skip
  all_goals (
    init_norm_tacC10b)

/-- the same for `stylesheet` -/
theorem init_norm_stylesheetC10b (h : HTMLDependency_init_available = true) (G : Globals) (self n ver src sc v af me hd : PVal) :
    HTMLDependency_init G self n ver src sc v af me hd
      = HTMLDependency_init G self n ver src sc (normSeqC10b v) af me hd := by
  first
  | exact absurd h (by decide)
  | skip
  all_goals (
    init_norm_tacC10b)

/-- the same for `meta` -/
theorem init_norm_metaC10b (h : HTMLDependency_init_available = true) (G : Globals) (self n ver src sc st af v hd : PVal) :
    HTMLDependency_init G self n ver src sc st af v hd
      = HTMLDependency_init G self n ver src sc st af (normSeqC10b v) hd := by
  first
  | exact absurd h (by decide)
  | skip
  all_goals (
    init_norm_tacC10b)

-- everything after the `source=` checks (script, stylesheet with the `rel` loop, meta, all_files, head)
set_option hygiene false in
local macro "init_tailC10b" : tactic => `(tactic| (
    cases hsc : sc.model reqScript with
    | error e => simp only [embRes, error_bind, map_error]
    | ok ds1 =>
      cases hst : st.model reqStylesheet with
      | error e => simp only [embRes, ok_bind, error_bind, map_error]
      | ok ds2 =>
        simp only [embRes, ok_bind, LdV_model_ok_embC10b _ _ _ hsc, LdV_model_ok_embC10b _ _ _ hst, embDictsC10b, pyIter_list]
        rw [map_bind]
        refine rel_loop_kC10b ds2 _ _ _ _ ?step ?k
        case step =>
          intro d s
          simp only [pyIn_embKvsC10b, ok_bind, truthy_bool]
          by_cases hr : hasKey ['r','e','l'] d = true
          · exact ⟨_, by simp [hr, addRel_presentC10b d hr]; rfl⟩
          · simp only [Bool.not_eq_true] at hr
            exact ⟨_, by simp [hr, pySetItem_addRelC10b d hr]; rfl⟩
        case k =>
          intro s hs
          simp only [List.nil_append] at hs
          simp only [hs, pyRebuildSeq_listC10b, ok_bind]
          cases hme : me.model reqMeta with
          | error e => simp only [embRes, error_bind, map_error]
          | ok ds3 =>
            simp only [embRes, ok_bind, LdV_model_ok_embC10b _ _ _ hme, embDictsC10b]
            cases hd with
            | none => simp [HeadV.emb, HeadV.res, isNone, embDepObjC10b, fieldSet, embDictsC10b, projDepC10b, depFieldNamesC10b, fieldGet?]
            | text t => simp [HeadV.emb, HeadV.res, isNone, isInstance, builtinClasses, embDepObjC10b, fieldSet, embDictsC10b, mkHTML, pyTagList1, headItemC10b, tagListObjC10b, projDepC10b, depFieldNamesC10b, fieldGet?]
            | node v hn hs' =>
              simp only [HeadV.emb, HeadV.res, hn, hs', Bool.false_eq_true, if_false]
              cases pyTagList1 v with
              | error e => rfl
              | ok tl => simp [embDepObjC10b, fieldSet, embDictsC10b, projDepC10b, depFieldNamesC10b, fieldGet?]))

/-- `__init__` on arguments whose `script` / `stylesheet` / `meta` are already a list of items (or a value that cannot be
    iterated): version, source, the three validations in order, the `rel` loop, `all_files`, `head` -/
theorem src_init_normC10b (h : HTMLDependency_init_available = true) (h1 : HTMLDependency_validate_dicts_available = true)
    (h2 : HTMLDependency_validate_dict_available = true) (G : Globals) (cls : String)
    (a : DepArg) (vv : PVal) (hver : VerOkC10b G vv a.verOk a.vrank a.version)
    (src : SourceV) (hsrc : a.source = src.toArg) (sc st me : LdV) (hd : HeadV) :
    projDepC10b <$> HTMLDependency_init G (.obj cls []) (.str a.name) vv src.emb sc.emb st.emb (.bool a.allFiles) me.emb hd.emb
      = match depInitOfC10b a (sc.model reqScript) (st.model reqStylesheet) (me.model reqMeta) with
        | .error e => .error (embErr e)
        | .ok info => hd.res >>= fun hv => .ok (embDepObjC10b cls src.emb info hv) := by
  first
  | exact absurd h (by decide)
  | skip
  all_goals (
    have hvd := fun self req x => src_validate_dicts h1 h2 G self req x
    have hreq1 : PVal.list [PVal.str ['s', 'r', 'c']] = PVal.list (reqScript.map PVal.str) := rfl
    have hreq2 : PVal.list [PVal.str ['h', 'r', 'e', 'f']] = PVal.list (reqStylesheet.map PVal.str) := rfl
    have hreq3 : PVal.list [PVal.str ['n', 'a', 'm', 'e'], PVal.str ['c', 'o', 'n', 't', 'e', 'n', 't']]
        = PVal.list (reqMeta.map PVal.str) := rfl
    unfold HTMLDependency_init depInitOfC10b
    simp only [pySetAttr_objC10b, ok_bind, pure_eq_ok, truthy_bool, isNone_LdVC10b, isDict_LdVC10b, Bool.false_eq_true, if_false,
      hreq1, hreq2, hreq3, hvd, pyGetAttr_fieldSetC10b, hsrc]
    -- the version
    have hv : (a.verOk = false ∧ ∃ raw, vv = .str raw ∧ G.mkVersion raw = none)
        ∨ (a.verOk = true ∧ ((∃ raw, vv = .str raw ∧ G.mkVersion raw = some (versionObjC10b a.vrank a.version))
                              ∨ vv = versionObjC10b a.vrank a.version)) := by
      rcases hver with ⟨raw, hr, hm⟩ | ⟨hr, hok⟩
      · cases hok : a.verOk
        · exact .inl ⟨rfl, raw, hr, by simpa [hok] using hm⟩
        · exact .inr ⟨rfl, .inl ⟨raw, hr, by simpa [hok] using hm⟩⟩
      · exact .inr ⟨hok, .inr hr⟩
    rcases hv with ⟨hbad, raw, rfl, hm⟩ | ⟨hok, hv⟩
    · simp [isStr_strC10b, pyMkVersion_strC10b, hm, hbad, embErr, map_error]
    · have hstage : ∀ (K : PVal → PyM PVal),
          (if isInstance vv ["str"] = true then pyMkVersion G vv >>= K else K vv) = K (versionObjC10b a.vrank a.version) := by
        intro K
        rcases hv with ⟨raw, rfl, hm⟩ | rfl
        · simp only [isStr_strC10b, pyMkVersion_strC10b, hm, ok_bind, if_true]
        · simp only [isStr_versionC10b, Bool.false_eq_true, if_false]
      refine (congrArg (Functor.map projDepC10b) (hstage _)).trans ?_
      simp only [hok, Bool.not_true, Bool.false_eq_true, if_false]
      cases src with
      | other v hn hdd => simp [SourceV.emb, SourceV.toArg, hn, hdd, checkSource, embErr, map_error]
      | none =>
        simp only [SourceV.emb, SourceV.toArg, isNone_noneC10b, Bool.not_true, Bool.false_eq_true, if_false, checkSource]
        init_tailC10b
      | dict d =>
        simp only [SourceV.emb, SourceV.toArg, isNone_embKvsC10b, isInstance_embKvsC10b, Bool.not_false, Bool.not_true,
          Bool.false_eq_true, if_false, if_true, pyOr_in_embKvsC10b, ok_bind, truthy_bool]
        cases hk : (hasKey ['h','r','e','f'] d || hasKey ['s','u','b','d','i','r'] d)
        · simp [checkSource_dict_badC10b d hk, embErr, map_error]
        · obtain ⟨srcm, hsm⟩ := checkSource_dict_okC10b d hk
          simp only [hsm, Bool.not_true, Bool.false_eq_true, if_false]
          init_tailC10b)


/-- `HTMLDependency.__init__` as the source has it = `depInit`, for every argument record: run on an instance with an
    empty `__dict__` (of `HTMLDependency` or a subclass `cls`), it raises what the model raises — ValueError for a version
    `packaging` refuses, then TypeError for a `source` that is not a dict or has neither `href` nor `subdir`, then for
    `script`, `stylesheet`, `meta` in this order TypeError for an item that is not a dict (or a value that cannot be
    iterated) and KeyError for a missing required key, the first failing item deciding — and otherwise leaves the fields
    the model computes (a single dict is the one-element list, None the empty list, every stylesheet gets
    `rel="stylesheet"` unless it has a `rel`), `source` as given, and `head` as `HeadV.res` says.  The instance is
    compared attribute by attribute (`projDepC10b`): the order of the assignments is not part of the statement.
    `hver`: what `packaging` answers for the version string is the model's (`verOk`, `vrank`, `str(Version)`). -/
theorem src_init (h : HTMLDependency_init_available = true) (h1 : HTMLDependency_validate_dicts_available = true)
    (h2 : HTMLDependency_validate_dict_available = true) (G : Globals) (cls : String)
    (a : DepArgV) (vv : PVal) (hver : VerOkC10b G vv a.verOk a.vrank a.version) (hd : HeadV) :
    projDepC10b <$> HTMLDependency_init G (.obj cls []) (.str a.name) vv a.source.emb a.script.emb a.stylesheet.emb
        (.bool a.allFiles) a.metas.emb hd.emb
      = match depInit a.toArg with
        | .error e => .error (embErr e)
        | .ok info => hd.res >>= fun hv => .ok (embDepObjC10b cls a.source.emb info hv) := by
  first
  | exact absurd h (by decide)
  | skip
  all_goals (
    rw [init_norm_scriptC10b h G _ _ _ _ a.script.emb, init_norm_stylesheetC10b h G _ _ _ _ _ a.stylesheet.emb,
      init_norm_metaC10b h G _ _ _ _ _ _ _ a.metas.emb, normSeq_embC10b, normSeq_embC10b, normSeq_embC10b,
      depInit_eq_ofC10b]
    simp only [DepArgV.toArg, normItems_toLdC10b]
    exact src_init_normC10b h h1 h2 G cls a.toArg vv hver a.source rfl a.script.toLd a.stylesheet.toLd a.metas.toLd hd)

/-- what `C10_depInit_single_script` says about the model, said about the source text (for any other arguments, valid
    or not): a single dict and the one-element list holding it are the same call -/
theorem src_init_single_script (h : HTMLDependency_init_available = true) (G : Globals) (self n ver src st af me hd : PVal)
    (d : List (Str × Str)) :
    HTMLDependency_init G self n ver src (embKvsC10b d) st af me hd
      = HTMLDependency_init G self n ver src (.list [embKvsC10b d]) st af me hd := by
  first
  | exact absurd h (by decide)
  | skip
  all_goals (
    rw [init_norm_scriptC10b h G _ _ _ _ (embKvsC10b d), init_norm_scriptC10b h G _ _ _ _ (.list [embKvsC10b d])]
    rfl)

end HtmlVerif.SrcTie
