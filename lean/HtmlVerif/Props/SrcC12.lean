/-
Source tie (DESIGN §14) for dependency URLs and head markup: the Lean functions regenerated from the text of
`HTMLDependency.source_path_map`, `HTMLDependency.as_dict` and `HTMLDependency.as_html_tags` (htmltools/_core.py) compute,
for every dependency, prefix and flag, what the model (Model/DepTags.lean: `sourcePathMap`, `asDict`, `asHtmlTags`) computes.
Obligations of C12 (`C12_url_local`, `C12_url_remote`, `C12_dict_*` are about these model functions) and C11 (`C11_dep_tags`).

What the tie covers and what it takes as given:
* the glue logic — which source kind gives which mapping, `name[-version]`, the treatment of `lib_prefix` (None / "" / text),
  which keys of which items are rewritten and in which order, the loops and the exceptions they let through, the keys of the
  returned dict, the order meta / link / script / head of the tag list;
* `posixpath.join` / `urllib.parse.quote` are the model's own `posixJoin` / `quote` (Py/PrimC12.lean) — their agreement with
  the standard library is checked by C12's correspondence check, not here;
* the run-time facts: `os.path.realpath(subdir)` answers the model's `abs` (recorded in the object, `embDep`), `package_dir(pkg)`
  answers `pdir`, and for a packaged source the model's `abs` is `os.path.join(pdir, subdir)` (hypothesis `hpkg`; the package
  name is not empty — `importlib` raises TypeError for "");
* `deepcopy` is the identity on values (they are immutable here), and the in-place update of the copied items is made
  functional by the translator under a syntactic no-aliasing condition (harness/pytr_c12.py).

No loop body is spelled out: `item_loop` / `comp_loop` (Lemmas/SrcC12.lean) take the body from the regenerated definition by
unification; what is proved about a body is its effect on one pass, for any loop state whose first component is the accumulator.
-/
import HtmlVerif.Generated.Src
import HtmlVerif.Lemmas.SrcC12
import HtmlVerif.Props.SrcRender
import HtmlVerif.Props.SrcAttrs

set_option linter.unusedVariables false
set_option linter.unusedSimpArgs false

namespace HtmlVerif.SrcTie
open HtmlVerif HtmlVerif.Py HtmlVerif.Generated.Src

/-- what the tie assumes of the run time for a packaged source: the package name is not empty and the resolved source
    directory the model carries is `os.path.join(package_dir(pkg), subdir)` -/
def PkgFacts (d : DepInfo) (pdir : Str) : Prop :=
  ∀ pkg dir abs, d.source = .subdir (some pkg) dir abs → pkg ≠ [] ∧ abs = posixJoin pdir dir

/-- `source_path_map(lib_prefix=lp, include_version=iv)` as the source has it = `sourcePathMap` -/
theorem src_source_path_map (h : HTMLDependency_source_path_map_available = true) (G : Globals)
    (d : DepInfo) (hh : Bool) (head : Nodes) (pdir : Str) (hpkg : PkgFacts d pdir) (lp : Option Str) (iv : Bool) :
    HTMLDependency_source_path_map G (embDep d hh head pdir) (embOptStr lp) (.bool iv)
      = .ok (embPathMap (sourcePathMap d lp iv)) := by
  first
  | exact absurd h (by decide)
  | skip
  all_goals (
    obtain ⟨g1, g2, g3, -, -, -, -⟩ := getattr_dep d hh head pdir
    have hlp : truthy (embOptStr lp) = match lp with | none => false | some l => !l.isEmpty := by
      cases lp <;> rfl
    unfold HTMLDependency_source_path_map
    simp only [ok_bind, pure_eq_ok, truthy_bool, g1, g2, g3, pyStr_version, pyAddBase_str, pyAdd_str]
    cases hs : d.source with
    | none => simp [embSource, isNone, sourcePathMap, hs, embPathMap, kSource, dtKHref]
    | href u => simp [embSource, isNone, pyIn, Py.dictGet?, pyGetItem, sourcePathMap, hs, embPathMap, kSource, dtKHref]
    | subdir pkg dir abs =>
      cases pkg with
      | none =>
        cases lp with
        | none => cases iv <;>
            simp [embSource, isNone, pyIn, Py.dictGet?, pyGetItem, pyDictGet, sourcePathMap, hs, embPathMap, kSource, dtKHref,
              kSubdir, kPackage, osRealpath_dep, absOf, embOptStr, truthy, withPrefix, dirName]
        | some l => cases iv <;> cases l <;>
            simp [embSource, isNone, pyIn, Py.dictGet?, pyGetItem, pyDictGet, sourcePathMap, hs, embPathMap, kSource, dtKHref,
              kSubdir, kPackage, osRealpath_dep, absOf, embOptStr, truthy, withPrefix, dirName]
      | some p =>
        obtain ⟨hp, hj⟩ := hpkg p dir abs hs
        cases lp with
        | none => cases iv <;>
            simp [embSource, isNone, pyIn, Py.dictGet?, pyGetItem, pyDictGet, sourcePathMap, hs, embPathMap, kSource, dtKHref,
              kSubdir, kPackage, pyPackageDir_dep, hp, hj, embOptStr, truthy, withPrefix, dirName]
        | some l => cases iv <;> cases l <;>
            simp [embSource, isNone, pyIn, Py.dictGet?, pyGetItem, pyDictGet, sourcePathMap, hs, embPathMap, kSource, dtKHref,
              kSubdir, kPackage, pyPackageDir_dep, hp, hj, embOptStr, truthy, withPrefix, dirName])

/-- `as_dict(lib_prefix=lp, include_version=iv)` as the source has it = `asDict`: the stylesheet loop, the script loop (KeyError
    for an item without its path key), the rendering of `head` (RuntimeError for an un-expanded object), the returned keys.
    `fuel`: any recursion budget that covers the nesting depth of `head`. -/
theorem src_as_dict (h : HTMLDependency_as_dict_available = true) (h0 : HTMLDependency_source_path_map_available = true)
    (h1 : Tag_get_html_string_available = true) (h2 : TagList_get_html_string_available = true)
    (hn : normalize_text_available = true) (he : html_escape_available = true) (hs : HTML_as_string_available = true)
    (cfg : Cfg) (ht : keysPlain cfg.textTbl = true) (ha : keysPlain cfg.attrTbl = true)
    (d : DepInfo) (hh : Bool) (head : Nodes) (pdir : Str) (hpkg : PkgFacts d pdir) (lp : Option Str) (iv : Bool)
    (fuel : Nat) (hf : 2 * kidsDepth head + 1 ≤ fuel) :
    HTMLDependency_as_dict (globalsOf cfg) (fuel + 1) (embDep d hh head pdir) (embOptStr lp) (.bool iv)
      = embRes (embDepDict d) (asDict cfg d hh head lp iv) := by
  first
  | exact absurd h (by decide)
  | skip
  all_goals (
    obtain ⟨g1, g2, g3, g4, g5, g6, g7⟩ := getattr_dep d hh head pdir
    have hspm := src_source_path_map h0 (globalsOf cfg) d hh head pdir hpkg lp iv
    have hhref : pyGetItem (embPathMap (sourcePathMap d lp iv)) (PVal.str dtKHref)
        = .ok (.str (sourcePathMap d lp iv).href) := by
      simp [embPathMap, pyGetItem, Py.dictGet?, kSource, dtKHref]
    have hrender := src_render_list h1 h2 hn he hs cfg ht ha head fuel hf 0 eolLF true true
    simp only [Int.natCast_zero, Int.cast_ofNat_Int] at hrender
    rw [HTMLDependency_as_dict]
    simp only [ok_bind, pure_eq_ok, truthy_bool, g1, g2, g4, g5, g6, g7, hspm, lit_href, hhref, pyStr_version, pyDeepcopy_list,
      pyIter_list]
    rw [asDict_seq]
    apply Sim.eq_embRes'
    -- the stylesheet loop
    refine Sim.seq (item_loop embKVs embKVs (sheetStep (sourcePathMap d lp iv).href) d.stylesheet _ _ ?sheets) ?afterSheets
    case sheets =>
      intro s _ acc rest
      simp only [ok_bind, pyGetItem_embKVs, accStep, sheetStep, lit_href, lit_rel, lit_stylesheet]
      cases alookup dtKHref s with
      | none => simp [Sim, embErr]
      | some p =>
        simp only [ok_bind, pyQuote_str, pyPosixJoin_str, pyDictUpdate_embKVs2, pyListAppendC12_list]
        exact Sim.yield_ok _ rfl (by simp)
    case afterSheets =>
      intro st sheets hst
      obtain ⟨st1, st2⟩ := st
      simp only at hst; subst hst
      simp only [ok_bind, pyWithItems_list, pyIter_list]
      -- the script loop
      refine Sim.seq (item_loop embKVs embKVs (scriptStep (sourcePathMap d lp iv).href) d.script _ _ ?scripts) ?afterScripts
      case scripts =>
        intro s _ acc rest
        simp only [ok_bind, pyGetItem_embKVs, accStep, scriptStep, lit_src]
        cases alookup dtKSrc s with
        | none => simp [Sim, embErr]
        | some p =>
          simp only [ok_bind, pyQuote_str, pyPosixJoin_str, pyDictUpdate_embKVs1, pyListAppendC12_list]
          exact Sim.yield_ok _ rfl (by simp)
      case afterScripts =>
        intro st scripts hst
        obtain ⟨st1, st2⟩ := st
        simp only at hst; subst hst
        simp only [ok_bind, pyWithItems_list]
        -- `head`
        cases hh with
        | false =>
          simp [embHead, isNone, Sim, embDepDict, embOptStr, kName, kVersion, kScript, kStylesheet, kMeta, kHead, bind, Except.bind]
        | true =>
          have hc : (Char.ofNat 10) = '\n' := rfl
          simp only [embHead, if_true, isNone, Bool.false_eq_true, if_false, pyClassOf, hc] at hrender ⊢
          simp only [eolLF] at hrender
          rw [hrender]
          simp only [renderListChecked, eolLF]
          by_cases hk : head.hasTobjKids = true
          · simp [hk, Sim, embErr, Except.map, bind, Except.bind]
          · simp [hk, Sim, Except.map, embDepDict, embOptStr, kName, kVersion, kScript, kStylesheet, kMeta, kHead, bind, Except.bind])

/-- `Tag(name, **m)` for an item dict `m` — the constructor primitive built on the regenerated `TagAttrDict.update`
    (emitted by harness/pytr_c12.py next to the translation of `as_dict`) — is the model's `mkTag`: TypeError for a key that
    collides with a parameter of `Tag.__init__`, otherwise a childless tag whose attributes are `update`'s result -/
theorem src_mkTagKw (hu : TagAttrDict_update_available = true) (u1 : normalize_attr_value_available = true)
    (u2 : normalize_attr_name_available = true) (he : html_escape_available = true)
    (u4 : HTML_add_available = true) (u5 : HTML_radd_available = true) (hs : HTML_as_string_available = true)
    (cfg : Cfg) (hsp : escText cfg [' '] = [' ']) (ht : keysPlain cfg.textTbl = true) (ha : keysPlain cfg.attrTbl = true)
    (name : Str) (m : KVs) :
    mkTagKw (globalsOf cfg) (.str name) (embKVs m) = embRes embNode (mkTag cfg name m) := by
  have hupd : TagAttrDict_update (globalsOf cfg) (embAttrs []) (.tuple (([] : List (List (Str × AttrArg))).map embArgDict))
      (embArgDict (kwOf m)) = embRes embAttrs (tagInitAttrs cfg [] (kwOf m)) :=
    src_update hu u1 u2 he u4 u5 hs cfg hsp ht ha [] [] (kwOf m)
  rw [embArgDict_kwOf] at hupd
  simp only [embAttrs, List.map_nil] at hupd
  unfold mkTagKw mkTag
  simp only [embKVs]
  rw [reserved_embKVs]
  by_cases hA : ((m.map fun p => (p.1, PVal.str p.2)).any fun kv =>
      decide (kv.1 = ['s', 'e', 'l', 'f']) || decide (kv.1 = ['_', 'n', 'a', 'm', 'e'])) = true
  · simp [hA, embRes, embErr]
  · rcases dictGet_embKVs_str ['_', 'a', 'd', 'd', '_', 'w', 's'] m with ⟨v, hv⟩ | hv
    · simp [hA, hv, embRes, embErr]
    · simp only [hA, hv, Bool.false_eq_true, if_false, Option.isSome_none, Bool.or_false]
      simp only [embKVs, kwOf] at hupd
      rw [hupd]
      generalize tagInitAttrs cfg [] _ = y
      cases y with
      | error e => simp [embRes]
      | ok a => simp [embRes, embNode, embNodes, embAttrs]

/-- `as_html_tags(lib_prefix=lp, include_version=iv)` as the source has it = `asHtmlTags`: the dict of `as_dict`, one
    `Tag("meta" / "link" / "script", **item)` per item in that order (the first failing item decides), then
    `TagList(*metas, *links, *scripts, self.head)`.
    Restrictions (of the two constructor primitives, Py/PrimC12.lean and `mkTagKw`): `Tag.__init__` / `TagList.__init__` are
    not translated; `Tag(name, **kw)` is the childless-tag constructor over the translated `TagAttrDict.update`, `TagList(...)`
    keeps tag nodes, drops None and splices tag lists. -/
theorem src_as_html_tags (h : HTMLDependency_as_html_tags_available = true)
    (hd : HTMLDependency_as_dict_available = true) (h0 : HTMLDependency_source_path_map_available = true)
    (h1 : Tag_get_html_string_available = true) (h2 : TagList_get_html_string_available = true)
    (hn : normalize_text_available = true)
    (hu : TagAttrDict_update_available = true) (u1 : normalize_attr_value_available = true)
    (u2 : normalize_attr_name_available = true) (he : html_escape_available = true)
    (u4 : HTML_add_available = true) (u5 : HTML_radd_available = true) (hs : HTML_as_string_available = true)
    (cfg : Cfg) (hsp : escText cfg [' '] = [' ']) (ht : keysPlain cfg.textTbl = true) (ha : keysPlain cfg.attrTbl = true)
    (d : DepInfo) (hh : Bool) (head : Nodes) (pdir : Str) (hpkg : PkgFacts d pdir) (lp : Option Str) (iv : Bool)
    (fuel : Nat) (hf : 2 * kidsDepth head + 1 ≤ fuel) :
    HTMLDependency_as_html_tags (globalsOf cfg) (fuel + 2) (embDep d hh head pdir) (embOptStr lp) (.bool iv)
      = embRes embTagList (asHtmlTags cfg d hh head lp iv) := by
  first
  | exact absurd h (by decide)
  | skip
  all_goals (
    obtain ⟨-, -, -, -, -, -, g7⟩ := getattr_dep d hh head pdir
    have hdict := src_as_dict hd h0 h1 h2 hn he hs cfg ht ha d hh head pdir hpkg lp iv fuel hf
    have hmk := fun name m => src_mkTagKw hu u1 u2 he u4 u5 hs cfg hsp ht ha name m
    rw [HTMLDependency_as_html_tags]
    simp only [ok_bind, pure_eq_ok, truthy_bool, hdict, g7]
    rw [asHtmlTags_seq]
    cases hdd : asDict cfg d hh head lp iv with
    | error e => rfl
    | ok dd =>
      have k1 : pyGetItem (embDepDict d dd) (PVal.str ['m', 'e', 't', 'a']) = .ok (.list (dd.metas.map embKVs)) := by
        simp [embDepDict, pyGetItem, Py.dictGet?, kName, kVersion, kScript, kStylesheet, kMeta, kHead]
      have k2 : pyGetItem (embDepDict d dd) (PVal.str ['s', 't', 'y', 'l', 'e', 's', 'h', 'e', 'e', 't']) = .ok (.list (dd.stylesheet.map embKVs)) := by
        simp [embDepDict, pyGetItem, Py.dictGet?, kName, kVersion, kScript, kStylesheet, kMeta, kHead]
      have k3 : pyGetItem (embDepDict d dd) (PVal.str ['s', 'c', 'r', 'i', 'p', 't']) = .ok (.list (dd.script.map embKVs)) := by
        simp [embDepDict, pyGetItem, Py.dictGet?, kName, kVersion, kScript, kStylesheet, kMeta, kHead]
      simp only [embRes, ok_bind, ok_bindE, k1, k2, k3, pyIter_list]
      apply Sim.eq_embRes'
      have one : ∀ (name : Str) (m : KVs) (acc : List Node),
          Sim (fun (r : ForInStep (List PVal)) (b' : List Node) => ∃ s', r = .yield s' ∧ s' = b'.map embNode) embErr
            (do
              let t ← mkTagKw (globalsOf cfg) (PVal.str name) (embKVs m)
              Except.ok (ForInStep.yield (acc.map embNode ++ [t])) : PyM (ForInStep (List PVal)))
            (accStep (mkTag cfg name) m acc) := by
        intro name m acc
        rw [hmk, accStep]
        cases mkTag cfg name m with
        | error e => exact rfl
        | ok t => exact ⟨_, rfl, _, rfl, by simp⟩
      refine Sim.seq (comp_loop embKVs embNode (mkTag cfg nMeta) dd.metas _ (fun m _ acc => one _ m acc)) ?_
      intro s1 metas hs1; subst hs1
      refine Sim.seq (comp_loop embKVs embNode (mkTag cfg nLink) dd.stylesheet _ (fun m _ acc => one _ m acc)) ?_
      intro s2 links hs2; subst hs2
      refine Sim.seq (comp_loop embKVs embNode (mkTag cfg nScript) dd.script _ (fun m _ acc => one _ m acc)) ?_
      intro s3 scripts hs3; subst hs3
      simp only [ok_bind, pyIter_list, mkTagList]
      have : tagListItems (metas.map embNode ++ links.map embNode ++ scripts.map embNode ++ [embHead hh head])
          = .ok (embNodes (Nodes.ofList (metas ++ links ++ scripts) ++ (if hh then head else .nil))) := by
        rw [← List.map_append, ← List.map_append, tagListItems_nodes, tagListItems_head, embNodes_append, embNodes_ofList]
        rfl
      rw [this]
      exact Sim.of_eq rfl)

/-! ### for the tables as they are in the source right now -/

theorem src_as_dict_now (h : HTMLDependency_as_dict_available = true) (h0 : HTMLDependency_source_path_map_available = true)
    (h1 : Tag_get_html_string_available = true) (h2 : TagList_get_html_string_available = true)
    (hn : normalize_text_available = true) (he : html_escape_available = true) (hs : HTML_as_string_available = true)
    (d : DepInfo) (hh : Bool) (head : Nodes) (pdir : Str) (hpkg : PkgFacts d pdir) (lp : Option Str) (iv : Bool) :
    HTMLDependency_as_dict (globalsOf cfgNow) (2 * kidsDepth head + 2) (embDep d hh head pdir) (embOptStr lp) (.bool iv)
      = embRes (embDepDict d) (asDict cfgNow d hh head lp iv) :=
  src_as_dict h h0 h1 h2 hn he hs cfgNow src_tables_ok.1 src_tables_ok.2.1 d hh head pdir hpkg lp iv _ (Nat.le_refl _)

theorem src_as_html_tags_now (h : HTMLDependency_as_html_tags_available = true)
    (hd : HTMLDependency_as_dict_available = true) (h0 : HTMLDependency_source_path_map_available = true)
    (h1 : Tag_get_html_string_available = true) (h2 : TagList_get_html_string_available = true)
    (hn : normalize_text_available = true)
    (hu : TagAttrDict_update_available = true) (u1 : normalize_attr_value_available = true)
    (u2 : normalize_attr_name_available = true) (he : html_escape_available = true)
    (u4 : HTML_add_available = true) (u5 : HTML_radd_available = true) (hs : HTML_as_string_available = true)
    (d : DepInfo) (hh : Bool) (head : Nodes) (pdir : Str) (hpkg : PkgFacts d pdir) (lp : Option Str) (iv : Bool) :
    HTMLDependency_as_html_tags (globalsOf cfgNow) (2 * kidsDepth head + 3) (embDep d hh head pdir) (embOptStr lp) (.bool iv)
      = embRes embTagList (asHtmlTags cfgNow d hh head lp iv) :=
  src_as_html_tags h hd h0 h1 h2 hn hu u1 u2 he u4 u5 hs cfgNow src_tables_ok.2.2 src_tables_ok.1 src_tables_ok.2.1
    d hh head pdir hpkg lp iv _ (Nat.le_refl _)

end HtmlVerif.SrcTie
