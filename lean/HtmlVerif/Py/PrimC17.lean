/-
Primitives of the Python fragment used by the C17 translations (`Tag.__enter__`, `Tag.__exit__`,
`wrap_displayhook_handler` and its inner function, `Tag.append`; harness/pytr_c17.py).  Same contract as Py/Prim.lean:
what CPython does on that argument shape, the exception kind CPython raises, or `unsupported`.

What is new here is *state*.  `sys.displayhook` is a process global, a `Tag` is a mutable object referred to by identity
(`self.append` is a bound method of it), and what the state is *after an exception* is part of the property (the hook is
restored although the previous hook raised).  So the functions that touch the state are translated into the monad

    PySM α  =  SysC17 → Except PyErr α × SysC17

— the interpreter state goes in and comes out on every path, also the exceptional one (unlike `StateT σ (Except ε)`).

* `SysC17.displayhook` is `sys.displayhook`; `SysC17.heap n` is the `__dict__` of the object with identity `n`, as the
  instance value `.obj cls fields` of Py/Val.lean; `SysC17.log` is what the harness's outermost recorder has been handed.
* A *reference* to the object `n` of class `C` is the value `.obj C [("__id__", .int n)]`: `isinstance` sees the class, the
  fields live in the heap.  In a state-passing method `self` is such a reference.
* Callables are first-order values: a closure `.obj "closure" [("fn", .str qualname), ("captured", .list [value…])]`,
  a bound method `.obj "method" [("self", reference), ("func", .str "Class.name")]`, the recorder `.obj "recorder" []`.
  They are applied by `applyCallableC17`, which the translator emits (Generated/Src.lean) because it runs the translated
  bodies.  A state-passing function takes the application function as a parameter (`call`), so that what it does is
  stated for *any* meaning of calling the handler.
* `Ellipsis` is `.obj "ellipsis" []`.
-/
import HtmlVerif.Py.Prim

namespace HtmlVerif.Py
open HtmlVerif

/-- the part of the interpreter state the C17 functions read and write -/
structure SysC17 where
  displayhook : PVal              -- `sys.displayhook`
  heap : Nat → PVal               -- objects by identity
  log : List PVal                 -- the recorder's log

/-- computations that read and write the interpreter state; the state survives an exception -/
def PySM (α : Type) : Type := SysC17 → Except PyErr α × SysC17

namespace PySM

@[inline] protected def pure {α} (a : α) : PySM α := fun S => (.ok a, S)

@[inline] protected def bind {α β} (x : PySM α) (f : α → PySM β) : PySM β := fun S =>
  match x S with
  | (.ok a, S') => f a S'
  | (.error e, S') => (.error e, S')

instance : Monad PySM where
  pure := PySM.pure
  bind := PySM.bind

instance : MonadExceptOf PyErr PySM where
  throw e := fun S => (.error e, S)
  tryCatch x h := fun S =>
    match x S with
    | (.ok a, S') => (.ok a, S')
    | (.error e, S') => h e S'

/-- a state-free computation of the fragment: the state is untouched -/
instance : MonadLift PyM PySM where
  monadLift x := fun S => (x, S)

end PySM

/-- `a and b` / `a or b` whose operands may read the state (`Py.pyAnd` / `Py.pyOr` for `PySM`) -/
def pyAndSC17 (a b : PySM PVal) : PySM PVal := do
  let t ← a
  if truthy t then b else pure t

def pyOrSC17 (a b : PySM PVal) : PySM PVal := do
  let t ← a
  if truthy t then pure t else b

/-- how a call `f(a₁, …)` of a computed callee is carried out (the result is the callee's return value) -/
abbrev CallC17 := PVal → List PVal → PySM PVal

/-! ### references -/

/-- a reference to the heap object `n`, an instance of `cls` -/
def mkRefC17 (cls : String) (n : Nat) : PVal := .obj cls [("__id__", .int n)]

/-- the identity a reference names -/
def refIdC17 : PVal → Option Nat
  | .obj _ [("__id__", .int n)] => if n < 0 then Option.none else some n.toNat
  | _ => Option.none

/-- `self.name` where `self` is a reference -/
def heapGetAttrC17 (self : PVal) (name : String) : PySM PVal := fun S =>
  match refIdC17 self with
  | some n => (pyGetAttr (S.heap n) name, S)
  | Option.none => (.error .unsupported, S)

/-- `self.name = v` where `self` is a reference -/
def heapSetAttrC17 (self : PVal) (name : String) (v : PVal) : PySM PUnit := fun S =>
  match refIdC17 self with
  | some n =>
    match pySetAttr (S.heap n) name v with
    | .ok o => (.ok ⟨⟩, { S with heap := fun k => if k = n then o else S.heap k })
    | .error e => (.error e, S)
  | Option.none => (.error .unsupported, S)

/-- `self.name` where `name` is a method of the class of `self` (and no instance attribute shadows it): the bound method -/
def mkMethodC17 (self : PVal) (qual : String) : PVal := .obj "method" [("self", self), ("func", .str qual.toList)]

/-- the function object made by a nested `def`: the name of the translation of its body and the values of the variables it
    closes over, in the order of their first occurrence in the body (so that renaming a variable changes nothing) -/
def mkClosureC17 (qual : String) (captured : List PVal) : PVal :=
  .obj "closure" [("fn", .str qual.toList), ("captured", .list captured)]

/-- apply the by-value translation `m` of a self-mutating method to the heap object `self` names and store the new
    object; the call returns `None`.  If `m` raises, the object is as it was (an assumption about the method:
    harness/pytr_c17.py (iii)). -/
def heapUpdateByC17 (self : PVal) (m : PVal → PyM PVal) : PySM PVal := fun S =>
  match refIdC17 self with
  | some n =>
    match m (S.heap n) with
    | .ok o => (.ok .none, { S with heap := fun k => if k = n then o else S.heap k })
    | .error e => (.error e, S)
  | Option.none => (.error .unsupported, S)

/-- the harness's outermost display hook: appends what it is handed to the log and returns `None` -/
def recordC17 (v : PVal) : PySM PVal := fun S => (.ok .none, { S with log := S.log ++ [v] })

/-! ### the `sys` module -/

/-- `sys.<name>` for the one attribute the fragment knows -/
def sysGetC17 (name : String) : PySM PVal := fun S =>
  if name == "displayhook" then (.ok S.displayhook, S) else (.error .unsupported, S)

/-- `sys.<name> = v` -/
def sysSetC17 (name : String) (v : PVal) : PySM PUnit := fun S =>
  if name == "displayhook" then (.ok ⟨⟩, { S with displayhook := v }) else (.error .unsupported, S)

/-! ### values -/

/-- the constant `...` -/
def ellipsisC17 : PVal := .obj "ellipsis" []

/-- `x is None` / `x is ...` for an element of a tuple display of such constants -/
def singletonC17 : PVal → Bool
  | .none => true
  | .obj "ellipsis" [] => true
  | _ => false

/-- `x in (c₁, …)` where every `cᵢ` is `None` or `...`: identity or `==` with one of them.  `None` and `Ellipsis` are equal
    to themselves only; for an instance `x` this assumes that its class does not define an `__eq__` that answers `True` for
    `None` / `Ellipsis` (true of every class of the library and of the default `__eq__`). -/
def pyInConstsC17 (x c : PVal) : PyM PVal :=
  match c with
  | .tuple cs =>
    if cs.all singletonC17 then
      match x with
      | .none => pure (.bool (cs.any isNone))
      | .obj "ellipsis" [] => pure (.bool (cs.any fun k => !isNone k))
      | _ => pure (.bool false)
    else throw .unsupported
  | _ => throw .unsupported

/-- `f(*t)` where `f` takes one required positional parameter and `*args`: the parameter and the rest; TypeError when the
    tuple is empty ("missing 1 required positional argument") -/
def pyStarSplit1C17 : PVal → PyM (PVal × PVal)
  | .tuple (a :: r) => pure (a, .tuple r)
  | .tuple [] => throw .typeError
  | _ => throw .unsupported

/-- values of the fragment's built-in kinds (and `...`) are not callable: `v(…)` raises TypeError -/
def notCallableC17 : PVal → Bool
  | .obj "ellipsis" [] => true
  | .obj _ _ => false
  | _ => true

end HtmlVerif.Py
