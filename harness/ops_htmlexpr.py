"""HTML concatenation expressions evaluated with the real `+`, reflected `+` and `+=`."""
from ops import op
from wire import Toks, p_str, es, err_of
from adapters import HTML


class Obj:
    """an object with a str() and no arithmetic of its own"""

    def __init__(self, s):
        self.s = s

    def __str__(self):
        return self.s


def p_hexpr(t: Toks):
    k = t.next()
    if k == "L":
        kind = t.next()
        return ("L", kind, p_str(t))
    return ("A", p_hexpr(t), p_hexpr(t))


class HTMLa(HTML):
    """subclasses of HTML (a library's own marker types): trusted markup like any HTML"""


class HTMLb(HTML):
    pass


class HTMLa2(HTMLa):
    pass


_SUBS = [HTMLa, HTML, HTMLb, HTMLa2, HTML, HTMLa]


def ev(e, mode, pool=None, ctr=None):
    if e[0] == "L" and mode in ("+sub", "+=sub") and e[1] == "h":
        # the k-th HTML operand is an instance of a subclass of HTML, cycling through siblings, the base class and a
        # sub-subclass: `isinstance(x, HTML)` holds for all of them
        ctr[0] += 1
        return _SUBS[ctr[0] % len(_SUBS)](e[2])
    if e[0] == "L":
        if pool is not None:
            # aliasing mode: operands with the same kind and text are ONE object, as when a fragment is reused
            key = (e[1], e[2])
            if key not in pool:
                pool[key] = {"p": lambda s: s, "h": HTML, "o": Obj}[e[1]](e[2])
            return pool[key]
        return {"p": lambda s: s, "h": HTML, "o": Obj}[e[1]](e[2])
    a = ev(e[1], mode, pool, ctr)
    b = ev(e[2], mode, pool, ctr)
    if mode in ("+=", "+=alias", "+=sub"):
        a += b
        return a
    return a + b


@op("hexpr")
def _hexpr(t: Toks) -> str:
    mode = t.next()
    e = p_hexpr(t)
    pool = {} if mode == "+=alias" else None
    v = ev(e, mode, pool, [0])
    if pool is not None:
        # `x += y` must build a new value: every operand object still has to be what it was
        for (kind, text), obj in pool.items():
            now = obj.as_string() if isinstance(obj, HTML) else str(obj)
            if now != text:
                return "err mutated-operand"
    if isinstance(v, HTML):
        return "ok h " + es(v.as_string())
    if isinstance(v, str):
        return "ok p " + es(v)
    return "ok o " + es(str(v))
