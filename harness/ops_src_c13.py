"""Implementation side of the source tie for C13 (DESIGN §14): the real `HTMLTextDocument._static_extract_serialized_html_deps`,
`_extract_serialized_html_deps`, `__init__`, `render` and `HTMLDependency.serialize_to_script_json`, called on the realised
values, for the op

  srcc13 [ (<raw> <T|F> <rank> <str(Version)>)… ] <function> [ <pval>… ]

(the table is what the *Lean* side needs in place of `packaging`; here it only supplies the rank under which a freshly
parsed Version is reported back), and `srcc13p <primitive> [ <pval>… ]`-free checks of the primitives through ordinary
`src` lines (`prim_*` functions below).

Objects are realised field by field on an instance made by `object.__new__` (no constructor runs), and reported back as
their `__dict__` in assignment order."""
from __future__ import annotations

import ops_src
from ops import op
from wire import Toks, es, ds

#: str(Version) -> rank, for the line being evaluated
_RANKS: dict = {}
_RV = None


def _rv():
    global _RV
    if _RV is None:
        from packaging.version import Version

        class RankedVersion(Version):       # `Version` has __slots__; a subclass instance can carry the rank
            pass

        _RV = RankedVersion
    return _RV


def _mk_version(f):
    v = _rv()(f["text"])
    v._srctie_rank = f.get("rank")
    return v


def _mk(cls_name):
    def make(fields):
        import htmltools
        cls = getattr(htmltools, cls_name)
        obj = object.__new__(cls)
        obj.__dict__.update(fields)
        return obj
    return make


def _mk_taglist(fields):
    import htmltools
    tl = htmltools.TagList()
    tl.data = list(fields["data"])
    return tl


def _mk_tag(fields):
    import htmltools
    tg = htmltools.Tag(fields["name"], _add_ws=fields["add_ws"])
    dict.update(tg.attrs, fields["attrs"])
    tg.children = fields["children"]
    return tg


ops_src.REALIZE["Version"] = _mk_version
ops_src.REALIZE["HTMLTextDocument"] = _mk("HTMLTextDocument")


def _mk_dep(fields):
    """the record `as_html_tags` (what the Lean side uses in place of the untranslated method) must not shadow the method:
    it is kept under another attribute name and reported back under its own"""
    import htmltools
    obj = object.__new__(htmltools.HTMLDependency)
    for k, v in fields.items():
        obj.__dict__["_srctie_as_html_tags" if k == "as_html_tags" else k] = v
    return obj


ops_src.REALIZE["HTMLDependency"] = _mk_dep
ops_src.REALIZE["TagList"] = _mk_taglist
ops_src.REALIZE["Tag"] = _mk_tag


def _encode(v, enc):
    import htmltools
    from packaging.version import Version
    if isinstance(v, Version):
        r = getattr(v, "_srctie_rank", None)
        if r is None:
            r = _RANKS.get(str(v))
        return "O Version [ rank " + ("N" if r is None else f"I {r}") + " text S " + es(str(v)) + " ]"
    if isinstance(v, (htmltools.HTMLDependency, htmltools.HTMLTextDocument)):
        return "O " + type(v).__name__ + " [ " + "".join(
            ("as_html_tags" if k == "_srctie_as_html_tags" else k) + " " + enc(x) + " " for k, x in vars(v).items()) + "]"
    if type(v) is htmltools.TagList:
        return "O TagList [ data " + enc(list(v.data)) + " ]"
    if type(v) is htmltools.Tag:
        return f"O Tag [ name {enc(v.name)} attrs {enc(dict(v.attrs))} children {enc(v.children)} add_ws {enc(v.add_ws)} ]"
    return None


ops_src.ENCODE.append(_encode)


def _doc():
    import htmltools
    return htmltools.HTMLTextDocument


def _extract(a):
    obj = a[0]
    r = _doc()._extract_serialized_html_deps(obj)
    assert r is None
    return obj


def _init(a):
    obj = a[0]
    if hasattr(obj, "__dict__"):
        obj.__dict__.clear()
    r = _doc().__init__(obj, a[1], a[2], a[3])
    assert r is None
    return obj


ops_src.CALLS["HTMLTextDocument_static_extract"] = lambda a: _doc()._static_extract_serialized_html_deps(a[0])
ops_src.CALLS["HTMLTextDocument_extract"] = _extract
ops_src.CALLS["HTMLTextDocument_init"] = _init
ops_src.CALLS["TagList_render"] = lambda a: a[0].render()
ops_src.CALLS["HTMLDependency_serialize"] = lambda a: type(a[0]).serialize_to_script_json(a[0], a[1])
ops_src.CALLS["HTMLTextDocument_render"] = lambda a: _doc().render(a[0], lib_prefix=a[1], include_version=a[2])


def _prim_call_kw(a):
    def f(a, b, *, c=None, d=False):      # noqa: ANN001
        return [a, b, c, d]
    return f(**a[0])


def _prim_mk_tag(a):
    import htmltools
    return htmltools.Tag(a[0], *a[1], **a[2])


def _pattern():
    import ops_json
    return ops_json.pattern()


def _re():
    import re
    return re


def _json():
    import json
    return json


ops_src.CALLS["prim_replace_first"] = lambda a: a[0].replace(a[1], a[2], 1)
ops_src.CALLS["prim_findall"] = lambda a: _re().findall(_pattern(), a[0])
ops_src.CALLS["prim_sub"] = lambda a: _re().sub(_pattern(), "", a[0])
ops_src.CALLS["prim_json_loads"] = lambda a: _json().loads(a[0])
ops_src.CALLS["prim_json_dumps"] = lambda a: _json().dumps(a[0], indent=a[1])
ops_src.CALLS["prim_str"] = lambda a: str(a[0])
ops_src.CALLS["prim_mk_tag"] = _prim_mk_tag
ops_src.CALLS["prim_call_kw"] = _prim_call_kw


@op("srcc13")
def _srcc13(t: Toks) -> str:
    global _RANKS
    ops_src._load_plugins()      # (re-executes this module once per process: before the table is stored, not after)
    assert t.next() == "["
    ranks = {}
    while t.peek() != "]":
        t.next()                      # raw
        ok = t.next() == "T"
        r = int(t.next())
        text = ds(t.next())
        if ok:
            ranks[text] = r
    t.next()
    _RANKS = ranks
    try:
        return ops_src._src(t)
    finally:
        _RANKS = {}
