"""C19 — Every tag function creates its own element with the documented default."""
from __future__ import annotations

import inspect

import core
import gen
import ops
from adapters import realize, canon, Tag, HTML
from wire import es

PID = "C19"
MANIFEST = dict(
    text="Lean theorems (decide +kernel, no axioms) over tables regenerated from the AST of tags.py/svg.py/__init__.py/"
         "generate_tags.py on every run: every wrapper has the canonical forwarding shape, its literal equals its name, its default "
         "flag is the negation of membership in the project's inline list, names are distinct, the 17 shortcuts are re-exported; "
         "C19_call derives the call behaviour (default / explicit / non-bool _add_ws). Every exported function is also called for real.",
    design="DESIGN.md §6 C19",
    note="Python call semantics of *args/**kwargs forwarding is trusted; the translator is the tie and is cross-checked against the imported modules.",
    technique="Lean 4 kernel decision (decide +kernel) over source-regenerated tables + exhaustive calls of all wrappers",
)
PROP_FILES = ["HtmlVerif/Props/C19.lean"]


def exported_functions(mod):
    out = []
    for name, f in vars(mod).items():
        if inspect.isfunction(f) and not name.startswith("_") and f.__module__ == mod.__name__:
            out.append((name, f))
    return out


def rand_args(rng):
    """arbitrary argument list: children, attribute dicts, keyword attributes"""
    args = []
    for _ in range(rng.randint(0, 4)):
        r = rng.random()
        if r < 0.3:
            args.append({rng.choice(["id", "class_", "data_x", "x__", "a_b"]): rng.choice(["v", HTML("<h>"), True, 3, None, 'q"'])})
        elif r < 0.5:
            args.append([rng.choice(["n", None, 2.5]), realize(gen.rand_node(rng, 1))])
        else:
            args.append(realize(gen.rand_node(rng, 2)))
    kw = {}
    for _ in range(rng.randint(0, 4)):
        kw[rng.choice(["class_", "id", "style", "data_y", "for_", "x", "href", "src", "alt", "type", "name", "value", "title", "lang", "rel",
                       "target", "width", "height", "role", "action", "method", "content", "charset"])] = rng.choice(["k", HTML("&"), False, True, 7, "a b"])
    return args, kw


def run(tier: str) -> int:
    import htmltools
    ck = core.Check(PID, tier, PROP_FILES)
    ck.prepare()
    rng = ck.rng
    info = ck.proof.translate_info
    inline = set(info.get("inline", []))
    ck.rule = ("one case per (module, exported function, _add_ws argument kind) plus random argument lists; every exported "
               "function of tags/svg and every top-level shortcut is enumerated (exhaustive); distinct by (function, arguments)")
    lines = []
    mods = {"tags": htmltools.tags, "svg": htmltools.svg}
    n_fn = 0
    rows = {(r["mod"], r["fn"]) for r in info.get("html_rows", []) + info.get("svg_rows", [])}
    for mname, mod in mods.items():
        fns = exported_functions(mod)
        # functions present at run time but absent from the regenerated table, and vice versa
        names = {n for n, _ in fns} | {fn for (m, fn) in rows if m == mname}
        for name in sorted(names):
            n_fn += 1
            for w in "NTFO":
                lines.append(f"tagfn {es(mname)} {es(name)} {w}")
    tops = sorted(set(info.get("reexports", [])) | {n for n in getattr(htmltools.tags, "__all__", ())})
    for name in tops:
        lines.append(f"reexport {es(name)}")
    impl = [ops.run_line(l) for l in lines]
    for l, im in zip(lines, impl):
        ck.add(l, im, nontrivial=True, tag=l.split(" ", 1)[0])
    ck.exhaustive_scopes.append({"scope": "every exported function of htmltools.tags and htmltools.svg x {_add_ws omitted, True, False, non-bool}; every top-level shortcut",
                                 "functions": n_fn, "shortcuts": len(tops), "exhaustive": True})
    ck.correspond(holds=False)
    # the statement itself, evaluated on the implementation for every function
    reps = 8 if tier == "quick" else 60
    targets = [(m, n, f) for m, mod in mods.items() for n, f in exported_functions(mod)]
    targets += [("top", n, getattr(htmltools, n)) for n in tops if hasattr(htmltools, n)]
    for mname, name, f in targets:
        line = f"tagfn {es(mname)} {es(name)} N"
        try:
            t0 = f()
            want_ws = name not in inline
            if not isinstance(t0, Tag) or t0.name != name:
                ck.py_violation(line, repr(t0), f"{mname}.{name}() does not create a <{name}> Tag", py=f"htmltools.{mname}.{name}()")
                continue
            if t0.add_ws is not want_ws:
                ck.py_violation(line, f"add_ws={t0.add_ws}", f"{mname}.{name}() default add_ws={t0.add_ws}, project classifies it as {'inline' if not want_ws else 'block'}",
                                py=f"htmltools.{mname}.{name}().add_ws")
            # "creates its own element": a call never hands out an object another call handed out, even after
            # the earlier result has been modified through the public API (multi-step history)
            t0.add_class("mine")
            t0.append("extra child")
            t0.attrs["data-owner"] = "first"
            t1 = f()
            ck.holds_checked += 1
            if t1 is t0 or canon(t1) != canon(Tag(name, _add_ws=want_ws)) or str(t1) != str(Tag(name, _add_ws=want_ws)):
                ck.py_violation(line, str(t1), f"{mname}.{name}() after modifying an earlier result returns {str(t1)!r} "
                                f"(same object: {t1 is t0}); a fresh <{name}> element is required",
                                py=f"t = htmltools.{mname}.{name}(); t.add_class('mine'); t.append('extra child'); htmltools.{mname}.{name}()")
                continue
            for kwargs in ({"id": "x"}, {"_add_ws": want_ws}):
                a1 = f("c", **kwargs)
                a1.append("more")
                a2 = f("c", **kwargs)
                if a2 is a1 or len(a2.children) != 1:
                    ck.py_violation(line, str(a2), f"{mname}.{name}('c', **{kwargs}) shares state between calls")
                    break
            for b in (True, False):
                if f(_add_ws=b).add_ws is not b:
                    ck.py_violation(line, "", f"{mname}.{name}(_add_ws={b}) not honoured")
            for bad in (1, 0, None, "x", 1.0):
                try:
                    f(_add_ws=bad)
                    ck.py_violation(line, "", f"{mname}.{name}(_add_ws={bad!r}) accepted", py=f"htmltools.{mname}.{name}(_add_ws={bad!r})")
                    break
                except TypeError:
                    pass
            for _ in range(reps):
                args, kw = rand_args(rng)
                ws = rng.choice([None, True, False])
                kws = dict(kw)
                if ws is not None:
                    kws["_add_ws"] = ws
                a = f(*args, **kws)
                b = Tag(name, *args, _add_ws=(want_ws if ws is None else ws), **kw)
                ck.holds_checked += 1
                if canon(a) != canon(b) or str(a) != str(b) or not (a == b):
                    ck.py_violation(line, str(a), f"{mname}.{name}(*args, **kw) differs from Tag({name!r}, *args, **kw): {str(b)!r}",
                                    py=f"args={args!r} kw={kws!r}")
                    break
        except Exception as e:
            ck.py_violation(line, repr(e), f"{mname}.{name}() raised {type(e).__name__}: {e}")
    ck.extra_cov["extra_evaluations"] = ck.holds_checked
    return ck.finish()
