/-
C04 — Trusted markup is emitted verbatim and escaping happens exactly once.
-/
import HtmlVerif.Lemmas.Leaves
import HtmlVerif.Lemmas.Escape
import HtmlVerif.Model.Html
import HtmlVerif.Model.Attrs

namespace HtmlVerif.C04
open HtmlVerif

mutual
  /-- HTML() children, `_repr_html_()` results and text directly under script/style are emitted exactly
      once each, in document order, as verbatim pieces — on every rendering path, in every position -/
  theorem C04_child_verbatim (cfg : Cfg) (n : Node) (i : Nat) (e : Str) :
      (n.pieces cfg i e).filterMap Piece.raw? = n.rawLeaves cfg := by
    cases n with
    | tag name ws attrs kids =>
      have hk := C04_child_verbatim_kids cfg kids (i + 1) e true ws (!cfg.noesc.contains name)
      have hvis := rawLeavesKids_eq_visible cfg kids (!cfg.noesc.contains name)
      simp only [List.contains_eq_mem] at hk
      simp only [Node.pieces, Node.rawLeaves]
      by_cases h0 : kids.visible.isEmpty = true
      · have hnil : kids.visible = [] := by simpa using h0
        rw [hvis, hnil]
        by_cases hv : name ∈ cfg.void <;> simp [h0, hv, List.filterMap_cons]
      · simp only [h0]
        cases h1 : inlineChild? kids.visible with
        | some c =>
          rw [hvis]
          rcases inlineChild?_some h1 with ⟨hc, hvv⟩ | ⟨hc, hvv⟩ <;>
            by_cases hn : name ∈ cfg.noesc <;>
            simp [hvv, hc, hn, Node.rawIn, textP, List.filterMap_cons]
        | none =>
          cases ws <;> simp [hk, List.filterMap_cons]
    | _ => simp [Node.pieces, Node.rawLeaves]
  theorem C04_child_verbatim_kids (cfg : Cfg) (ks : Nodes) (i : Nat) (e : Str) (first prevWs esc : Bool) :
      (ks.piecesKids cfg i e first prevWs esc).filterMap Piece.raw? = ks.rawLeavesKids cfg esc := by
    cases ks with
    | nil => simp [Nodes.piecesKids, Nodes.rawLeavesKids]
    | cons h t =>
      have ht := C04_child_verbatim_kids cfg t
      cases h with
      | tag n w a k =>
        have hh := C04_child_verbatim cfg (.tag n w a k)
        simp only [Nodes.piecesKids, Nodes.rawLeavesKids]
        cases first <;> cases prevWs <;> cases w <;> simp [ht, hh, List.filterMap_cons]
      | text s =>
        simp only [Nodes.piecesKids, Nodes.rawLeavesKids]
        cases first <;> cases prevWs <;> cases esc <;> simp [ht, textP, List.filterMap_cons]
      | _ =>
        simp only [Nodes.piecesKids, Nodes.rawLeavesKids]
        cases first <;> cases prevWs <;> simp [ht, List.filterMap_cons]
end

/-- a verbatim piece realises to its content byte for byte -/
theorem C04_raw_realize (cfg : Cfg) (s : Str) : (Piece.raw s).realize cfg = s := rfl

/-- an HTML() attribute value is written verbatim -/
theorem C04_attr_verbatim (cfg : Cfg) (s : Str) : emitAttrVal cfg (.html s) = s := rfl

/-- text placed directly inside script/style is verbatim on both paths (single-child exit, general loop) -/
theorem C04_rawtext_both_paths (cfg : Cfg) (name : Str) (hn : name ∈ cfg.noesc) (s : Str) :
    inlineText cfg name (s, false) = s ∧
    ∀ (t : Nodes) (i : Nat) (e : Str) (first prevWs : Bool),
      ∃ pre, (Nodes.cons (.text s) t).renderKids cfg i e first prevWs (!cfg.noesc.contains name)
        = pre ++ s ++ t.renderKids cfg i e false false (!cfg.noesc.contains name) := by
  constructor
  · simp [inlineText, hn]
  · intro t i e first prevWs
    exact ⟨(if (!first && prevWs) = true then e else []) ++ (if prevWs = true then indentStr i else []),
      by simp [Nodes.renderKids, hn]⟩

/-! ### concatenation algebra -/

theorem renderLeaf_addVal (cfg : Cfg) (a b v : HVal) (h : addVal cfg a b = .ok v) :
    renderLeaf cfg v = renderLeaf cfg a ++ renderLeaf cfg b := by
  cases a <;> cases b <;> simp [addVal] at h <;> subst h <;>
    simp [renderLeaf, escText, htmlEscapeT_append]

theorem isHtml_addVal (cfg : Cfg) (a b v : HVal) (h : addVal cfg a b = .ok v) :
    v.isHtml = (a.isHtml || b.isHtml) := by
  cases a <;> cases b <;> simp [addVal] at h <;> subst h <;> simp [HVal.isHtml]

/-- any finite expression of `+` / reflected `+` / `+=` over str, HTML and other objects that evaluates:
    the result is HTML() exactly when some operand is, and rendering it as a child equals rendering the
    operands as separate adjacent children — each plain operand escaped exactly once, HTML() operands never -/
theorem C04_concat (cfg : Cfg) (e : HExpr) (v : HVal) (h : e.eval cfg = .ok v) :
    v.isHtml = e.containsHtml ∧ renderLeaf cfg v = e.operands.flatMap (renderLeaf cfg) := by
  induction e generalizing v with
  | lit w =>
    simp [HExpr.eval] at h; subst h
    simp [HExpr.containsHtml, HExpr.operands]
  | add a b iha ihb =>
    simp only [HExpr.eval] at h
    cases ha : a.eval cfg with
    | error _ => simp [ha] at h
    | ok va =>
      cases hb : b.eval cfg with
      | error _ => simp [ha, hb] at h
      | ok vb =>
        simp only [ha, hb] at h
        obtain ⟨ia, ra⟩ := iha va ha
        obtain ⟨ib, rb⟩ := ihb vb hb
        refine ⟨?_, ?_⟩
        · rw [isHtml_addVal cfg va vb v h, ia, ib]; simp [HExpr.containsHtml, HExpr.operands]
        · rw [renderLeaf_addVal cfg va vb v h, ra, rb]; simp [HExpr.operands]

/-- regrouping: two expressions over the same operand sequence render identically -/
theorem C04_concat_regroup (cfg : Cfg) (e₁ e₂ : HExpr) (v₁ v₂ : HVal)
    (h₁ : e₁.eval cfg = .ok v₁) (h₂ : e₂.eval cfg = .ok v₂) (hops : e₁.operands = e₂.operands) :
    renderLeaf cfg v₁ = renderLeaf cfg v₂ ∧ v₁.isHtml = v₂.isHtml := by
  obtain ⟨i1, r1⟩ := C04_concat cfg e₁ v₁ h₁
  obtain ⟨i2, r2⟩ := C04_concat cfg e₂ v₂ h₂
  exact ⟨by rw [r1, r2, hops], by rw [i1, i2]; simp [HExpr.containsHtml, hops]⟩

/-- expressions over str and HTML only (no foreign objects) always evaluate -/
theorem C04_concat_total (cfg : Cfg) (e : HExpr) (h : ∀ o ∈ e.operands, ∀ s, o ≠ .ob s) :
    ∃ v, e.eval cfg = .ok v ∧ ∀ s, v ≠ .ob s := by
  induction e with
  | lit w => exact ⟨w, rfl, h w (by simp [HExpr.operands])⟩
  | add a b iha ihb =>
    obtain ⟨va, ea, na⟩ := iha (fun o ho => h o (by simp [HExpr.operands, ho]))
    obtain ⟨vb, eb, nb⟩ := ihb (fun o ho => h o (by simp [HExpr.operands, ho]))
    simp only [HExpr.eval, ea, eb]
    cases va <;> cases vb <;> simp_all [addVal]

/-- the value, rendered as the child of an ordinary element, is exactly `renderLeaf` -/
theorem C04_leaf_as_child (cfg : Cfg) (s : Str) (i : Nat) (e : Str) :
    (Nodes.cons (.text s) .nil).renderKids cfg i e true false true = renderLeaf cfg (.plain s) ∧
    (Nodes.cons (.html s) .nil).renderKids cfg i e true false true = renderLeaf cfg (.html s) := by
  simp [Nodes.renderKids, renderLeaf]

example : (HExpr.add (.lit (.plain ['&'])) (.add (.lit (.html ['<', 'b', '>'])) (.lit (.plain ['a'])))).containsHtml = true := by
  decide

end HtmlVerif.C04
