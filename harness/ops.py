"""Implementation side of every driver op: parse the same wire line, run the real code,
return the canonical answer string."""
from __future__ import annotations

from adapters import *  # noqa: F401,F403
from adapters import realize, realize_list, realize_attrval, canon, Ranks, Tag
from wire import *  # noqa: F401,F403
from wire import Toks, p_node, p_list, p_str, p_bool, es, ok_str, err_of, enode, enodes

IMPL = {}
UNAVAILABLE: dict[str, str] = {}
ROUTE_UNAVAILABLE = "route-unavailable"


def op(name):
    def deco(f):
        IMPL[name] = f
        return f
    return deco


def run_line(line: str) -> str:
    if line.startswith("after "):
        # process history: every line is evaluated, in order, in this process; the answer is the last one's
        parts = line[6:].split(" ;; ")
        for pre in parts[:-1]:
            try:
                run_line(pre)
            except BaseException as e:  # noqa: BLE001
                if isinstance(e, (KeyboardInterrupt, SystemExit, GeneratorExit)) or type(e).__name__ in ("_TO", "_Timeout"):
                    raise
        return run_line(parts[-1])
    t = Toks(line)
    name = t.next()
    if name not in IMPL and UNAVAILABLE:
        return ROUTE_UNAVAILABLE
    try:
        return IMPL[name](t)
    except Exception as e:  # the real code raised: canonical error kind
        return err_of(e)
    except BaseException as e:  # noqa: BLE001
        if isinstance(e, (KeyboardInterrupt, SystemExit, GeneratorExit)) or type(e).__name__ in ("_TO", "_Timeout"):
            raise
        # a harness self-check failed (e.g. the object built from a term no longer reads back as that term): on an
        # unchanged library that cannot happen, so it is the implementation's doing — an answer no model answer equals
        return "err harness-selfcheck-" + type(e).__name__


@op("escape")
def _escape(t: Toks) -> str:
    import htmltools
    attr = p_bool(t)
    s = p_str(t)
    return es(htmltools.html_escape(s, attr=attr))


@op("render_tag")
def _render_tag(t: Toks) -> str:
    n = p_node(t)
    indent = int(t.next())
    eol = p_str(t)
    obj = realize(n)
    return ok_str(str(obj.get_html_string(indent, eol)))


@op("render_list")
def _render_list(t: Toks) -> str:
    ns = p_list(t, p_node)
    indent = int(t.next())
    eol = p_str(t)
    aw = p_bool(t)
    esc = p_bool(t)
    obj = realize_list(ns)
    if aw and esc:
        # the defaults: the call a user makes (no private keyword)
        return ok_str(str(obj.get_html_string(indent, eol)))
    return ok_str(str(obj.get_html_string(indent, eol, add_ws=aw, _escape_strings=esc)))


def _module(name: str):
    import htmltools
    return {"tags": htmltools.tags, "svg": htmltools.svg, "top": htmltools}[name]


@op("tagfn")
def _tagfn(t: Toks) -> str:
    m = p_str(t)
    f = p_str(t)
    w = t.next()
    fn = getattr(_module(m), f, None)
    if fn is None or not callable(fn):
        return "missing"
    kw = {}
    if w == "T":
        kw["_add_ws"] = True
    elif w == "F":
        kw["_add_ws"] = False
    elif w == "O":
        kw["_add_ws"] = _tagfn.other[hash(f) % len(_tagfn.other)]
    r = fn(**kw)
    return "ok " + es(r.name) + " " + ("T" if r.add_ws is True else "F" if r.add_ws is False else "?")


_tagfn.other = [1, 0, None, "True", "", 1.0, [], ()]


@op("reexport")
def _reexport(t: Toks) -> str:
    import htmltools
    f = p_str(t)
    top = getattr(htmltools, f, None)
    return "T" if (top is not None and top is getattr(htmltools.tags, f, None) and f in htmltools.__all__) else "F"


# per-area op modules register themselves: harness/ops_*.py
def _load_plugins():
    import glob
    import importlib
    import os
    here = os.path.dirname(os.path.abspath(__file__))
    for p in sorted(glob.glob(os.path.join(here, "ops_*.py"))):
        try:
            importlib.import_module(os.path.basename(p)[:-3])
        except (ImportError, AttributeError) as e:
            # a name this plugin reaches for no longer exists in the library (renamed private helper, …): its ops are
            # unavailable — lines that need them are skipped and counted, never judged
            UNAVAILABLE[os.path.basename(p)[:-3]] = f"{type(e).__name__}: {e}"


_load_plugins()
try:
    # the area plug-ins of the `src` op get their own value tables (and their own ops are scoped to them) right away,
    # not on the first `src` line of the process
    import ops_src as _ops_src
    _ops_src._load_plugins()
except Exception:  # noqa: BLE001
    pass


def realize_via(n, mode: str):
    """realise a tag term adding its children through a particular public mutator
    (ctor / append / extend / insert / nested / plus / iadd)"""
    if n[0] != "tag":
        return realize(n)
    kids = [realize_via(c, mode) for c in n[4]]
    if mode == "ctor":
        t = Tag(n[1], *kids, _add_ws=n[2])
    elif mode == "nested":
        t = Tag(n[1], [kids[:1], (tuple(kids[1:]),)], _add_ws=n[2])
    else:
        t = Tag(n[1], _add_ws=n[2])
        if mode == "append":
            for k in kids:
                t.append(k)
        elif mode == "extend":
            t.extend(kids)
        elif mode == "insert":
            for k in reversed(kids):
                t.insert(0, k)
        elif mode == "plus":
            t.children = t.children + kids
        elif mode == "radd":
            t.children = kids + t.children
        else:
            raise ValueError(mode)
    for key, v in n[3]:
        dict.__setitem__(t.attrs, key, realize_attrval(v))
    return t


@op("render_tag_via")
def _render_tag_via(t: Toks) -> str:
    mode = t.next()
    n = p_node(t)
    indent = int(t.next())
    eol = p_str(t)
    obj = realize_via(n, mode)
    return ok_str(str(obj.get_html_string(indent, eol)))
