from ops import op
from wire import Toks, p_node, p_list, eb
from adapters import realize, realize_list


@op("eq")
def _eq(t: Toks) -> str:
    a = realize(p_node(t))
    b = realize(p_node(t))
    return eb(bool(a == b)) + " " + eb(bool(b == a))


@op("eq_list")
def _eq_list(t: Toks) -> str:
    a = realize_list(p_list(t, p_node))
    b = realize_list(p_list(t, p_node))
    return eb(bool(a == b)) + " " + eb(bool(b == a))
