"""Marker substitution (DESIGN §6 C02–C04): layout-independent evaluation of
"every content leaf / attribute value contributes exactly <emission> to the output"."""
from __future__ import annotations

import re

import core
from wire import Toks, p_list, p_str, enode, enodes, es, eb

MO, MC = "\ue000", "\ue001"
MARK_RE = re.compile(MO + r"(\d+)" + MC)


def M(k: int) -> str:
    return f"{MO}{k}{MC}"


def mark_node(n, ctr):
    """same traversal as Holds/Subst.lean: per tag attribute values first, then children"""
    k = n[0]
    if k == "tag":
        attrs = []
        for key, (kind, val) in n[3]:
            attrs.append((key, (kind, M(ctr[0]))))
            ctr[1].append((ctr[0], "a" if kind == "p" else "h", val))
            ctr[0] += 1
        kids = [mark_node(c, ctr) for c in n[4]]
        return ("tag", n[1], n[2], attrs, kids)
    if k in ("text", "html", "robj"):
        m = (k, M(ctr[0]))
        ctr[1].append((ctr[0], k, n[1]))
        ctr[0] += 1
        return m
    if k in ("tobjL", "tobj1") and n[1] is not None:
        m = (k, M(ctr[0]), n[2])
        ctr[1].append((ctr[0], k, n[1]))
        ctr[0] += 1
        return m
    return n


def mark_tree(n):
    ctr = [0, []]
    return mark_node(n, ctr), ctr[1]


def mark_list(ns):
    ctr = [0, []]
    return [mark_node(n, ctr) for n in ns], ctr[1]


def slot_origs(line: str):
    """(id, kind, original content) of every slot of the tree(s) in a render line, in marking order"""
    from wire import p_node
    t = Toks(line)
    opn = t.next()
    if opn == "render_tag_via":
        t.next()
    if opn == "render_list":
        _, slots = mark_list(p_list(t, p_node))
    else:
        _, slots = mark_tree(p_node(t))
    return slots


TEXT_SPECIALS = "&<>"
ATTR_SPECIALS = "&<>\"'\r\n"


def consume_escape(orig: str, out: str, pos: int, specials: str):
    """read `out` from `pos` as an escape of `orig` in the sense of the statement: every special character as SOME
    character reference that decodes to it, every other character unchanged; -> end position or None.
    (Search-side twin of the Lean `validEscape`; the Lean definition stays the arbiter.)"""
    import html as _html
    for c in orig:
        if c in specials:
            if not out.startswith("&", pos):
                return None
            j = out.find(";", pos)
            if j < 0 or j - pos > 12:
                return None
            ref = out[pos:j + 1]
            body = ref[1:-1]
            ok = body in ("amp", "lt", "gt", "quot", "apos") or (body[:1] == "#" and (body[1:].isdigit() or (body[1:2] in "xX" and body[2:] != "" and all(h in "0123456789abcdefABCDEF" for h in body[2:]))))
            if not ok or _html.unescape(ref) != c:
                return None
            pos = j + 1
        else:
            if not out.startswith(c, pos):
                return None
            pos += len(c)
    return pos


def walk_output(marked_out: str, real_out: str, slots, contribs):
    """read the real output along the skeleton of the marked output.
    -> ('ok', None) | ('skeleton', position) | ('slot', (id, kind, orig, position))"""
    parts = MARK_RE.split(marked_out)
    ids = [int(x) for x in parts[1::2]]
    segs = parts[0::2]
    orig = {i: (k, o) for (i, k, o) in slots}
    kind_of = {i: k for (i, k, _) in contribs}
    pos = 0
    if not real_out.startswith(segs[0]):
        return "skeleton", 0
    pos = len(segs[0])
    for n, i in enumerate(ids):
        k = kind_of.get(i)
        o = orig.get(i, (None, ""))[1]
        if k == "t":
            e = consume_escape(o, real_out, pos, TEXT_SPECIALS)
        elif k == "a":
            e = consume_escape(o, real_out, pos, ATTR_SPECIALS)
        else:
            e = pos + len(o) if real_out.startswith(o, pos) else None
        if e is None:
            return "slot", (i, k, o, pos)
        pos = e
        if not real_out.startswith(segs[n + 1], pos):
            return "skeleton", pos
        pos += len(segs[n + 1])
    return ("ok", None) if pos == len(real_out) else ("skeleton", pos)


def parse_contribs(ans: str):
    t = Toks(ans)

    def item(t):
        i = int(t.next())
        kind = t.next()
        return (i, kind, p_str(t))
    return p_list(t, item)


def substitute(marked_out: str, contribs) -> str:
    emit = {i: e for i, _, e in contribs}
    return MARK_RE.sub(lambda m: emit.get(int(m.group(1)), m.group(0)), marked_out)


def check_cases(ck: core.Check, cases, kinds: set[str], prop_desc: str, direct=None):
    """cases: list of ('tag', node, indent, eol) | ('list', nodes, indent, eol, add_ws, esc).
    `kinds`: slot kinds this property is about ('t' escaped text, 'r' verbatim, 'a' plain attr, 'h' HTML attr)."""
    if ck.driver is None:
        return
    real_lines, marked_lines, contrib_lines = [], [], []
    for c in cases:
        if c[0] == "tag":
            _, n, i, e = c
            mn, _ = mark_tree(n)
            real_lines.append(f"render_tag {enode(n)} {i} {es(e)}")
            marked_lines.append(f"render_tag {enode(mn)} {i} {es(e)}")
            contrib_lines.append(f"contribs {enode(n)}")
        elif c[0] == "via":
            _, mode, n, i, e = c
            mn, _ = mark_tree(n)
            real_lines.append(f"render_tag_via {mode} {enode(n)} {i} {es(e)}")
            marked_lines.append(f"render_tag_via {mode} {enode(mn)} {i} {es(e)}")
            contrib_lines.append(f"contribs {enode(n)}")
        else:
            _, ns, i, e, aw, esc = c
            mns, _ = mark_list(ns)
            real_lines.append(f"render_list {enodes(ns)} {i} {es(e)} {eb(aw)} {eb(esc)}")
            marked_lines.append(f"render_list {enodes(mns)} {i} {es(e)} {eb(aw)} {eb(esc)}")
            contrib_lines.append(f"contribs_list {enodes(ns)} {eb(esc)}")
    # process history: a fraction of the cases is evaluated after its twin / after a rendering that raised, in one process
    import gen as _gen
    sent_lines = [_gen.with_history(ck.rng, l) for l in real_lines]
    ck.tagc("after-history", sum(1 for l in sent_lines if l.startswith("after ")))
    real = core.impl_many(sent_lines)
    marked = core.impl_many(marked_lines)
    contribs = ck.driver.run(contrib_lines)
    from wire import ds
    n_slot_fail = [0]
    both_raised: list = []
    for line0, line, r, m, cb in zip(real_lines, sent_lines, real, marked, contribs):
        ck.holds_checked += 1
        if not (r.startswith("ok ") and m.startswith("ok ")):
            if r != m:
                ck.failures.append(core.Failure("correspondence", line=line, impl=r, model=m,
                                                detail="rendering raised for the original or the marked tree only"))
            else:
                # both raised alike: only right if the model raises too (asked below, in one batch)
                both_raised.append((line0, line, r))
            continue
        rs, ms = ds(r[3:]), ds(m[3:])
        cs = parse_contribs(cb)
        mine = [c for c in cs if c[1] in kinds]
        ck.tagc("slots_checked", len(mine))
        exp = substitute(ms, cs)
        if exp == rs:
            continue
        what, info = walk_output(ms, rs, slot_origs(line0), cs)
        if what == "ok":
            # every slot holds a valid escape / the verbatim content, only not the bytes the model writes
            ck.failures.append(core.Failure("correspondence", line=line, impl=r, model="ok " + es(exp),
                                            detail="slots are escaped validly but not as the model writes them"))
            continue
        if what == "slot":
            i, k, o, pos = info
            if k in kinds:
                n_slot_fail[0] += 1
                if n_slot_fail[0] <= 50:      # a handful of witnesses is enough; keep the search fast
                    arb = "F"
                    if k in ("t", "a"):
                        # the Lean definition is the arbiter, on the stretch up to the next piece of skeleton
                        parts = MARK_RE.split(ms)
                        ids_ = [int(x) for x in parts[1::2]]
                        nxt = parts[0::2][ids_.index(i) + 1] if i in ids_ else ""
                        end = rs.find(nxt, pos) if nxt else min(len(rs), pos + 8 * len(o) + 2)
                        cand = rs[pos:end if end >= 0 else len(rs)]
                        arb = ck.driver.run([f"valid_escape {'T' if k == 'a' else 'F'} {es(o)} {es(cand)}"])[0]
                    if arb != "T":
                        ck.py_violation(line, r, f"{prop_desc}: slot {i} (kind {k}, content {o[:80]!r}) is written as {rs[pos:pos + 80]!r}…, which is "
                                        f"neither what the model writes nor any valid rendering of that content", py=f"marked rendering: {ms[:400]!r}")
                        continue
                else:
                    ck.tagc("further_slot_failures_not_expanded")
                    continue
            # a slot of a kind owned by a sibling property (C02/C03/C04): reported by that property's check
            continue
        # no alignment: the layout itself depends on content -> skeleton correspondence broken; try the direct statement
        verdict = direct(line0, rs) if direct else None
        if verdict is False:
            ck.py_violation(line, r, f"{prop_desc}: direct statement fails on the real output", py=f"marked rendering: {ms!r}")
        else:
            ck.failures.append(core.Failure("correspondence", line=line, impl=r, model="ok " + es(exp),
                                            detail="output is not the marked output with contents substituted (layout depends on content)"))
    if both_raised:
        for (line0, line, r), mo in zip(both_raised, ck.driver.run([b[0] for b in both_raised])):
            if mo != r:
                ck.failures.append(core.Failure("correspondence", line=line, impl=r, model=mo,
                                                detail="rendering raised for the original and the marked tree, but not in the model"))


def ds_(tok: str) -> str:
    from wire import ds
    return ds(tok)
